//! C15 — every shipped parameter record loads and yields a physically usable model.
//!
//! The harness touches every JSON file under `<repo>/parameters/{pcsaft,epcsaft,saftvrmie,saftvrqmie,ideal_gas}`
//! with the REAL serde record type of its model and dumps a canonical listing
//! `(file, index, identifiers, numeric leaves as exact f64 bit patterns)` into impl.json.  The python side compares the
//! listing with the listing of `tools/json2coq_c15.py` (which produced the Coq data) number by number.
//! Besides the listing the harness exercises the real loaders (pure look-up by name, binary look-up, group-contribution
//! assembly) so that a broken obligation comes with a concrete failing call, and runs the support search of the
//! partial clause (critical point + saturation curve per pure record).
use feos::epcsaft::{ElectrolytePcSaftBinaryRecord, ElectrolytePcSaftParameters, ElectrolytePcSaftRecord};
use feos::gc_pcsaft::{GcPcSaftEosParameters, GcPcSaftRecord};
use feos::ideal_gas::{Dippr, DipprRecord, Joback, JobackRecord};
use feos::pcsaft::{PcSaft, PcSaftBinaryRecord, PcSaftParameters, PcSaftRecord};
use feos::saftvrmie::{SaftVRMie, SaftVRMieBinaryRecord, SaftVRMieParameters, SaftVRMieRecord};
use feos::saftvrqmie::{SaftVRQMie, SaftVRQMieBinaryRecord, SaftVRQMieParameters, SaftVRQMieRecord};
use feos_core::parameter::{
    BinaryRecord, ChemicalRecord, Identifier, IdentifierOption, Parameter, ParameterHetero, PureRecord, SegmentRecord,
};
use feos_core::{Contributions, EquationOfState, IdealGas, PhaseEquilibrium, ReferenceSystem, Residual, State};
use feos_verif::configs::{self, Rng};
use ndarray::arr1;
use quantity::{Temperature, JOULE, KELVIN, KILO, METER, MOL};
use serde::de::DeserializeOwned;
use serde::{Deserialize, Serialize};
use serde_json::{json, Value};
use std::collections::BTreeMap;
use std::fs::File;
use std::io::BufReader;
use std::panic::{catch_unwind, AssertUnwindSafe};
use std::sync::Arc;

/// the five directories of the property and the record type ("kind") of every file in them.
/// kinds:  pure:<model>  segment:<model>  binary:<model>  binaryseg  chemical  smarts  excluded
const DIRS: [&str; 5] = ["pcsaft", "epcsaft", "saftvrmie", "saftvrqmie", "ideal_gas"];
const KINDS: &[(&str, &str)] = &[
    ("pcsaft/eller2022.json", "pure:pcsaft"),
    ("pcsaft/esper2023.json", "pure:pcsaft"),
    ("pcsaft/gross2001.json", "pure:pcsaft"),
    ("pcsaft/gross2002.json", "pure:pcsaft"),
    ("pcsaft/gross2005_fit.json", "pure:pcsaft"),
    ("pcsaft/gross2005_literature.json", "pure:pcsaft"),
    ("pcsaft/gross2006.json", "pure:pcsaft"),
    ("pcsaft/loetgeringlin2018.json", "pure:pcsaft"),
    ("pcsaft/rehner2020.json", "pure:pcsaft"),
    ("pcsaft/gross2002_binary.json", "binary:pcsaft"),
    ("pcsaft/rehner2023_binary.json", "excluded"),
    ("pcsaft/sauer2014_homo.json", "segment:pcsaft"),
    ("pcsaft/loetgeringlin2015_homo.json", "segment:pcsaft"),
    ("pcsaft/rehner2023_homo.json", "segment:pcsaft"),
    ("pcsaft/sauer2014_hetero.json", "segment:gcpcsaft"),
    ("pcsaft/rehner2023_hetero.json", "segment:gcpcsaft"),
    ("pcsaft/rehner2023_homo_binary.json", "binaryseg"),
    ("pcsaft/rehner2023_hetero_binary.json", "binaryseg"),
    ("pcsaft/gc_substances.json", "chemical"),
    ("pcsaft/sauer2014_smarts.json", "smarts"),
    ("epcsaft/held2014_w_permittivity_added.json", "pure:epcsaft"),
    ("epcsaft/held2014_binary.json", "binary:epcsaft"),
    ("saftvrmie/lafitte2013.json", "pure:saftvrmie"),
    ("saftvrqmie/aasen2019.json", "pure:saftvrqmie"),
    ("saftvrqmie/aasen2019_fh2.json", "pure:saftvrqmie"),
    ("saftvrqmie/hammer2023.json", "pure:saftvrqmie"),
    ("saftvrqmie/aasen2020_binary.json", "binary:saftvrqmie"),
    ("saftvrqmie/aasen2020_binary_fh2.json", "binary:saftvrqmie"),
    ("ideal_gas/joback1987.json", "segment:joback"),
    ("ideal_gas/poling2000.json", "pure:dippr"),
];

/// which pure collections a binary file accompanies: each entry is one collection = union of files
const ACCOMPANIES: &[(&str, &[&[&str]])] = &[
    ("pcsaft/gross2002_binary.json", &[&["pcsaft/gross2001.json", "pcsaft/gross2002.json"]]),
    ("epcsaft/held2014_binary.json", &[&["epcsaft/held2014_w_permittivity_added.json"]]),
    ("saftvrqmie/aasen2020_binary.json", &[&["saftvrqmie/aasen2019.json"], &["saftvrqmie/hammer2023.json"]]),
    ("saftvrqmie/aasen2020_binary_fh2.json", &[&["saftvrqmie/aasen2019_fh2.json"]]),
];
const HOMO_TABLES: [(&str, Option<&str>); 3] = [
    ("pcsaft/sauer2014_homo.json", None),
    ("pcsaft/loetgeringlin2015_homo.json", None),
    ("pcsaft/rehner2023_homo.json", Some("pcsaft/rehner2023_homo_binary.json")),
];
const HETERO_TABLES: [(&str, Option<&str>); 2] =
    [("pcsaft/sauer2014_hetero.json", None), ("pcsaft/rehner2023_hetero.json", Some("pcsaft/rehner2023_hetero_binary.json"))];
const JOBACK_TABLE: &str = "ideal_gas/joback1987.json";
const GC_SUBSTANCES: &str = "pcsaft/gc_substances.json";

/// mirror of `feos_core::python::parameter::fragmentation::SmartsRecord` (that module needs pyo3, which is not
/// available offline); checks/c15.py compares this field list with the struct in /repo on every run.
#[derive(Clone, Serialize, Deserialize)]
pub struct SmartsRecord {
    group: String,
    smarts: String,
    #[serde(skip_serializing_if = "Option::is_none")]
    max: Option<usize>,
}

const ID_OPTIONS: [(&str, IdentifierOption); 6] = [
    ("cas", IdentifierOption::Cas),
    ("name", IdentifierOption::Name),
    ("iupac_name", IdentifierOption::IupacName),
    ("smiles", IdentifierOption::Smiles),
    ("inchi", IdentifierOption::Inchi),
    ("formula", IdentifierOption::Formula),
];

fn path(rel: &str) -> String {
    format!("{}/{}", configs::params(), rel)
}

fn bits(x: f64) -> String {
    format!("{:016x}", x.to_bits())
}

/// numeric leaves of a serialised value: (path, f64 bits); strings are listed separately
fn flatten(v: &Value, prefix: &str, nums: &mut Vec<Value>, strs: &mut Vec<Value>) {
    let join = |k: &str| if prefix.is_empty() { k.to_string() } else { format!("{prefix}.{k}") };
    match v {
        Value::Null => {}
        Value::Bool(b) => strs.push(json!([prefix, b.to_string()])),
        Value::Number(n) => nums.push(json!([prefix, bits(n.as_f64().unwrap_or(f64::NAN))])),
        Value::String(s) => strs.push(json!([prefix, s])),
        Value::Array(a) => {
            for (i, x) in a.iter().enumerate() {
                flatten(x, &join(&i.to_string()), nums, strs)
            }
        }
        Value::Object(o) => {
            for (k, x) in o.iter() {
                flatten(x, &join(k), nums, strs)
            }
        }
    }
}

fn leaves<T: Serialize>(x: &T) -> (Value, Value) {
    let v = serde_json::to_value(x).unwrap_or(Value::Null);
    let mut nums = Vec::new();
    let mut strs = Vec::new();
    flatten(&v, "", &mut nums, &mut strs);
    (Value::Array(nums), Value::Array(strs))
}

fn ident(id: &Identifier) -> Value {
    json!([id.cas, id.name, id.iupac_name, id.smiles, id.inchi, id.formula])
}

/// the three parameters every SAFT-type record has, read from the typed (public) fields
trait Key {
    fn key(&self) -> Option<[f64; 3]>;
}
macro_rules! key_saft {
    ($($t:ty),*) => { $(impl Key for $t { fn key(&self) -> Option<[f64; 3]> { Some([self.m, self.sigma, self.epsilon_k]) } })* };
}
key_saft!(PcSaftRecord, ElectrolytePcSaftRecord, SaftVRMieRecord, SaftVRQMieRecord, GcPcSaftRecord);
impl Key for JobackRecord {
    fn key(&self) -> Option<[f64; 3]> {
        None
    }
}
impl Key for DipprRecord {
    fn key(&self) -> Option<[f64; 3]> {
        None
    }
}

fn read<T: DeserializeOwned>(rel: &str) -> Result<T, String> {
    let f = File::open(path(rel)).map_err(|e| format!("open: {e}"))?;
    serde_json::from_reader(BufReader::new(f)).map_err(|e| format!("parse: {e}"))
}

fn key_json(k: Option<[f64; 3]>) -> Value {
    match k {
        Some(k) => json!([bits(k[0]), bits(k[1]), bits(k[2])]),
        None => Value::Null,
    }
}

/// listing of a pure file + what the real look-up by name returns for every name of the file
fn dump_pure<M: DeserializeOwned + Serialize + Clone + Key>(rel: &str) -> Result<Value, String> {
    let recs: Vec<PureRecord<M>> = read(rel)?;
    let mut out = Vec::new();
    for r in &recs {
        let (nums, strs) = leaves(&r.model_record);
        out.push(json!({"ids": ident(&r.identifier), "mw": bits(r.molarweight), "key": key_json(r.model_record.key()),
                        "nums": nums, "strs": strs}));
    }
    // real loader, for every IdentifierOption: query every distinct identifier of that kind once and see which
    // file record comes back
    let vals: Vec<Value> = recs.iter().map(|r| serde_json::to_value(r).unwrap_or(Value::Null)).collect();
    let mut lookup = serde_json::Map::new();
    for (kname, kopt) in ID_OPTIONS {
        let keys: Vec<Option<String>> = recs.iter().map(|r| r.identifier.as_string(kopt)).collect();
        let mut names: Vec<String> = Vec::new();
        for n in keys.iter().flatten() {
            if !names.contains(n) {
                names.push(n.clone());
            }
        }
        let q: Vec<&str> = names.iter().map(|s| s.as_str()).collect();
        let mut lk = json!({"queried": q.len(), "without_identifier": keys.iter().filter(|k| k.is_none()).count()});
        if q.is_empty() {
            lookup.insert(kname.to_string(), lk);
            continue;
        }
        match PureRecord::<M>::from_json(&q, path(rel), kopt) {
            Ok(found) => {
                let fvals: Vec<Value> = found.iter().map(|r| serde_json::to_value(r).unwrap_or(Value::Null)).collect();
                let mut unreachable = Vec::new();
                for (i, key) in keys.iter().enumerate() {
                    if let Some(n) = key {
                        let k = names.iter().position(|x| x == n).unwrap();
                        if fvals[k] != vals[i] {
                            let j = vals.iter().position(|v| *v == fvals[k]);
                            unreachable.push(json!({"index": i, "identifier": n, "name": recs[i].identifier.name, "returned_index": j,
                                "why": "from_json(identifier) returns a different record of the same file"}));
                        } else if vals.iter().position(|v| *v == vals[i]) != Some(i) {
                            unreachable.push(json!({"index": i, "identifier": n, "name": recs[i].identifier.name,
                                "returned_index": vals.iter().position(|v| *v == vals[i]), "why": "identical copy of an earlier record"}));
                        }
                    }
                }
                lk["returned"] = json!(found.len());
                lk["unreachable"] = json!(unreachable);
            }
            Err(e) => lk["error"] = json!(e.to_string()),
        }
        lookup.insert(kname.to_string(), lk);
    }
    let lookup = Value::Object(lookup);
    Ok(json!({"records": out, "lookup": lookup}))
}

fn dump_segment<M: DeserializeOwned + Serialize + Key>(rel: &str) -> Result<Value, String> {
    let recs: Vec<SegmentRecord<M>> = read(rel)?;
    let mut out = Vec::new();
    for r in &recs {
        let (nums, strs) = leaves(&r.model_record);
        out.push(json!({"id": r.identifier, "mw": bits(r.molarweight), "key": key_json(r.model_record.key()), "nums": nums, "strs": strs}));
    }
    Ok(json!({"records": out}))
}

fn dump_binary<B: DeserializeOwned + Serialize>(rel: &str) -> Result<Value, String> {
    let recs: Vec<BinaryRecord<Identifier, B>> = read(rel)?;
    let mut out = Vec::new();
    for r in &recs {
        let (nums, strs) = leaves(&r.model_record);
        out.push(json!({"id1": ident(&r.id1), "id2": ident(&r.id2), "nums": nums, "strs": strs}));
    }
    Ok(json!({"records": out}))
}

fn dump_binaryseg(rel: &str) -> Result<Value, String> {
    let recs: Vec<BinaryRecord<String, f64>> = read(rel)?;
    let out: Vec<Value> = recs.iter().map(|r| json!({"id1": r.id1, "id2": r.id2, "nums": [["", bits(r.model_record)]], "strs": []})).collect();
    Ok(json!({"records": out}))
}

fn dump_chemical(rel: &str) -> Result<Value, String> {
    // ChemicalRecord::new subtracts 1 from segments.len(): an empty segment list panics inside serde's `from`
    let recs: Vec<ChemicalRecord> = catch_unwind(|| read::<Vec<ChemicalRecord>>(rel)).map_err(|_| "panic while parsing".to_string())??;
    let out: Vec<Value> =
        recs.iter().map(|r| json!({"ids": ident(&r.identifier), "segments": r.segments, "bonds": r.bonds})).collect();
    Ok(json!({"records": out}))
}

fn dump_smarts(rel: &str) -> Result<Value, String> {
    let recs: Vec<SmartsRecord> = read(rel)?;
    let out: Vec<Value> = recs.iter().map(|r| json!({"group": r.group, "smarts": r.smarts, "max": r.max})).collect();
    Ok(json!({"records": out}))
}

fn dump(rel: &str, kind: &str) -> Result<Value, String> {
    match kind {
        "pure:pcsaft" => dump_pure::<PcSaftRecord>(rel),
        "pure:epcsaft" => dump_pure::<ElectrolytePcSaftRecord>(rel),
        "pure:saftvrmie" => dump_pure::<SaftVRMieRecord>(rel),
        "pure:saftvrqmie" => dump_pure::<SaftVRQMieRecord>(rel),
        "pure:dippr" => dump_pure::<DipprRecord>(rel),
        "segment:pcsaft" => dump_segment::<PcSaftRecord>(rel),
        "segment:gcpcsaft" => dump_segment::<GcPcSaftRecord>(rel),
        "segment:joback" => dump_segment::<JobackRecord>(rel),
        "binary:pcsaft" => dump_binary::<PcSaftBinaryRecord>(rel),
        "binary:epcsaft" => dump_binary::<ElectrolytePcSaftBinaryRecord>(rel),
        "binary:saftvrmie" => dump_binary::<SaftVRMieBinaryRecord>(rel),
        "binary:saftvrqmie" => dump_binary::<SaftVRQMieBinaryRecord>(rel),
        "binaryseg" => dump_binaryseg(rel),
        "chemical" => dump_chemical(rel),
        "smarts" => dump_smarts(rel),
        k => Err(format!("no record type for kind {k}")),
    }
}

// ---------------------------------------------------------------------------------------------
// real binary look-up: every record of a binary file must be found again through Parameter::from_multiple_json

fn idents_of<M: DeserializeOwned>(rel: &str) -> Vec<Identifier> {
    read::<Vec<PureRecord<M>>>(rel).map(|v| v.into_iter().map(|r| r.identifier).collect()).unwrap_or_default()
}

/// every record of a binary file, for every IdentifierOption both of its identifiers state, is looked up again through
/// Parameter::from_multiple_json with that option and must come back with its own model record
fn binary_lookup<P: Parameter>(binfile: &str, collections: &[&[&str]]) -> Value
where
    P::Binary: Serialize,
{
    let recs: Vec<BinaryRecord<Identifier, P::Binary>> = match read(binfile) {
        Ok(r) => r,
        Err(e) => return json!({"error": e}),
    };
    let mut out = Vec::new();
    for (ci, coll) in collections.iter().enumerate() {
        let idents: Vec<(String, Vec<Identifier>)> = coll.iter().map(|f| (f.to_string(), idents_of::<P::Pure>(f))).collect();
        for (kname, kopt) in ID_OPTIONS {
            for (i, r) in recs.iter().enumerate() {
                // the substances the record names: the pure records carrying the names of id1 / id2; they are then
                // queried by THEIR identifier of this kind (what a user of IdentifierOption::<kind> would type)
                let by_name = |id: &Identifier| {
                    idents.iter().find_map(|(f, ids)| ids.iter().find(|p| p.name.is_some() && p.name == id.name).map(|p| (f.clone(), p.clone())))
                };
                let (p1, p2) = (by_name(&r.id1), by_name(&r.id2));
                if r.id1.as_string(kopt).is_none() || r.id2.as_string(kopt).is_none() {
                    continue;
                }
                let q1 = p1.as_ref().and_then(|(_, p)| p.as_string(kopt));
                let q2 = p2.as_ref().and_then(|(_, p)| p.as_string(kopt));
                let (n1, n2, f1, f2) = match (q1, q2) {
                    (Some(a), Some(b)) => (a, b, p1.map(|x| x.0), p2.map(|x| x.0)),
                    _ => (r.id1.as_string(kopt).unwrap(), r.id2.as_string(kopt).unwrap(), None, None),
                };
                let expected = serde_json::to_value(&r.model_record).unwrap_or(Value::Null);
                let mut e = json!({"collection": ci, "kind": kname, "index": i, "query1": n1, "query2": n2, "file1": f1, "file2": f2,
                                   "id1": r.id1.as_string(kopt), "id2": r.id2.as_string(kopt), "name1": r.id1.name, "name2": r.id2.name});
                let input: Vec<(Vec<&str>, String)> = match (&f1, &f2) {
                    (Some(f1), Some(f2)) if f1 == f2 => vec![(vec![n1.as_str(), n2.as_str()], path(f1))],
                    (Some(f1), Some(f2)) => vec![(vec![n1.as_str()], path(f1)), (vec![n2.as_str()], path(f2))],
                    // dangling reference: show what the real loader says when asked for this pair
                    _ => vec![(vec![n1.as_str(), n2.as_str()], path(coll[0]))],
                };
                let dangling = f1.is_none() || f2.is_none();
                let res = catch_unwind(AssertUnwindSafe(|| P::from_multiple_json(&input, Some(path(binfile)), kopt)));
                match res {
                    Ok(Ok(p)) => {
                        let got = p.records().1.map(|b| serde_json::to_value(&b[(0, 1)]).unwrap_or(Value::Null)).unwrap_or(Value::Null);
                        e["resolved"] = json!(got == expected && !dangling);
                        if got != expected {
                            e["got"] = got;
                            e["expected"] = expected;
                        }
                    }
                    Ok(Err(err)) => {
                        e["resolved"] = json!(false);
                        e["error"] = json!(err.to_string())
                    }
                    Err(_) => {
                        e["resolved"] = json!(false);
                        e["error"] = json!("panic")
                    }
                }
                if dangling {
                    e["dangling"] = json!(true);
                }
                out.push(e);
            }
        }
    }
    json!({"lookups": out})
}

// ---------------------------------------------------------------------------------------------
// group contribution assembly with the real code

fn gc_assembly() -> Value {
    let chems: Vec<ChemicalRecord> = match catch_unwind(|| read::<Vec<ChemicalRecord>>(GC_SUBSTANCES)) {
        Ok(Ok(c)) => c,
        Ok(Err(e)) => return json!({"error": e}),
        Err(_) => return json!({"error": "panic while parsing gc_substances.json"}),
    };
    let mut out = Vec::new();
    for (table, bin) in HOMO_TABLES {
        let segs: Vec<SegmentRecord<PcSaftRecord>> = match read(table) {
            Ok(s) => s,
            Err(e) => {
                out.push(json!({"table": table, "error": e}));
                continue;
            }
        };
        let binary: Option<Vec<BinaryRecord<String, f64>>> = bin.and_then(|b| read(b).ok());
        let mut rows = Vec::new();
        for (i, c) in chems.iter().enumerate() {
            let r = catch_unwind(AssertUnwindSafe(|| PcSaftParameters::from_segments(vec![c.clone()], segs.clone(), binary.clone())));
            rows.push(match r {
                Ok(Ok(p)) => json!({"index": i, "name": c.identifier.name, "ok": true,
                    "m": bits(p.m[0]), "sigma": bits(p.sigma[0]), "epsilon_k": bits(p.epsilon_k[0]), "mw": bits(p.molarweight[0])}),
                Ok(Err(e)) => json!({"index": i, "name": c.identifier.name, "ok": false, "error": e.to_string()}),
                Err(_) => json!({"index": i, "name": c.identifier.name, "ok": false, "error": "panic"}),
            });
        }
        out.push(json!({"table": table, "kind": "homo", "rows": rows}));
    }
    for (table, bin) in HETERO_TABLES {
        let segs: Vec<SegmentRecord<GcPcSaftRecord>> = match read(table) {
            Ok(s) => s,
            Err(e) => {
                out.push(json!({"table": table, "error": e}));
                continue;
            }
        };
        let binary: Option<Vec<BinaryRecord<String, f64>>> = bin.and_then(|b| read(b).ok());
        let mut rows = Vec::new();
        for (i, c) in chems.iter().enumerate() {
            let r = catch_unwind(AssertUnwindSafe(|| GcPcSaftEosParameters::from_segments(vec![c.clone()], segs.clone(), binary.clone())));
            rows.push(match r {
                Ok(Ok(p)) => json!({"index": i, "name": c.identifier.name, "ok": true,
                    "m": bits(p.m.sum()), "mw": bits(p.molarweight[0]), "nsegments": p.m.len(), "nbonds": p.bonds.len()}),
                Ok(Err(e)) => json!({"index": i, "name": c.identifier.name, "ok": false, "error": e.to_string()}),
                Err(_) => json!({"index": i, "name": c.identifier.name, "ok": false, "error": "panic"}),
            });
        }
        out.push(json!({"table": table, "kind": "hetero", "rows": rows}));
    }
    match read::<Vec<SegmentRecord<JobackRecord>>>(JOBACK_TABLE) {
        Ok(segs) => {
            let mut rows = Vec::new();
            for (i, c) in chems.iter().enumerate() {
                let r = catch_unwind(AssertUnwindSafe(|| Joback::from_segments(vec![c.clone()], segs.clone(), None)));
                rows.push(match r {
                    Ok(Ok(p)) => {
                        let rec = &p.records().0[0];
                        json!({"index": i, "name": c.identifier.name, "ok": true, "mw": bits(rec.molarweight)})
                    }
                    Ok(Err(e)) => json!({"index": i, "name": c.identifier.name, "ok": false, "error": e.to_string()}),
                    Err(_) => json!({"index": i, "name": c.identifier.name, "ok": false, "error": "panic"}),
                });
            }
            out.push(json!({"table": JOBACK_TABLE, "kind": "joback", "rows": rows}));
        }
        Err(e) => out.push(json!({"table": JOBACK_TABLE, "error": e})),
    }
    json!({"tables": out})
}

// ---------------------------------------------------------------------------------------------
// ideal-gas models: every DIPPR record and every gc substance assembled from the Joback table is turned into the
// real model; ln Lambda^3 (the quantity every ideal-gas property derives from), the heat capacity computed directly and
// entropy / enthalpy / heat capacity of an ideal-gas State are evaluated on the temperature grid.

const IG_GRID: [f64; 5] = [200.0, 300.0, 450.0, 700.0, 1000.0];

fn ideal_rows<I: IdealGas + 'static>(model: I, cp_direct: &dyn Fn(&I, f64) -> f64) -> Value {
    let model = Arc::new(model);
    let mut rows = Vec::new();
    for t in IG_GRID {
        let lnl = catch_unwind(AssertUnwindSafe(|| model.ln_lambda3(t)[0])).unwrap_or(f64::NAN);
        let cp = catch_unwind(AssertUnwindSafe(|| cp_direct(&model, t))).unwrap_or(f64::NAN);
        let st = catch_unwind(AssertUnwindSafe(|| {
            let eos = Arc::new(EquationOfState::ideal_gas(model.clone()));
            let v = METER * METER * METER;
            State::new_nvt(&eos, t * KELVIN, v, &(arr1(&[1.0]) * MOL)).ok().map(|s| {
                let u = JOULE / (MOL * KELVIN);
                [
                    s.molar_isobaric_heat_capacity(Contributions::IdealGas).convert_to(u),
                    s.molar_entropy(Contributions::IdealGas).convert_to(u),
                    s.molar_enthalpy(Contributions::IdealGas).convert_to(JOULE / MOL),
                ]
            })
        }))
        .ok()
        .flatten();
        rows.push(json!({"t": t, "ln_lambda3": bits(lnl), "cp": bits(cp),
            "state": st.map(|x| json!([bits(x[0]), bits(x[1]), bits(x[2])]))}));
    }
    Value::Array(rows)
}

fn ideal_models() -> Value {
    let mut out = serde_json::Map::new();
    for (rel, kind) in KINDS {
        if *kind != "pure:dippr" {
            continue;
        }
        let recs: Vec<PureRecord<DipprRecord>> = match read(rel) {
            Ok(r) => r,
            Err(e) => {
                out.insert(rel.to_string(), json!({"error": e}));
                continue;
            }
        };
        let mut rows = Vec::new();
        for (i, r) in recs.iter().enumerate() {
            let row = match Dippr::new_pure(r.clone()) {
                Ok(m) => json!({"index": i, "name": r.identifier.name, "ok": true,
                    "grid": ideal_rows(m, &|m: &Dippr, t: f64| {
                        m.molar_isobaric_heat_capacity(t * KELVIN, &arr1(&[1.0])).map(|c| c.convert_to(JOULE / (KILO * MOL * KELVIN))).unwrap_or(f64::NAN)
                    })}),
                Err(e) => json!({"index": i, "name": r.identifier.name, "ok": false, "error": e.to_string()}),
            };
            rows.push(row);
        }
        out.insert(rel.to_string(), json!({"kind": "dippr", "rows": rows}));
    }
    // Joback: every gc substance from the group table
    let chems = catch_unwind(|| read::<Vec<ChemicalRecord>>(GC_SUBSTANCES)).ok().and_then(|r| r.ok());
    let segs = read::<Vec<SegmentRecord<JobackRecord>>>(JOBACK_TABLE);
    if let (Some(chems), Ok(segs)) = (chems, segs) {
        let mut rows = Vec::new();
        for (i, c) in chems.iter().enumerate() {
            let r = catch_unwind(AssertUnwindSafe(|| Joback::from_segments(vec![c.clone()], segs.clone(), None)));
            rows.push(match r {
                Ok(Ok(m)) => {
                    let rec = m.records().0[0].model_record.clone();
                    json!({"index": i, "name": c.identifier.name, "ok": true,
                        "coefs": [bits(rec.a), bits(rec.b), bits(rec.c), bits(rec.d), bits(rec.e)],
                        "grid": ideal_rows(m, &|m: &Joback, t: f64| {
                            m.molar_isobaric_heat_capacity(t * KELVIN, &arr1(&[1.0])).map(|c| c.convert_to(JOULE / (MOL * KELVIN))).unwrap_or(f64::NAN)
                        })})
                }
                Ok(Err(e)) => json!({"index": i, "name": c.identifier.name, "ok": false, "error": e.to_string()}),
                Err(_) => json!({"index": i, "name": c.identifier.name, "ok": false, "error": "panic"}),
            });
        }
        out.insert(JOBACK_TABLE.to_string(), json!({"kind": "joback", "rows": rows}));
    }
    json!({"grid": IG_GRID, "models": Value::Object(out)})
}

// ---------------------------------------------------------------------------------------------
// support search (partial clause): critical point and saturation curve of each pure record

/// physical (vapour-liquid) critical point: finite, positive temperature, pressure and density
fn physical<E: Residual>(cp: &State<E>) -> bool {
    let tc = cp.temperature.to_reduced();
    let pc = cp.pressure(Contributions::Total).to_reduced();
    let rhoc = cp.density.to_reduced();
    tc.is_finite() && tc > 0.0 && pc.is_finite() && pc > 0.0 && rhoc.is_finite() && rhoc > 0.0
}

/// initial temperatures tried after the default call (the model *has* a critical point if any start finds it)
const T_LADDER: [f64; 12] = [1000.0, 800.0, 650.0, 550.0, 450.0, 400.0, 350.0, 250.0, 150.0, 80.0, 30.0, 10.0];

fn sat_curve<E: Residual>(eos: &Arc<E>, fracs: &[f64]) -> Value {
    let r = catch_unwind(AssertUnwindSafe(|| -> Result<Value, String> {
        let mut default_start = json!("physical");
        let first = State::critical_point(eos, None, None, Default::default());
        let mut cp = None;
        match first {
            Ok(s) if physical(&s) => cp = Some(s),
            Ok(s) => {
                default_start = json!({"unphysical": [s.temperature.to_reduced(), s.pressure(Contributions::Total).to_reduced(), s.density.to_reduced()]})
            }
            Err(e) => default_start = json!({"error": e.to_string()}),
        }
        let mut start = Value::Null;
        if cp.is_none() {
            for t0 in T_LADDER {
                if let Ok(s) = State::critical_point(eos, None, Some(Temperature::from_reduced(t0)), Default::default()) {
                    if physical(&s) {
                        cp = Some(s);
                        start = json!(t0);
                        break;
                    }
                }
            }
        }
        let cp = cp.ok_or_else(|| format!("no physical critical point found (default start: {default_start}; ladder {T_LADDER:?} K)"))?;
        let tc = cp.temperature;
        let pc = cp.pressure(Contributions::Total).to_reduced();
        let rhoc = cp.density.to_reduced();
        let mut pts = Vec::new();
        let mut errs = Vec::new();
        let mut default_fail: Vec<Value> = Vec::new();
        for &f in fracs {
            let t = tc * f;
            let mut vle = PhaseEquilibrium::pure(eos, t, None, Default::default());
            if let Err(e) = &vle {
                // the default initialisation failed: continuation from the nearest fraction that worked (20 steps)
                let e0 = e.to_string();
                let mut cont = None;
                for &g in fracs.iter().filter(|&&g| g != f) {
                    if let Ok(mut cur) = PhaseEquilibrium::pure(eos, tc * g, None, Default::default()) {
                        let mut ok = true;
                        for k in 1..=20 {
                            let tk = tc * (g + (f - g) * k as f64 / 20.0);
                            match PhaseEquilibrium::pure(eos, tk, Some(&cur), Default::default()) {
                                Ok(n) => cur = n,
                                Err(_) => {
                                    ok = false;
                                    break;
                                }
                            }
                        }
                        if ok {
                            cont = Some((g, cur));
                            break;
                        }
                    }
                }
                match cont {
                    Some((g, c)) => {
                        default_fail.push(json!({"fraction": f, "temperature": t.to_reduced(), "error": e0, "continued_from": g}));
                        vle = Ok(c);
                    }
                    None => {}
                }
            }
            match vle {
                Err(e) => errs.push(format!("pure VLE at {f} Tc (T = {} K): {e} (also by continuation)", t.to_reduced())),
                Ok(vle) => {
                    let p = vle.vapor().pressure(Contributions::Total).to_reduced();
                    let rv = vle.vapor().density.to_reduced();
                    let rl = vle.liquid().density.to_reduced();
                    let sv = vle.vapor().residual_molar_entropy().to_reduced();
                    let sl = vle.liquid().residual_molar_entropy().to_reduced();
                    let hv = vle.vapor().residual_molar_enthalpy().to_reduced();
                    let hl = vle.liquid().residual_molar_enthalpy().to_reduced();
                    let all = [p, rv, rl, sv, sl, hv, hl];
                    if !all.iter().all(|x| x.is_finite()) || !(p > 0.0 && rv > 0.0 && rl > rv) || !(p < pc * (1.0 + 1e-9)) {
                        errs.push(format!("saturation state at {f} Tc not finite/ordered: p={p} rho_v={rv} rho_l={rl} s={sv},{sl} h={hv},{hl} pc={pc}"));
                    }
                    pts.push(json!([f, p, rv, rl]));
                }
            }
        }
        let v = json!({"tc": tc.to_reduced(), "pc": pc, "rhoc": rhoc, "points": pts, "default_start": default_start, "start": start, "vle_default_failures": default_fail});
        if errs.is_empty() {
            Ok(v)
        } else {
            Err(format!("{} | Tc={} pc={} rhoc={} default_start={}", errs.join(" ; "), tc.to_reduced(), pc, rhoc, default_start))
        }
    }));
    match r {
        Ok(Ok(v)) => json!({"ok": true, "result": v}),
        Ok(Err(e)) => json!({"ok": false, "error": e}),
        Err(_) => json!({"ok": false, "error": "panic"}),
    }
}

const FRACS: [f64; 5] = [0.45, 0.6, 0.75, 0.9, 0.99];
const FRACS_Q: [f64; 4] = [0.6, 0.75, 0.9, 0.99];
/// thorough tier: denser temperature grid over the range of C04
const FRACS_FULL: [f64; 12] = [0.45, 0.5, 0.55, 0.6, 0.65, 0.7, 0.75, 0.8, 0.85, 0.9, 0.95, 0.99];
const FRACS_Q_FULL: [f64; 9] = [0.6, 0.65, 0.7, 0.75, 0.8, 0.85, 0.9, 0.95, 0.99];

fn support(cli: &feos_verif::cli::Cli) -> Value {
    // all candidate (file, index) pairs of the three model families
    let mut cands: Vec<(String, usize)> = Vec::new();
    for (rel, kind) in KINDS {
        if matches!(*kind, "pure:pcsaft" | "pure:saftvrmie" | "pure:saftvrqmie") {
            let n = match *kind {
                "pure:pcsaft" => read::<Vec<PureRecord<PcSaftRecord>>>(rel).map(|v| v.len()),
                "pure:saftvrmie" => read::<Vec<PureRecord<SaftVRMieRecord>>>(rel).map(|v| v.len()),
                _ => read::<Vec<PureRecord<SaftVRQMieRecord>>>(rel).map(|v| v.len()),
            }
            .unwrap_or(0);
            for i in 0..n {
                cands.push((rel.to_string(), i));
            }
        }
    }
    let total = cands.len();
    let only = cli.opt("--support-only"); // "file:index" for replays
    let chosen: Vec<(String, usize)> = if let Some(o) = only {
        let (f, i) = o.rsplit_once(':').unwrap();
        vec![(f.to_string(), i.parse().unwrap())]
    } else if cli.full() {
        cands
    } else {
        // quick: every SAFT-VR Mie / SAFT-VRQ Mie record (45) + 160 seeded PC-SAFT records
        let mut rng = Rng(cli.seed ^ 0xC15);
        let (mie, pc): (Vec<_>, Vec<_>) = cands.into_iter().partition(|(f, _)| !f.starts_with("pcsaft/"));
        let mut ch: Vec<(String, usize)> = mie;
        let mut pc = pc;
        let target = ch.len() + 160;
        while ch.len() < target && !pc.is_empty() {
            let k = rng.below(pc.len());
            ch.push(pc.swap_remove(k));
        }
        ch.sort();
        ch
    };
    let mut cache: BTreeMap<String, Value> = BTreeMap::new();
    let dense = cli.full() || cli.opt("--dense").is_some();
    let fracs: &[f64] = if dense { &FRACS_FULL } else { &FRACS };
    let fracs_q: &[f64] = if dense { &FRACS_Q_FULL } else { &FRACS_Q };
    let mut rows = Vec::new();
    for (rel, i) in &chosen {
        let kind = KINDS.iter().find(|(f, _)| f == rel).map(|x| x.1).unwrap_or("");
        let _ = &mut cache;
        let row = match kind {
            "pure:pcsaft" => {
                let recs: Vec<PureRecord<PcSaftRecord>> = read(rel).unwrap();
                let name = recs[*i].identifier.name.clone();
                let r = match catch_unwind(AssertUnwindSafe(|| PcSaftParameters::new_pure(recs[*i].clone()))) {
                    Ok(Ok(p)) => sat_curve(&Arc::new(PcSaft::new(Arc::new(p))), fracs),
                    Ok(Err(e)) => json!({"ok": false, "error": format!("parameters: {e}")}),
                    Err(_) => json!({"ok": false, "error": "panic in new_pure"}),
                };
                json!({"file": rel, "index": i, "name": name, "res": r})
            }
            "pure:saftvrmie" => {
                let recs: Vec<PureRecord<SaftVRMieRecord>> = read(rel).unwrap();
                let name = recs[*i].identifier.name.clone();
                let r = match catch_unwind(AssertUnwindSafe(|| SaftVRMieParameters::new_pure(recs[*i].clone()))) {
                    Ok(Ok(p)) => sat_curve(&Arc::new(SaftVRMie::new(Arc::new(p))), fracs),
                    Ok(Err(e)) => json!({"ok": false, "error": format!("parameters: {e}")}),
                    Err(_) => json!({"ok": false, "error": "panic in new_pure"}),
                };
                json!({"file": rel, "index": i, "name": name, "res": r})
            }
            _ => {
                let recs: Vec<PureRecord<SaftVRQMieRecord>> = read(rel).unwrap();
                let name = recs[*i].identifier.name.clone();
                // exclusion stated in property C04: helium with second-order Feynman-Hibbs correction
                if recs[*i].model_record.fh == 2 && name.as_deref().map(|n| n.contains("helium")).unwrap_or(false) {
                    json!({"file": rel, "index": i, "name": name, "res": {"ok": true, "skipped": "helium FH2 (excepted in C04)"}})
                } else {
                    let r = match catch_unwind(AssertUnwindSafe(|| SaftVRQMieParameters::new_pure(recs[*i].clone()))) {
                        Ok(Ok(p)) => sat_curve(&Arc::new(SaftVRQMie::new(Arc::new(p))), fracs_q),
                        Ok(Err(e)) => json!({"ok": false, "error": format!("parameters: {e}")}),
                        Err(_) => json!({"ok": false, "error": "panic in new_pure"}),
                    };
                    json!({"file": rel, "index": i, "name": name, "res": r})
                }
            }
        };
        rows.push(row);
    }
    json!({"candidates": total, "rows": rows, "fractions": fracs, "fractions_saftvrqmie": fracs_q})
}

fn main() {
    let cli = feos_verif::cli::Cli::parse("/verif/coq/gen/C15");
    std::panic::set_hook(Box::new(|_| {}));
    // every *.json of the five directories, classified
    let mut files = Vec::new();
    for d in DIRS {
        let mut names: Vec<String> = std::fs::read_dir(path(d))
            .map(|it| it.filter_map(|e| e.ok()).map(|e| e.file_name().to_string_lossy().to_string()).filter(|n| n.ends_with(".json")).collect())
            .unwrap_or_default();
        names.sort();
        for n in names {
            let rel = format!("{d}/{n}");
            let kind = KINDS.iter().find(|(f, _)| *f == rel).map(|x| x.1).unwrap_or("unknown");
            let bytes = std::fs::metadata(path(&rel)).map(|m| m.len()).unwrap_or(0);
            let mut e = json!({"file": rel, "kind": kind, "bytes": bytes});
            if kind != "excluded" && kind != "unknown" {
                match dump(&rel, kind) {
                    Ok(v) => {
                        e["parsed"] = json!(true);
                        e["data"] = v;
                    }
                    Err(err) => {
                        e["parsed"] = json!(false);
                        e["error"] = json!(err);
                    }
                }
            }
            files.push(e);
        }
    }
    for (f, _) in KINDS {
        if !files.iter().any(|e| e["file"] == *f) {
            files.push(json!({"file": f, "kind": "missing"}));
        }
    }
    let mut binlook = Vec::new();
    for (b, colls) in ACCOMPANIES {
        let kind = KINDS.iter().find(|(f, _)| f == b).map(|x| x.1).unwrap_or("");
        let v = match kind {
            "binary:pcsaft" => binary_lookup::<PcSaftParameters>(b, colls),
            "binary:epcsaft" => binary_lookup::<ElectrolytePcSaftParameters>(b, colls),
            "binary:saftvrqmie" => binary_lookup::<SaftVRQMieParameters>(b, colls),
            _ => json!({"error": "no loader"}),
        };
        let colls_json: Vec<Vec<&str>> = colls.iter().map(|c| c.to_vec()).collect();
        binlook.push(json!({"file": b, "collections": colls_json, "result": v}));
    }
    let gc = gc_assembly();
    let ideal = ideal_models();
    let sup = if cli.opt("--no-support").is_some() { Value::Null } else { support(&cli) };
    cli.write_impl(&json!({"params_dir": configs::params(), "files": files, "binary_lookup": binlook, "gc": gc, "ideal": ideal, "support": sup}));
}
