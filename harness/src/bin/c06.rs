//! C06 — critical points and spinodals satisfy their defining conditions.  Runs the REAL implementation and writes
//!  * obj_pure_*.v : `interval` goals: the hooked private `critical_point_objective` / `spinodal_objective` (one component)
//!                   vs. the formulas of coq/theories/CritC06.v fed with `dp_dv`, `d2p_dv2` of the public State API;
//!  * obj_bin_*.v  : `interval` goals: the hooked `critical_point_objective{,_t,_p}` / `spinodal_objective` (two components)
//!                   vs. the 2x2 eigenpair model `crit_obj` fed with `dmu_dni` (State API), the third-derivative tensor
//!                   (public generic `Residual::residual_helmholtz_energy` over `Dual3`) and `pressure`;
//!  * pr_*.v       : `interval` goals: critical point computed for random Peng-Robinson triples vs. the closed form of
//!                   coq/theories/PengRobinsonC06.v;
//!  * impl.json    : all of the above plus the support search: the defining conditions recomputed with independent
//!                   public-API calls at every critical point / spinodal the real solvers return.
use feos::pcsaft::{PcSaft, PcSaftParameters, PcSaftRecord};
use feos::saftvrmie::{SaftVRMie, SaftVRMieParameters, SaftVRMieRecord};
use feos::ResidualModel;
use feos_core::cubic::{PengRobinson, PengRobinsonParameters, PengRobinsonRecord};
use feos_core::parameter::{Identifier, Parameter, PureRecord};
use feos_core::{Components, Contributions, PhaseDiagram, PhaseEquilibrium, ReferenceSystem, Residual, SolverOptions, State, StateHD};
use feos_verif::configs::{self, Rng};
use feos_verif::prog::dyadic;
use ndarray::{arr1, Array1};
use num_dual::Dual3;
use quantity::{Moles, Pressure, Temperature, Volume};
use serde_json::{json, Value};
use std::fs::File;
use std::io::BufReader;
use std::panic::{catch_unwind, AssertUnwindSafe};
use std::sync::Arc;

type Eos = Arc<ResidualModel>;

/// relative tolerance of the objective correspondence (two independent AD evaluations of the same real function)
const OBJ_RTOL: f64 = 1e-7;
/// |q| (scaled smallest eigenvalue) and |c| (scaled third directional derivative) at a returned critical point / spinodal
const COND_TOL: f64 = 1e-6;
/// relative deviation of the pressure of a (p)-specified binary critical point
const PSPEC_RTOL: f64 = 1e-6;
/// Peng-Robinson: relative deviation of (T, p) from (Tc, pc)
const PR_RTOL: f64 = 1e-4;
/// grid of initial temperatures (fractions of the true critical temperature) of the support search: 0.5, 0.6, .. 1.6
const T0_GRID: [f64; 12] = [0.5, 0.6, 0.7, 0.8, 0.9, 1.0, 1.1, 1.2, 1.3, 1.4, 1.5, 1.6];
/// initial temperatures tried to locate the physical critical point that serves as "the true value"
const T_LADDER: [f64; 13] = [1000.0, 800.0, 650.0, 550.0, 450.0, 400.0, 350.0, 250.0, 150.0, 80.0, 30.0, 10.0, 5.0];

fn dy(x: f64) -> String {
    format!("(dy_R {}%Z)", dyadic(x))
}

fn header() -> String {
    "From Coq Require Import Reals ZArith.\nFrom Interval Require Import Tactic.\nFrom FeosVerif Require Import ProgSem CritC06 PengRobinsonC06.\nOpen Scope R_scope.\n".to_string()
}

fn state(eos: &Eos, t: f64, v: f64, n: &[f64]) -> Option<State<ResidualModel>> {
    State::new_nvt(eos, Temperature::from_reduced(t), Volume::from_reduced(v), &Moles::from_reduced(arr1(n))).ok()
}

/// third derivative of beta A^res along `dir` in mole-number space (public generic API, Dual3)
fn d3_dir(eos: &Eos, t: f64, v: f64, n: &[f64], dir: &[f64]) -> f64 {
    let m = Array1::from_shape_fn(n.len(), |i| Dual3::new(n[i], dir[i], 0.0, 0.0));
    let s = StateHD::new(Dual3::from_re(t), Dual3::from_re(v), m);
    eos.residual_helmholtz_energy(&s).v3
}

/// (H11, H12, H22, T111, T112, T122, T222) of beta A^res at (t, v, n) for two components
fn jet2(eos: &Eos, t: f64, v: f64, n: &[f64]) -> Option<[f64; 7]> {
    let s = state(eos, t, v, n)?;
    let h = s.dmu_dni(Contributions::Residual).to_reduced() / t;
    let d10 = d3_dir(eos, t, v, n, &[1.0, 0.0]);
    let d01 = d3_dir(eos, t, v, n, &[0.0, 1.0]);
    let d11 = d3_dir(eos, t, v, n, &[1.0, 1.0]);
    let d1m = d3_dir(eos, t, v, n, &[1.0, -1.0]);
    let r = [
        h[[0, 0]],
        0.5 * (h[[0, 1]] + h[[1, 0]]),
        h[[1, 1]],
        d10,
        (d11 - d1m - 2.0 * d01) / 6.0,
        (d11 + d1m - 2.0 * d10) / 6.0,
        d01,
    ];
    if r.iter().all(|x| x.is_finite()) {
        Some(r)
    } else {
        None
    }
}

/// f64 evaluation of the two scale-free criticality conditions of a binary state:
/// (smallest eigenvalue of Q, sqrt(N1+N2) * third directional derivative along its eigenvector)
fn cond2(eos: &Eos, t: f64, v: f64, n: &[f64]) -> Option<(f64, f64)> {
    let j = jet2(eos, t, v, n)?;
    let (a, b, c) = (j[0] * n[0] + 1.0, j[1] * (n[0] * n[1]).sqrt(), j[2] * n[1] + 1.0);
    let m = 0.5 * (a + c);
    let d = 0.5 * (a - c);
    let l = m - d.hypot(b);
    // eigenvector of the smallest eigenvalue: (b, l - a) or (l - c, b), whichever is longer
    let (e1, e2) = ((b, l - a), (l - c, b));
    let (u1, u2) = if e1.0.hypot(e1.1) >= e2.0.hypot(e2.1) { e1 } else { e2 };
    let nn = u1.hypot(u2);
    let (u1, u2) = if nn > 0.0 { (u1 / nn, u2 / nn) } else if a <= c { (1.0, 0.0) } else { (0.0, 1.0) };
    let (w1, w2) = (u1 * n[0].sqrt(), u2 * n[1].sqrt());
    let cub = j[3] * w1 * w1 * w1 + 3.0 * j[4] * w1 * w1 * w2 + 3.0 * j[5] * w1 * w2 * w2 + j[6] * w2 * w2 * w2;
    let c3 = cub - (w1 * w1 * w1 / (n[0] * n[0]) + w2 * w2 * w2 / (n[1] * n[1]));
    Some((l, c3.abs() * (n[0] + n[1]).sqrt()))
}

/// scale-free criticality conditions of a pure state through dp_dv and d2p_dv2 of the State API:
/// q = rho f'' = -dp_dv V/(rho T),  c = rho^2 f''' = d2p_dv2 V^2/(rho T) - 3 q     (f = beta A / V)
fn cond1(s: &State<ResidualModel>) -> (f64, f64) {
    let t = s.temperature.to_reduced();
    let v = s.volume.to_reduced();
    let rho = s.density.to_reduced();
    let q = -s.dp_dv(Contributions::Total).to_reduced() * v / (rho * t);
    let c = s.d2p_dv2(Contributions::Total).to_reduced() * v * v / (rho * t) - 3.0 * q;
    (q, c)
}

struct Goals {
    text: String,
    lines: usize,
    meta: Vec<Value>,
}

impl Goals {
    fn new() -> Self {
        let h = header();
        Goals { lines: h.matches('\n').count(), text: h, meta: vec![] }
    }
    fn push(&mut self, stmt: &str, tactic: &str, meta: Value) {
        let g = format!("Goal {stmt}.\nProof. {tactic}. Qed.\n");
        let start = self.lines + 1;
        self.lines += g.matches('\n').count();
        self.text.push_str(&g);
        let mut m = meta;
        m["line_from"] = json!(start);
        m["line_to"] = json!(self.lines);
        self.meta.push(m);
    }
}

// ------------------------------------------------------------------------------------------------
// A. objective correspondence

fn pure_obj_goals(name: &str, eos: &Eos, t_scale: f64, k: usize, rng: &mut Rng, g: &mut Goals) {
    let mut done = 0;
    let mut tries = 0;
    while done < k && tries < 20 * k {
        tries += 1;
        let t = t_scale * rng.range(0.5, 1.6);
        let n = rng.log_range(0.5, 50.0);
        let rho_max = eos.compute_max_density(&arr1(&[n]));
        let rho = rho_max * rng.range(0.02, 0.75);
        let v = n / rho;
        let moles = arr1(&[n]);
        let obj = State::verif_critical_point_objective(eos, t, rho, &moles);
        let spin = State::verif_spinodal_objective(eos, t, rho, &moles);
        let (Ok(obj), Ok(spin), Some(s)) = (obj, spin, state(eos, t, v, &[n])) else { continue };
        let dpdv = s.dp_dv(Contributions::Total).to_reduced();
        let d2p = s.d2p_dv2(Contributions::Total).to_reduced();
        if ![obj[0], obj[1], spin, dpdv, d2p].iter().all(|x| x.is_finite()) {
            continue;
        }
        let (q, c) = cond1(&s);
        let tol_q = OBJ_RTOL * (1.0 + q.abs());
        let tol_c = OBJ_RTOL * (1.0 + 3.0 * q.abs() + c.abs()) / n.sqrt();
        let meta = |which: &str, val: f64, tol: f64| {
            json!({"config": name, "kind": "pure", "component": which, "T": t, "rho": rho, "N": n, "V": v, "impl": val,
                   "dp_dv": dpdv, "d2p_dv2": d2p, "tol": tol, "expected_f64": if which == "c3" { c / n.sqrt() } else { q }})
        };
        g.push(
            &format!("Rabs (q11_of_dpdv {} {} {} {} - {}) <= {:e}", dy(t), dy(v), dy(n), dy(dpdv), dy(obj[0]), tol_q),
            "pure_interval",
            meta("q11", obj[0], tol_q),
        );
        g.push(
            &format!(
                "Rabs (c3_of_d2pdv2 {} {} {} {} {} - {}) <= {:e}",
                dy(t), dy(v), dy(n), dy(dpdv), dy(d2p), dy(obj[1]), tol_c
            ),
            "pure_interval",
            meta("c3", obj[1], tol_c),
        );
        g.push(
            &format!("Rabs (q11_of_dpdv {} {} {} {} - {}) <= {:e}", dy(t), dy(v), dy(n), dy(dpdv), dy(spin), tol_q),
            "pure_interval",
            meta("spinodal", spin, tol_q),
        );
        done += 1;
    }
}

fn jet_lit(j: &[f64; 7]) -> String {
    format!(
        "{{| H11 := {}; H12 := {}; H22 := {}; T111 := {}; T112 := {}; T122 := {}; T222 := {} |}}",
        dy(j[0]), dy(j[1]), dy(j[2]), dy(j[3]), dy(j[4]), dy(j[5]), dy(j[6])
    )
}

fn bin_obj_goals(name: &str, eos: &Eos, t_scale: f64, k: usize, rng: &mut Rng, g: &mut Goals) {
    let mut done = 0;
    let mut tries = 0;
    while done < k && tries < 20 * k {
        tries += 1;
        let t = t_scale * rng.range(0.6, 1.4);
        let x = rng.range(0.1, 0.9);
        let rho_max = eos.compute_max_density(&arr1(&[x, 1.0 - x]));
        let rho = rho_max * rng.range(0.05, 0.7);
        let r = [x * rho, (1.0 - x) * rho];
        // --- (T)- and (p)-variants: partial densities at V = 1
        let Some(j) = jet2(eos, t, 1.0, &r) else { continue };
        let Some(s) = state(eos, t, 1.0, &r) else { continue };
        let p = s.pressure(Contributions::Total).to_reduced();
        let pspec = p * rng.range(0.5, 1.5) + rng.range(-0.01, 0.01);
        let (Ok(ot), Ok(op)) = (
            State::verif_critical_point_objective_t(eos, t, r),
            State::verif_critical_point_objective_p(eos, pspec, t, r),
        ) else {
            continue;
        };
        // --- mole-number variant (critical_point with given moles) and spinodal objective at V = N/rho
        let ntot = rng.log_range(0.5, 50.0);
        let nn = [x * ntot, (1.0 - x) * ntot];
        let vv = ntot / rho;
        let Some(jn) = jet2(eos, t, vv, &nn) else { continue };
        let moles = arr1(&nn);
        let (Ok(on), Ok(sp)) = (
            State::verif_critical_point_objective(eos, t, rho, &moles),
            State::verif_spinodal_objective(eos, t, rho, &moles),
        ) else {
            continue;
        };
        if ![ot[0], ot[1], op[0], op[1], op[2], on[0], on[1], sp, p].iter().all(|x| x.is_finite()) {
            continue;
        }
        let Some((l, _)) = cond2(eos, t, 1.0, &r) else { continue };
        let scale3 = |j: &[f64; 7], n: &[f64; 2]| {
            // magnitude of the terms of the cubic form (tolerance scale of the third derivative)
            let (w1, w2) = (n[0].sqrt(), n[1].sqrt());
            j[3].abs() * w1 * w1 * w1 + 3.0 * j[4].abs() * w1 * w1 * w2 + 3.0 * j[5].abs() * w1 * w2 * w2
                + j[6].abs() * w2 * w2 * w2 + 1.0 / w1 + 1.0 / w2
        };
        let tol_l = OBJ_RTOL * (1.0 + l.abs() + (j[0] * r[0]).abs() + (j[2] * r[1]).abs());
        let tol_ct = OBJ_RTOL * scale3(&j, &r);
        let tol_cn = OBJ_RTOL * scale3(&jn, &nn);
        let tol_p = OBJ_RTOL * (1.0 + p.abs() + pspec.abs() + t * rho);
        let base = json!({"config": name, "kind": "binary", "T": t, "rho": r, "jet_V1": j.to_vec(), "p": p, "pspec": pspec,
                          "N": nn, "V": vv, "jet_N": jn.to_vec()});
        let meta = |variant: &str, imp: &[f64], tols: &[f64]| {
            let mut m = base.clone();
            m["variant"] = json!(variant);
            m["impl"] = json!(imp);
            m["tol"] = json!(tols);
            m
        };
        g.push(
            &format!(
                "let r := crit_obj_t {} {} {} in Rabs (fst r - {}) <= {:e} /\\ Rabs (snd r - {}) <= {:e}",
                dy(r[0]), dy(r[1]), jet_lit(&j), dy(ot[0]), tol_l, dy(ot[1]), tol_ct
            ),
            "crit_interval",
            meta("T", &ot, &[tol_l, tol_ct]),
        );
        g.push(
            &format!(
                "let r := crit_obj_p {} {} {} {} {} {} in Rabs (fst (fst r) - {}) <= {:e} /\\ Rabs (snd (fst r) - {}) <= {:e} /\\ Rabs (snd r - {}) <= {:e}",
                dy(pspec), dy(t), dy(r[0]), dy(r[1]), jet_lit(&j), dy(-s.pressure(Contributions::Residual).to_reduced() / t),
                dy(op[0]), tol_l, dy(op[1]), tol_ct, dy(op[2]), tol_p
            ),
            "crit_interval",
            meta("p", &op, &[tol_l, tol_ct, tol_p]),
        );
        g.push(
            &format!("Rabs (({} - {}) - {}) <= {:e}", dy(pspec), dy(p), dy(op[2]), tol_p),
            "pure_interval",
            meta("p_third_vs_total_pressure", &op, &[tol_p]),
        );
        g.push(
            &format!(
                "let r := crit_obj {} {} {} in Rabs (fst r - {}) <= {:e} /\\ Rabs (snd r - {}) <= {:e}",
                dy(nn[0]), dy(nn[1]), jet_lit(&jn), dy(on[0]), tol_l, dy(on[1]), tol_cn
            ),
            "crit_interval",
            meta("moles", &on, &[tol_l, tol_cn]),
        );
        g.push(
            &format!("Rabs (fst (crit_obj {} {} {}) - {}) <= {:e}", dy(nn[0]), dy(nn[1]), jet_lit(&jn), dy(sp), tol_l),
            "crit_interval",
            meta("spinodal", &[sp], &[tol_l]),
        );
        done += 1;
    }
}

// ------------------------------------------------------------------------------------------------
// B. support search on the real solvers

fn physical(cp: &State<ResidualModel>) -> bool {
    let tc = cp.temperature.to_reduced();
    let pc = cp.pressure(Contributions::Total).to_reduced();
    let rhoc = cp.density.to_reduced();
    tc.is_finite() && tc > 0.0 && pc.is_finite() && pc > 0.0 && rhoc.is_finite() && rhoc > 0.0
}

fn crit_call(eos: &Eos, moles: Option<&Moles<Array1<f64>>>, t0: Option<f64>) -> Result<State<ResidualModel>, String> {
    match catch_unwind(AssertUnwindSafe(|| {
        State::critical_point(eos, moles, t0.map(Temperature::from_reduced), SolverOptions::default())
    })) {
        Ok(Ok(s)) => Ok(s),
        Ok(Err(e)) => Err(e.to_string()),
        Err(_) => Err("panic".into()),
    }
}

/// the physical critical point of a pure model / fixed composition ("the true value"): default start, then a ladder;
/// among physical candidates the one with the highest temperature (a vapour-liquid critical point has no
/// critical point above it)
fn reference_cp(eos: &Eos, moles: Option<&Moles<Array1<f64>>>) -> Option<State<ResidualModel>> {
    let mut best: Option<State<ResidualModel>> = None;
    let mut cands = vec![crit_call(eos, moles, None)];
    for t0 in T_LADDER {
        cands.push(crit_call(eos, moles, Some(t0)));
    }
    for c in cands.into_iter().flatten() {
        if physical(&c) && best.as_ref().map_or(true, |b| c.temperature.to_reduced() > b.temperature.to_reduced() * (1.0 + 1e-6)) {
            best = Some(c);
        }
    }
    best
}

struct Search {
    failures: Vec<Value>,
    stats: serde_json::Map<String, Value>,
    samples: Vec<Value>,
}

impl Search {
    fn count(&mut self, key: &str) {
        let v = self.stats.get(key).and_then(|v| v.as_u64()).unwrap_or(0);
        self.stats.insert(key.to_string(), json!(v + 1));
    }
    fn worst(&mut self, key: &str, x: f64) {
        let v = self.stats.get(key).and_then(|v| v.as_f64()).unwrap_or(0.0);
        if x.abs() > v || !x.is_finite() {
            self.stats.insert(key.to_string(), json!(if x.is_finite() { x.abs() } else { 1e300 }));
        }
    }
    fn fail(&mut self, kind: &str, key: Value, detail: Value) {
        self.failures.push(json!({"kind": kind, "key": key, "detail": detail}));
    }
}

fn start_label(t0: Option<f64>, f: Option<f64>) -> Value {
    match (t0, f) {
        (None, _) => json!("default"),
        (Some(_), Some(f)) => json!(format!("{:.1}", f)),
        (Some(t), None) => json!(format!("{t}K")),
    }
}

/// pure critical points of one model: default start + the grid of initial temperatures
fn search_pure(label: &str, record: &str, eos: &Eos, factors: &[f64], sr: &mut Search) -> Option<State<ResidualModel>> {
    let Some(cref) = reference_cp(eos, None) else {
        sr.count("pure_no_reference_critical_point");
        return None;
    };
    let tc = cref.temperature.to_reduced();
    let mut starts: Vec<(Option<f64>, Option<f64>)> = vec![(None, None)];
    starts.extend(factors.iter().map(|f| (Some(f * tc), Some(*f))));
    for (t0, f) in starts {
        sr.count("pure_calls");
        let Ok(s) = crit_call(eos, None, t0) else {
            sr.count("pure_not_converged");
            continue;
        };
        sr.count("pure_returned");
        let (q, c) = cond1(&s);
        let p = s.pressure(Contributions::Total).to_reduced();
        sr.worst("pure_worst_q", q);
        sr.worst("pure_worst_c", c);
        let key = json!({"collection": label, "record": record, "start": start_label(t0, f)});
        let detail = json!({"T0": t0, "T": s.temperature.to_reduced(), "rho": s.density.to_reduced(), "p_reduced": p,
                            "p_Pa": s.pressure(Contributions::Total).convert_into(quantity::PASCAL),
                            "q=-dp_dv*V/(rho*T)": q, "c=d2p_dv2*V^2/(rho*T)-3q": c, "reference_Tc": tc,
                            "reference_rho_c": cref.density.to_reduced()});
        if !(q.abs() <= COND_TOL && c.abs() <= COND_TOL) {
            sr.fail("pure_critical_conditions", key, detail);
        } else if !(p > 0.0) {
            sr.fail("pure_critical_pressure_not_positive", key, detail);
        } else if sr.samples.len() < 6 {
            sr.samples.push(json!({"what": "pure critical point", "key": key, "detail": detail}));
        }
    }
    Some(cref)
}

/// spinodals of a pure model at the given fractions of the critical temperature
fn search_spinodal_pure(label: &str, record: &str, eos: &Eos, cref: &State<ResidualModel>, fracs: &[f64], sr: &mut Search) {
    let tc = cref.temperature.to_reduced();
    let rhoc = cref.density.to_reduced();
    for &f in fracs {
        let t = f * tc;
        sr.count("spinodal_calls");
        let r = catch_unwind(AssertUnwindSafe(|| {
            State::spinodal(eos, Temperature::from_reduced(t), None, SolverOptions::default())
        }));
        let Ok(Ok([sv, sl])) = r else {
            sr.count("spinodal_not_converged");
            continue;
        };
        sr.count("spinodal_returned");
        let (qv, _) = cond1(&sv);
        let (ql, _) = cond1(&sl);
        let (rv, rl) = (sv.density.to_reduced(), sl.density.to_reduced());
        sr.worst("spinodal_worst_q", qv);
        sr.worst("spinodal_worst_q", ql);
        let key = json!({"collection": label, "record": record, "T/Tc": format!("{:.3}", f)});
        let mut detail = json!({"T": t, "Tc": tc, "rho_c": rhoc, "rho_spinodal_vapor": rv, "rho_spinodal_liquid": rl,
                                "q_vapor": qv, "q_liquid": ql});
        if !(qv.abs() <= COND_TOL && ql.abs() <= COND_TOL) {
            sr.fail("spinodal_eigenvalue", key, detail);
            continue;
        }
        if !(rv < rhoc && rhoc < rl) {
            sr.fail("spinodal_bracket", key, detail);
            continue;
        }
        let vle = catch_unwind(AssertUnwindSafe(|| {
            PhaseEquilibrium::pure(eos, Temperature::from_reduced(t), None, SolverOptions::default())
        }));
        if let Ok(Ok(vle)) = vle {
            let (bv, bl) = (vle.vapor().density.to_reduced(), vle.liquid().density.to_reduced());
            detail["rho_sat_vapor"] = json!(bv);
            detail["rho_sat_liquid"] = json!(bl);
            sr.count("spinodal_binodal_checked");
            // only a genuine two-phase result can serve as reference
            if bl > bv * (1.0 + 1e-6) && !(bv <= rv * (1.0 + 1e-9) && rl <= bl * (1.0 + 1e-9)) {
                sr.fail("spinodal_inside_binodal", key, detail);
                continue;
            }
        }
        if sr.samples.len() < 10 && f < 0.8 {
            sr.samples.push(json!({"what": "pure spinodal", "key": key, "detail": detail}));
        }
    }
}

/// PhaseDiagram::spinodal of a pure model from 0.5 Tc: every stored pair consists of two spinodal states around the
/// critical density inside the binodal, the last entry is the critical point, and every pair is the pair State::spinodal
/// returns at the same temperature (the diagram is documented as the spinodal states on a temperature grid)
fn search_phase_diagram_pure(label: &str, record: &str, eos: &Eos, cref: &State<ResidualModel>, npoints: usize, binodal: bool, sr: &mut Search) {
    let tc = cref.temperature.to_reduced();
    let rhoc = cref.density.to_reduced();
    let moles = Moles::from_reduced(arr1(&[1.0]));
    sr.count("phase_diagram_pure_calls");
    let r = catch_unwind(AssertUnwindSafe(|| {
        PhaseDiagram::spinodal(eos, &moles, Temperature::from_reduced(0.5 * tc), npoints, Some(Temperature::from_reduced(tc)), SolverOptions::default())
    }));
    let Ok(Ok(dia)) = r else {
        sr.count("phase_diagram_pure_failed");
        return;
    };
    let k = dia.states.len();
    for (i, st) in dia.states.iter().enumerate() {
        let (sv, sl) = (st.vapor(), st.liquid());
        let t = sv.temperature.to_reduced();
        let (qv, cv) = cond1(sv);
        let (ql, _) = cond1(sl);
        let (rv, rl) = (sv.density.to_reduced(), sl.density.to_reduced());
        sr.count("phase_diagram_pure_states");
        sr.worst("phase_diagram_pure_worst_q", qv);
        sr.worst("phase_diagram_pure_worst_q", ql);
        let key = json!({"collection": label, "record": record, "call": format!("PhaseDiagram::spinodal(min_temperature = 0.5 Tc, npoints = {npoints})"), "point": i});
        let mut detail = json!({"T": t, "T/Tc": t / tc, "Tc": tc, "rho_c": rhoc, "rho_vapor": rv, "rho_liquid": rl, "q_vapor": qv, "q_liquid": ql});
        if !(qv.abs() <= COND_TOL && ql.abs() <= COND_TOL) {
            sr.fail("phase_diagram_spinodal_eigenvalue", key, detail);
            continue;
        }
        if i + 1 == k {
            // the diagram ends with its own critical point (physical: dp/dV = d2p/dV2 = 0 at positive pressure)
            if !(cv.abs() <= COND_TOL && sv.pressure(Contributions::Total).to_reduced() > 0.0) {
                sr.fail("phase_diagram_spinodal_last_point_not_critical", key, detail);
            }
            continue;
        }
        if !(rv < rhoc && rhoc < rl) {
            sr.fail("phase_diagram_spinodal_bracket", key, detail);
            continue;
        }
        // the same temperature through State::spinodal
        let direct = catch_unwind(AssertUnwindSafe(|| State::spinodal(eos, sv.temperature, None, SolverOptions::default())));
        match direct {
            Ok(Ok([dv, dl])) => {
                let (a, b) = (dv.density.to_reduced(), dl.density.to_reduced());
                detail["state_spinodal_rho"] = json!([a, b]);
                if !((a - rv).abs() <= 1e-8 * a && (b - rl).abs() <= 1e-8 * b) {
                    sr.fail("phase_diagram_spinodal_differs_from_state_spinodal", key, detail);
                    continue;
                }
            }
            _ => {
                detail["state_spinodal_rho"] = json!("error");
                sr.fail("phase_diagram_spinodal_differs_from_state_spinodal", key, detail);
                continue;
            }
        }
        if binodal {
            let vle = catch_unwind(AssertUnwindSafe(|| PhaseEquilibrium::pure(eos, sv.temperature, None, SolverOptions::default())));
            if let Ok(Ok(vle)) = vle {
                let (bv, bl) = (vle.vapor().density.to_reduced(), vle.liquid().density.to_reduced());
                detail["rho_sat_vapor"] = json!(bv);
                detail["rho_sat_liquid"] = json!(bl);
                sr.count("phase_diagram_pure_binodal_checked");
                if bl > bv * (1.0 + 1e-6) && !(bv <= rv * (1.0 + 1e-9) && rl <= bl * (1.0 + 1e-9)) {
                    sr.fail("phase_diagram_spinodal_inside_binodal", key, detail);
                }
            }
        }
    }
}

fn search_binary(name: &str, eos: &Eos, tier_full: bool, rng: &mut Rng, sr: &mut Search) {
    // pure critical temperatures bracket the temperatures of the (T)-variant
    let pure: Vec<Option<State<ResidualModel>>> =
        (0..2).map(|i| reference_cp(&Arc::new(eos.subset(&[i])), None)).collect();
    let (Some(c0), Some(c1)) = (&pure[0], &pure[1]) else {
        sr.count("binary_no_pure_reference");
        return;
    };
    let (t0, t1) = (c0.temperature.to_reduced(), c1.temperature.to_reduced());
    let nt = if tier_full { 8 } else { 3 };
    for _ in 0..nt {
        let f = rng.range(0.1, 0.9);
        let t = t0 + f * (t1 - t0);
        sr.count("binary_T_calls");
        let r = catch_unwind(AssertUnwindSafe(|| {
            State::critical_point_binary(eos, Temperature::from_reduced(t), None, None, SolverOptions::default())
        }));
        let Ok(Ok(s)) = r else {
            sr.count("binary_T_not_converged");
            continue;
        };
        sr.count("binary_T_returned");
        let n = s.moles.to_reduced();
        let v = s.volume.to_reduced();
        let key = json!({"config": name, "variant": "T", "T": t});
        let Some((l, c)) = cond2(eos, s.temperature.to_reduced(), v, &[n[0], n[1]]) else {
            sr.fail("binary_conditions_not_evaluable", key, json!({}));
            continue;
        };
        sr.worst("binary_worst_eigenvalue", l);
        sr.worst("binary_worst_third", c);
        let p = s.pressure(Contributions::Total).to_reduced();
        let detail = json!({"T_spec": t, "T_state": s.temperature.to_reduced(), "rho": [n[0] / v, n[1] / v], "p_reduced": p,
                            "smallest_eigenvalue": l, "third_derivative_scaled": c});
        if s.temperature.to_reduced() != t {
            sr.fail("binary_T_not_reproduced", key, detail);
            continue;
        }
        if !(l.abs() <= COND_TOL && c <= COND_TOL) {
            sr.fail("binary_critical_conditions", key, detail);
            continue;
        }
        if sr.samples.len() < 14 {
            sr.samples.push(json!({"what": "binary critical point at given T", "key": key, "detail": detail}));
        }
        // (p)-variant at the pressure of this critical point, initial temperature in [0.5, 1.6] of the true one
        if !(p > 0.0) {
            continue;
        }
        let x = [n[0] / (n[0] + n[1]), n[1] / (n[0] + n[1])];
        let np = if tier_full { 4 } else { 2 };
        for _ in 0..np {
            let fac = T0_GRID[rng.below(T0_GRID.len())];
            sr.count("binary_p_calls");
            let r = catch_unwind(AssertUnwindSafe(|| {
                State::critical_point_binary(
                    eos,
                    Pressure::from_reduced(p),
                    Some(Temperature::from_reduced(fac * t)),
                    Some(x),
                    SolverOptions::default(),
                )
            }));
            let Ok(Ok(sp)) = r else {
                sr.count("binary_p_not_converged");
                continue;
            };
            sr.count("binary_p_returned");
            let n = sp.moles.to_reduced();
            let v = sp.volume.to_reduced();
            let key = json!({"config": name, "variant": "p", "p": p, "T0/T": fac, "x0": x});
            let Some((l, c)) = cond2(eos, sp.temperature.to_reduced(), v, &[n[0], n[1]]) else {
                sr.fail("binary_conditions_not_evaluable", key, json!({}));
                continue;
            };
            let pp = sp.pressure(Contributions::Total).to_reduced();
            sr.worst("binary_worst_eigenvalue", l);
            sr.worst("binary_worst_third", c);
            sr.worst("binary_p_worst_rel_dev", (pp - p) / p);
            let detail = json!({"p_spec": p, "p_state": pp, "T": sp.temperature.to_reduced(), "rho": [n[0] / v, n[1] / v],
                                "smallest_eigenvalue": l, "third_derivative_scaled": c});
            if !((pp - p).abs() <= PSPEC_RTOL * p) {
                sr.fail("binary_p_not_reproduced", key, detail);
            } else if !(l.abs() <= COND_TOL && c <= COND_TOL) {
                sr.fail("binary_critical_conditions", key, detail);
            } else if sr.samples.len() < 16 {
                sr.samples.push(json!({"what": "binary critical point at given p", "key": key, "detail": detail}));
            }
        }
    }
    // fixed composition (moles given in mol, as a user would): critical point + spinodals
    let nx = if tier_full { 5 } else { 2 };
    for _ in 0..nx {
        let x = rng.range(0.1, 0.9);
        let moles = arr1(&[x, 1.0 - x]) * quantity::MOL;
        let Some(cref) = reference_cp(eos, Some(&moles)) else {
            sr.count("mixture_no_reference_critical_point");
            continue;
        };
        let tc = cref.temperature.to_reduced();
        let facs: Vec<f64> = (0..if tier_full { 6 } else { 3 }).map(|_| T0_GRID[rng.below(T0_GRID.len())]).collect();
        for fac in facs {
            sr.count("mixture_calls");
            let Ok(s) = crit_call(eos, Some(&moles), Some(fac * tc)) else {
                sr.count("mixture_not_converged");
                continue;
            };
            sr.count("mixture_returned");
            let n = s.moles.to_reduced();
            let key = json!({"config": name, "variant": "moles", "x": x, "T0/Tc": fac});
            let Some((l, c)) = cond2(eos, s.temperature.to_reduced(), s.volume.to_reduced(), &[n[0], n[1]]) else {
                sr.fail("binary_conditions_not_evaluable", key, json!({}));
                continue;
            };
            sr.worst("mixture_worst_eigenvalue", l);
            sr.worst("mixture_worst_third", c);
            let detail = json!({"T": s.temperature.to_reduced(), "rho": s.density.to_reduced(), "reference_Tc": tc,
                                "p_reduced": s.pressure(Contributions::Total).to_reduced(),
                                "smallest_eigenvalue": l, "third_derivative_scaled": c});
            if !(l.abs() <= COND_TOL && c <= COND_TOL) {
                sr.fail("mixture_critical_conditions", key, detail);
            }
        }
        // spinodals of the mixture
        let rhoc = cref.density.to_reduced();
        for _ in 0..if tier_full { 4 } else { 2 } {
            let f = rng.range(0.5, 0.99);
            let t = f * tc;
            sr.count("spinodal_mix_calls");
            let r = catch_unwind(AssertUnwindSafe(|| {
                State::spinodal(eos, Temperature::from_reduced(t), Some(&moles), SolverOptions::default())
            }));
            let Ok(Ok([sv, sl])) = r else {
                sr.count("spinodal_mix_not_converged");
                continue;
            };
            sr.count("spinodal_mix_returned");
            let key = json!({"config": name, "x": x, "T/Tc": f});
            let ev = |s: &State<ResidualModel>| {
                let n = s.moles.to_reduced();
                cond2(eos, s.temperature.to_reduced(), s.volume.to_reduced(), &[n[0], n[1]]).map(|r| r.0)
            };
            let (Some(lv), Some(ll)) = (ev(&sv), ev(&sl)) else {
                sr.fail("binary_conditions_not_evaluable", key, json!({}));
                continue;
            };
            sr.worst("spinodal_mix_worst_eigenvalue", lv);
            sr.worst("spinodal_mix_worst_eigenvalue", ll);
            let (rv, rl) = (sv.density.to_reduced(), sl.density.to_reduced());
            let detail = json!({"T": t, "Tc": tc, "rho_c": rhoc, "rho_spinodal_vapor": rv, "rho_spinodal_liquid": rl,
                                "eigenvalue_vapor": lv, "eigenvalue_liquid": ll});
            if !(lv.abs() <= COND_TOL && ll.abs() <= COND_TOL) {
                sr.fail("spinodal_mix_eigenvalue", key, detail);
            } else if !(rv < rhoc && rhoc < rl) {
                sr.fail("spinodal_mix_bracket", key, detail);
            }
        }
        // PhaseDiagram::spinodal: every pair it returns is a pair of spinodal states around the critical density
        if !tier_full && sr.stats.get("phase_diagram_spinodal_calls").is_some() {
            continue;
        }
        sr.count("phase_diagram_spinodal_calls");
        let r = catch_unwind(AssertUnwindSafe(|| {
            PhaseDiagram::spinodal(eos, &moles, Temperature::from_reduced(0.5 * tc), 6, Some(Temperature::from_reduced(tc)), SolverOptions::default())
        }));
        if let Ok(Ok(dia)) = r {
            let k = dia.states.len();
            for (i, st) in dia.states.iter().enumerate() {
                let (sv, sl) = (st.vapor(), st.liquid());
                let ev = |s: &State<ResidualModel>| {
                    let n = s.moles.to_reduced();
                    cond2(eos, s.temperature.to_reduced(), s.volume.to_reduced(), &[n[0], n[1]])
                };
                let (Some(a), Some(b)) = (ev(sv), ev(sl)) else { continue };
                sr.count("phase_diagram_spinodal_states");
                let key = json!({"config": name, "x": x, "phase_diagram_spinodal_point": i});
                let detail = json!({"T": sv.temperature.to_reduced(), "rho_vapor": sv.density.to_reduced(),
                                    "rho_liquid": sl.density.to_reduced(), "eigenvalue_vapor": a.0, "eigenvalue_liquid": b.0,
                                    "third_vapor": a.1});
                if !(a.0.abs() <= COND_TOL && b.0.abs() <= COND_TOL) {
                    sr.fail("phase_diagram_spinodal_eigenvalue", key, detail);
                } else if i + 1 == k && !(a.1 <= COND_TOL) {
                    sr.fail("phase_diagram_spinodal_last_point_not_critical", key, detail);
                } else if i + 1 < k && !(sv.density.to_reduced() < rhoc && rhoc < sl.density.to_reduced()) {
                    sr.fail("phase_diagram_spinodal_bracket", key, detail);
                } else if i + 1 < k {
                    let direct = catch_unwind(AssertUnwindSafe(|| State::spinodal(eos, sv.temperature, Some(&moles), SolverOptions::default())));
                    let same = match direct {
                        Ok(Ok([dv, dl])) => {
                            let (a, b) = (dv.density.to_reduced(), dl.density.to_reduced());
                            (a - sv.density.to_reduced()).abs() <= 1e-8 * a && (b - sl.density.to_reduced()).abs() <= 1e-8 * b
                        }
                        _ => false,
                    };
                    if !same {
                        sr.fail("phase_diagram_spinodal_differs_from_state_spinodal", key, detail);
                    }
                }
            }
        } else {
            sr.count("phase_diagram_spinodal_failed");
        }
    }
}

// ------------------------------------------------------------------------------------------------
// C. Peng-Robinson

fn pr_model(tc: f64, pc: f64, omega: f64) -> Eos {
    let rec = PureRecord::new(Identifier::default(), 50.0, PengRobinsonRecord::new(tc, pc, omega));
    Arc::new(ResidualModel::PengRobinson(PengRobinson::new(Arc::new(
        PengRobinsonParameters::from_records(vec![rec], None).unwrap(),
    ))))
}

fn search_pr(k: usize, rng: &mut Rng, sr: &mut Search, g: &mut Goals) {
    for i in 0..k {
        let tc = rng.range(100.0, 900.0);
        let pc = rng.log_range(5e5, 2e7);
        let omega = rng.range(-0.1, 1.0);
        let fac = T0_GRID[rng.below(T0_GRID.len())];
        let eos = pr_model(tc, pc, omega);
        sr.count("pr_calls");
        let Ok(s) = crit_call(&eos, None, Some(fac * tc)) else {
            sr.count("pr_not_converged");
            continue;
        };
        sr.count("pr_returned");
        let t = s.temperature.to_reduced();
        let p = s.pressure(Contributions::Total).convert_into(quantity::PASCAL);
        let (q, c) = cond1(&s);
        sr.worst("pr_worst_rel_T", t / tc - 1.0);
        sr.worst("pr_worst_rel_p", p / pc - 1.0);
        let key = json!({"tc": tc, "pc": pc, "acentric_factor": omega, "T0/Tc": fac});
        let detail = json!({"T": t, "p_Pa": p, "rel_T": t / tc - 1.0, "rel_p": p / pc - 1.0, "q": q, "c": c});
        if !(q.abs() <= COND_TOL && c.abs() <= COND_TOL) {
            sr.fail("pr_critical_conditions", key, detail);
            continue;
        }
        if !((t / tc - 1.0).abs() <= PR_RTOL && (p / pc - 1.0).abs() <= PR_RTOL) {
            sr.fail("pr_tc_pc_not_recovered", key, detail);
            continue;
        }
        if i < 3 {
            sr.samples.push(json!({"what": "Peng-Robinson critical point", "key": key, "detail": detail}));
        }
        // closed form of the critical point of the cubic with the rounded constants (PengRobinsonC06.v)
        let kappa = 0.37464 + (1.54226 - 0.26992 * omega) * omega;
        g.push(
            &format!(
                "Rabs (pr_Tr 0.45724 0.07780 {} * {} - {}) <= {:e} /\\ Rabs (pr_pr 0.45724 0.07780 {} * {} - {}) <= {:e}",
                dy(kappa), dy(tc), dy(t), 1e-7 * tc, dy(kappa), dy(pc), dy(p), 1e-7 * pc
            ),
            "pr_interval",
            json!({"kind": "pr", "key": key, "detail": detail, "kappa": kappa}),
        );
    }
}

/// Peng-Robinson mixtures with non-zero binary interaction parameters: the critical point of every one-component
/// subset (State::critical_point_pure and eos.subset(&[i])) is the (Tc, pc) of that component's record
fn search_pr_mixture(k: usize, rng: &mut Rng, sr: &mut Search, g: &mut Goals) {
    for _ in 0..k {
        let n = 2 + rng.below(2);
        let tbase = rng.range(150.0, 600.0);
        let tcs: Vec<f64> = (0..n).map(|_| tbase * rng.range(0.7, 1.4)).collect();
        let pcs: Vec<f64> = (0..n).map(|_| rng.log_range(5e5, 2e7)).collect();
        let oms: Vec<f64> = (0..n).map(|_| rng.range(-0.1, 1.0)).collect();
        let mut kij = ndarray::Array2::<f64>::zeros((n, n));
        for i in 0..n {
            for j in 0..i {
                let mut v = rng.range(-0.15, 0.15);
                if v.abs() < 0.01 {
                    v = 0.05;
                }
                kij[[i, j]] = v;
                kij[[j, i]] = v;
            }
        }
        let recs: Vec<_> = (0..n)
            .map(|i| PureRecord::new(Identifier::default(), 50.0, PengRobinsonRecord::new(tcs[i], pcs[i], oms[i])))
            .collect();
        let Ok(par) = PengRobinsonParameters::from_records(recs, Some(kij.clone())) else { continue };
        let eos: Eos = Arc::new(ResidualModel::PengRobinson(PengRobinson::new(Arc::new(par))));
        let kvec: Vec<f64> = kij.iter().cloned().collect();
        let mut check = |s: &State<ResidualModel>, i: usize, call: &str, sr: &mut Search, g: &mut Goals| {
            let t = s.temperature.to_reduced();
            let p = s.pressure(Contributions::Total).convert_into(quantity::PASCAL);
            let (q, c) = cond1(s);
            sr.count("pr_mixture_subset_returned");
            sr.worst("pr_mixture_worst_rel_T", t / tcs[i] - 1.0);
            sr.worst("pr_mixture_worst_rel_p", p / pcs[i] - 1.0);
            let key = json!({"tc": tcs, "pc": pcs, "acentric_factor": oms, "k_ij": kvec, "component": i, "call": call});
            let detail = json!({"T": t, "p_Pa": p, "rel_T": t / tcs[i] - 1.0, "rel_p": p / pcs[i] - 1.0, "q": q, "c": c});
            if !(q.abs() <= COND_TOL && c.abs() <= COND_TOL) {
                sr.fail("pr_critical_conditions", key, detail);
                return;
            }
            if !((t / tcs[i] - 1.0).abs() <= PR_RTOL && (p / pcs[i] - 1.0).abs() <= PR_RTOL) {
                sr.fail("pr_subset_tc_pc_not_recovered", key, detail);
                return;
            }
            let kappa = 0.37464 + (1.54226 - 0.26992 * oms[i]) * oms[i];
            g.push(
                &format!(
                    "Rabs (pr_Tr 0.45724 0.07780 {} * {} - {}) <= {:e} /\\ Rabs (pr_pr 0.45724 0.07780 {} * {} - {}) <= {:e}",
                    dy(kappa), dy(tcs[i]), dy(t), 1e-7 * tcs[i], dy(kappa), dy(pcs[i]), dy(p), 1e-7 * pcs[i]
                ),
                "pr_interval",
                json!({"kind": "pr_subset", "key": key, "detail": detail, "kappa": kappa}),
            );
        };
        // one-component subsets, each from an initial temperature in [0.5, 1.6] Tc_i
        for i in 0..n {
            let fac = T0_GRID[rng.below(T0_GRID.len())];
            sr.count("pr_mixture_subset_calls");
            let sub: Eos = Arc::new(eos.subset(&[i]));
            if let Ok(s) = crit_call(&sub, None, Some(fac * tcs[i])) {
                check(&s, i, &format!("State::critical_point(eos.subset(&[{i}]), None, {} Tc)", fac), sr, g);
            }
        }
        // State::critical_point_pure with one common initial temperature (within [0.5, 1.6] of every Tc_i)
        let t0 = (tcs.iter().cloned().fold(f64::MAX, f64::min) * tcs.iter().cloned().fold(0.0, f64::max)).sqrt();
        sr.count("pr_mixture_critical_point_pure_calls");
        let r = catch_unwind(AssertUnwindSafe(|| {
            State::critical_point_pure(&eos, Some(Temperature::from_reduced(t0)), SolverOptions::default())
        }));
        if let Ok(Ok(v)) = r {
            for (i, s) in v.iter().enumerate() {
                check(s, i, &format!("State::critical_point_pure(eos, {t0} K)[{i}]"), sr, g);
            }
        }
    }
}

/// one-component subsets of a mixture model denote the pure models: State::critical_point_pure of the mixture returns
/// the critical points of the separately built pure models
fn search_subset_vs_pure(name: &str, mix: &Eos, pures: &[Eos], sr: &mut Search) {
    sr.count("critical_point_pure_calls");
    let r = catch_unwind(AssertUnwindSafe(|| State::critical_point_pure(mix, None, SolverOptions::default())));
    let Ok(Ok(v)) = r else {
        sr.count("critical_point_pure_not_converged");
        return;
    };
    for (i, s) in v.iter().enumerate() {
        let (q, c) = cond1(s);
        let key = json!({"config": name, "call": "State::critical_point_pure(eos, None)", "component": i});
        let mut detail = json!({"T": s.temperature.to_reduced(), "rho": s.density.to_reduced(), "p_reduced": s.pressure(Contributions::Total).to_reduced(), "q": q, "c": c});
        if !(q.abs() <= COND_TOL && c.abs() <= COND_TOL && s.pressure(Contributions::Total).to_reduced() > 0.0) {
            sr.fail("pure_critical_conditions", key, detail);
            continue;
        }
        let Some(pure) = pures.get(i) else { continue };
        let Ok(r) = crit_call(pure, None, None) else { continue };
        sr.count("critical_point_pure_compared");
        detail["pure_model_T"] = json!(r.temperature.to_reduced());
        detail["pure_model_rho"] = json!(r.density.to_reduced());
        let dt = s.temperature.to_reduced() / r.temperature.to_reduced() - 1.0;
        let dr = s.density.to_reduced() / r.density.to_reduced() - 1.0;
        sr.worst("critical_point_pure_worst_rel_dev", dt.abs().max(dr.abs()));
        if !(dt.abs() <= 1e-6 && dr.abs() <= 1e-5) {
            sr.fail("critical_point_pure_differs_from_pure_model", key, detail);
        }
    }
}

// ------------------------------------------------------------------------------------------------
// D. acceptance logs: the solvers run with Verbosity::Iter; the check reads the tables from the harness log and
//    compares the iteration at which "converged" is reported with the stopping rule of the model (newton_loop)

fn log_block<F: FnOnce() -> bool>(kind: &str, label: &str, tol: f64, run: F) {
    println!("C06LOG begin {}", json!({"kind": kind, "label": label, "tol": tol}));
    let ok = catch_unwind(AssertUnwindSafe(run)).unwrap_or(false);
    println!("C06LOG end {}", if ok { "ok" } else { "err" });
}

fn acceptance_logs(cfgs: &[configs::Config], full: bool, rng: &mut Rng) {
    use feos_core::Verbosity;
    let tols = [None, Some(1e-6), Some(1e-10)];
    for c in cfgs.iter().filter(|c| c.ncomp <= 2 && (full || c.core)) {
        let eos = &c.model;
        for k in 0..if full { 6 } else { 3 } {
            let tol = tols[k % 3];
            let opts = SolverOptions { max_iter: None, tol, verbosity: Verbosity::Iter };
            let t0 = c.t_scale * rng.range(0.5, 1.6);
            if c.ncomp == 1 {
                log_block("hkm", &format!("{} T0={t0}", c.name), tol.unwrap_or(1e-8), || {
                    State::critical_point(eos, None, Some(Temperature::from_reduced(t0)), opts).is_ok()
                });
                let f = rng.range(0.5, 0.99);
                log_block("spinodal", &format!("{} T={}", c.name, f * c.t_scale), tol.unwrap_or(1e-8), || {
                    State::spinodal(eos, Temperature::from_reduced(f * c.t_scale), None, opts).is_ok()
                });
            } else {
                let x = rng.range(0.1, 0.9);
                let moles = arr1(&[x, 1.0 - x]) * quantity::MOL;
                log_block("hkm", &format!("{} x={x} T0={t0}", c.name), tol.unwrap_or(1e-8), || {
                    State::critical_point(eos, Some(&moles), Some(Temperature::from_reduced(t0)), opts).is_ok()
                });
                log_block("binary_t", &format!("{} T={t0}", c.name), tol.unwrap_or(1e-8), || {
                    State::critical_point_binary(eos, Temperature::from_reduced(c.t_scale * rng.range(0.9, 1.1)), None, None, opts).is_ok()
                });
                log_block("binary_p", &format!("{} T0={t0}", c.name), tol.unwrap_or(1e-8), || {
                    State::critical_point_binary(eos, Pressure::from_reduced(rng.range(0.2, 0.5)), Some(Temperature::from_reduced(t0)), None, opts).is_ok()
                });
            }
        }
    }
}

// ------------------------------------------------------------------------------------------------

fn load<M: serde::de::DeserializeOwned>(rel: &str) -> Vec<PureRecord<M>> {
    let f = File::open(format!("{}/{rel}", configs::params())).unwrap();
    serde_json::from_reader(BufReader::new(f)).unwrap()
}

fn pick(n: usize, k: usize, rng: &mut Rng) -> Vec<usize> {
    if k >= n {
        return (0..n).collect();
    }
    let mut idx: Vec<usize> = (0..n).collect();
    for i in 0..k {
        let j = i + rng.below(n - i);
        idx.swap(i, j);
    }
    idx.truncate(k);
    idx.sort();
    idx
}

fn main() {
    let cli = feos_verif::cli::Cli::parse("/verif/coq/gen/C06");
    let full = cli.full();
    let mut rng = Rng(cli.seed.wrapping_mul(0x9E3779B97F4A7C15) ^ 0xC06);
    let only = cli.opt("--only");
    let cfgs = configs::all(full);
    let mut files: Vec<(String, Goals)> = Vec::new();

    // ---- A. objective correspondence
    let kp = if full { 12 } else { 3 };
    let kb = if full { 8 } else { 2 };
    let pure_names: &[&str] = &["pr1", "pcsaft_propane", "pcsaft_water", "gcpcsaft_propane", "pets1", "saftvrmie_ethane", "uv_wca1", "saftvrqmie_h2"];
    let bin_names: &[&str] = &[
        "pr2", "pcsaft_propane_butane_kij", "pcsaft_water_methanol", "pcsaft_acetone_butanone", "pcsaft_co2_chlorine",
        "gcpcsaft_propanol_ethanol", "pets2", "saftvrmie_ethane_butane", "uv_wca2", "saftvrqmie_h2_ne",
    ];
    if only.is_none() || only.as_deref() == Some("obj") {
        for c in cfgs.iter().filter(|c| pure_names.contains(&c.name.as_str())) {
            let mut g = Goals::new();
            pure_obj_goals(&c.name, &c.model, c.t_scale, kp, &mut rng, &mut g);
            files.push((format!("obj_pure_{}.v", c.name), g));
        }
        for c in cfgs.iter().filter(|c| bin_names.contains(&c.name.as_str())) {
            let mut g = Goals::new();
            bin_obj_goals(&c.name, &c.model, c.t_scale, kb, &mut rng, &mut g);
            files.push((format!("obj_bin_{}.v", c.name), g));
        }
    }

    // ---- B. support search
    let mut sr = Search { failures: vec![], stats: serde_json::Map::new(), samples: vec![] };
    if only.is_none() || only.as_deref() == Some("search") {
        let nfac = if full { T0_GRID.len() } else { 3 };
        let fracs = |rng: &mut Rng| -> Vec<f64> { (0..if full { 6 } else { 3 }).map(|_| rng.range(0.5, 0.99)).collect() };
        // shipped collections
        let pcsaft_files: &[(&str, usize)] = if full {
            &[("pcsaft/gross2001.json", usize::MAX), ("pcsaft/gross2002.json", usize::MAX), ("pcsaft/gross2005_fit.json", usize::MAX),
              ("pcsaft/gross2006.json", usize::MAX), ("pcsaft/loetgeringlin2018.json", usize::MAX), ("pcsaft/esper2023.json", 250)]
        } else {
            &[("pcsaft/gross2001.json", 8), ("pcsaft/gross2002.json", 2), ("pcsaft/gross2006.json", 2), ("pcsaft/esper2023.json", 6)]
        };
        for (file, k) in pcsaft_files {
            let recs: Vec<PureRecord<PcSaftRecord>> = load(file);
            for i in pick(recs.len(), *k, &mut rng) {
                let name = recs[i].identifier.name.clone().unwrap_or_else(|| format!("#{i}"));
                let Ok(Ok(p)) = catch_unwind(AssertUnwindSafe(|| PcSaftParameters::new_pure(recs[i].clone()))) else { continue };
                let eos: Eos = Arc::new(ResidualModel::PcSaft(PcSaft::new(Arc::new(p))));
                let facs: Vec<f64> = pick(T0_GRID.len(), nfac, &mut rng).into_iter().map(|j| T0_GRID[j]).collect();
                if let Some(cref) = search_pure(file, &name, &eos, &facs, &mut sr) {
                    let fr = fracs(&mut rng);
                    search_spinodal_pure(file, &name, &eos, &cref, &fr, &mut sr);
                }
            }
        }
        // PhaseDiagram::spinodal from 0.5 Tc for every record of the collections (quick: gross2001; no random choice)
        let dia_files: &[&str] = if full {
            &["pcsaft/gross2001.json", "pcsaft/gross2002.json", "pcsaft/gross2005_fit.json", "pcsaft/gross2006.json", "pcsaft/loetgeringlin2018.json"]
        } else {
            &["pcsaft/gross2001.json"]
        };
        for file in dia_files {
            let recs: Vec<PureRecord<PcSaftRecord>> = load(file);
            for (i, rec) in recs.iter().enumerate() {
                let name = rec.identifier.name.clone().unwrap_or_else(|| format!("#{i}"));
                let Ok(Ok(p)) = catch_unwind(AssertUnwindSafe(|| PcSaftParameters::new_pure(rec.clone()))) else { continue };
                let eos: Eos = Arc::new(ResidualModel::PcSaft(PcSaft::new(Arc::new(p))));
                let Some(cref) = reference_cp(&eos, None) else { continue };
                search_phase_diagram_pure(file, &name, &eos, &cref, if full { 11 } else { 6 }, full, &mut sr);
            }
        }
        {
            let file = "saftvrmie/lafitte2013.json";
            let recs: Vec<PureRecord<SaftVRMieRecord>> = load(file);
            for i in 0..recs.len() {
                let name = recs[i].identifier.name.clone().unwrap_or_else(|| format!("#{i}"));
                let Ok(Ok(p)) = catch_unwind(AssertUnwindSafe(|| SaftVRMieParameters::new_pure(recs[i].clone()))) else { continue };
                let eos: Eos = Arc::new(ResidualModel::SaftVRMie(SaftVRMie::new(Arc::new(p))));
                let facs: Vec<f64> = pick(T0_GRID.len(), if full { T0_GRID.len() } else { 2 }, &mut rng).into_iter().map(|j| T0_GRID[j]).collect();
                if let Some(cref) = search_pure(file, &name, &eos, &facs, &mut sr) {
                    let fr = if full { fracs(&mut rng) } else { vec![rng.range(0.5, 0.99)] };
                    search_spinodal_pure(file, &name, &eos, &cref, &fr, &mut sr);
                    search_phase_diagram_pure(file, &name, &eos, &cref, if full { 11 } else { 6 }, full, &mut sr);
                }
            }
        }
        // literal single-component configurations (PeTS, Peng-Robinson, gc-PC-SAFT, ...)
        for c in cfgs.iter().filter(|c| c.ncomp == 1 && !c.name.starts_with("pcsaft") && !c.name.starts_with("epcsaft")) {
            let facs: Vec<f64> = pick(T0_GRID.len(), nfac, &mut rng).into_iter().map(|j| T0_GRID[j]).collect();
            if let Some(cref) = search_pure("configs", &c.name, &c.model, &facs, &mut sr) {
                let fr = fracs(&mut rng);
                search_spinodal_pure("configs", &c.name, &c.model, &cref, &fr, &mut sr);
                search_phase_diagram_pure("configs", &c.name, &c.model, &cref, 6, true, &mut sr);
            }
        }
        // binary mixtures
        let mut bins: Vec<(String, Eos)> = Vec::new();
        for c in cfgs.iter().filter(|c| ["pr2", "pcsaft_propane_butane_kij", "pets2", "saftvrmie_ethane_butane"].contains(&c.name.as_str())) {
            bins.push((c.name.clone(), c.model.clone()));
        }
        let pairs: &[(&str, &str)] = if full {
            &[("methane", "ethane"), ("ethane", "propane"), ("propane", "pentane"), ("butane", "hexane"), ("pentane", "octane"),
              ("ethane", "butane"), ("hexane", "decane"), ("propane", "benzene")]
        } else {
            &[("ethane", "propane"), ("butane", "hexane")]
        };
        for (a, b) in pairs {
            let p = configs::pcsaft_params(&[a, b], "gross2001.json", None);
            // one-component subsets of the mixture with a binary interaction parameter vs the separately built pure models
            let pk: Eos = Arc::new(ResidualModel::PcSaft(PcSaft::new(Arc::new(configs::with_kij(&p, 0.04)))));
            let pures: Vec<Eos> = [a, b]
                .iter()
                .map(|c| Arc::new(ResidualModel::PcSaft(PcSaft::new(Arc::new(configs::pcsaft_params(&[c], "gross2001.json", None))))) as Eos)
                .collect();
            search_subset_vs_pure(&format!("pcsaft_{a}_{b}_kij0.04"), &pk, &pures, &mut sr);
            bins.push((format!("pcsaft_{a}_{b}"), Arc::new(ResidualModel::PcSaft(PcSaft::new(Arc::new(p))))));
        }
        for (name, eos) in &bins {
            search_subset_vs_pure(name, eos, &[], &mut sr);
        }
        for (name, eos) in &bins {
            search_binary(name, eos, full, &mut rng, &mut sr);
        }
    }

    // ---- C. Peng-Robinson
    if only.is_none() || only.as_deref() == Some("pr") {
        let mut g = Goals::new();
        search_pr(if full { 200 } else { 24 }, &mut rng, &mut sr, &mut g);
        files.push(("pr_triples.v".to_string(), g));
        let mut g = Goals::new();
        search_pr_mixture(if full { 80 } else { 10 }, &mut rng, &mut sr, &mut g);
        files.push(("pr_mixture_subsets.v".to_string(), g));
    }

    // ---- D. acceptance logs (stdout)
    if only.is_none() || only.as_deref() == Some("log") {
        acceptance_logs(&cfgs, full, &mut rng);
    }

    let mut goal_files = Vec::new();
    for (name, g) in &files {
        if g.meta.is_empty() {
            continue;
        }
        std::fs::write(format!("{}/{name}", cli.out), &g.text).unwrap();
        goal_files.push(json!({"file": name, "goals": g.meta}));
    }
    cli.write_impl(&json!({
        "goal_files": goal_files,
        "search": {"failures": sr.failures, "stats": sr.stats, "samples": sr.samples},
        "tolerances": {"objective_rel": OBJ_RTOL, "condition_abs": COND_TOL, "pspec_rel": PSPEC_RTOL, "pr_rel": PR_RTOL},
    }));
}
