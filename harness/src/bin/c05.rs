//! C05 — mixture equilibria.  Runs the REAL implementation and writes
//!  * rr_*.v      : differential cases for the hooked private `rachford_rice` vs. coq/theories/RachfordRiceC05.v
//!  * split_*.v   : the hooked private `update_states` (on real flashes) vs. the model `update_split`
//!  * res_*.v     : `interval` goals tying the Newton / adjust_x2 / flash residual formulas of BubbleDewC05.v to the
//!                  values returned by the real `TemperatureOrPressure::newton_step`, `adjust_x2`, and to the returned flashes
//!  * spec_*.v    : state-1 composition after each real transition vs. the state machine of BubbleDewC05.v
//!  * impl.json   : everything the implementation returned + the support search (public-API recomputation of the
//!                  equilibrium conditions at returned bubble/dew points and flashes of PC-SAFT hydrocarbon binaries).
use feos::pcsaft::{PcSaft, PcSaftParameters};
use feos_core::parameter::{IdentifierOption, Parameter};
use feos_core::{
    verif_adjust_x2, verif_rachford_rice, Contributions, DensityInitialization, EosError, PhaseEquilibrium,
    ReferenceSystem, SolverOptions, State, TemperatureOrPressure, Verbosity,
};
use feos_verif::configs::{self, Rng};
use feos_verif::prog::dyadic;
use ndarray::{arr1, Array1};
use quantity::{Moles, Pressure, Temperature};
use serde_json::{json, Value};
use std::panic::{catch_unwind, AssertUnwindSafe};
use std::sync::Arc;

type Eos = PcSaft;
type Vle = PhaseEquilibrium<Eos, 2>;

const N_HYDROCARBONS: usize = 51; // gross2001.json: methane .. biphenyl are the C/H-only records

fn dyl(xs: &[f64]) -> String {
    let v: Vec<String> = xs.iter().map(|x| dyadic(*x)).collect();
    format!("[{}]%Z", v.join("; "))
}

fn header(mods: &str) -> String {
    format!(
        "From Coq Require Import Reals List ZArith QArith String.\nFrom FeosVerif Require Import {mods}.\nImport ListNotations.\nOpen Scope string_scope.\nSet Printing Width 1000000.\nSet Printing Depth 1000000.\n"
    )
}

fn err_kind(e: &EosError) -> String {
    match e {
        EosError::NotConverged(s) => format!("NotConverged({s})"),
        EosError::IterationFailed(s) => format!("IterationFailed({s})"),
        EosError::TrivialSolution => "TrivialSolution".into(),
        EosError::NoPhaseSplit => "NoPhaseSplit".into(),
        EosError::UndeterminedState(s) => format!("UndeterminedState({s})"),
        other => format!("{other}"),
    }
}

// ------------------------------------------------------------------------------------------------
// A. rachford_rice differential cases

struct RrCase {
    z: Vec<f64>,
    k: Vec<f64>,
    b0: Option<f64>,
    class: &'static str,
}

fn gen_rr_case(rng: &mut Rng) -> RrCase {
    let n = [2usize, 2, 3, 3, 4, 6][rng.below(6)];
    // feed mole fractions: normalised in f64 (as State::molefracs is), sometimes with a vanishing component
    let mut z: Vec<f64> = (0..n).map(|_| rng.range(0.02, 1.0)).collect();
    let zmode = rng.below(10);
    if zmode == 0 {
        z[rng.below(n)] = 0.0;
    } else if zmode == 1 {
        z[rng.below(n)] = rng.log_range(1e-12, 1e-4);
    }
    let s: f64 = z.iter().sum();
    z.iter_mut().for_each(|x| *x /= s);
    let mode = rng.below(12);
    let mut k: Vec<f64>;
    let class;
    match mode {
        0..=4 => {
            // generic two-phase-like K: some above, some below one
            class = "generic";
            k = (0..n).map(|_| rng.log_range(0.05, 20.0)).collect();
            let i = rng.below(n);
            let j = (i + 1 + rng.below(n - 1)) % n;
            k[i] = rng.log_range(1.05, 50.0);
            k[j] = rng.log_range(0.01, 0.95);
        }
        5 => {
            // close to the trivial solution
            class = "near_one";
            k = (0..n).map(|_| 1.0 + rng.range(-1e-3, 1e-3)).collect();
        }
        6 => {
            // non-volatile component(s): K = 0 exactly
            class = "k_zero";
            k = (0..n).map(|_| rng.log_range(0.2, 30.0)).collect();
            k[rng.below(n)] = 0.0;
            let j = rng.below(n);
            if k[j] != 0.0 {
                k[j] = rng.log_range(2.0, 100.0);
            }
        }
        7 => {
            // K = 1 exactly for one component
            class = "k_one";
            k = (0..n).map(|_| rng.log_range(0.05, 20.0)).collect();
            k[rng.below(n)] = 1.0;
        }
        8 => {
            class = "k_huge";
            k = (0..n).map(|_| rng.log_range(1e-3, 5.0)).collect();
            k[rng.below(n)] = rng.log_range(1e6, 1e30);
            let j = rng.below(n);
            if k[j] < 1e5 {
                k[j] = rng.log_range(1e-30, 1e-6);
            }
        }
        9 => {
            // no solution: all K on one side of one
            class = "one_sided";
            let up = rng.below(2) == 0;
            k = (0..n).map(|_| if up { rng.log_range(1.0, 30.0) } else { rng.log_range(0.02, 1.0) }).collect();
        }
        10 => {
            // borderline existence: scale K so that sum z K (or sum z / K) is close to one
            class = "borderline";
            k = (0..n).map(|_| rng.log_range(0.2, 5.0)).collect();
            let szk: f64 = z.iter().zip(&k).map(|(a, b)| a * b).sum();
            let f = (1.0 + rng.range(-0.02, 0.02)) / szk;
            k.iter_mut().for_each(|x| *x *= f);
        }
        _ => {
            class = "wide";
            k = (0..n).map(|_| rng.log_range(1e-4, 1e4)).collect();
        }
    }
    let b0 = match rng.below(5) {
        0 => None,
        1 => Some(rng.range(-0.2, 1.2)),
        2 => Some([0.0, 1.0, 0.5][rng.below(3)]),
        _ => Some(rng.range(0.0, 1.0)),
    };
    RrCase { z, k, b0, class }
}

fn run_rr(c: &RrCase) -> Value {
    let z = Array1::from_vec(c.z.clone());
    let k = Array1::from_vec(c.k.clone());
    match catch_unwind(AssertUnwindSafe(|| verif_rachford_rice(&z, &k, c.b0))) {
        Ok(Ok(b)) if b.is_finite() => json!({"kind": "ok", "beta": b}),
        Ok(Ok(_)) => json!({"kind": "nan"}),
        Ok(Err(e)) => json!({"kind": "err", "err": err_kind(&e)}),
        Err(_) => json!({"kind": "panic"}),
    }
}

fn emit_rr(out: &str, idx: usize, cases: &[RrCase], results: &[Value]) {
    let mut v = header("RachfordRiceC05");
    v.push_str("Definition cases : list rr_case := [\n");
    let items: Vec<String> = cases
        .iter()
        .zip(results)
        .map(|(c, r)| {
            format!(
                "  ((({}, {}), {}), {})",
                dyl(&c.z),
                dyl(&c.k),
                match c.b0 {
                    Some(b) => format!("Some {}%Z", dyadic(b)),
                    None => "None".into(),
                },
                match r["beta"].as_f64() {
                    Some(b) => format!("Some {}%Z", dyadic(b)),
                    None => "None".into(),
                }
            )
        })
        .collect();
    v.push_str(&items.join(";\n"));
    v.push_str("\n].\nEval vm_compute in (\"RR\", map run_rr_case cases).\n");
    std::fs::write(format!("{out}/rr_{idx}.v"), v).unwrap();
}

// ------------------------------------------------------------------------------------------------
// systems

struct Sys {
    names: [String; 2],
    eos: Arc<Eos>,
    tc: [f64; 2],
}

fn hydrocarbon_names() -> Vec<String> {
    let path = format!("{}/pcsaft/gross2001.json", configs::params());
    let txt = std::fs::read_to_string(path).unwrap();
    let v: Value = serde_json::from_str(&txt).unwrap();
    let names: Vec<String> =
        v.as_array().unwrap().iter().map(|r| r["identifier"]["name"].as_str().unwrap().to_string()).collect();
    assert_eq!(names[N_HYDROCARBONS - 1], "biphenyl");
    assert_eq!(names[N_HYDROCARBONS], "carbon monoxide");
    names[..N_HYDROCARBONS].to_vec()
}

fn pure_tc(name: &str) -> Option<f64> {
    let p = PcSaftParameters::from_json(
        vec![name],
        format!("{}/pcsaft/gross2001.json", configs::params()),
        None,
        IdentifierOption::Name,
    )
    .ok()?;
    let eos = Arc::new(PcSaft::new(Arc::new(p)));
    let cp = State::critical_point(&eos, None, None, SolverOptions::default()).ok()?;
    Some(cp.temperature.to_reduced())
}

fn mk_sys(a: &str, b: &str, tca: f64, tcb: f64) -> Sys {
    let p = PcSaftParameters::from_json(
        vec![a, b],
        format!("{}/pcsaft/gross2001.json", configs::params()),
        None,
        IdentifierOption::Name,
    )
    .unwrap();
    Sys { names: [a.to_string(), b.to_string()], eos: Arc::new(PcSaft::new(Arc::new(p))), tc: [tca, tcb] }
}

// ------------------------------------------------------------------------------------------------
// D. public-API recomputation of the equilibrium conditions (support search + oracle of the mutation search)

/// tolerances (reduced units; see notes/C05.md)
const TOL_LNF: f64 = 1e-7; // |ln f_i^V - ln f_i^L|; solver acceptance: flash ||.||_2 < 1e-8, bubble/dew 1e-10 (reduced mu) / T
const TOL_P_REL: f64 = 1e-8; // |p_V - p_L| <= TOL_P_REL * p + TOL_P_ABS, same for |p_k - p_spec|
const TOL_P_ABS: f64 = 1e-9; // reduced units (K/A^3); the bubble/dew Newton accepts ||(dmu, dp)||_2 < 1e-10 in these units
const MIN_ENVELOPE: f64 = 1e-6; // a flash "strictly inside" needs (p_bubble - p_dew) > MIN_ENVELOPE * p_bubble (100 x the pressure tolerance)
const TOL_X: f64 = 1e-12; // specified composition / feed balance (relative); pure round-off of unit conversions
const MIN_DISTINCT: f64 = 1e-5; // the code's own TRIVIAL_REL_DEVIATION on partial densities

fn ln_fug(s: &State<Eos>) -> Vec<f64> {
    let lnphi = s.ln_phi();
    let p = s.pressure(Contributions::Total).to_reduced();
    (0..lnphi.len()).map(|i| s.molefracs[i].ln() + lnphi[i] + p.ln()).collect()
}

fn phase_json(s: &State<Eos>) -> Value {
    json!({"T": s.temperature.to_reduced(), "p": s.pressure(Contributions::Total).to_reduced(),
           "rho": s.density.to_reduced(), "x": s.molefracs.to_vec(), "moles": s.moles.to_reduced().to_vec()})
}

/// conditions every returned 2-phase result must satisfy; returns (list of broken conditions, metrics)
fn common_checks(vle: &Vle, t: f64, worst: &mut Worst) -> Vec<String> {
    common_checks_tol(vle, Some(t), worst, Tol { lnf: TOL_LNF, p_abs: TOL_P_ABS, strict_roles: true })
}

fn common_checks_opt(vle: &Vle, t: Option<f64>, worst: &mut Worst) -> Vec<String> {
    common_checks_tol(vle, t, worst, Tol { lnf: TOL_LNF, p_abs: TOL_P_ABS, strict_roles: true })
}

/// tolerances derived from the REQUESTED solver tolerance (the property quantifies over solver option pairs)
#[derive(Clone, Copy)]
struct Tol {
    lnf: f64,
    p_abs: f64,
    strict_roles: bool,
}
impl Tol {
    /// bubble/dew: the outer loop accepts err_out < tol_outer, where err_out is sum|K x1/x2 - 1| (=> |dln f| ~ tol) or the
    /// Newton residual norm in reduced units (=> |dln f| < tol / T, |dp| < tol); factor 10 + round-off floor 1e-10
    fn bubble_dew(tol_outer: f64) -> Tol {
        Tol { lnf: 10.0 * tol_outer + 1e-10, p_abs: TOL_P_ABS + 10.0 * tol_outer, strict_roles: true }
    }
    /// Tp flash: the returned state is the one whose residual norm was tested: |dln f_i| < tol (+ round-off floor)
    fn flash(tol: f64) -> Tol {
        Tol { lnf: tol + 1e-10, p_abs: TOL_P_ABS, strict_roles: true }
    }
}

fn common_checks_tol(vle: &Vle, t: Option<f64>, worst: &mut Worst, tol: Tol) -> Vec<String> {
    let mut bad = Vec::new();
    let (v, l) = (vle.vapor(), vle.liquid());
    let (tv, tl) = (v.temperature.to_reduced(), l.temperature.to_reduced());
    if tv != tl {
        bad.push(format!("phases have different temperatures {tv} {tl}"));
    }
    if let Some(t) = t {
        if tv != t {
            bad.push(format!("temperature {tv} differs from the specified {t}"));
        }
    }
    let (pv, pl) = (v.pressure(Contributions::Total).to_reduced(), l.pressure(Contributions::Total).to_reduced());
    let dp = ((pv - pl).abs() - tol.p_abs).max(0.0) / pv.abs().max(pl.abs());
    worst.dp = worst.dp.max(dp);
    worst.dp_abs = worst.dp_abs.max((pv - pl).abs());
    if !(dp <= TOL_P_REL) {
        bad.push(format!("phase pressures differ: {pv} {pl}"));
    }
    let (fv, fl) = (ln_fug(v), ln_fug(l));
    for i in 0..fv.len() {
        if v.molefracs[i] == 0.0 || l.molefracs[i] == 0.0 {
            continue;
        }
        let d = (fv[i] - fl[i]).abs();
        worst.lnf = worst.lnf.max(d);
        // the solvers test fugacity COEFFICIENTS assuming a common pressure; the phase pressures themselves agree only to the
        // accuracy of the density iteration (checked separately above), which enters ln f = ln x + ln phi + ln p directly
        let allowed = tol.lnf + (pv / pl).ln().abs();
        worst.lnf_ratio = worst.lnf_ratio.max(d / allowed);
        if !(d <= allowed) {
            bad.push(format!("fugacity of component {i} differs: ln f_V = {}, ln f_L = {} (|difference| {:e} > {:e} allowed for the requested solver tolerance)", fv[i], fl[i], d, allowed));
        }
    }
    let rv = v.partial_density.to_reduced();
    let rl = l.partial_density.to_reduced();
    let dist = rv.iter().zip(rl.iter()).fold(0.0f64, |a, (x, y)| (y / x - 1.0).abs().max(a));
    worst.min_dist = worst.min_dist.min(dist);
    if !(dist >= MIN_DISTINCT) {
        bad.push(format!("phases are copies of each other (max rel. partial density deviation {dist})"));
    }
    if !(v.density.to_reduced() < l.density.to_reduced()) {
        // not a clause of the property text: enforced for the default-option drivers (where it always holds on the unchanged
        // tree), only counted for the non-default option pairs (observation in notes/C05.md: a dew-point call can converge to
        // the bubble-point equilibrium of the same composition)
        if tol.strict_roles {
            bad.push("vapor() is not the lighter phase".into());
        } else {
            worst.role_swapped += 1;
        }
    }
    bad
}

#[derive(Default)]
struct Worst {
    dp: f64,
    lnf: f64,
    min_dist: f64,
    dx: f64,
    dbal: f64,
    dpspec: f64,
    dp_abs: f64,
    lnf_ratio: f64,
    role_swapped: usize,
    narrow: usize,
    variants: std::collections::BTreeMap<String, [usize; 2]>,
    /// attempted/found: p-specified bubble points, flashes from an initial state, diagram states checked, diagrams failed
    extra: [usize; 6],
}

fn run_guard<T>(f: impl FnOnce() -> Result<T, EosError>) -> Result<T, String> {
    match catch_unwind(AssertUnwindSafe(f)) {
        Ok(Ok(v)) => Ok(v),
        Ok(Err(e)) => Err(err_kind(&e)),
        Err(_) => Err("panic".into()),
    }
}

struct PointResult {
    failures: Vec<Value>,
    bubble: Option<Vle>,
    flash: Option<(Vle, State<Eos>)>,
}

/// bubble point, dew point (specified T) and a flash strictly inside the envelope at (T, z = x)
fn check_point(sys: &Sys, t: f64, x: f64, s: f64, ntot: f64, worst: &mut Worst, counts: &mut [usize; 6]) -> PointResult {
    let mut failures = Vec::new();
    let spec = arr1(&[x, 1.0 - x]);
    let temp = Temperature::from_reduced(t);
    let key = |kind: &str| json!({"pair": sys.names, "kind": kind, "T": t, "x": x});
    let mut fail = |kind: &str, what: String, extra: Value| {
        failures.push(json!({"key": key(kind), "what": what, "detail": extra, "Tc": sys.tc, "s": s, "ntot": ntot}));
    };
    // ---- bubble point
    counts[0] += 1;
    let bub = run_guard(|| Vle::bubble_point(&sys.eos, temp, &spec, None, None, Default::default()));
    let mut pb = None;
    match &bub {
        Ok(vle) => {
            counts[1] += 1;
            let mut bad = common_checks_tol(vle, Some(t), worst, Tol::bubble_dew(1e-10));
            let dx = (0..2).map(|i| (vle.liquid().molefracs[i] - spec[i]).abs()).fold(0.0, f64::max);
            worst.dx = worst.dx.max(dx);
            if !(dx <= TOL_X) {
                bad.push(format!("liquid composition {:?} is not the specified {:?}", vle.liquid().molefracs.to_vec(), spec.to_vec()));
            }
            pb = Some(vle.liquid().pressure(Contributions::Total).to_reduced());
            if !bad.is_empty() {
                fail("bubble", bad.join("; "), json!({"vapor": phase_json(vle.vapor()), "liquid": phase_json(vle.liquid())}));
            }
        }
        Err(e) => fail("bubble", format!("bubble point not found inside the stated window: {e}"), json!({"error": e})),
    }
    // ---- the same bubble point with the pressure specified (start 1 % off in temperature)
    if let (Some(pbv), Ok(_)) = (pb, &bub) {
        worst.extra[0] += 1;
        let t0 = Temperature::from_reduced(t * if s < 0.5 { 0.99 } else { 1.01 });
        match run_guard(|| Vle::bubble_point(&sys.eos, Pressure::from_reduced(pbv), &spec, Some(t0), None, Default::default())) {
            Ok(vle) => {
                worst.extra[1] += 1;
                let mut bad = common_checks_tol(&vle, None, worst, Tol::bubble_dew(1e-10));
                let dx = (0..2).map(|i| (vle.liquid().molefracs[i] - spec[i]).abs()).fold(0.0, f64::max);
                worst.dx = worst.dx.max(dx);
                if !(dx <= TOL_X) {
                    bad.push(format!("liquid composition {:?} is not the specified {:?}", vle.liquid().molefracs.to_vec(), spec.to_vec()));
                }
                for (nm, ph) in [("vapor", vle.vapor()), ("liquid", vle.liquid())] {
                    let pk = ph.pressure(Contributions::Total).to_reduced();
                    let d = ((pk - pbv).abs() - TOL_P_ABS).max(0.0) / pbv;
                    worst.dpspec = worst.dpspec.max(d);
                    if !(d <= TOL_P_REL) {
                        bad.push(format!("{nm} pressure {pk} is not the specified {pbv}"));
                    }
                }
                let tt = vle.liquid().temperature.to_reduced();
                if !((tt - t).abs() <= 1e-6 * t) {
                    bad.push(format!("bubble temperature {tt} at the bubble pressure of {t} K"));
                }
                if !bad.is_empty() {
                    fail("bubble_p", bad.join("; "), json!({"p_spec": pbv, "vapor": phase_json(vle.vapor()), "liquid": phase_json(vle.liquid())}));
                }
            }
            Err(e) => fail("bubble_p", format!("bubble point at specified pressure {pbv} (start {} K) not found: {e}", t0.to_reduced()), json!({"error": e})),
        }
    }
    // ---- dew point
    counts[2] += 1;
    let dew = run_guard(|| Vle::dew_point(&sys.eos, temp, &spec, None, None, Default::default()));
    let mut pd = None;
    match &dew {
        Ok(vle) => {
            counts[3] += 1;
            let mut bad = common_checks_tol(vle, Some(t), worst, Tol::bubble_dew(1e-10));
            let dx = (0..2).map(|i| (vle.vapor().molefracs[i] - spec[i]).abs()).fold(0.0, f64::max);
            worst.dx = worst.dx.max(dx);
            if !(dx <= TOL_X) {
                bad.push(format!("vapor composition {:?} is not the specified {:?}", vle.vapor().molefracs.to_vec(), spec.to_vec()));
            }
            pd = Some(vle.vapor().pressure(Contributions::Total).to_reduced());
            if !bad.is_empty() {
                fail("dew", bad.join("; "), json!({"vapor": phase_json(vle.vapor()), "liquid": phase_json(vle.liquid())}));
            }
        }
        Err(e) => fail("dew", format!("dew point not found inside the stated window: {e}"), json!({"error": e})),
    }
    // ---- bubble pressure >= dew pressure, flash strictly inside
    let mut flash_out = None;
    if let (Some(pb), Some(pd)) = (pb, pd) {
        if !(pb >= pd * (1.0 - 1e-9)) {
            fail("bubble_ge_dew", format!("bubble pressure {pb} is below the dew pressure {pd}"), json!({"p_bubble": pb, "p_dew": pd}));
        } else if !(pb - pd > MIN_ENVELOPE * pb) {
            worst.narrow += 1; // (near-)azeotropic composition: envelope narrower than the pressure tolerance, no flash attempted
        } else {
            counts[4] += 1;
            let p = pd + s * (pb - pd);
            let feed = Moles::from_reduced(arr1(&[x * ntot, (1.0 - x) * ntot]));
            let fopt = if std::env::var("C05_VERBOSE").is_ok() { SolverOptions::default().verbosity(Verbosity::Iter) } else { SolverOptions::default() };
            let fl = run_guard(|| Vle::tp_flash(&sys.eos, temp, Pressure::from_reduced(p), &feed, None, fopt, None));
            match fl {
                Ok(vle) => {
                    counts[5] += 1;
                    let mut bad = common_checks_tol(&vle, Some(t), worst, Tol::flash(1e-8));
                    for (nm, ph) in [("vapor", vle.vapor()), ("liquid", vle.liquid())] {
                        let pk = ph.pressure(Contributions::Total).to_reduced();
                        let d = ((pk - p).abs() - TOL_P_ABS).max(0.0) / p;
                        worst.dpspec = worst.dpspec.max(d);
                        if !(d <= TOL_P_REL) {
                            bad.push(format!("{nm} pressure {pk} is not the specified {p}"));
                        }
                    }
                    let fr = feed.to_reduced();
                    let (nv, nl) = (vle.vapor().moles.to_reduced(), vle.liquid().moles.to_reduced());
                    for i in 0..2 {
                        let d = (nv[i] + nl[i] - fr[i]).abs() / fr.sum();
                        worst.dbal = worst.dbal.max(d);
                        if !(d <= TOL_X) {
                            bad.push(format!("feed of component {i} not conserved: v+l = {}, feed = {}", nv[i] + nl[i], fr[i]));
                        }
                        if !(nv[i] >= 0.0 && nl[i] >= 0.0) {
                            bad.push(format!("negative phase amount of component {i}"));
                        }
                    }
                    if !bad.is_empty() {
                        fail("flash", bad.join("; "), json!({"p": p, "p_bubble": pb, "p_dew": pd, "feed": fr.to_vec(),
                            "vapor": phase_json(vle.vapor()), "liquid": phase_json(vle.liquid())}));
                    }
                    // second flash started from the first result at another pressure inside the envelope (update_pressure path)
                    let p2 = pd + (1.0 - s) * (pb - pd);
                    worst.extra[2] += 1;
                    match run_guard(|| Vle::tp_flash(&sys.eos, temp, Pressure::from_reduced(p2), &feed, Some(&vle), Default::default(), None)) {
                        Ok(v2) => {
                            worst.extra[3] += 1;
                            let mut bad = common_checks_tol(&v2, Some(t), worst, Tol::flash(1e-8));
                            let (nv, nl) = (v2.vapor().moles.to_reduced(), v2.liquid().moles.to_reduced());
                            for i in 0..2 {
                                let d = (nv[i] + nl[i] - fr[i]).abs() / fr.sum();
                                worst.dbal = worst.dbal.max(d);
                                if !(d <= TOL_X) {
                                    bad.push(format!("feed of component {i} not conserved: v+l = {}, feed = {}", nv[i] + nl[i], fr[i]));
                                }
                            }
                            for (nm, ph) in [("vapor", v2.vapor()), ("liquid", v2.liquid())] {
                                let pk = ph.pressure(Contributions::Total).to_reduced();
                                if !(((pk - p2).abs() - TOL_P_ABS).max(0.0) / p2 <= TOL_P_REL) {
                                    bad.push(format!("{nm} pressure {pk} is not the specified {p2}"));
                                }
                            }
                            if !bad.is_empty() {
                                fail("flash_init", bad.join("; "), json!({"p": p2, "vapor": phase_json(v2.vapor()), "liquid": phase_json(v2.liquid())}));
                            }
                        }
                        Err(e) => fail("flash_init", format!("flash at p_dew + {:.3} (p_bubble - p_dew) started from the flash result at p_dew + {s:.3} (..) not found: {e}", 1.0 - s), json!({"error": e, "p": p2})),
                    }
                    if let Ok(fs) = State::new_npt(&sys.eos, temp, Pressure::from_reduced(p), &feed, DensityInitialization::None) {
                        flash_out = Some((vle, fs));
                    }
                }
                Err(e) => {
                    // signature of the recorded defect class: the feed is the vapour-like root and the stability analysis
                    // offers only (much denser) liquid trial phases as start values
                    let mut sig = json!(null);
                    if let Ok(fs) = State::new_npt(&sys.eos, temp, Pressure::from_reduced(p), &feed, DensityInitialization::None) {
                        if let Ok(Ok(tr)) = catch_unwind(AssertUnwindSafe(|| fs.stability_analysis(SolverOptions::default()))) {
                            let rf = fs.density.to_reduced();
                            let only_liquid = !tr.is_empty() && tr.iter().all(|q| q.density.to_reduced() > 3.0 * rf);
                            sig = json!({"feed_density": rf, "trial_phase_densities": tr.iter().map(|q| q.density.to_reduced()).collect::<Vec<_>>(),
                                "class": if only_liquid && e.contains("IterationFailed(rachford_rice)") { "flash_rr_failed_stability_only_liquid_trials" } else { "other" }});
                        }
                    }
                    fail("flash", format!("flash strictly inside the envelope (p = p_dew + {s:.3} (p_bubble - p_dew)) not found: {e}"),
                         json!({"error": e, "p": p, "p_bubble": pb, "p_dew": pd, "signature": sig}))
                }
            }
        }
    }
    if let (Ok(b), Ok(d), Some(pbv), Some(pdv)) = (&bub, &dew, pb, pd) {
        let extra = variants(sys, t, x, s, ntot, pbv, pdv, b, d, flash_out.as_ref().map(|f| &f.0), worst);
        failures.extend(extra);
    }
    PointResult { failures, bubble: bub.ok(), flash: flash_out }
}

/// feed balance + specified pressure of a flash result
fn flash_spec_checks(vle: &Vle, p: f64, fr: &Array1<f64>, worst: &mut Worst, bad: &mut Vec<String>) {
    let (nv, nl) = (vle.vapor().moles.to_reduced(), vle.liquid().moles.to_reduced());
    for i in 0..fr.len() {
        let d = (nv[i] + nl[i] - fr[i]).abs() / fr.sum();
        worst.dbal = worst.dbal.max(d);
        if !(d <= TOL_X) {
            bad.push(format!("feed of component {i} not conserved: v+l = {}, feed = {}", nv[i] + nl[i], fr[i]));
        }
        if !(nv[i] >= 0.0 && nl[i] >= 0.0) {
            bad.push(format!("negative phase amount of component {i}"));
        }
    }
    for (nm, ph) in [("vapor", vle.vapor()), ("liquid", vle.liquid())] {
        let pk = ph.pressure(Contributions::Total).to_reduced();
        let d = ((pk - p).abs() - TOL_P_ABS).max(0.0) / p;
        worst.dpspec = worst.dpspec.max(d);
        if !(d <= TOL_P_REL) {
            bad.push(format!("{nm} pressure {pk} is not the specified {p}"));
        }
    }
}

/// Guess / option / specification variants of the drivers at the same point (the property quantifies over "all initial
/// guesses and solver option pairs").  Every RETURNED result must satisfy the conditions, with the isofugacity bound
/// derived from the REQUESTED tolerance, the specified T exactly and the specified p to tolerance.  Variants whose start
/// is a converged neighbour (`must`) also have to be found; for the others an error is only counted.
/// All random choices derive from (T, x, s) so that `--point` replays them.
#[allow(clippy::too_many_arguments)]
fn variants(sys: &Sys, t: f64, x: f64, s: f64, ntot: f64, pb: f64, pd: f64, bub: &Vle, dew: &Vle, flash: Option<&Vle>, worst: &mut Worst) -> Vec<Value> {
    let mut failures = Vec::new();
    let mut rng = Rng(t.to_bits() ^ x.to_bits().rotate_left(17) ^ s.to_bits().rotate_left(31));
    let spec = arr1(&[x, 1.0 - x]);
    let temp = Temperature::from_reduced(t);
    let mut record = |worst: &mut Worst, kind: &str, res: Result<Vec<String>, String>, must: bool, detail: Value| {
        let e = worst.variants.entry(kind.to_string()).or_insert([0, 0]);
        e[0] += 1;
        match res {
            Ok(bad) => {
                e[1] += 1;
                if !bad.is_empty() {
                    failures.push(json!({"key": {"pair": sys.names, "kind": kind, "T": t, "x": x}, "what": bad.join("; "), "detail": detail, "Tc": sys.tc, "s": s, "ntot": ntot}));
                }
            }
            Err(err) => {
                if must {
                    failures.push(json!({"key": {"pair": sys.names, "kind": kind, "T": t, "x": x}, "what": format!("{kind}: not found although started from a converged neighbouring equilibrium: {err}"),
                        "detail": detail, "Tc": sys.tc, "s": s, "ntot": ntot}));
                }
            }
        }
    };
    // ---------------- bubble / dew points with non-default, asymmetric option pairs (inner, outer)
    let opt_cases: [(&str, SolverOptions, SolverOptions, f64); 6] = [
        ("inner_tol_1e-2", SolverOptions::new().tol(1e-2), SolverOptions::default(), 1e-10),
        ("inner_tol_1e-4_outer_tol_1e-12", SolverOptions::new().tol(1e-4), SolverOptions::new().tol(1e-12), 1e-12),
        ("outer_tol_1e-6", SolverOptions::default(), SolverOptions::new().tol(1e-6), 1e-6),
        ("inner_max_iter_1", SolverOptions::new().max_iter(1), SolverOptions::default(), 1e-10),
        ("inner_tol_1e-13_outer_tol_1e-5", SolverOptions::new().tol(1e-13), SolverOptions::new().tol(1e-5), 1e-5),
        ("inner_max_iter_2_tol_1e-1_outer_max_iter_100", SolverOptions::new().max_iter(2).tol(1e-1), SolverOptions::new().max_iter(100), 1e-10),
    ];
    let y_b = bub.vapor().molefracs.clone();
    let x_d = dew.liquid().molefracs.clone();
    let t_off = Temperature::from_reduced(t * if rng.below(2) == 0 { 0.99 } else { 1.01 });
    for k in 0..2 {
        let (nm, oi, oo, tol_o) = opt_cases[(rng.below(3) + 3 * k) % 6];
        let tol = Tol { strict_roles: false, ..Tol::bubble_dew(tol_o) };
        for drv in 0..4 {
            let kind = format!("{}_opts:{nm}", ["bubble_T", "dew_T", "bubble_p", "dew_p"][drv]);
            let r = run_guard(|| match drv {
                0 => Vle::bubble_point(&sys.eos, temp, &spec, None, None, (oi, oo)),
                1 => Vle::dew_point(&sys.eos, temp, &spec, None, None, (oi, oo)),
                2 => Vle::bubble_point(&sys.eos, Pressure::from_reduced(pb), &spec, Some(t_off), None, (oi, oo)),
                _ => Vle::dew_point(&sys.eos, Pressure::from_reduced(pd), &spec, Some(t_off), None, (oi, oo)),
            });
            let detail = json!({"options": nm, "requested_outer_tolerance": tol_o, "allowed_ln_f_difference": tol.lnf});
            let res = r.map(|vle| {
                let mut bad = common_checks_tol(&vle, if drv < 2 { Some(t) } else { None }, worst, tol);
                let ph = if drv % 2 == 0 { vle.liquid() } else { vle.vapor() };
                let dx = (0..2).map(|i| (ph.molefracs[i] - spec[i]).abs()).fold(0.0, f64::max);
                worst.dx = worst.dx.max(dx);
                if !(dx <= TOL_X) {
                    bad.push(format!("composition {:?} of the specified phase is not the specified {:?}", ph.molefracs.to_vec(), spec.to_vec()));
                }
                if drv >= 2 {
                    let psp = if drv == 2 { pb } else { pd };
                    for (pn, q) in [("vapor", vle.vapor()), ("liquid", vle.liquid())] {
                        let pk = q.pressure(Contributions::Total).to_reduced();
                        if !(((pk - psp).abs() - tol.p_abs).max(0.0) / psp <= TOL_P_REL) {
                            bad.push(format!("{pn} pressure {pk} is not the specified {psp}"));
                        }
                    }
                }
                if !bad.is_empty() {
                    bad.push(format!("[returned vapor(): {}; liquid(): {}]", phase_json(vle.vapor()), phase_json(vle.liquid())));
                }
                bad
            });
            record(worst, &kind, res, false, detail);
        }
    }
    // ---------------- bubble / dew points started from guesses (neighbouring converged point, perturbed)
    {
        let f = 1.0 + rng.range(-0.1, 0.1);
        let yg = arr1(&[y_b[0] * (1.0 + rng.range(-0.1, 0.1)), y_b[1]]);
        let xg = arr1(&[x_d[0] * (1.0 + rng.range(-0.1, 0.1)), x_d[1]]);
        let tol = Tol::bubble_dew(1e-10);
        for drv in 0..6 {
            let kind = ["bubble_T_guess_p_y", "dew_T_guess_p_x", "bubble_T_guess_p", "dew_T_guess_x", "dew_p_guess_T", "dew_p_guess_T_x"][drv];
            let r = run_guard(|| match drv {
                0 => Vle::bubble_point(&sys.eos, temp, &spec, Some(Pressure::from_reduced(pb * f)), Some(&yg), Default::default()),
                1 => Vle::dew_point(&sys.eos, temp, &spec, Some(Pressure::from_reduced(pd * f)), Some(&xg), Default::default()),
                2 => Vle::bubble_point(&sys.eos, temp, &spec, Some(Pressure::from_reduced(pb * f)), None, Default::default()),
                3 => Vle::dew_point(&sys.eos, temp, &spec, None, Some(&xg), Default::default()),
                4 => Vle::dew_point(&sys.eos, Pressure::from_reduced(pd), &spec, Some(t_off), None, Default::default()),
                _ => Vle::dew_point(&sys.eos, Pressure::from_reduced(pd), &spec, Some(t_off), Some(&xg), Default::default()),
            });
            let res = r.map(|vle| {
                let mut bad = common_checks_tol(&vle, if drv < 4 { Some(t) } else { None }, worst, tol);
                let ph = if drv == 0 || drv == 2 { vle.liquid() } else { vle.vapor() };
                let dx = (0..2).map(|i| (ph.molefracs[i] - spec[i]).abs()).fold(0.0, f64::max);
                if !(dx <= TOL_X) {
                    bad.push(format!("composition {:?} of the specified phase is not the specified {:?}", ph.molefracs.to_vec(), spec.to_vec()));
                }
                let (pref, nm) = if drv == 0 || drv == 2 { (pb, "bubble") } else { (pd, "dew") };
                let pk = ph.pressure(Contributions::Total).to_reduced();
                if !(((pk - pref).abs() - tol.p_abs).max(0.0) / pref <= if drv < 4 { 1e-6 } else { TOL_P_REL }) {
                    bad.push(format!("{nm} pressure {pk} from the guess differs from {pref} (no guess / specified)"));
                }
                if drv >= 4 && !((ph.temperature.to_reduced() - t).abs() <= 1e-6 * t) {
                    bad.push(format!("dew temperature {} at the dew pressure of {t} K", ph.temperature.to_reduced()));
                }
                bad
            });
            record(worst, kind, res, true, json!({"p_factor": f, "t_init": t_off.to_reduced()}));
        }
    }
    // ---------------- bubble / dew points from POOR guesses (pressure off by a factor 0.5 .. 20, arbitrary composition guess):
    // such starts may legitimately fail (TrivialSolution / NotConverged), but whatever is RETURNED has to be an equilibrium of
    // two different phases with the specified composition in the specified phase
    {
        let tol = Tol { strict_roles: false, ..Tol::bubble_dew(1e-10) };
        let facs = [1.5, 2.5, 4.0, 8.0, 20.0, 0.5];
        let guesses: [Option<Array1<f64>>; 4] = [None, Some(arr1(&[0.5, 0.5])), Some(arr1(&[0.99, 0.01])), Some(arr1(&[0.01, 0.99]))];
        for k in 0..6 {
            let fac = facs[(k + rng.below(6)) % 6] * rng.range(0.9, 1.1);
            let g = &guesses[rng.below(4)];
            for bubble in [true, false] {
                let pref = if bubble { pb } else { pd };
                let kind = if bubble { "bubble_T_poor_guess" } else { "dew_T_poor_guess" };
                let r = run_guard(|| {
                    if bubble {
                        Vle::bubble_point(&sys.eos, temp, &spec, Some(Pressure::from_reduced(pref * fac)), g.as_ref(), Default::default())
                    } else {
                        Vle::dew_point(&sys.eos, temp, &spec, Some(Pressure::from_reduced(pref * fac)), g.as_ref(), Default::default())
                    }
                });
                let res = r.map(|vle| {
                    let mut bad = common_checks_tol(&vle, Some(t), worst, tol);
                    let ph = if bubble { vle.liquid() } else { vle.vapor() };
                    let dx = (0..2).map(|i| (ph.molefracs[i] - spec[i]).abs()).fold(0.0, f64::max);
                    if !(dx <= TOL_X) {
                        bad.push(format!("composition {:?} of the specified phase is not the specified {:?}", ph.molefracs.to_vec(), spec.to_vec()));
                    }
                    if !bad.is_empty() {
                        bad.push(format!("[returned vapor(): {}; liquid(): {}]", phase_json(vle.vapor()), phase_json(vle.liquid())));
                    }
                    bad
                });
                record(worst, kind, res, false, json!({"p_init": pref * fac, "p_init_over_true_pressure": fac, "composition_guess": g.as_ref().map(|a| a.to_vec())}));
            }
        }
        // pressure specified, temperature guess off by -15 .. +10 %
        for k in 0..2 {
            let tf = if k == 0 { rng.range(0.85, 0.95) } else { rng.range(1.04, 1.10) };
            let g = &guesses[rng.below(4)];
            for bubble in [true, false] {
                let pref = if bubble { pb } else { pd };
                let kind = if bubble { "bubble_p_poor_guess" } else { "dew_p_poor_guess" };
                let r = run_guard(|| {
                    if bubble {
                        Vle::bubble_point(&sys.eos, Pressure::from_reduced(pref), &spec, Some(Temperature::from_reduced(t * tf)), g.as_ref(), Default::default())
                    } else {
                        Vle::dew_point(&sys.eos, Pressure::from_reduced(pref), &spec, Some(Temperature::from_reduced(t * tf)), g.as_ref(), Default::default())
                    }
                });
                let mut sig = json!(null);
                let res = r.map(|vle| {
                    let mut bad = common_checks_tol(&vle, None, worst, tol);
                    let ph = if bubble { vle.liquid() } else { vle.vapor() };
                    let dx = (0..2).map(|i| (ph.molefracs[i] - spec[i]).abs()).fold(0.0, f64::max);
                    if !(dx <= TOL_X) {
                        bad.push(format!("composition {:?} of the specified phase is not the specified {:?}", ph.molefracs.to_vec(), spec.to_vec()));
                    }
                    let only_pressure = bad.is_empty();
                    let mut worst_dp = 0.0f64;
                    for q in [vle.vapor(), vle.liquid()] {
                        let pk = q.pressure(Contributions::Total).to_reduced();
                        worst_dp = worst_dp.max((pk - pref).abs() / pref);
                        if !(((pk - pref).abs() - tol.p_abs).max(0.0) / pref <= TOL_P_REL) {
                            bad.push(format!("pressure {pk} is not the specified {pref}"));
                        }
                    }
                    if !bad.is_empty() {
                        // signature of the recorded oddity: a NEAR-trivial root (phases 1e-5 .. 1e-3 apart) far from the start temperature,
                        // whose only defect is a pressure offset below 1e-6 relative
                        let rv = vle.vapor().partial_density.to_reduced();
                        let rl = vle.liquid().partial_density.to_reduced();
                        let dist = rv.iter().zip(rl.iter()).fold(0.0f64, |a, (x, y)| (y / x - 1.0).abs().max(a));
                        if only_pressure && dist < 1e-3 && worst_dp < 1e-6 {
                            sig = json!({"class": "near_trivial_root_from_poor_temperature_guess_pressure_offset", "phase_distance": dist, "rel_pressure_offset": worst_dp});
                        }
                        bad.push(format!("[returned vapor(): {}; liquid(): {}]", phase_json(vle.vapor()), phase_json(vle.liquid())));
                    }
                    bad
                });
                record(worst, kind, res, false, json!({"t_init": t * tf, "composition_guess": g.as_ref().map(|a| a.to_vec()), "signature": sig}));
            }
        }
    }
    // ---------------- flashes: other temperature / pressure than the initial state, State::tp_flash, options, drivers
    if let Some(fl0) = flash {
        let feed = Moles::from_reduced(arr1(&[x * ntot, (1.0 - x) * ntot]));
        let fr = feed.to_reduced();
        let p0 = pd + s * (pb - pd);
        let dt = rng.range(0.5, 3.0) * if rng.below(2) == 0 { 1.0 } else { -1.0 };
        let t2 = t + dt;
        let p2 = p0 * (1.0 + rng.range(-0.02, 0.02));
        // is (t2, p) / (t2, p2) still strictly inside the envelope?  (then the flash has to be found)
        let inside = |tt: f64, pp: f64| -> bool {
            let b = run_guard(|| Vle::bubble_point(&sys.eos, Temperature::from_reduced(tt), &spec, Some(Pressure::from_reduced(pb)), Some(&y_b), Default::default()));
            let d = run_guard(|| Vle::dew_point(&sys.eos, Temperature::from_reduced(tt), &spec, Some(Pressure::from_reduced(pd)), Some(&x_d), Default::default()));
            match (b, d) {
                (Ok(b), Ok(d)) => {
                    let (pbb, pdd) = (b.liquid().pressure(Contributions::Total).to_reduced(), d.vapor().pressure(Contributions::Total).to_reduced());
                    pp > pdd + 0.02 * (pbb - pdd) && pp < pbb - 0.02 * (pbb - pdd)
                }
                _ => false,
            }
        };
        let cases: [(&str, f64, f64, SolverOptions, f64, u8); 7] = [
            ("flash_init_other_T", t2, p0, SolverOptions::default(), 1e-8, 0),
            ("flash_init_other_T_p", t2, p2, SolverOptions::default(), 1e-8, 0),
            ("state_tp_flash_init_other_T", t2, p0, SolverOptions::default(), 1e-8, 1),
            ("flash_tol_1e-11", t, p0, SolverOptions::new().tol(1e-11).max_iter(1000), 1e-11, 2),
            ("flash_tol_1e-5", t, p0, SolverOptions::new().tol(1e-5), 1e-5, 2),
            ("flash_init_tol_1e-10_other_T", t2, p0, SolverOptions::new().tol(1e-10).max_iter(1000), 1e-10, 0),
            ("flash_nonvolatile_empty", t, p0, SolverOptions::default(), 1e-8, 3),
        ];
        for (kind, tt, pp, opt, tl, mode) in cases {
            let must = mode != 3 && (tt == t || inside(tt, pp));
            let r = run_guard(|| match mode {
                0 => Vle::tp_flash(&sys.eos, Temperature::from_reduced(tt), Pressure::from_reduced(pp), &feed, Some(fl0), opt, None),
                1 => State::new_npt(&sys.eos, Temperature::from_reduced(tt), Pressure::from_reduced(pp), &feed, DensityInitialization::None)?.tp_flash(Some(fl0), opt, None),
                2 => Vle::tp_flash(&sys.eos, Temperature::from_reduced(tt), Pressure::from_reduced(pp), &feed, None, opt, None),
                _ => Vle::tp_flash(&sys.eos, Temperature::from_reduced(tt), Pressure::from_reduced(pp), &feed, None, opt, Some(vec![])),
            });
            let res = r.map(|vle| {
                let mut bad = common_checks_tol(&vle, Some(tt), worst, Tol::flash(tl));
                flash_spec_checks(&vle, pp, &fr, worst, &mut bad);
                bad
            });
            record(worst, kind, res, must, json!({"T_flash": tt, "p_flash": pp, "T_initial_state": t, "p_initial_state": p0, "requested_tolerance": tl}));
        }
        // a guess that is an equilibrium at the same T and p but of ANOTHER feed on the same tie line: the returned amounts
        // have to be those of the actual feed
        {
            let (xl, yv) = (fl0.liquid().molefracs[0], fl0.vapor().molefracs[0]);
            let w = rng.range(0.1, 0.9);
            let z0 = xl + w * (yv - xl);
            let n2 = ntot * rng.range(0.5, 2.0);
            let feed2 = Moles::from_reduced(arr1(&[z0 * n2, (1.0 - z0) * n2]));
            let fr2 = feed2.to_reduced();
            for (kind, opt, tl) in [("flash_init_other_feed", SolverOptions::default(), 1e-8), ("flash_init_other_feed_tol_1e-6", SolverOptions::new().tol(1e-6), 1e-6)] {
                let r = run_guard(|| Vle::tp_flash(&sys.eos, temp, Pressure::from_reduced(p0), &feed2, Some(fl0), opt, None));
                let res = r.map(|vle| {
                    let mut bad = common_checks_tol(&vle, Some(t), worst, Tol::flash(tl));
                    flash_spec_checks(&vle, p0, &fr2, worst, &mut bad);
                    bad
                });
                record(worst, kind, res, true, json!({"feed": fr2.to_vec(), "feed_of_the_initial_state": fr.to_vec(), "p_flash": p0, "requested_tolerance": tl,
                    "initial_state_vapor_moles": fl0.vapor().moles.to_reduced().to_vec(), "initial_state_liquid_moles": fl0.liquid().moles.to_reduced().to_vec()}));
            }
        }
        // PhaseDiagram::lle = a chain of flashes, each started from the previous one: isobaric (T varies) and isothermal
        for iso_p in [true, false] {
            let n = 4usize;
            let kind = if iso_p { "lle_driver_isobaric" } else { "lle_driver_isothermal" };
            let (lo, hi) = if iso_p { (t.min(t2), t.max(t2)) } else { (pd + 0.2 * (pb - pd), pd + 0.8 * (pb - pd)) };
            let r = run_guard(|| {
                if iso_p {
                    feos_core::PhaseDiagram::lle(&sys.eos, Pressure::from_reduced(p0), &feed, Temperature::from_reduced(lo), Temperature::from_reduced(hi), Some(n))
                } else {
                    feos_core::PhaseDiagram::lle(&sys.eos, temp, &feed, Pressure::from_reduced(lo), Pressure::from_reduced(hi), Some(n))
                }
            });
            let res = r.map(|dia| {
                let mut bad = Vec::new();
                let grid: Vec<f64> = (0..n).map(|i| lo + (hi - lo) * i as f64 / (n - 1) as f64).collect();
                let mut last = f64::NEG_INFINITY;
                for vle in &dia.states {
                    let tv = vle.vapor().temperature.to_reduced();
                    let pv = vle.vapor().pressure(Contributions::Total).to_reduced();
                    let val = if iso_p { tv } else { pv };
                    // each returned state belongs to one grid value of the varied variable, in increasing order
                    let hit = grid.iter().any(|g| (val - g).abs() <= if iso_p { 1e-10 * g } else { TOL_P_REL * g + TOL_P_ABS });
                    if !hit || !(val > last) {
                        bad.push(format!("state at {} = {val} is not at a new point of the requested grid {grid:?}", if iso_p { "T" } else { "p" }));
                    }
                    last = val;
                    let mut b2 = common_checks_tol(vle, if iso_p { None } else { Some(t) }, worst, Tol::flash(1e-8));
                    let pspec = if iso_p { p0 } else { pv };
                    flash_spec_checks(vle, pspec, &fr, worst, &mut b2);
                    bad.extend(b2);
                }
                if iso_p && lo == t.min(t2) && dia.states.is_empty() {
                    bad.push("no state returned although the first/last grid point is a converged flash".into());
                }
                bad
            });
            record(worst, kind, res, false, json!({"grid_from": lo, "grid_to": hi, "p": p0, "isobaric": iso_p}));
        }
    }
    failures
}

// ------------------------------------------------------------------------------------------------
// B. update_states on real flashes

fn split_case(vle: &Vle, feed_state: &State<Eos>, k: &[f64]) -> (String, Value) {
    let z = feed_state.molefracs.to_vec();
    let n = feed_state.moles.to_reduced().to_vec();
    let beta_in = (vle.vapor().total_moles / (vle.vapor().total_moles + vle.liquid().total_moles)).into_value();
    let mut w = vle.clone();
    let karr = Array1::from_vec(k.to_vec());
    let r = catch_unwind(AssertUnwindSafe(|| w.verif_update_states(feed_state, &karr)));
    let imp = match r {
        Ok(Ok(())) => json!({"kind": "ok", "v": w.vapor().moles.to_reduced().to_vec(), "l": w.liquid().moles.to_reduced().to_vec(),
            "p_feed": feed_state.pressure(Contributions::Total).to_reduced(),
            "p_v": w.vapor().pressure(Contributions::Total).to_reduced(), "p_l": w.liquid().pressure(Contributions::Total).to_reduced(),
            "T_v": w.vapor().temperature.to_reduced(), "T_l": w.liquid().temperature.to_reduced(), "T_feed": feed_state.temperature.to_reduced()}),
        Ok(Err(e)) => json!({"kind": "err", "err": err_kind(&e)}),
        Err(_) => json!({"kind": "panic"}),
    };
    let coq = format!("((({}, {}), {}), {}%Z)", dyl(&z), dyl(&n), dyl(k), dyadic(beta_in));
    (coq, json!({"z": z, "n": n, "k": k, "beta_in": beta_in, "impl": imp}))
}

// ------------------------------------------------------------------------------------------------
// C. residual formulas: real newton_step / adjust_x2 / flash acceptance vs. the model (interval goals)

struct ResGoals {
    v: String,
    meta: Vec<Value>,
}

fn state_vectors(s: &State<Eos>) -> (Vec<f64>, Vec<f64>, f64, Vec<f64>, Vec<f64>) {
    (
        s.residual_chemical_potential().to_reduced().to_vec(),
        s.partial_density.to_reduced().to_vec(),
        s.pressure(Contributions::Total).to_reduced(),
        s.ln_phi().to_vec(),
        s.molefracs.to_vec(),
    )
}

fn rlist(xs: &[f64]) -> String {
    let v: Vec<String> = xs.iter().map(|x| format!("dy_R {}%Z", dyadic(*x))).collect();
    format!("[{}]", v.join("; "))
}

const RES_RTOL: f64 = 1e-9;

fn res_goals_for(g: &mut ResGoals, tag: &str, s1: &State<Eos>, s2: &State<Eos>, rng: &mut Rng) {
    let t = s1.temperature.to_reduced();
    let (mu1, rho1, p1, lnphi1, x1) = state_vectors(s1);
    let (mu2, rho2, p2, lnphi2, x2) = state_vectors(s2);
    let idx = g.meta.len();
    // T specified: real newton_step of `impl TemperatureOrPressure for Temperature`
    {
        let (mut a, mut b) = (s1.clone(), s2.clone());
        let mut p = s1.pressure(Contributions::Total);
        if let Ok(Ok(err)) = catch_unwind(AssertUnwindSafe(|| {
            <Temperature as TemperatureOrPressure>::newton_step(s1.temperature, &mut p, &mut a, &mut b, Verbosity::None)
        })) {
            g.v.push_str(&format!(
                "Goal Rabs (newton_err_T (dy_R {}%Z) {} {} {} {} (dy_R {}%Z) (dy_R {}%Z) - dy_R {}%Z) <= {:e}.\nProof. res_interval. Qed.\n",
                dyadic(t), rlist(&mu1), rlist(&mu2), rlist(&rho1), rlist(&rho2), dyadic(p1), dyadic(p2), dyadic(err), RES_RTOL * (1.0 + err.abs())
            ));
            g.meta.push(json!({"goal": idx, "kind": "newton_T", "tag": tag, "impl_error": err, "T": t, "p1": p1, "p2": p2,
                "x1_after": a.molefracs.to_vec(), "x1_before": x1, "T1_after": a.temperature.to_reduced()}));
        }
    }
    // p specified
    {
        let (mut a, mut b) = (s1.clone(), s2.clone());
        let pspec = 0.5 * (p1 + p2) * rng.range(0.98, 1.02);
        let mut tt = s1.temperature;
        if let Ok(Ok(err)) = catch_unwind(AssertUnwindSafe(|| {
            <Pressure as TemperatureOrPressure>::newton_step(Pressure::from_reduced(pspec), &mut tt, &mut a, &mut b, Verbosity::None)
        })) {
            g.v.push_str(&format!(
                "Goal Rabs (newton_err_p (dy_R {}%Z) {} {} {} {} (dy_R {}%Z) (dy_R {}%Z) (dy_R {}%Z) - dy_R {}%Z) <= {:e}.\nProof. res_interval. Qed.\n",
                dyadic(t), rlist(&mu1), rlist(&mu2), rlist(&rho1), rlist(&rho2), dyadic(p1), dyadic(p2), dyadic(pspec), dyadic(err), RES_RTOL * (1.0 + err.abs())
            ));
            g.meta.push(json!({"goal": g.meta.len(), "kind": "newton_p", "tag": tag, "impl_error": err, "T": t, "p_spec": pspec,
                "x1_after": a.molefracs.to_vec(), "x1_before": x1, "T_equal_after": a.temperature.to_reduced() == b.temperature.to_reduced()}));
        }
    }
    // adjust_x2 (hook) — needs equal T; uses ln phi at the states' own pressures
    {
        let mut b = s2.clone();
        if let Ok(Ok(err)) = catch_unwind(AssertUnwindSafe(|| verif_adjust_x2(s1, &mut b))) {
            g.v.push_str(&format!(
                "Goal Rabs (adjust_x2_err {} {} {} {} - dy_R {}%Z) <= {:e}.\nProof. res_interval. Qed.\n",
                rlist(&lnphi1), rlist(&lnphi2), rlist(&x1), rlist(&x2), dyadic(err), RES_RTOL * (1.0 + err.abs())
            ));
            let x2new = b.molefracs.to_vec();
            for i in 0..x2new.len() {
                g.v.push_str(&format!(
                    "Goal Rabs (nth {i} (adjust_x2_new {} {} {}) 0 - dy_R {}%Z) <= {:e}.\nProof. res_interval. Qed.\n",
                    rlist(&lnphi1), rlist(&lnphi2), rlist(&x1), dyadic(x2new[i]), 1e-12
                ));
            }
            g.meta.push(json!({"goal": g.meta.len(), "kind": "adjust_x2", "tag": tag, "impl_error": err, "x2_new": x2new, "ngoals": 1 + x2new.len()}));
        }
    }
}

fn flash_accept_goal(g: &mut ResGoals, tag: &str, vle: &Vle) {
    let (_, _, _, lv, y) = state_vectors(vle.vapor());
    let (_, _, _, ll, x) = state_vectors(vle.liquid());
    let res: f64 = (0..y.len()).map(|i| (ll[i] - lv[i] + (x[i] / y[i]).ln()).powi(2)).sum::<f64>().sqrt();
    g.v.push_str(&format!(
        "Goal flash_res_norm {} {} {} {} < 1e-8 * (1 + 1e-6).\nProof. res_interval. Qed.\n",
        rlist(&ll), rlist(&lv), rlist(&x), rlist(&y)
    ));
    g.meta.push(json!({"goal": g.meta.len(), "kind": "flash_accept", "tag": tag, "harness_f64_residual": res}));
}

// ------------------------------------------------------------------------------------------------
// E. composition of the specified phase after each real transition

fn spec_transitions(sys: &Sys, t: f64, x: f64, p: f64, y: &[f64], bubble: bool, rng: &mut Rng) -> Option<(String, Value)> {
    // the same construction as starting_x2_bubble / starting_x2_dew: state1 is built from Moles::from_reduced(spec)
    let scale = if rng.below(2) == 0 { 1.0 } else { rng.range(0.3, 3.0) }; // spec vectors that do not sum to one are normalised by State
    let spec = arr1(&[x * scale, (1.0 - x) * scale]);
    let temp = Temperature::from_reduced(t);
    let pres = Pressure::from_reduced(p);
    let (i1, i2) = if bubble { (DensityInitialization::Liquid, DensityInitialization::Vapor) } else { (DensityInitialization::Vapor, DensityInitialization::Liquid) };
    let mut s1 = State::new_npt(&sys.eos, temp, pres, &Moles::from_reduced(spec.clone()), i1).ok()?;
    let mut s2 = State::new_npt(&sys.eos, temp, pres, &Moles::from_reduced(Array1::from_vec(y.to_vec())), i2).ok()?;
    let mut events = Vec::new();
    let mut observed = Vec::new();
    let mut pvar = pres;
    let mut tvar = temp;
    let tspec = rng.below(2) == 0;
    let nsteps = 4 + rng.below(4);
    for _ in 0..nsteps {
        let ev = rng.below(3);
        let r = catch_unwind(AssertUnwindSafe(|| -> Result<f64, EosError> {
            match (ev, tspec) {
                (0, true) => <Temperature as TemperatureOrPressure>::adjust_t_p(temp, &mut pvar, &mut s1, &mut s2, Verbosity::None),
                (0, false) => <Pressure as TemperatureOrPressure>::adjust_t_p(pres, &mut tvar, &mut s1, &mut s2, Verbosity::None),
                (1, true) => <Temperature as TemperatureOrPressure>::newton_step(temp, &mut pvar, &mut s1, &mut s2, Verbosity::None),
                (1, false) => <Pressure as TemperatureOrPressure>::newton_step(pres, &mut tvar, &mut s1, &mut s2, Verbosity::None),
                _ => verif_adjust_x2(&s1, &mut s2),
            }
        }));
        match r {
            Ok(Ok(_)) => {
                events.push(["EvAdjustTP", "EvNewton", "EvAdjustX2"][ev]);
                observed.push(json!({"x1": s1.molefracs.to_vec(), "n1": s1.moles.to_reduced().to_vec(),
                    "T1": s1.temperature.to_reduced(), "T2": s2.temperature.to_reduced()}));
            }
            _ => break,
        }
    }
    if events.is_empty() {
        return None;
    }
    let coq = format!("({}, [{}])", dyl(spec.as_slice().unwrap()), events.join("; "));
    Some((coq, json!({"pair": sys.names, "spec": spec.to_vec(), "tspec": tspec, "T": t, "bubble": bubble, "events": events, "observed": observed})))
}

// ------------------------------------------------------------------------------------------------

// ------------------------------------------------------------------------------------------------
// F. heteroazeotropes (three-phase equilibria of partially miscible binaries) and the phase-diagram driver built on them

type Vlle = PhaseEquilibrium<Eos, 3>;
const TOL_HETERO: f64 = 1e-8; // default tolerance of heteroazeotrope_t / _p on the residual norm (reduced units)

fn hetero_eos(other: &str) -> Option<Arc<Eos>> {
    let inp: Vec<(Vec<&str>, String)> = vec![
        (vec!["water_np"], format!("{}/tests/pcsaft/test_parameters.json", configs::repo())),
        (vec![other], format!("{}/pcsaft/gross2001.json", configs::params())),
    ];
    let p = PcSaftParameters::from_multiple_json(&inp, None, IdentifierOption::Name).ok()?;
    Some(Arc::new(PcSaft::new(Arc::new(p))))
}

#[derive(Clone, Debug)]
struct HetCase {
    other: String,
    /// true: temperature specified (value in K), false: pressure specified (reduced)
    tspec: bool,
    spec: f64,
    x_init: (f64, f64),
    tp_init: Option<f64>,
    /// 0 default, 1 tol 1e-6, 2 tol 1e-10 + max_iter 200, 3 default + asymmetric bubble/dew options
    opt: usize,
}

impl HetCase {
    fn arg(&self) -> String {
        format!("{}|{}|{:?}|{:?}|{:?}|{}|{}", self.other, if self.tspec { "T" } else { "p" }, self.spec, self.x_init.0, self.x_init.1,
            self.tp_init.map(|v| format!("{v:?}")).unwrap_or_else(|| "none".into()), self.opt)
    }
    fn parse(a: &str) -> HetCase {
        let f: Vec<&str> = a.split('|').collect();
        HetCase { other: f[0].into(), tspec: f[1] == "T", spec: f[2].parse().unwrap(), x_init: (f[3].parse().unwrap(), f[4].parse().unwrap()),
            tp_init: if f[5] == "none" { None } else { Some(f[5].parse().unwrap()) }, opt: f[6].parse().unwrap() }
    }
    fn options(&self) -> (SolverOptions, (SolverOptions, SolverOptions), f64) {
        match self.opt {
            1 => (SolverOptions::new().tol(1e-6), Default::default(), 1e-6),
            2 => (SolverOptions::new().tol(1e-10).max_iter(200), Default::default(), 1e-10),
            3 => (SolverOptions::default(), (SolverOptions::new().tol(1e-3), SolverOptions::new().tol(1e-6)), TOL_HETERO),
            _ => (SolverOptions::default(), Default::default(), TOL_HETERO),
        }
    }
    fn run(&self, eos: &Arc<Eos>) -> Result<Vlle, String> {
        let (o, bd, _) = self.options();
        if self.tspec {
            run_guard(|| Vlle::heteroazeotrope(eos, Temperature::from_reduced(self.spec), self.x_init, self.tp_init.map(Pressure::from_reduced), o, bd))
        } else {
            run_guard(|| Vlle::heteroazeotrope(eos, Pressure::from_reduced(self.spec), self.x_init, self.tp_init.map(Temperature::from_reduced), o, bd))
        }
    }
}

struct HetVectors {
    t: [f64; 3],
    p: [f64; 3],
    mu: [Vec<f64>; 3],
    rho: [Vec<f64>; 3],
}

/// (vapor, liquid1, liquid2) through the public API
fn het_vectors(v: &Vlle) -> HetVectors {
    let ph = [v.vapor(), v.liquid1(), v.liquid2()];
    HetVectors {
        t: [ph[0].temperature.to_reduced(), ph[1].temperature.to_reduced(), ph[2].temperature.to_reduced()],
        p: [0, 1, 2].map(|k| ph[k].pressure(Contributions::Total).to_reduced()),
        mu: [0, 1, 2].map(|k| ph[k].residual_chemical_potential().to_reduced().to_vec()),
        rho: [0, 1, 2].map(|k| ph[k].partial_density.to_reduced().to_vec()),
    }
}

/// the residual norm of heteroazeotrope_t / _p recomputed from public-API values (f64)
fn het_residual(h: &HetVectors, pspec: Option<f64>) -> f64 {
    let t = h.t[0];
    let mut r = Vec::new();
    for l in [1, 2] {
        for i in 0..2 {
            r.push(h.mu[l][i] - h.mu[0][i] + t * (h.rho[l][i] / h.rho[0][i]).ln());
        }
    }
    match pspec {
        None => {
            r.push(h.p[1] - h.p[0]);
            r.push(h.p[2] - h.p[0]);
        }
        Some(p) => {
            r.push(h.p[1] - p);
            r.push(h.p[2] - p);
            r.push(h.p[0] - p);
        }
    }
    r.iter().map(|x| x * x).sum::<f64>().sqrt()
}

struct HetStats {
    attempted: usize,
    found: usize,
    worst_res_over_tol: f64,
    worst_dlnf_times_t_over_tol: f64,
    worst_dp_over_tol: f64,
    worst_dt: f64,
    diagram_states: usize,
    negative_pressure: usize,
}

/// every condition the property states for a returned three-phase result, with bounds derived from the REQUESTED tolerance
/// (theorems hetero_res_bound_T / _p: the returned state is the tested one)
fn het_checks(c: &HetCase, v: &Vlle, st: &mut HetStats) -> Vec<String> {
    let mut bad = Vec::new();
    let (_, _, tol) = c.options();
    let h = het_vectors(v);
    let names = ["vapor", "liquid1", "liquid2"];
    // one temperature, exactly; the specified one, exactly
    for k in 1..3 {
        st.worst_dt = st.worst_dt.max((h.t[k] - h.t[0]).abs());
        if h.t[k] != h.t[0] {
            bad.push(format!("phases have different temperatures: {} at {} K, vapor at {} K", names[k], h.t[k], h.t[0]));
        }
    }
    if c.tspec && h.t[0] != c.spec {
        bad.push(format!("temperature {} differs from the specified {}", h.t[0], c.spec));
    }
    // one pressure; the specified one
    let floor = 1e-13;
    for k in 1..3 {
        let d = (h.p[k] - h.p[0]).abs();
        let allowed = if c.tspec { tol } else { 2.0 * tol } * 1.000001 + floor;
        st.worst_dp_over_tol = st.worst_dp_over_tol.max(d / allowed);
        if !(d <= allowed) {
            bad.push(format!("phase pressures differ: {} {} vs vapor {} (|difference| {:e} > {:e} allowed for the requested tolerance)", names[k], h.p[k], h.p[0], d, allowed));
        }
    }
    if !c.tspec {
        for k in 0..3 {
            let d = (h.p[k] - c.spec).abs();
            if !(d <= tol * 1.000001 + floor) {
                bad.push(format!("{} pressure {} is not the specified {} (|difference| {:e} > requested tolerance {:e})", names[k], h.p[k], c.spec, d, tol));
            }
        }
    }
    // the stopping test itself, recomputed
    let res = het_residual(&h, if c.tspec { None } else { Some(c.spec) });
    st.worst_res_over_tol = st.worst_res_over_tol.max(res / tol);
    if !(res < tol * 1.000001 + 1e-12) {
        bad.push(format!("residual norm of the returned phases {:e} is not below the requested tolerance {:e}", res, tol));
    }
    // isofugacity (ln f_i = mu_i/T + ln rho_i + ln T, each phase with its own T), liquid k vs vapor: < tol / T
    let lnf = |k: usize, i: usize| h.mu[k][i] / h.t[k] + h.rho[k][i].ln() + h.t[k].ln();
    for k in 1..3 {
        for i in 0..2 {
            let d = (lnf(k, i) - lnf(0, i)).abs();
            let allowed = tol / h.t[0] * 1.000001 + 1e-12;
            st.worst_dlnf_times_t_over_tol = st.worst_dlnf_times_t_over_tol.max(d / allowed);
            if !(d <= allowed) {
                bad.push(format!("fugacity of component {i} differs between {} and vapor: |d ln f| = {:e} > {:e} allowed for the requested tolerance", names[k], d, allowed));
            }
        }
    }
    // ... and through the independent ln_phi path (ln f = ln x + ln phi + ln p), looser (pressure mismatch enters)
    let ph = [v.vapor(), v.liquid1(), v.liquid2()];
    let f: Vec<Vec<f64>> = ph.iter().map(|s| ln_fug(s)).collect();
    // (a metastable three-phase solution at negative pressure has no ln p: only counted, the mu-based test above decides)
    let positive_p = h.p.iter().all(|p| *p > 0.0);
    if !positive_p {
        st.negative_pressure += 1;
    }
    for k in 1..3 {
        if !positive_p {
            break;
        }
        for i in 0..2 {
            let d = (f[k][i] - f[0][i]).abs();
            if !(d <= tol / h.t[0] + 1e-9 + (h.p[k] / h.p[0]).ln().abs()) {
                bad.push(format!("fugacity (ln_phi path) of component {i} differs between {} and vapor by {:e}", names[k], d));
            }
        }
    }
    // the phases are not copies of each other
    for (a, b) in [(0, 1), (0, 2), (1, 2)] {
        let dist = h.rho[a].iter().zip(h.rho[b].iter()).fold(0.0f64, |m, (x, y)| (y / x - 1.0).abs().max(m));
        if !(dist >= MIN_DISTINCT) {
            bad.push(format!("{} and {} are copies of each other", names[a], names[b]));
        }
    }
    if !bad.is_empty() {
        bad.push(format!("[T = {:?}, p = {:?}, x_l1 = {:?}, x_l2 = {:?}, y = {:?}]", h.t, h.p, v.liquid1().molefracs.to_vec(), v.liquid2().molefracs.to_vec(), v.vapor().molefracs.to_vec()));
    }
    bad
}

fn het_goal(g: &mut ResGoals, c: &HetCase, v: &Vlle) {
    let h = het_vectors(v);
    let (_, _, tol) = c.options();
    let args = format!("(dy_R {}%Z) {} {} {} {} {} {} (dy_R {}%Z) (dy_R {}%Z) (dy_R {}%Z)",
        dyadic(h.t[0]), rlist(&h.mu[1]), rlist(&h.mu[2]), rlist(&h.mu[0]), rlist(&h.rho[1]), rlist(&h.rho[2]), rlist(&h.rho[0]),
        dyadic(h.p[1]), dyadic(h.p[2]), dyadic(h.p[0]));
    if c.tspec {
        g.v.push_str(&format!("Goal hetero_err_T {args} < {:e} * (1 + 1e-6) + 1e-12.\nProof. res_interval. Qed.\n", tol));
    } else {
        g.v.push_str(&format!("Goal hetero_err_p {args} (dy_R {}%Z) < {:e} * (1 + 1e-6) + 1e-12.\nProof. res_interval. Qed.\n", dyadic(c.spec), tol));
    }
    g.meta.push(json!({"goal": g.meta.len(), "kind": if c.tspec { "hetero_accept_T" } else { "hetero_accept_p" }, "tag": c.arg(),
        "harness_f64_residual": het_residual(&h, if c.tspec { None } else { Some(c.spec) }), "requested_tolerance": tol}));
}

fn het_failure(c: &HetCase, kind: &str, what: String) -> Value {
    json!({"key": {"pair": ["water_np", c.other], "kind": kind, "T": c.spec, "x": c.x_init.0}, "what": what,
        "detail": {"case": format!("{c:?}")}, "hetero_point": c.arg(), "s": 0.5, "ntot": 0.0, "Tc": [0.0, 0.0]})
}

/// Liquid-liquid "bubble" and "dew" points of a partially miscible system around its heteroazeotrope at T: pressure guess above
/// the three-phase pressure, composition guess = the other liquid.  Specified phase = the water-rich or the hydrocarbon-rich
/// liquid, in bubble_point (specified phase must come back as liquid()) and in dew_point (as vapor()), T- and p-specified.
/// Deterministic in (other, t): `--lle-point "other|T"` replays it.
fn lle_points(eos: &Arc<Eos>, other: &str, t: f64, counts: &mut [usize; 2], log: &mut Vec<Value>) -> Vec<Value> {
    let mut failures = Vec::new();
    let temp = Temperature::from_reduced(t);
    let Ok(h) = run_guard(|| Vlle::heteroazeotrope(eos, temp, (0.9999, 0.0001), None, SolverOptions::default(), Default::default())) else { return failures };
    let p_het = h.vapor().pressure(Contributions::Total).to_reduced();
    let mut worst = Worst { min_dist: f64::INFINITY, ..Default::default() };
    let mut rng = Rng(t.to_bits() ^ 0x11E);
    // the two liquids at a pressure well above the three-phase pressure (flash of an equimolar feed)
    let p_lle = p_het * rng.range(3.0, 30.0);
    let feed = Moles::from_reduced(arr1(&[0.5, 0.5]));
    let ll = match run_guard(|| Vle::tp_flash(eos, temp, Pressure::from_reduced(p_lle), &feed, None, Default::default(), None)) {
        Ok(v) => v,
        Err(e) => {
            log.push(json!({"case": "liquid-liquid flash", "p": p_lle, "error": e}));
            return failures;
        }
    };
    log.push(json!({"case": "liquid-liquid flash", "p": p_lle, "which": "", "vapor()": phase_json(ll.vapor()), "liquid()": phase_json(ll.liquid())}));
    let (xw, xo) = if ll.liquid().molefracs[0] > ll.vapor().molefracs[0] {
        (ll.liquid().molefracs.clone(), ll.vapor().molefracs.clone())
    } else {
        (ll.vapor().molefracs.clone(), ll.liquid().molefracs.clone())
    };
    // both phases of that flash have to be liquids (compressibility factor below 0.5)
    let rho_ig = p_lle / t;
    if !(ll.vapor().density.to_reduced() > 2.0 * rho_ig && ll.liquid().density.to_reduced() > 2.0 * rho_ig) {
        return failures;
    }
    for (spec, guess, which) in [(&xo, &xw, "hydrocarbon-rich liquid specified"), (&xw, &xo, "water-rich liquid specified")] {
        for bubble in [true, false] {
            for tspec in [true, false] {
                let pfac = [1.0, 2.0, 10.0][rng.below(3)];
                let p_init = p_lle * pfac;
                let kind = format!("lle_{}_{}", if bubble { "bubble" } else { "dew" }, if tspec { "T" } else { "p" });
                counts[0] += 1;
                let r = run_guard(|| match (bubble, tspec) {
                    (true, true) => Vle::bubble_point(eos, temp, spec, Some(Pressure::from_reduced(p_init)), Some(guess), Default::default()),
                    (false, true) => Vle::dew_point(eos, temp, spec, Some(Pressure::from_reduced(p_init)), Some(guess), Default::default()),
                    (true, false) => Vle::bubble_point(eos, Pressure::from_reduced(p_lle), spec, Some(Temperature::from_reduced(t + 2.0)), Some(guess), Default::default()),
                    (false, false) => Vle::dew_point(eos, Pressure::from_reduced(p_lle), spec, Some(Temperature::from_reduced(t + 2.0)), Some(guess), Default::default()),
                });
                let vle = match r {
                    Ok(v) => v,
                    Err(e) => {
                        log.push(json!({"case": kind, "which": which, "p": p_lle, "error": e}));
                        continue;
                    }
                };
                counts[1] += 1;
                log.push(json!({"case": kind, "which": which, "p": p_lle, "vapor()": phase_json(vle.vapor()), "liquid()": phase_json(vle.liquid())}));
                let tol = Tol { strict_roles: false, ..Tol::bubble_dew(1e-10) };
                let mut bad = common_checks_tol(&vle, if tspec { Some(t) } else { None }, &mut worst, tol);
                // bubble point: the specified phase is liquid(); dew point: the specified phase is vapor()
                let ph = if bubble { vle.liquid() } else { vle.vapor() };
                let dx = (0..2).map(|i| (ph.molefracs[i] - spec[i]).abs()).fold(0.0, f64::max);
                if !(dx <= TOL_X) {
                    bad.push(format!("{}: composition {:?} of {} is not the specified {:?}", which, ph.molefracs.to_vec(), if bubble { "liquid()" } else { "vapor()" }, spec.to_vec()));
                }
                if !tspec {
                    for q in [vle.vapor(), vle.liquid()] {
                        let pk = q.pressure(Contributions::Total).to_reduced();
                        if !(((pk - p_lle).abs() - tol.p_abs).max(0.0) / p_lle <= TOL_P_REL) {
                            bad.push(format!("pressure {pk} is not the specified {p_lle}"));
                        }
                    }
                }
                if !bad.is_empty() {
                    bad.push(format!("[{which}, liquid-liquid flash pressure / p_spec = {p_lle}, p_init = {pfac} x that; returned vapor(): {}; liquid(): {}]", phase_json(vle.vapor()), phase_json(vle.liquid())));
                    failures.push(json!({"key": {"pair": ["water_np", other], "kind": kind, "T": t, "x": spec[0]}, "what": bad.join("; "),
                        "detail": {"which": which, "p": p_lle}, "lle_point": format!("{other}|{t:?}"), "s": 0.5, "ntot": 0.0, "Tc": [0.0, 0.0]}));
                }
            }
        }
    }
    failures
}

fn hetero_search(out: &str, full: bool, seed: u64) -> (Vec<Value>, Value, Vec<(String, Vec<Value>)>) {
    let mut rng = Rng(seed ^ 0x4E7E40);
    let mut failures = Vec::new();
    let mut st = HetStats { attempted: 0, found: 0, worst_res_over_tol: 0.0, worst_dlnf_times_t_over_tol: 0.0, worst_dp_over_tol: 0.0, worst_dt: 0.0, diagram_states: 0, negative_pressure: 0 };
    let mut goals = ResGoals { v: header("ProgSem BubbleDewC05"), meta: Vec::new() };
    goals.v.push_str("Open Scope R_scope.\n");
    let mut files = Vec::new();
    let mut samples = Vec::new();
    let mut lle_counts = [0usize; 2];
    let others: Vec<&str> = if full { vec!["hexane", "pentane", "heptane", "octane", "cyclohexane", "benzene", "toluene", "decane"] } else { vec!["hexane", "heptane", "cyclohexane"] };
    let x_inits = [(0.9999, 0.0001), (0.9999, 0.01), (0.9999, 0.03), (0.999, 0.001), (0.99, 0.02)];
    let n_t = if full { 5 } else { 2 };
    let max_goals = if full { 40 } else { 10 };
    let mut n_goals = 0;
    for other in &others {
        let Some(eos) = hetero_eos(other) else { continue };
        for it in 0..n_t {
            let t = if it == 0 && *other == "hexane" { 350.0 } else { rng.range(300.0, 400.0) };
            // ---- temperature specified: several start compositions / options
            let mut base: Option<Vlle> = None;
            for (ix, xi) in x_inits.iter().enumerate() {
                let opt = if ix == 0 { 0 } else { (ix + it) % 4 };
                let c = HetCase { other: other.to_string(), tspec: true, spec: t, x_init: *xi, tp_init: None, opt };
                st.attempted += 1;
                if let Ok(v) = c.run(&eos) {
                    st.found += 1;
                    let bad = het_checks(&c, &v, &mut st);
                    if !bad.is_empty() {
                        failures.push(het_failure(&c, "hetero_T", bad.join("; ")));
                    }
                    if n_goals < max_goals && ix < 2 {
                        het_goal(&mut goals, &c, &v);
                        n_goals += 1;
                    }
                    if base.is_none() {
                        if samples.len() < 3 {
                            samples.push(json!({"system": ["water_np", other], "T": t, "p_heteroazeotrope_reduced": v.vapor().pressure(Contributions::Total).to_reduced(),
                                "x_l1": v.liquid1().molefracs[0], "x_l2": v.liquid2().molefracs[0], "y": v.vapor().molefracs[0]}));
                        }
                        base = Some(v);
                    }
                }
            }
            failures.extend(lle_points(&eos, other, t, &mut lle_counts, &mut Vec::new()));
            let Some(b) = base else { continue };
            let p_het = b.vapor().pressure(Contributions::Total).to_reduced();
            let (xl1, xl2) = (b.liquid1().molefracs[0], b.liquid2().molefracs[0]);
            // ---- temperature specified again: pressure guess, restart from the converged compositions
            for (xi, pi, opt) in [((0.9999, 0.0001), Some(p_het * rng.range(0.8, 1.2)), 0usize), ((xl1, xl2), None, 0), ((xl1, xl2), Some(p_het), 2)] {
                let c = HetCase { other: other.to_string(), tspec: true, spec: t, x_init: xi, tp_init: pi, opt };
                st.attempted += 1;
                if let Ok(v) = c.run(&eos) {
                    st.found += 1;
                    let bad = het_checks(&c, &v, &mut st);
                    if !bad.is_empty() {
                        failures.push(het_failure(&c, "hetero_T_guess", bad.join("; ")));
                    }
                }
            }
            // ---- pressure specified at the heteroazeotrope pressure of T (and at another pressure): temperature guesses off by up to 20 K,
            //      several start compositions / options; the temperature found has to be T
            for (k, xi) in x_inits.iter().enumerate() {
                let dt = [5.0, -10.0, 20.0, -3.0, 12.0][k] * rng.range(0.5, 1.0);
                let opt = if k == 0 { 0 } else { (k + it + 1) % 4 };
                for (pspec, same) in [(p_het, true), (p_het * rng.range(0.7, 1.5), false)] {
                    let c = HetCase { other: other.to_string(), tspec: false, spec: pspec, x_init: *xi, tp_init: Some(t + dt), opt };
                    st.attempted += 1;
                    if let Ok(v) = c.run(&eos) {
                        st.found += 1;
                        let mut bad = het_checks(&c, &v, &mut st);
                        let tv = v.vapor().temperature.to_reduced();
                        if same && !((tv - t).abs() <= 1e-6 * t) {
                            bad.insert(0, format!("heteroazeotrope temperature {tv} at the heteroazeotrope pressure of {t} K"));
                        }
                        if !bad.is_empty() {
                            failures.push(het_failure(&c, "hetero_p", bad.join("; ")));
                        }
                        if n_goals < max_goals && k < 2 {
                            het_goal(&mut goals, &c, &v);
                            n_goals += 1;
                        }
                    }
                }
            }
            // restart of the pressure-specified solver from the converged compositions
            {
                let c = HetCase { other: other.to_string(), tspec: false, spec: p_het, x_init: (xl1, xl2), tp_init: Some(t + 1.0), opt: 0 };
                st.attempted += 1;
                if let Ok(v) = c.run(&eos) {
                    st.found += 1;
                    let bad = het_checks(&c, &v, &mut st);
                    if !bad.is_empty() {
                        failures.push(het_failure(&c, "hetero_p_restart", bad.join("; ")));
                    }
                }
            }
            // ---- the phase-diagram driver built on the heteroazeotrope: every two-phase state it returns
            if it == 0 {
                let mut worst = Worst { min_dist: f64::INFINITY, ..Default::default() };
                for tspec in [true, false] {
                    let r = if tspec {
                        run_guard(|| feos_core::PhaseDiagram::binary_vlle(&eos, Temperature::from_reduced(t), (0.9999, 0.0001), Some(Pressure::from_reduced(p_het * 3.0)), None, Some(5), Some(3), Default::default()))
                    } else {
                        run_guard(|| feos_core::PhaseDiagram::binary_vlle(&eos, Pressure::from_reduced(p_het), (0.9999, 0.0001), Some(Temperature::from_reduced(t - 15.0)), Some(Temperature::from_reduced(t + 7.0)), Some(5), Some(3), Default::default()))
                    };
                    if let Ok(d) = r {
                        let lle_states = d.lle.as_ref().map(|l| l.states.clone()).unwrap_or_default();
                        for (part, vle) in d.vle1.states.iter().map(|s| ("vle1", s)).chain(d.vle2.states.iter().map(|s| ("vle2", s))).chain(lle_states.iter().map(|s| ("lle", s))) {
                            st.diagram_states += 1;
                            // the junction states are assembled from the heteroazeotrope (tolerance 1e-8 on the residual norm)
                            let tol = Tol { lnf: 1e-7, p_abs: 1e-8, strict_roles: false };
                            let mut bad = common_checks_tol(vle, if tspec { Some(t) } else { None }, &mut worst, tol);
                            if !tspec {
                                for q in [vle.vapor(), vle.liquid()] {
                                    let pk = q.pressure(Contributions::Total).to_reduced();
                                    if !((pk - p_het).abs() <= 1e-7 * p_het + 1e-8) {
                                        bad.push(format!("pressure {pk} is not the specified {p_het}"));
                                    }
                                }
                            }
                            if !bad.is_empty() {
                                let c = HetCase { other: other.to_string(), tspec, spec: if tspec { t } else { p_het }, x_init: (0.9999, 0.0001), tp_init: if tspec { None } else { Some(t + 7.0) }, opt: 0 };
                                failures.push(het_failure(&c, if tspec { "binary_vlle_T" } else { "binary_vlle_p" }, format!("{part} state at x = {}: {}", vle.liquid().molefracs[0], bad.join("; "))));
                            }
                        }
                    }
                }
            }
            if goals.meta.len() >= 6 {
                let name = format!("het_{}.v", files.len());
                std::fs::write(format!("{out}/{name}"), &goals.v).unwrap();
                files.push((name, std::mem::take(&mut goals.meta)));
                goals.v = header("ProgSem BubbleDewC05");
                goals.v.push_str("Open Scope R_scope.\n");
            }
        }
    }
    if !goals.meta.is_empty() {
        let name = format!("het_{}.v", files.len());
        std::fs::write(format!("{out}/{name}"), &goals.v).unwrap();
        files.push((name, std::mem::take(&mut goals.meta)));
    }
    let stats = json!({"systems": others.iter().map(|o| json!(["water_np (tests/pcsaft/test_parameters.json)", o])).collect::<Vec<_>>(),
        "heteroazeotropes_attempted": st.attempted, "heteroazeotropes_found_and_checked": st.found,
        "worst_residual_norm_over_requested_tolerance": st.worst_res_over_tol, "worst_ln_f_difference_over_allowed": st.worst_dlnf_times_t_over_tol,
        "worst_pressure_difference_over_allowed": st.worst_dp_over_tol, "worst_temperature_difference_between_phases": st.worst_dt,
        "binary_vlle_states_checked": st.diagram_states, "liquid_liquid_bubble_dew_points_attempted": lle_counts[0], "liquid_liquid_bubble_dew_points_found_and_checked": lle_counts[1], "results_at_negative_pressure_(metastable,_counted)": st.negative_pressure, "samples": samples,
        "ranges": "water_np + alkane/aromatic (k_ij = 0), T in [300,400] K, 5 start compositions, T- and p-specified, guesses off by up to 20 K / 20 %, tol default/1e-6/1e-10, asymmetric bubble/dew options; an error is not a violation (no existence clause for three-phase equilibria)"});
    (failures, stats, files)
}

fn main() {
    let cli = feos_verif::cli::Cli::parse("/verif/coq/gen/C05");
    let full = cli.full();
    let out = cli.out.clone();
    // replay of one support-search point:  --point "a|b|T|x|s|ntot"
    if let Some(pt) = cli.opt("--point") {
        let f: Vec<&str> = pt.split('|').collect();
        let (tca, tcb) = (pure_tc(f[0]).unwrap(), pure_tc(f[1]).unwrap());
        let sys = mk_sys(f[0], f[1], tca, tcb);
        let mut worst = Worst { min_dist: f64::INFINITY, ..Default::default() };
        let mut counts = [0usize; 6];
        let r = check_point(&sys, f[2].parse().unwrap(), f[3].parse().unwrap(), f[4].parse().unwrap(), f[5].parse().unwrap(), &mut worst, &mut counts);
        // diagnostics: the trial phases the stability analysis of the feed returns (initial values of the flash)
        let (t, x, sfrac): (f64, f64, f64) = (f[2].parse().unwrap(), f[3].parse().unwrap(), f[4].parse().unwrap());
        let mut diag = json!(null);
        if let Some(b) = &r.bubble {
            let pb = b.liquid().pressure(Contributions::Total).to_reduced();
            if let Ok(d) = Vle::dew_point(&sys.eos, Temperature::from_reduced(t), &arr1(&[x, 1.0 - x]), None, None, Default::default()) {
                let pd = d.vapor().pressure(Contributions::Total).to_reduced();
                let p = pd + sfrac * (pb - pd);
                if let Ok(fs) = State::new_npt(&sys.eos, Temperature::from_reduced(t), Pressure::from_reduced(p), &Moles::from_reduced(arr1(&[x, 1.0 - x])), DensityInitialization::None) {
                    let st = fs.stability_analysis(SolverOptions::default());
                    diag = json!({"p": p, "feed_density": fs.density.to_reduced(),
                        "bubble_y": b.vapor().molefracs.to_vec(), "dew_x": d.liquid().molefracs.to_vec(),
                        "stability_trial_phases": st.map(|v| v.iter().map(|s| json!({"x": s.molefracs.to_vec(), "rho": s.density.to_reduced()})).collect::<Vec<_>>()).map_err(|e| err_kind(&e)).unwrap_or_else(|e| vec![json!(e)])});
                }
            }
        }
        cli.write_impl(&json!({"property": "C05", "point": pt, "failures": r.failures, "counts": counts.to_vec(), "diagnostics": diag}));
        return;
    }
    if let Some(lp) = cli.opt("--lle-point") {
        let f: Vec<&str> = lp.split('|').collect();
        let eos = hetero_eos(f[0]).unwrap();
        let mut c = [0usize; 2];
        let mut log = Vec::new();
        let failures = lle_points(&eos, f[0], f[1].parse().unwrap(), &mut c, &mut log);
        cli.write_impl(&json!({"property": "C05", "lle_point": lp, "attempted_found": c.to_vec(), "failures": failures, "results": log}));
        return;
    }
    if let Some(hp) = cli.opt("--hetero-point") {
        let c = HetCase::parse(&hp);
        let eos = hetero_eos(&c.other).unwrap();
        let mut st = HetStats { attempted: 0, found: 0, worst_res_over_tol: 0.0, worst_dlnf_times_t_over_tol: 0.0, worst_dp_over_tol: 0.0, worst_dt: 0.0, diagram_states: 0, negative_pressure: 0 };
        let r = c.run(&eos);
        let failures: Vec<Value> = match &r {
            Ok(v) => {
                let bad = het_checks(&c, v, &mut st);
                if bad.is_empty() { vec![] } else { vec![het_failure(&c, "hetero", bad.join("; "))] }
            }
            Err(_) => vec![],
        };
        cli.write_impl(&json!({"property": "C05", "hetero_point": hp, "result": r.as_ref().map(|_| "ok".to_string()).unwrap_or_else(|e| e.clone()), "failures": failures}));
        return;
    }
    let mut rng = Rng(cli.seed ^ 0xC05C05);

    // ---- A. rachford_rice
    let n_rr = cli.opt("--rr").and_then(|s| s.parse().ok()).unwrap_or(if full { 3000 } else { 320 });
    let chunk = 20;
    let mut rr_json = Vec::new();
    let mut all_cases = Vec::new();
    for _ in 0..n_rr {
        all_cases.push(gen_rr_case(&mut rng));
    }
    for (ci, cs) in all_cases.chunks(chunk).enumerate() {
        let results: Vec<Value> = cs.iter().map(run_rr).collect();
        emit_rr(&out, ci, cs, &results);
        for (c, r) in cs.iter().zip(results) {
            rr_json.push(json!({"file": format!("rr_{ci}.v"), "z": c.z, "k": c.k, "b0": c.b0, "class": c.class, "impl": r}));
        }
    }

    // ---- systems of the support search: hydrocarbon pairs with T_c ratio < 1.5
    let names = hydrocarbon_names();
    let tcs: Vec<Option<f64>> = names.iter().map(|n| pure_tc(n)).collect();
    let mut pairs = Vec::new();
    for i in 0..names.len() {
        for j in (i + 1)..names.len() {
            if let (Some(a), Some(b)) = (tcs[i], tcs[j]) {
                let r = a.max(b) / a.min(b);
                if r < 1.5 {
                    pairs.push((i, j));
                }
            }
        }
    }
    let n_pairs_total = pairs.len();
    let n_pairs = cli.opt("--pairs").and_then(|s| s.parse().ok()).unwrap_or(if full { 120 } else { 10 });
    let pts_per_pair = cli.opt("--points").and_then(|s| s.parse().ok()).unwrap_or(if full { 8 } else { 4 });
    // pinned pair of feos' own tests first, then a seeded random selection
    let mut chosen: Vec<(usize, usize)> = vec![(2, 3)];
    let mut prng = Rng(cli.seed ^ 0x5EA5C4);
    while chosen.len() < n_pairs.min(n_pairs_total) {
        let c = pairs[prng.below(pairs.len())];
        if !chosen.contains(&c) {
            chosen.push(c);
        }
    }
    let mut worst = Worst { min_dist: f64::INFINITY, ..Default::default() };
    let mut counts = [0usize; 6];
    let mut failures = Vec::new();
    let mut samples = Vec::new();
    // recorded failing inputs (known findings) are re-run on every invocation:  --known "a|b|T|x|s|ntot;..."
    let mut known_out = Vec::new();
    if let Some(kn) = cli.opt("--known") {
        for pt in kn.split(';').filter(|s| !s.is_empty()) {
            let f: Vec<&str> = pt.split('|').collect();
            let (ia, ib) = (names.iter().position(|n| n == f[0]).unwrap(), names.iter().position(|n| n == f[1]).unwrap());
            let sys = mk_sys(f[0], f[1], tcs[ia].unwrap(), tcs[ib].unwrap());
            let mut w = Worst { min_dist: f64::INFINITY, ..Default::default() };
            let mut c = [0usize; 6];
            let r = check_point(&sys, f[2].parse().unwrap(), f[3].parse().unwrap(), f[4].parse().unwrap(), f[5].parse().unwrap(), &mut w, &mut c);
            known_out.push(json!({"point": pt, "failures": r.failures}));
        }
    }
    let mut split_cases = Vec::new();
    let mut split_json = Vec::new();
    let mut goals = ResGoals { v: header("ProgSem BubbleDewC05"), meta: Vec::new() };
    goals.v.push_str("Open Scope R_scope.\n");
    let mut goal_files: Vec<(String, Vec<Value>)> = Vec::new();
    let mut spec_cases = Vec::new();
    let mut spec_json = Vec::new();
    let n_res_sys = if full { 24 } else { 4 };
    for (si, &(i, j)) in chosen.iter().enumerate() {
        let sys = mk_sys(&names[i], &names[j], tcs[i].unwrap(), tcs[j].unwrap());
        let tlow = sys.tc[0].min(sys.tc[1]);
        {
            // every state of a binary phase diagram at a temperature of the window satisfies the equilibrium conditions
            let td = tlow * prng.range(0.65, 0.9);
            match run_guard(|| feos_core::PhaseDiagram::binary_vle(&sys.eos, Temperature::from_reduced(td), Some(9), None, Default::default())) {
                Ok(dia) => {
                    for vle in &dia.states {
                        worst.extra[4] += 1;
                        let bad = common_checks(vle, td, &mut worst);
                        if !bad.is_empty() {
                            failures.push(json!({"key": {"pair": sys.names, "kind": "binary_vle", "T": td, "x": vle.liquid().molefracs[0]},
                                "what": bad.join("; "), "detail": {"vapor": phase_json(vle.vapor()), "liquid": phase_json(vle.liquid())}, "Tc": sys.tc, "s": 0.5, "ntot": 6.02214076e23}));
                        }
                    }
                }
                Err(_) => worst.extra[5] += 1,
            }
            // the same driver with the pressure specified (isobaric T-x diagram): both phases at one T, p = the specified one
            if let Ok(b) = run_guard(|| Vle::bubble_point(&sys.eos, Temperature::from_reduced(td), &arr1(&[0.5, 0.5]), None, None, Default::default())) {
                let psp = b.liquid().pressure(Contributions::Total).to_reduced();
                match run_guard(|| feos_core::PhaseDiagram::binary_vle(&sys.eos, Pressure::from_reduced(psp), Some(7), None, Default::default())) {
                    Ok(dia) => {
                        for vle in &dia.states {
                            worst.extra[4] += 1;
                            let mut bad = common_checks_opt(vle, None, &mut worst);
                            for (nm, ph) in [("vapor", vle.vapor()), ("liquid", vle.liquid())] {
                                let pk = ph.pressure(Contributions::Total).to_reduced();
                                if !(((pk - psp).abs() - TOL_P_ABS).max(0.0) / psp <= 1e-7) {
                                    bad.push(format!("{nm} pressure {pk} is not the specified {psp}"));
                                }
                            }
                            if !bad.is_empty() {
                                failures.push(json!({"key": {"pair": sys.names, "kind": "binary_vle_p", "T": td, "x": vle.liquid().molefracs[0]},
                                    "what": bad.join("; "), "detail": {"p_spec": psp, "vapor": phase_json(vle.vapor()), "liquid": phase_json(vle.liquid())}, "Tc": sys.tc, "s": 0.5, "ntot": 6.02214076e23}));
                            }
                        }
                    }
                    Err(_) => worst.extra[5] += 1,
                }
            }
        }
        for pi in 0..pts_per_pair {
            let t = tlow * prng.range(0.65, 0.9);
            let x = prng.range(0.05, 0.95);
            let s = prng.range(0.02, 0.98);
            let ntot = if prng.below(2) == 0 { 1.0 } else { prng.log_range(1e-3, 1e3) } * 6.02214076e23;
            let r = check_point(&sys, t, x, s, ntot, &mut worst, &mut counts);
            failures.extend(r.failures);
            if samples.len() < 6 && pi == 0 {
                if let Some(b) = &r.bubble {
                    samples.push(json!({"pair": sys.names, "Tc": sys.tc, "T": t, "x_liquid": x,
                        "p_bubble_reduced": b.liquid().pressure(Contributions::Total).to_reduced(), "y": b.vapor().molefracs.to_vec()}));
                }
            }
            // correspondence material from the first points of the first systems
            if si < n_res_sys && pi < 2 {
                if let Some((vle, fs)) = &r.flash {
                    let tag = format!("{}|{}|{}|{}", sys.names[0], sys.names[1], t, x);
                    let kconv: Vec<f64> = (0..2).map(|c| vle.vapor().molefracs[c] / vle.liquid().molefracs[c]).collect();
                    let mut ks: Vec<Vec<f64>> = Vec::new();
                    ks.push(kconv.clone());
                    ks.push(kconv.iter().map(|k| k * prng.range(-0.3, 0.3).exp()).collect());
                    ks.push(kconv.iter().map(|k| k * prng.range(-0.05, 0.05).exp()).collect());
                    let mut k0 = kconv.clone();
                    let heavy = if kconv[0] < kconv[1] { 0 } else { 1 };
                    k0[heavy] = 0.0;
                    k0[1 - heavy] *= 1.5;
                    ks.push(k0);
                    ks.push(vec![prng.log_range(1.01, 3.0), prng.log_range(1.01, 3.0)]); // no solution
                    for k in &ks {
                        let (c, j) = split_case(vle, fs, k);
                        split_cases.push(c);
                        let mut j = j;
                        j["tag"] = json!(tag);
                        split_json.push(j);
                    }
                    flash_accept_goal(&mut goals, &tag, vle);
                }
                if let Some(b) = &r.bubble {
                    let tag = format!("{}|{}|{}|{}", sys.names[0], sys.names[1], t, x);
                    let temp = Temperature::from_reduced(t);
                    let pb = b.liquid().pressure(Contributions::Total);
                    let yy = b.vapor().molefracs.clone();
                    let y2 = arr1(&[yy[0] * prng.range(0.8, 1.2), yy[1] * prng.range(0.8, 1.2)]);
                    let s1 = State::new_npt(&sys.eos, temp, pb * prng.range(1.0, 1.3), &Moles::from_reduced(arr1(&[x, 1.0 - x])), DensityInitialization::Liquid);
                    let s2 = State::new_npt(&sys.eos, temp, pb * prng.range(0.8, 1.0), &Moles::from_reduced(y2.clone()), DensityInitialization::Vapor);
                    if let (Ok(s1), Ok(s2)) = (s1, s2) {
                        res_goals_for(&mut goals, &tag, &s1, &s2, &mut prng);
                        // dew orientation: state1 = vapor
                        res_goals_for(&mut goals, &format!("{tag}|dew"), &s2, &s1, &mut prng);
                    }
                    for bubble in [true, false] {
                        let (xs, ys) = if bubble { (x, y2.to_vec()) } else { (yy[0], vec![x * prng.range(0.9, 1.1), 1.0 - x]) };
                        if let Some((c, j)) = spec_transitions(&sys, t, xs, pb.to_reduced() * prng.range(0.9, 1.1), &ys, bubble, &mut prng) {
                            spec_cases.push(c);
                            spec_json.push(j);
                        }
                    }
                }
                if goals.meta.len() >= 12 {
                    let name = format!("res_{}.v", goal_files.len());
                    std::fs::write(format!("{out}/{name}"), &goals.v).unwrap();
                    goal_files.push((name, std::mem::take(&mut goals.meta)));
                    goals.v = header("ProgSem BubbleDewC05");
                    goals.v.push_str("Open Scope R_scope.\n");
                }
            }
        }
    }
    if !goals.meta.is_empty() {
        let name = format!("res_{}.v", goal_files.len());
        std::fs::write(format!("{out}/{name}"), &goals.v).unwrap();
        goal_files.push((name, std::mem::take(&mut goals.meta)));
    }
    // split cases file(s)
    let mut split_files = Vec::new();
    for (ci, cs) in split_cases.chunks(8).enumerate() {
        let mut v = header("RachfordRiceC05");
        v.push_str(&format!("Definition cases : list split_case := [\n  {}\n].\n", cs.join(";\n  ")));
        v.push_str("Eval vm_compute in (\"SPLIT\", map run_split_case cases).\n");
        std::fs::write(format!("{out}/split_{ci}.v"), v).unwrap();
        split_files.push(format!("split_{ci}.v"));
    }
    let mut spec_files = Vec::new();
    for (ci, cs) in spec_cases.chunks(40).enumerate() {
        let mut v = header("BubbleDewC05");
        v.push_str(&format!("Definition cases : list spec_case := [\n  {}\n].\n", cs.join(";\n  ")));
        v.push_str("Eval vm_compute in (\"SPEC\", map run_spec_case cases).\n");
        std::fs::write(format!("{out}/spec_{ci}.v"), v).unwrap();
        spec_files.push(format!("spec_{ci}.v"));
    }

    let (het_failures, het_stats, het_files) = hetero_search(&out, full, cli.seed);
    failures.extend(het_failures);
    goal_files.extend(het_files);
    let res = json!({
        "property": "C05", "tier": cli.tier, "seed": cli.seed,
        "hetero": het_stats,
        "rr": rr_json,
        "split": {"files": split_files, "chunk": 8, "cases": split_json},
        "res_goals": goal_files.iter().map(|(f, m)| json!({"file": f, "goals": m})).collect::<Vec<_>>(),
        "spec": {"files": spec_files, "chunk": 40, "cases": spec_json},
        "support": {
            "pairs_in_window": n_pairs_total, "pairs_sampled": chosen.iter().map(|&(i, j)| json!([names[i], names[j]])).collect::<Vec<_>>(),
            "points_per_pair": pts_per_pair,
            "bubble_attempted": counts[0], "bubble_found": counts[1], "dew_attempted": counts[2], "dew_found": counts[3],
            "flash_attempted": counts[4], "flash_found": counts[5],
            "worst": {"rel_pressure_difference": worst.dp, "abs_ln_fugacity_difference": worst.lnf, "min_phase_distinctness": worst.min_dist,
                      "spec_composition_deviation": worst.dx, "rel_feed_imbalance": worst.dbal, "rel_flash_pressure_deviation": worst.dpspec,
                      "abs_pressure_difference_reduced": worst.dp_abs,
                      "ln_fugacity_difference_over_allowed_(requested_tolerance)": worst.lnf_ratio, "envelopes_narrower_than_tolerance_(no_flash)": worst.narrow,
                      "non_default_option_results_with_vapor()_denser_than_liquid()_(counted,_not_a_clause)": worst.role_swapped},
            "bubble_p_specified_attempted": worst.extra[0], "bubble_p_specified_found": worst.extra[1],
            "flash_from_initial_state_attempted": worst.extra[2], "flash_from_initial_state_found": worst.extra[3],
            "variants_attempted_found": worst.variants.iter().map(|(k, v)| (k.clone(), json!(v))).collect::<serde_json::Map<String, Value>>(),
            "binary_vle_diagram_states_checked": worst.extra[4], "binary_vle_diagrams_failed_(not_a_clause_of_the_property)": worst.extra[5],
            "known_points": known_out,
            "tolerances": {"ln_f": TOL_LNF, "p_rel": TOL_P_REL, "p_abs_reduced": TOL_P_ABS, "min_envelope_rel": MIN_ENVELOPE, "composition_and_balance": TOL_X, "distinct": MIN_DISTINCT},
            "failures": failures, "samples": samples,
            "ranges": "hydrocarbon records of gross2001.json (methane..biphenyl), T_c ratio < 1.5, T in [0.65,0.9] of the lower T_c, x in [0.05,0.95], flash at p_dew + s (p_bubble - p_dew), s in [0.02,0.98]"
        }
    });
    cli.write_impl(&res);
}
