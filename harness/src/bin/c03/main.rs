//! C03 harness: runs the REAL state constructors of feos-core (public API only)
//!  1. every presence pattern of the eleven optional inputs (x value classes) through State::new / State::new_full /
//!     StateBuilder::build on a Peng-Robinson pure and binary model with a mock ideal gas  -> impl.json + cases_*.v
//!  2. density_iteration (through State::new_npt with an initial density) on a logging mock equation of state whose
//!     pressure is an exact rational function -> branch traces for comparison with the Coq model (di_cases.v)
//!  3. the support search over the Gross-Sadowski PC-SAFT records (sweep.rs)
mod mock;
mod sweep;
use feos_core::cubic::PengRobinson;
use feos_core::{Contributions, DensityInitialization, EosError, EosResult, EquationOfState, ReferenceSystem, State, StateBuilder};
use feos_verif::configs::{peng_robinson, Rng};
use feos_verif::prog::dyadic;
use mock::*;
use ndarray::{arr1, Array1};
use quantity::*;
use serde_json::{json, Value};
use std::fmt::Write as _;
use std::sync::Arc;

type Eos = EquationOfState<MockIdealGas, PengRobinson>;

// ---------------------------------------------------------------------------------------------
// values

/// a value handed to the implementation (SI units) and, exactly, to the model
#[derive(Clone, Copy, Debug)]
struct Val(f64);

fn coq_val(v: f64) -> String {
    if v.is_nan() {
        "NaN".into()
    } else if v == f64::INFINITY {
        "PInf".into()
    } else if v == f64::NEG_INFINITY {
        "NInf".into()
    } else if v == 0.0 && v.is_sign_negative() {
        "NZ".into()
    } else {
        let d = dyadic(v);
        let d = d.trim_start_matches('(').trim_end_matches(')');
        let mut it = d.split(", ");
        let (m, e) = (it.next().unwrap(), it.next().unwrap());
        format!("(dy ({m}) ({e}))")
    }
}
fn coq_opt(v: &Option<Val>) -> String {
    match v {
        Some(Val(x)) => format!("(Some {})", coq_val(*x)),
        None => "None".into(),
    }
}
fn coq_optv(v: &Option<Vec<f64>>) -> String {
    match v {
        Some(xs) => format!("(Some [{}])", xs.iter().map(|x| coq_val(*x)).collect::<Vec<_>>().join("; ")),
        None => "None".into(),
    }
}
fn jf(x: f64) -> Value {
    if x.is_finite() {
        json!(x)
    } else {
        json!(format!("{x}"))
    }
}

#[derive(Clone, Debug, Default)]
struct Inputs {
    t: Option<Val>,
    v: Option<Val>,
    rho: Option<Val>,
    pd: Option<Vec<f64>>,
    n: Option<Val>,
    m: Option<Vec<f64>>,
    x: Option<Vec<f64>>,
    p: Option<Val>,
    h: Option<Val>,
    s: Option<Val>,
    u: Option<Val>,
}

impl Default for Val {
    fn default() -> Self {
        Val(0.0)
    }
}

impl Inputs {
    fn coq(&self) -> String {
        format!(
            "(mkIn {} {} {} {} {} {} {} {} {} {} {})",
            coq_opt(&self.t),
            coq_opt(&self.v),
            coq_opt(&self.rho),
            coq_optv(&self.pd),
            coq_opt(&self.n),
            coq_optv(&self.m),
            coq_optv(&self.x),
            coq_opt(&self.p),
            coq_opt(&self.h),
            coq_opt(&self.s),
            coq_opt(&self.u)
        )
    }
    fn json(&self) -> Value {
        let o = |v: &Option<Val>| v.map(|x| jf(x.0));
        let ov = |v: &Option<Vec<f64>>| v.as_ref().map(|xs| xs.iter().map(|x| jf(*x)).collect::<Vec<_>>());
        json!({"T": o(&self.t), "V": o(&self.v), "rho": o(&self.rho), "rho_i": ov(&self.pd), "n": o(&self.n), "N_i": ov(&self.m),
               "x_i": ov(&self.x), "p": o(&self.p), "h": o(&self.h), "s": o(&self.s), "u": o(&self.u)})
    }
    fn has_hsu(&self) -> bool {
        self.h.is_some() || self.s.is_some() || self.u.is_some()
    }
}

fn err_json(e: &EosError) -> Value {
    match e {
        EosError::UndeterminedState(m) => {
            let code = if m.starts_with("Both density") {
                1
            } else if m.starts_with("Both moles") {
                2
            } else if m.starts_with("Density is over") {
                3
            } else if m.starts_with("Composition is over") {
                4
            } else if m.starts_with("Missing composition") {
                5
            } else if m.starts_with("Missing input") {
                6
            } else {
                16
            };
            json!({"err": code, "a": 0, "b": 0, "msg": e.to_string()})
        }
        EosError::IncompatibleComponents(a, b) => json!({"err": 7, "a": a, "b": b, "msg": e.to_string()}),
        EosError::InvalidState(w, f, _) if w == "validate" => {
            let fi = match f.as_str() {
                "temperature" => 1,
                "volume" => 2,
                _ => 3,
            };
            json!({"err": 8, "a": fi, "b": 0, "msg": e.to_string()})
        }
        EosError::InvalidState(..) => json!({"err": 11, "a": 0, "b": 0, "msg": e.to_string()}),
        EosError::IterationFailed(_) => json!({"err": 12, "a": 0, "b": 0, "msg": e.to_string()}),
        EosError::NotConverged(_) => json!({"err": 13, "a": 0, "b": 0, "msg": e.to_string()}),
        _ => json!({"err": 19, "a": 0, "b": 0, "msg": e.to_string()}),
    }
}

fn state_json(r: EosResult<State<Eos>>) -> Value {
    match r {
        Err(e) => err_json(&e),
        Ok(s) => {
            let c = Contributions::Total;
            let m3 = METER.powi::<typenum::P3>();
            let nn: Vec<Value> = s.moles.convert_to(MOL).iter().map(|x| jf(*x)).collect();
            let prop = std::panic::catch_unwind(std::panic::AssertUnwindSafe(|| {
                (
                    s.pressure(c).convert_to(PASCAL),
                    s.molar_enthalpy(c).convert_to(JOULE / MOL),
                    s.molar_entropy(c).convert_to(JOULE / MOL / KELVIN),
                    s.molar_internal_energy(c).convert_to(JOULE / MOL),
                )
            }))
            .unwrap_or((f64::NAN, f64::NAN, f64::NAN, f64::NAN));
            json!({"ok": true, "T": jf(s.temperature.convert_to(KELVIN)), "V": jf(s.volume.convert_to(m3)), "N": nn,
                   "p": jf(prop.0), "h": jf(prop.1), "s": jf(prop.2), "u": jf(prop.3),
                   "rho": jf(s.density.convert_to(MOL / m3)), "x": s.molefracs.iter().map(|x| jf(*x)).collect::<Vec<_>>()})
        }
    }
}

fn q<U>(v: &Option<Val>, unit: Quantity<f64, U>) -> Option<Quantity<f64, U>>
where
    Quantity<f64, U>: Copy,
    f64: std::ops::Mul<Quantity<f64, U>, Output = Quantity<f64, U>>,
{
    v.map(|x| x.0 * unit)
}

fn call_full(eos: &Arc<Eos>, i: &Inputs) -> EosResult<State<Eos>> {
    let m3 = METER.powi::<typenum::P3>();
    let pd = i.pd.as_ref().map(|v| Array1::from_vec(v.clone()) * (MOL / m3));
    let m = i.m.as_ref().map(|v| Array1::from_vec(v.clone()) * MOL);
    let x = i.x.as_ref().map(|v| Array1::from_vec(v.clone()));
    State::new_full(
        eos,
        q(&i.t, KELVIN),
        q(&i.v, m3),
        q(&i.rho, MOL / m3),
        pd.as_ref(),
        q(&i.n, MOL),
        m.as_ref(),
        x.as_ref(),
        q(&i.p, PASCAL),
        q(&i.h, JOULE / MOL),
        q(&i.s, JOULE / MOL / KELVIN),
        q(&i.u, JOULE / MOL),
        DensityInitialization::None,
        None,
    )
}

fn call_res(eos: &Arc<Eos>, i: &Inputs) -> EosResult<State<Eos>> {
    let m3 = METER.powi::<typenum::P3>();
    let pd = i.pd.as_ref().map(|v| Array1::from_vec(v.clone()) * (MOL / m3));
    let m = i.m.as_ref().map(|v| Array1::from_vec(v.clone()) * MOL);
    let x = i.x.as_ref().map(|v| Array1::from_vec(v.clone()));
    State::new(
        eos,
        q(&i.t, KELVIN),
        q(&i.v, m3),
        q(&i.rho, MOL / m3),
        pd.as_ref(),
        q(&i.n, MOL),
        m.as_ref(),
        x.as_ref(),
        q(&i.p, PASCAL),
        DensityInitialization::None,
    )
}

fn call_builder(eos: &Arc<Eos>, i: &Inputs) -> EosResult<State<Eos>> {
    let m3 = METER.powi::<typenum::P3>();
    let pd = i.pd.as_ref().map(|v| Array1::from_vec(v.clone()) * (MOL / m3));
    let m = i.m.as_ref().map(|v| Array1::from_vec(v.clone()) * MOL);
    let x = i.x.as_ref().map(|v| Array1::from_vec(v.clone()));
    let mut b = StateBuilder::new(eos);
    if let Some(t) = q(&i.t, KELVIN) {
        b = b.temperature(t);
    }
    if let Some(v) = q(&i.v, m3) {
        b = b.volume(v);
    }
    if let Some(r) = q(&i.rho, MOL / m3) {
        b = b.density(r);
    }
    if let Some(pd) = pd.as_ref() {
        b = b.partial_density(pd);
    }
    if let Some(n) = q(&i.n, MOL) {
        b = b.total_moles(n);
    }
    if let Some(m) = m.as_ref() {
        b = b.moles(m);
    }
    if let Some(x) = x.as_ref() {
        b = b.molefracs(x);
    }
    if let Some(p) = q(&i.p, PASCAL) {
        b = b.pressure(p);
    }
    if !i.has_hsu() {
        return b.build();
    }
    let (h, s, u) = (q(&i.h, JOULE / MOL), q(&i.s, JOULE / MOL / KELVIN), q(&i.u, JOULE / MOL));
    let mut bt = if let Some(h) = h {
        b.molar_enthalpy(h)
    } else if let Some(s) = s {
        b.molar_entropy(s)
    } else {
        b.molar_internal_energy(u.unwrap())
    };
    if let (Some(_), Some(s)) = (h, s) {
        bt = bt.molar_entropy(s);
    }
    if let (true, Some(u)) = (h.is_some() || s.is_some(), u) {
        bt = bt.molar_internal_energy(u);
    }
    bt.build()
}

struct Reference {
    t: f64,
    p: f64,
    h: f64,
    s: f64,
    u: f64,
    x0: Vec<f64>,
}

fn reference(eos: &Arc<Eos>, comps: usize) -> Reference {
    let m3 = METER.powi::<typenum::P3>();
    let t = if comps == 1 { 400.0 } else { 450.0 };
    let x0: Vec<f64> = if comps == 1 { vec![1.0] } else { vec![0.375, 0.625] };
    let moles = Array1::from_vec(x0.iter().map(|x| x * 2.5).collect()) * MOL;
    let s0 = State::new_nvt(eos, t * KELVIN, 2.5 * MOL / (80.0 * MOL / m3), &moles).unwrap();
    let c = Contributions::Total;
    Reference {
        t,
        p: s0.pressure(c).convert_to(PASCAL),
        h: s0.molar_enthalpy(c).convert_to(JOULE / MOL),
        s: s0.molar_entropy(c).convert_to(JOULE / MOL / KELVIN),
        u: s0.molar_internal_energy(c).convert_to(JOULE / MOL),
        x0,
    }
}

const BAD: [f64; 6] = [f64::NAN, f64::INFINITY, f64::NEG_INFINITY, -0.0, -1.5, 0.0];

/// build the inputs of presence pattern `pat` (bit k = k-th of T V rho rho_i n N_i x_i p h s u)
fn make_inputs(pat: u32, r: &Reference, rng: &mut Rng) -> Inputs {
    let bit = |k: u32| pat >> k & 1 == 1;
    // independent (mutually inconsistent) values for the extensive / density inputs: at most one source of each is
    // used by an accepted pattern, and inconsistent values tell the sources apart.  rho = 80 mol/m3 at the reference;
    // the iterative targets (p,h,s,u) belong to the reference state at the reference composition.
    let vol = rng.range(0.015, 0.06);
    let rho = rng.range(55.0, 120.0);
    let ntot = rng.range(1.0, 4.0);
    let rho_pd = rng.range(55.0, 120.0);
    let n_m = rng.range(1.0, 4.0);
    let xs = rng.range(0.5, 3.0);
    let mut i = Inputs::default();
    i.t = bit(0).then_some(Val(r.t));
    i.v = bit(1).then_some(Val(vol));
    i.rho = bit(2).then_some(Val(rho));
    i.pd = bit(3).then(|| r.x0.iter().map(|x| x * rho_pd).collect());
    i.n = bit(4).then_some(Val(ntot));
    i.m = bit(5).then(|| r.x0.iter().map(|x| x * n_m).collect());
    i.x = bit(6).then(|| r.x0.iter().map(|x| x * xs).collect());
    i.p = bit(7).then_some(Val(r.p));
    i.h = bit(8).then_some(Val(r.h));
    i.s = bit(9).then_some(Val(r.s));
    i.u = bit(10).then_some(Val(r.u));
    i
}

/// replace one present value by a bad one (or change a vector length); returns a description
fn inject(i: &mut Inputs, rng: &mut Rng) -> Option<String> {
    let mut slots: Vec<u32> = Vec::new();
    for (k, present) in [
        i.t.is_some(), i.v.is_some(), i.rho.is_some(), i.pd.is_some(), i.n.is_some(), i.m.is_some(), i.x.is_some(), i.p.is_some(),
        i.h.is_some(), i.s.is_some(), i.u.is_some(),
    ]
    .iter()
    .enumerate()
    {
        if *present {
            slots.push(k as u32);
        }
    }
    if slots.is_empty() {
        return None;
    }
    // bias towards the inputs that matter for validation (T, V, amounts)
    let k = slots[rng.below(slots.len())];
    let bad = BAD[rng.below(BAD.len())];
    let name = ["T", "V", "rho", "rho_i", "n", "N_i", "x_i", "p", "h", "s", "u"][k as usize];
    let set = |o: &mut Option<Val>| *o = Some(Val(bad));
    let mut vecmod = |o: &mut Option<Vec<f64>>, rng: &mut Rng| -> String {
        let v = o.as_mut().unwrap();
        match rng.below(4) {
            0 => {
                v.pop();
                "shorter".into()
            }
            1 => {
                v.push(0.3);
                "longer".into()
            }
            _ => {
                let j = rng.below(v.len());
                v[j] = bad;
                format!("[{j}]={bad}")
            }
        }
    };
    let what = match k {
        0 => { set(&mut i.t); format!("{bad}") }
        1 => { set(&mut i.v); format!("{bad}") }
        2 => { set(&mut i.rho); format!("{bad}") }
        3 => vecmod(&mut i.pd, rng),
        4 => { set(&mut i.n); format!("{bad}") }
        5 => vecmod(&mut i.m, rng),
        6 => vecmod(&mut i.x, rng),
        7 => { set(&mut i.p); format!("{bad}") }
        8 => { set(&mut i.h); format!("{bad}") }
        9 => { set(&mut i.s); format!("{bad}") }
        _ => { set(&mut i.u); format!("{bad}") }
    };
    Some(format!("{name}:{what}"))
}

fn header() -> String {
    "From Coq Require Import QArith List ZArith String.\nFrom FeosVerif Require Import StateNewC03 DensityIterC03.\nImport ListNotations.\nOpen Scope string_scope.\nSet Printing Width 1000000.\nSet Printing Depth 1000000.\n".to_string()
}

fn pattern_cases(cli: &feos_verif::cli::Cli, rng: &mut Rng) -> (Vec<Value>, Vec<String>) {
    let mut cases: Vec<Value> = Vec::new();
    let nfiles = 16;
    let mut files: Vec<String> = (0..nfiles).map(|_| header()).collect();
    let mut id = 0usize;
    let variants = if cli.full() { 4 } else { 1 };
    for comps in [1usize, 2] {
        let eos: Arc<Eos> = Arc::new(EquationOfState::new(
            Arc::new(MockIdealGas { ncomp: comps, k: 4.5 }),
            Arc::new(peng_robinson(comps)),
        ));
        let r = reference(&eos, comps);
        for pat in 0u32..2048 {
            for variant in 0..=variants {
                let mut inp = make_inputs(pat, &r, rng);
                let injected = if variant == 0 { None } else { inject(&mut inp, rng) };
                if variant > 0 && injected.is_none() {
                    continue;
                }
                let full = state_json(call_full(&eos, &inp));
                let builder = std::panic::catch_unwind(std::panic::AssertUnwindSafe(|| state_json(call_builder(&eos, &inp))))
                    .unwrap_or(json!({"err": 99, "a": 0, "b": 0, "msg": "panic"}));
                let res = if inp.has_hsu() { Value::Null } else { state_json(call_res(&eos, &inp)) };
                let f = id % nfiles;
                writeln!(
                    files[f],
                    "Eval vm_compute in (\"R\", {id}%Z, (enc_out (new_full {comps} {i}), enc_out (new_res {comps} {i}))).",
                    i = inp.coq()
                )
                .unwrap();
                cases.push(json!({"id": id, "comps": comps, "pattern": pat, "injected": injected, "inputs": inp.json(),
                    "new_full": full, "builder": builder, "new": res}));
                id += 1;
            }
        }
    }
    let mut names = Vec::new();
    for (k, f) in files.iter().enumerate() {
        let name = format!("cases_{k}.v");
        std::fs::write(format!("{}/{name}", cli.out), f).unwrap();
        names.push(name);
    }
    (cases, names)
}

// ---------------------------------------------------------------------------------------------
// density iteration traces on the mock

fn di_cases(cli: &feos_verif::cli::Cli, rng: &mut Rng) -> (Vec<Value>, Vec<String>) {
    let nfiles = 16;
    let mut outs: Vec<String> = (0..nfiles).map(|_| header()).collect();
    let mut cases = Vec::new();
    let n = if cli.full() { 480 } else { 48 };
    let b = 32.0;
    let maxd = 0.9 / b; // 0.028125, exact
    for k in 0..n {
        // critical temperature of the van der Waals part: Tc = 8a/(27b)
        let tc = 400.0;
        let a = 27.0 * b * tc / 8.0;
        let step = k % 4 == 3; // every fourth case has the pressure step (non-convergence / capped steps)
        // step cases are supercritical (no spinodal searches: 50 plain iterations, cheap to evaluate in Coq)
        let t = ((if step { rng.range(1.05, 1.4) } else { rng.range(0.6, 1.4) }) * tc * 16.0).round() / 16.0;
        let (amp, rs, w) = if step { (rng.range(2.0e-3, 2.0e-2), rng.range(0.1, 0.8) * maxd, 1e-9) } else { (0.0, 1.0, 1.0) };
        let eos = Arc::new(MockEos { ncomp: 1, a, b, amp, vstar: 1.0 / rs, w, maxdensity: maxd });
        // the rational oracle uses rho* = 1/vstar exactly as the f64 1/vstar
        let rs_eff = 1.0 / (1.0 / rs);
        let rho_t = rng.range(0.01, 0.95) * maxd;
        let p_of = |r: f64| t * r / (1.0 - b * r) - a * r * r;
        let ptarget = match k % 3 {
            0 => p_of(rho_t),
            1 => p_of(rho_t) * rng.range(0.2, 3.0),
            _ => rng.log_range(1e-4, 1.0) * tc / (8.0 * b),
        };
        let ptarget = ptarget.min(p_of(0.98 * maxd));
        let ptarget = if step { t * rs_eff / (1.0 - b * rs_eff) - a * rs_eff * rs_eff + rng.range(-0.5, 0.5) * t * amp } else { ptarget };
        let rho0 = match k % 5 {
            0 => maxd,
            1 => (ptarget / t).abs().max(1e-9).min(maxd),
            2 => rho_t * (1.0 + rng.range(-0.05, 0.05)),
            _ => rng.range(0.001, 1.0) * maxd,
        };
        let tq = Temperature::from_reduced(t);
        let pq = Pressure::from_reduced(ptarget);
        // the implementation sees p after the SI round trip: hand the model the reduced value it will compare with
        let p_seen = pq.to_reduced();
        let rho0q = Density::from_reduced(rho0);
        let rho0_seen = rho0q.to_reduced();
        let moles = Moles::from_reduced(arr1(&[1.0]));
        log_start();
        let r = State::new_npt(&eos, tq, pq, &moles, DensityInitialization::InitialDensity(rho0q));
        let log = log_stop();
        let res = match &r {
            Ok(s) => json!({"code": 0, "rho": s.density.to_reduced(), "p": s.pressure(Contributions::Total).to_reduced()}),
            Err(e) => {
                let code = match e {
                    EosError::InvalidState(w, _, _) if w == "density iteration" => 1,
                    EosError::IterationFailed(_) => 2,
                    EosError::NotConverged(w) if w == "density_iteration" => 3,
                    EosError::NotConverged(_) => 4,
                    EosError::InvalidState(w, _, _) if w == "pressure spinodal" => 5,
                    _ => 20,
                };
                json!({"code": code, "msg": e.to_string()})
            }
        };
        let dq = |x: f64| {
            let d = dyadic(x);
            let d = d.trim_start_matches('(').trim_end_matches(')').to_string();
            let mut it = d.split(", ");
            format!("(dyq ({}) ({}))", it.next().unwrap(), it.next().unwrap())
        };
        writeln!(
            outs[(k + k / nfiles) % nfiles],
            "Eval vm_compute in (\"DI\", {k}%Z, run_di {} {} {} {} {} {} {} {}).",
            dq(t), dq(a), dq(b), dq(amp), dq(rs_eff), dq(maxd), dq(p_seen), dq(rho0_seen)
        )
        .unwrap();
        cases.push(json!({"id": k, "T": t, "a": a, "b": b, "amp": amp, "rho_star": rs_eff, "maxdensity": maxd, "p_target": p_seen, "rho0": rho0_seen,
            "result": res, "trace": log.iter().map(|(o, r)| json!([o, r])).collect::<Vec<_>>()}));
    }
    let mut names = Vec::new();
    for (k, f) in outs.iter().enumerate() {
        let name = format!("di_cases_{k}.v");
        std::fs::write(format!("{}/{name}", cli.out), f).unwrap();
        names.push(name);
    }
    (cases, names)
}

// ---------------------------------------------------------------------------------------------
// the Newton wrapper (State::new_nvu -> newton) on a mock whose internal energy is a rational function with a step

fn newton_cases(cli: &feos_verif::cli::Cli, rng: &mut Rng) -> (Vec<Value>, String) {
    let mut out = header();
    let mut cases = Vec::new();
    let n = if cli.full() { 160 } else { 40 };
    let rgas = RGAS.convert_to(JOULE / MOL / KELVIN);
    for k in 0..n {
        let kk = 4.5;
        let tstar = (rng.range(250.0, 450.0) * 8.0).round() / 8.0;
        // three kinds: no step (converges), target on the same side as the start (converges on one branch),
        // target inside the step (no temperature has that energy: the iteration alternates around T* until the limit)
        let kind = k % 3;
        let amp = if kind == 0 { 0.0 } else { (rng.range(15.0, 140.0) * 4.0).round() / 4.0 };
        let t0 = (tstar + if kind == 1 { rng.range(5.0, 60.0) } else { rng.range(-40.0, 40.0) }).max(150.0);
        let u_of = |t: f64, s: f64| rgas * ((kk - 1.0) * t + s * amp * t * t / (tstar * tstar));
        let u_target = match kind {
            0 => u_of(tstar + rng.range(-80.0, 80.0), 1.0),
            1 => u_of(tstar + rng.range(20.0, 120.0), 1.0),
            _ => rgas * (kk - 1.0) * tstar + rng.range(-0.6, 0.6) * rgas * amp,
        };
        let eos = Arc::new(EquationOfState::new(
            Arc::new(StepIdealGas { k: kk, amp, tstar, w: 1e-7 }),
            Arc::new(MockEos { ncomp: 1, a: 0.0, b: 0.0, amp: 0.0, vstar: 1.0, w: 1.0, maxdensity: 0.01 }),
        ));
        let moles = arr1(&[2.0]) * MOL;
        let vol = 0.05 * METER.powi::<typenum::P3>();
        tlog_start();
        let r = State::new_nvu(&eos, vol, u_target * JOULE / MOL, &moles, Some(t0 * KELVIN));
        let trace = tlog_take();
        let res = match &r {
            Ok(s) => json!({"code": 0, "T": s.temperature.convert_to(KELVIN),
                "u": s.molar_internal_energy(Contributions::Total).convert_to(JOULE / MOL)}),
            Err(EosError::NotConverged(w)) if w == "newton" => json!({"code": 13, "msg": "NotConverged(newton)"}),
            Err(e) => json!({"code": 20, "msg": e.to_string()}),
        };
        let dq = |x: f64| {
            let d = dyadic(x);
            let d = d.trim_start_matches('(').trim_end_matches(')').to_string();
            let mut it = d.split(", ");
            format!("(dyq ({}) ({}))", it.next().unwrap(), it.next().unwrap())
        };
        // the model works with u/R; R = k_B N_A exactly
        writeln!(
            out,
            "Eval vm_compute in (\"NW\", {k}%Z, run_newton {} {} {} ({} / (831446261815324 # 100000000000000)) {}).",
            dq(kk), dq(amp), dq(tstar), dq(u_target), dq(t0)
        )
        .unwrap();
        cases.push(json!({"id": k, "k": kk, "amp": amp, "T_star": tstar, "u_target_J_mol": u_target, "T_start_K": t0, "V_m3": 0.05, "N_mol": 2.0,
            "result": res, "trace": trace}));
    }
    std::fs::write(format!("{}/newton_cases.v", cli.out), &out).unwrap();
    (cases, "newton_cases.v".into())
}

/// the repaired defect, replayed on the real implementation with real models: a NaN / infinite pressure must not
/// produce a state (before the repair the liquid-start iteration fell through to Ok after 50 iterations)
fn nonfinite_pressure() -> Vec<Value> {
    let mut v = Vec::new();
    let pr = Arc::new(peng_robinson(1));
    for (hn, init) in [("liquid", DensityInitialization::Liquid), ("vapor", DensityInitialization::Vapor), ("none", DensityInitialization::None)] {
        for pv in [f64::NAN, f64::INFINITY, f64::NEG_INFINITY] {
            let r = State::new_npt(&pr, 300.0 * KELVIN, pv * PASCAL, &(arr1(&[1.0]) * MOL), init);
            v.push(match r {
                Ok(s) => json!({"model": "peng-robinson propane", "T_K": 300.0, "p_Pa": format!("{pv}"), "hint": hn, "ok": true,
                    "rho_mol_m3": jf(s.density.convert_to(MOL / METER.powi::<typenum::P3>())), "p_state_Pa": jf(s.pressure(Contributions::Total).convert_to(PASCAL))}),
                Err(e) => json!({"model": "peng-robinson propane", "T_K": 300.0, "p_Pa": format!("{pv}"), "hint": hn, "ok": false, "error": e.to_string()}),
            });
        }
    }
    v
}

fn main() {
    if std::env::args().any(|a| a == "--sweep") {
        let a: Vec<String> = std::env::args().collect();
        let o = sweep::run(a[4].parse().unwrap(), a[2].parse().unwrap(), a[3].parse().unwrap(), 5);
        let mut j = o.json.clone();
        let f = j["failures"].as_array().unwrap().clone();
        j["failures"] = serde_json::json!(f.len());
        j["samples"] = serde_json::json!(0);
        println!("{}", serde_json::to_string_pretty(&j).unwrap());
        for x in f.iter().take(12) { println!("{x}"); }
        return;
    }
    let cli = feos_verif::cli::Cli::parse("/verif/coq/gen/C03");
    let mut rng = Rng(cli.seed.wrapping_mul(0x2545_F491_4F6C_DD1D).wrapping_add(3));
    let (cases, files) = pattern_cases(&cli, &mut rng);
    let (dic, dif) = di_cases(&cli, &mut rng);
    let (nwc, nwf) = newton_cases(&cli, &mut rng);
    let (nrec, ntp) = if cli.full() { (127, 200) } else { (8, 25) };
    let sw = sweep::run(cli.seed, nrec, ntp, 5);
    cli.write_impl(&json!({
        "pattern_cases": cases, "pattern_files": files,
        "di_cases": dic, "di_files": dif,
        "newton_cases": nwc, "newton_file": nwf,
        "nonfinite_pressure": nonfinite_pressure(),
        "sweep": sw.json,
    }));
}
