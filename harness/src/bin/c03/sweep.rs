//! Support search (partial clause of C03, not decided by proof): for the shipped Gross-Sadowski PC-SAFT records,
//! (T,p) states for T in [0.45,1.65] T_c, p in [1e-4,10] p_c and every phase hint, through the public API only;
//! post-conditions of the returned states (pressure, lower-Gibbs root, requested branch) and of the Newton wrappers.
use crate::mock::MockIdealGas;
use feos::pcsaft::{PcSaft, PcSaftParameters, PcSaftRecord};
use feos_core::parameter::{Parameter, PureRecord};
use feos_core::{Contributions, DensityInitialization, EquationOfState, PhaseEquilibrium, ReferenceSystem, Residual, SolverOptions, State};
use feos_verif::configs::{params, Rng};
use ndarray::arr1;
use quantity::*;
use serde_json::{json, Value};
use std::sync::Arc;

pub const COLLECTIONS: [&str; 4] = ["gross2001.json", "gross2002.json", "gross2005_fit.json", "gross2006.json"];
/// relative pressure tolerance of a returned (T,p) state (the property's calibration: worst 1.9e-9)
pub const P_RTOL: f64 = 1e-7;

pub fn records() -> Vec<(String, PureRecord<PcSaftRecord>)> {
    let mut v = Vec::new();
    for f in COLLECTIONS {
        let txt = std::fs::read_to_string(format!("{}/pcsaft/{f}", params())).unwrap();
        let recs: Vec<PureRecord<PcSaftRecord>> = serde_json::from_str(&txt).unwrap();
        for r in recs {
            let name = r.identifier.name.clone().unwrap_or_default();
            v.push((format!("{f}:{name}"), r));
        }
    }
    v
}

type Eos = EquationOfState<MockIdealGas, PcSaft>;

fn hint_name(i: usize) -> &'static str {
    ["none", "vapor", "liquid"][i]
}
fn hint(i: usize) -> DensityInitialization {
    [DensityInitialization::None, DensityInitialization::Vapor, DensityInitialization::Liquid][i]
}

/// independent search for the stable-branch roots of p(rho) = p at fixed T through State::new_nvt only (no density
/// iteration, no hints): sign changes of p(rho) - p with positive slope on a log grid, refined by bisection.
/// Returns (lowest root, highest root) in mol/m3.
fn scan_roots(eos: &Arc<Eos>, t: Temperature, p: Pressure, moles: &Moles<ndarray::Array1<f64>>) -> Option<(f64, f64)> {
    let m3 = METER.powi::<typenum::P3>();
    let n = moles.sum();
    let rmax = eos.max_density(Some(moles)).ok()?.convert_to(MOL / m3);
    let pt = p.convert_to(PASCAL);
    let f = |r: f64| -> f64 {
        match State::new_nvt(eos, t, n / (r * MOL / m3), moles) {
            Ok(s) => s.pressure(Contributions::Total).convert_to(PASCAL) - pt,
            Err(_) => f64::NAN,
        }
    };
    let ng = 240;
    let lo = 1e-8 * rmax;
    let grid: Vec<f64> = (0..=ng).map(|i| lo * (rmax / lo).powf(i as f64 / ng as f64)).collect();
    let vals: Vec<f64> = grid.iter().map(|r| f(*r)).collect();
    let mut roots = Vec::new();
    for i in 0..ng {
        if vals[i] < 0.0 && vals[i + 1] >= 0.0 {
            let (mut a, mut b) = (grid[i], grid[i + 1]);
            for _ in 0..70 {
                let m = 0.5 * (a + b);
                if f(m) < 0.0 {
                    a = m
                } else {
                    b = m
                }
            }
            roots.push(0.5 * (a + b));
        }
    }
    if roots.is_empty() {
        None
    } else {
        Some((roots[0], roots[roots.len() - 1]))
    }
}

pub struct SweepOut {
    pub json: Value,
}

pub fn run(seed: u64, nrec: usize, ntp: usize, newton_every: usize) -> SweepOut {
    let mut rng = Rng(seed.wrapping_mul(0x9E37_79B9).wrapping_add(77));
    let all = records();
    let total_records = all.len();
    // quick: a seeded subset that always contains one record of each collection
    let mut chosen: Vec<usize> = Vec::new();
    if nrec >= all.len() {
        chosen = (0..all.len()).collect();
    } else {
        for f in COLLECTIONS {
            let idx: Vec<usize> = all.iter().enumerate().filter(|(_, (n, _))| n.starts_with(f)).map(|(i, _)| i).collect();
            chosen.push(idx[rng.below(idx.len())]);
        }
        while chosen.len() < nrec {
            let i = rng.below(all.len());
            if !chosen.contains(&i) {
                chosen.push(i);
            }
        }
    }
    let mut failures: Vec<Value> = Vec::new();
    let mut samples: Vec<Value> = Vec::new();
    let (mut n_tp, mut n_ok, mut worst_p, mut n_two_roots, mut n_gibbs) = (0usize, 0usize, 0.0f64, 0usize, 0usize);
    let (mut n_newton, mut n_newton_ok, mut worst_newton) = (0usize, 0usize, 0.0f64);
    let mut newton_err: Vec<Value> = Vec::new();
    let mut crit_fail: Vec<String> = Vec::new();
    let (mut n_unreach, mut n_unreach_ok, mut n_unreach_err) = (0usize, 0usize, 0usize);
    for &ri in &chosen {
        let (name, rec) = &all[ri];
        let pcs = Arc::new(PcSaft::new(Arc::new(PcSaftParameters::new_pure(rec.clone()).unwrap())));
        let eos: Arc<Eos> = Arc::new(EquationOfState::new(Arc::new(MockIdealGas { ncomp: 1, k: 4.5 }), pcs.clone()));
        let cp = match State::critical_point(&eos, None, None, SolverOptions::default()) {
            Ok(c) => c,
            Err(e) => {
                crit_fail.push(format!("{name}: {e}"));
                continue;
            }
        };
        let tc = cp.temperature;
        let pc = cp.pressure(Contributions::Total);
        let moles = arr1(&[1.0]) * MOL;
        for k in 0..ntp {
            // stratified + corners: the first four samples are the corners of the stated window
            let (tr, prr) = match k {
                0 => (0.45, 1e-4),
                1 => (0.45, 10.0),
                2 => (1.65, 1e-4),
                3 => (1.65, 10.0),
                _ => (rng.range(0.45, 1.65), rng.log_range(1e-4, 10.0)),
            };
            let t = tr * tc;
            let p = prr * pc;
            let mut found: Vec<Option<State<Eos>>> = Vec::new();
            for h in 0..3 {
                n_tp += 1;
                let r = State::new_npt(&eos, t, p, &moles, hint(h));
                match r {
                    Ok(s) => {
                        let ps = s.pressure(Contributions::Total);
                        let rel = ((ps - p) / p).into_value().abs();
                        let exact = s.temperature == t && s.moles.get(0) == moles.get(0);
                        if !(rel <= P_RTOL) || !exact {
                            failures.push(json!({"kind": "tp_state_wrong", "record": name, "T_over_Tc": tr, "p_over_pc": prr, "hint": hint_name(h),
                                "T_K": t.convert_to(KELVIN), "p_Pa": p.convert_to(PASCAL), "p_state_Pa": ps.convert_to(PASCAL), "rel_mismatch": rel,
                                "T_and_N_exact": exact}));
                        } else {
                            n_ok += 1;
                            if rel > worst_p {
                                worst_p = rel;
                            }
                        }
                        found.push(Some(s));
                    }
                    Err(e) => {
                        failures.push(json!({"kind": "tp_state_not_found", "record": name, "T_over_Tc": tr, "p_over_pc": prr, "hint": hint_name(h),
                            "T_K": t.convert_to(KELVIN), "p_Pa": p.convert_to(PASCAL), "error": e.to_string()}));
                        found.push(None);
                    }
                }
            }
            // root rules, against roots located independently of the density iteration
            if let (Some(n), Some(v), Some(l)) = (&found[0], &found[1], &found[2]) {
                let m3 = METER.powi::<typenum::P3>();
                let (rv, rl, rn) = (v.density.convert_to(MOL / m3), l.density.convert_to(MOL / m3), n.density.convert_to(MOL / m3));
                if let Some((r_lo, r_hi)) = scan_roots(&eos, t, p, &moles) {
                    if r_lo < 0.9 * r_hi {
                        n_two_roots += 1;
                        let near = |a: f64, b: f64| (a - b).abs() <= 1e-6 * b.abs();
                        if !near(rv, r_lo) || !near(rl, r_hi) {
                            failures.push(json!({"kind": "hint_branch", "record": name, "T_over_Tc": tr, "p_over_pc": prr,
                                "T_K": t.convert_to(KELVIN), "p_Pa": p.convert_to(PASCAL),
                                "rho_vapor_hint": rv, "rho_liquid_hint": rl, "vapor_root_scan": r_lo, "liquid_root_scan": r_hi}));
                        }
                        let sv = State::new_nvt(&eos, t, moles.sum() / (r_lo * MOL / m3), &moles).unwrap();
                        let sl = State::new_nvt(&eos, t, moles.sum() / (r_hi * MOL / m3), &moles).unwrap();
                        let gv = sv.residual_gibbs_energy().convert_to(JOULE);
                        let gl = sl.residual_gibbs_energy().convert_to(JOULE);
                        n_gibbs += 1;
                        let margin = 1e-7 * (gv.abs() + gl.abs() + 1.0);
                        let expect = if gv < gl - margin { Some(r_lo) } else if gl < gv - margin { Some(r_hi) } else { None };
                        if let Some(e) = expect {
                            if !near(rn, e) {
                                failures.push(json!({"kind": "gibbs_root", "record": name, "T_over_Tc": tr, "p_over_pc": prr,
                                    "T_K": t.convert_to(KELVIN), "p_Pa": p.convert_to(PASCAL),
                                    "g_res_vapor_root": gv, "g_res_liquid_root": gl, "rho_returned": rn, "rho_vapor_root": r_lo, "rho_liquid_root": r_hi}));
                            }
                        }
                        if samples.len() < 4 {
                            samples.push(json!({"record": name, "T_over_Tc": tr, "p_over_pc": prr, "rho_vapor_root": r_lo, "rho_liquid_root": r_hi,
                                "rho_none_hint": rn, "g_res_vapor": gv, "g_res_liquid": gl}));
                        }
                    }
                }
            }
            // Newton wrappers from this reachable single-phase state
            if newton_every > 0 && k % newton_every == 0 {
                if let Some(s0) = &found[0] {
                    newton_cases(&eos, s0, name, tr, prr, &mut rng, &mut n_newton, &mut n_newton_ok, &mut worst_newton, &mut failures, &mut newton_err);
                }
            }
        }
        // caloric targets that NO single-phase state reaches (two-phase (p,h) / (p,s) flash-type requests, (T,h)/(T,s) inside the
        // dome, out-of-range (V,u)): the constructor may fail, but whatever it returns must carry the requested value
        unreachable_targets(&eos, name, tc, pc, &mut rng, &mut n_unreach, &mut n_unreach_ok, &mut n_unreach_err, &mut failures);
    }
    SweepOut {
        json: json!({
            "records_total": total_records, "records_used": chosen.len(), "tp_cases": n_tp, "tp_ok": n_ok, "worst_rel_pressure_mismatch": worst_p,
            "two_root_points": n_two_roots, "gibbs_rule_checks": n_gibbs, "newton_cases": n_newton, "newton_ok": n_newton_ok,
            "newton_worst_scaled_residual": worst_newton, "newton_not_converged": newton_err.len(), "newton_not_converged_samples": newton_err.iter().take(5).collect::<Vec<_>>(),
            "unreachable_target_cases": n_unreach, "unreachable_target_states_returned_ok": n_unreach_ok, "unreachable_target_errors": n_unreach_err,
            "critical_point_failures": crit_fail, "failures": failures, "samples": samples,
            "window": "T in [0.45,1.65] T_c, p in [1e-4,10] p_c (log-uniform), hints none/vapor/liquid; corners always included",
            "p_rtol": P_RTOL,
        }),
    }
}

#[allow(clippy::too_many_arguments)]
fn newton_cases(
    eos: &Arc<Eos>,
    s0: &State<Eos>,
    name: &str,
    tr: f64,
    prr: f64,
    rng: &mut Rng,
    n: &mut usize,
    n_ok: &mut usize,
    worst: &mut f64,
    failures: &mut Vec<Value>,
    errs: &mut Vec<Value>,
) {
    let c = Contributions::Total;
    let (t, p, v) = (s0.temperature, s0.pressure(c), s0.volume);
    let (h, s, u) = (s0.molar_enthalpy(c), s0.molar_entropy(c), s0.molar_internal_energy(c));
    let cpm = s0.molar_isobaric_heat_capacity(c);
    let cvm = s0.molar_isochoric_heat_capacity(c);
    let moles = s0.moles.clone();
    // start offsets: far (a few %), near (1e-6 relative), very near (5e-6 K / 1e-9 relative density)
    let offs = [1.0 + rng.range(-0.03, 0.03), 1.0 + 1e-6, 1.0 + 5e-6 / t.convert_to(KELVIN)];
    let init = DensityInitialization::InitialDensity(s0.density);
    for (oi, &o) in offs.iter().enumerate() {
        let ti = Some(t * o);
        let rhoi = DensityInitialization::InitialDensity(s0.density * (1.0 + (o - 1.0) * 1e-2));
        let atol_t = 1e-8 * KELVIN + 1e-10 * t;
        let cases: Vec<(&str, feos_core::EosResult<State<Eos>>)> = vec![
            ("ph", State::new_nph(eos, p, h, &moles, init, ti)),
            ("ps", State::new_nps(eos, p, s, &moles, init, ti)),
            ("th", State::new_nth(eos, t, h, &moles, rhoi)),
            ("ts", State::new_nts(eos, t, s, &moles, rhoi)),
            ("vu", State::new_nvu(eos, v, u, &moles, ti)),
        ];
        for (kind, r) in cases {
            *n += 1;
            match r {
                Ok(st) => {
                    // post-condition of the accepted Newton step (newton_post): |f| <= |f'| (atol + rtol |x|), x2 slack + round-off floor
                    let (res, bound, echo_ok): (f64, f64, bool) = match kind {
                        "ph" => (
                            (st.molar_enthalpy(c) - h).convert_to(JOULE / MOL).abs(),
                            (cpm * atol_t).convert_to(JOULE / MOL).abs(),
                            ((st.pressure(c) - p) / p).into_value().abs() <= P_RTOL,
                        ),
                        "ps" => (
                            (st.molar_entropy(c) - s).convert_to(JOULE / MOL / KELVIN).abs(),
                            (cpm / t * atol_t).convert_to(JOULE / MOL / KELVIN).abs(),
                            ((st.pressure(c) - p) / p).into_value().abs() <= P_RTOL,
                        ),
                        "th" => {
                            let dh_drho = ((st.molar_enthalpy(c) - h) / (st.density - s0.density)).convert_to(JOULE / MOL / (MOL / METER.powi::<typenum::P3>()));
                            let _ = dh_drho;
                            ((st.molar_enthalpy(c) - h).convert_to(JOULE / MOL).abs(), f64::NAN, st.temperature == t)
                        }
                        "ts" => ((st.molar_entropy(c) - s).convert_to(JOULE / MOL / KELVIN).abs(), f64::NAN, st.temperature == t),
                        _ => (
                            (st.molar_internal_energy(c) - u).convert_to(JOULE / MOL).abs(),
                            (cvm * atol_t).convert_to(JOULE / MOL).abs(),
                            st.volume == v,
                        ),
                    };
                    // density Newton (T,h),(T,s): |f| <= |df/drho| (1e-12 A^-3 + 1e-10 rho): bound it with the slope measured by finite difference
                    let bound = if bound.is_nan() {
                        let drho = s0.density * 1e-4;
                        let s1 = State::new_nvt(eos, t, s0.total_moles / (s0.density + drho), &moles).unwrap();
                        let slope = if kind == "th" {
                            ((s1.molar_enthalpy(c) - h) / drho).convert_to(JOULE / MOL / (MOL / METER.powi::<typenum::P3>())).abs()
                        } else {
                            ((s1.molar_entropy(c) - s) / drho).convert_to(JOULE / MOL / KELVIN / (MOL / METER.powi::<typenum::P3>())).abs()
                        };
                        let atol_rho = (Density::from_reduced(1e-12) + 1e-10 * s0.density).convert_to(MOL / METER.powi::<typenum::P3>());
                        slope * atol_rho
                    } else {
                        bound
                    };
                    let scale = match kind {
                        "ph" | "th" | "vu" => (h.convert_to(JOULE / MOL).abs() + (RGAS * t).convert_to(JOULE / MOL)) * 1e-12,
                        _ => (s.convert_to(JOULE / MOL / KELVIN).abs() + RGAS.convert_to(JOULE / MOL / KELVIN)) * 1e-12,
                    };
                    let lim = 2.0 * bound + scale;
                    let ratio = res / lim;
                    if ratio > *worst {
                        *worst = ratio;
                    }
                    if !(res <= lim) || !echo_ok {
                        failures.push(json!({"kind": "newton_post", "wrapper": kind, "record": name, "T_over_Tc": tr, "p_over_pc": prr, "start_offset_index": oi,
                            "start_factor": o, "residual": res, "allowed": lim, "echo_ok": echo_ok,
                            "T_K": t.convert_to(KELVIN), "p_Pa": p.convert_to(PASCAL)}));
                    } else {
                        *n_ok += 1;
                    }
                }
                Err(e) => errs.push(json!({"wrapper": kind, "record": name, "T_over_Tc": tr, "p_over_pc": prr, "start_factor": o, "error": e.to_string()})),
            }
        }
    }
}

/// (p,h) and (p,s) requests between the saturated-liquid and saturated-vapour values at a subcritical pressure, (T,h)/(T,s) requests
/// between the two saturated values at the saturation temperature, and (V,u) requests far below the ideal-gas range: an error is fine,
/// a returned state must have the requested h / s / u (post-condition of the accepted Newton step with the derivative of the RETURNED
/// state, x4 slack + round-off floor) and echo p / T / V and the amounts.
#[allow(clippy::too_many_arguments)]
fn unreachable_targets(
    eos: &Arc<Eos>,
    name: &str,
    tc: Temperature,
    pc: Pressure,
    rng: &mut Rng,
    n: &mut usize,
    n_ok: &mut usize,
    n_err: &mut usize,
    failures: &mut Vec<Value>,
) {
    let c = Contributions::Total;
    let moles = arr1(&[1.0]) * MOL;
    let _ = tc;
    for pr in [rng.range(0.03, 0.2), rng.range(0.2, 0.6), rng.range(0.6, 0.92)] {
        let p = pr * pc;
        let vle = match PhaseEquilibrium::pure(eos, p, None, SolverOptions::default()) {
            Ok(v) => v,
            Err(_) => continue,
        };
        let (sv, sl) = (vle.vapor(), vle.liquid());
        let tsat = sv.temperature;
        let (hv, hl) = (sv.molar_enthalpy(c), sl.molar_enthalpy(c));
        let (ssv, ssl) = (sv.molar_entropy(c), sl.molar_entropy(c));
        let (uv, ul) = (sv.molar_internal_energy(c), sl.molar_internal_energy(c));
        for qi in 0..3 {
            let q = [0.3, 0.5, 0.7][qi] + rng.range(-0.08, 0.08);
            let h = hl + q * (hv - hl);
            let s = ssl + q * (ssv - ssl);
            let u = ul + q * (uv - ul);
            let ti = Some(tsat * (1.0 + rng.range(-0.03, 0.03)));
            let hints = [DensityInitialization::None, DensityInitialization::Vapor, DensityInitialization::Liquid];
            let hint = hints[rng.below(3)];
            let vmid = moles.sum() / (sl.density * (1.0 - q) + sv.density * q);
            let cases: Vec<(&str, feos_core::EosResult<State<Eos>>)> = vec![
                ("ph", State::new_nph(eos, p, h, &moles, hint, ti)),
                ("ps", State::new_nps(eos, p, s, &moles, hint, ti)),
                ("ph_default_start", State::new_nph(eos, p, h, &moles, hint, None)),
                ("th", State::new_nth(eos, tsat, h, &moles, hint)),
                ("ts", State::new_nts(eos, tsat, s, &moles, hint)),
                ("vu", State::new_nvu(eos, vmid, u - 40.0 * (uv - ul), &moles, ti)),
            ];
            for (kind, r) in cases {
                *n += 1;
                let st = match r {
                    Ok(st) => st,
                    Err(_) => {
                        *n_err += 1;
                        continue;
                    }
                };
                let tst = st.temperature;
                let atol_t = 1e-8 * KELVIN + 1e-10 * tst;
                let (res, bound, scale, echo_ok, target): (f64, f64, f64, bool, f64) = match kind {
                    "ph" | "ph_default_start" => (
                        (st.molar_enthalpy(c) - h).convert_to(JOULE / MOL).abs(),
                        (st.molar_isobaric_heat_capacity(c) * atol_t).convert_to(JOULE / MOL).abs(),
                        (hv - hl).convert_to(JOULE / MOL).abs(),
                        ((st.pressure(c) - p) / p).into_value().abs() <= P_RTOL,
                        h.convert_to(JOULE / MOL),
                    ),
                    "ps" => (
                        (st.molar_entropy(c) - s).convert_to(JOULE / MOL / KELVIN).abs(),
                        (st.molar_isobaric_heat_capacity(c) / tst * atol_t).convert_to(JOULE / MOL / KELVIN).abs(),
                        (ssv - ssl).convert_to(JOULE / MOL / KELVIN).abs(),
                        ((st.pressure(c) - p) / p).into_value().abs() <= P_RTOL,
                        s.convert_to(JOULE / MOL / KELVIN),
                    ),
                    "th" | "ts" => {
                        // density Newton: slope of the residual at the returned state by a central difference
                        let drho = st.density * 1e-5;
                        let sp = State::new_nvt(eos, tsat, st.total_moles / (st.density + drho), &moles).unwrap();
                        let sm = State::new_nvt(eos, tsat, st.total_moles / (st.density - drho), &moles).unwrap();
                        let atol_rho = (Density::from_reduced(1e-12) + 1e-10 * st.density).convert_to(MOL / METER.powi::<typenum::P3>());
                        let dr = (2.0 * drho).convert_to(MOL / METER.powi::<typenum::P3>());
                        if kind == "th" {
                            let slope = ((sp.molar_enthalpy(c) - sm.molar_enthalpy(c)).convert_to(JOULE / MOL) / dr).abs();
                            ((st.molar_enthalpy(c) - h).convert_to(JOULE / MOL).abs(), slope * atol_rho, (hv - hl).convert_to(JOULE / MOL).abs(),
                             st.temperature == tsat, h.convert_to(JOULE / MOL))
                        } else {
                            let slope = ((sp.molar_entropy(c) - sm.molar_entropy(c)).convert_to(JOULE / MOL / KELVIN) / dr).abs();
                            ((st.molar_entropy(c) - s).convert_to(JOULE / MOL / KELVIN).abs(), slope * atol_rho,
                             (ssv - ssl).convert_to(JOULE / MOL / KELVIN).abs(), st.temperature == tsat, s.convert_to(JOULE / MOL / KELVIN))
                        }
                    }
                    _ => (
                        (st.molar_internal_energy(c) - (u - 40.0 * (uv - ul))).convert_to(JOULE / MOL).abs(),
                        (st.molar_isochoric_heat_capacity(c) * atol_t).convert_to(JOULE / MOL).abs(),
                        (uv - ul).convert_to(JOULE / MOL).abs(),
                        st.volume == vmid,
                        (u - 40.0 * (uv - ul)).convert_to(JOULE / MOL),
                    ),
                };
                let lim = 4.0 * bound + 1e-10 * scale;
                let amounts_ok = st.moles.get(0) == moles.get(0);
                if !(res <= lim) || !echo_ok || !amounts_ok {
                    failures.push(json!({"kind": "caloric_target_not_met", "wrapper": kind, "record": name, "p_over_pc": pr, "p_Pa": p.convert_to(PASCAL),
                        "T_sat_K": tsat.convert_to(KELVIN), "quality_like_fraction": q, "requested": target, "residual": res, "allowed": lim,
                        "saturation_gap": scale, "echo_ok": echo_ok, "amounts_ok": amounts_ok,
                        "returned_T_K": tst.convert_to(KELVIN), "returned_rho_mol_m3": st.density.convert_to(MOL / METER.powi::<typenum::P3>()),
                        "initial_temperature_K": ti.map(|t| t.convert_to(KELVIN))}));
                } else {
                    *n_ok += 1;
                }
            }
        }
    }
}
