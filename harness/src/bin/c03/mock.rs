//! Harness-side mock equation of state (implements feos_core::Residual through the public trait) whose pressure is
//!   p(rho)/kT = rho/(1-b rho) - a rho^2/T + amp*tanh((rho-rho*)-like step of width w in molar volume)
//! i.e. a van-der-Waals fluid plus an (almost) discontinuous pressure step at rho* = 1/vstar.  It logs every
//! Helmholtz-energy evaluation (dual-number order, density) so that the branch trace of the REAL density_iteration /
//! pressure_spinodal can be compared with the Coq model run on the exact rational oracle.
use feos_core::{Components, IdealGas, Residual, StateHD};
use ndarray::{Array1, ScalarOperand};
use num_dual::DualNum;
use std::cell::RefCell;

thread_local! {
    pub static LOG: RefCell<Vec<(u8, f64)>> = RefCell::new(Vec::new());
    pub static LOG_ON: RefCell<bool> = RefCell::new(false);
}

pub fn log_start() {
    LOG.with(|l| l.borrow_mut().clear());
    LOG_ON.with(|o| *o.borrow_mut() = true);
}
pub fn log_stop() -> Vec<(u8, f64)> {
    LOG_ON.with(|o| *o.borrow_mut() = false);
    LOG.with(|l| l.borrow().clone())
}

#[derive(Clone, Debug)]
pub struct MockEos {
    pub ncomp: usize,
    pub a: f64,
    pub b: f64,
    pub amp: f64,
    pub vstar: f64,
    pub w: f64,
    pub maxdensity: f64,
}

impl Components for MockEos {
    fn components(&self) -> usize {
        self.ncomp
    }
    fn subset(&self, component_list: &[usize]) -> Self {
        let mut m = self.clone();
        m.ncomp = component_list.len();
        m
    }
}

fn order<D>() -> u8 {
    let n = std::any::type_name::<D>();
    if n.contains("Dual3") {
        3
    } else if n.contains("HyperDual") {
        4
    } else if n.contains("Dual2") {
        2
    } else if n.contains("Dual") {
        1
    } else {
        0
    }
}

impl Residual for MockEos {
    fn compute_max_density(&self, _moles: &Array1<f64>) -> f64 {
        self.maxdensity
    }

    fn residual_helmholtz_energy_contributions<D: DualNum<f64> + Copy + ScalarOperand>(
        &self,
        state: &StateHD<D>,
    ) -> Vec<(String, D)> {
        let n = state.moles.sum();
        let v = state.volume;
        let rho = n / v;
        if LOG_ON.with(|o| *o.borrow()) {
            LOG.with(|l| l.borrow_mut().push((order::<D>(), rho.re())));
        }
        let vdw = n * (-((-rho * self.b + 1.0).ln()) - rho * self.a / state.temperature);
        let mut res = vec![("vdw".to_string(), vdw)];
        if self.amp != 0.0 {
            let x = (v / n - self.vstar) / self.w;
            let ax = if x.re() < 0.0 { -x } else { x };
            let lncosh = ax + ((-ax * 2.0).exp() + 1.0).ln() - std::f64::consts::LN_2;
            res.push(("step".to_string(), n * lncosh * (self.amp * self.w)));
        }
        res
    }
}

/// ideal gas with constant heat capacity  c_v^ig = (k-1) R :  ln(lambda^3) = -(k-1) ln T + c
#[derive(Clone, Debug)]
pub struct MockIdealGas {
    pub ncomp: usize,
    pub k: f64,
}

impl Components for MockIdealGas {
    fn components(&self) -> usize {
        self.ncomp
    }
    fn subset(&self, component_list: &[usize]) -> Self {
        MockIdealGas { ncomp: component_list.len(), k: self.k }
    }
}

impl IdealGas for MockIdealGas {
    fn ln_lambda3<D: DualNum<f64> + Copy>(&self, temperature: D) -> Array1<D> {
        Array1::from_shape_fn(self.ncomp, |i| -temperature.ln() * (self.k - 1.0 + 0.25 * i as f64) + 3.0)
    }
    fn ideal_gas_model(&self) -> String {
        "mock constant-cp ideal gas".into()
    }
}

thread_local! {
    pub static TLOG: RefCell<Vec<f64>> = RefCell::new(Vec::new());
}
pub fn tlog_start() {
    TLOG.with(|l| l.borrow_mut().clear());
}
/// temperatures at which the ideal-gas model was evaluated, consecutive repeats merged
pub fn tlog_take() -> Vec<f64> {
    let v = TLOG.with(|l| l.borrow().clone());
    let mut out: Vec<f64> = Vec::new();
    for t in v {
        if out.last().map_or(true, |l| l.to_bits() != t.to_bits()) {
            out.push(t);
        }
    }
    out
}

/// ideal gas with ln(lambda^3) = -(k-1) ln T + 3 - (A w / T*^2) ln cosh((T - T*)/w), i.e. (w -> 0)
///   u/R = (k-1) T + sign(T - T*) A (T/T*)^2,   c_v/R = (k-1) + sign(T - T*) 2 A T / T*^2 :
/// a step of height 2A in the caloric properties at T*.  Logs every temperature it is evaluated at.
#[derive(Clone, Debug)]
pub struct StepIdealGas {
    pub k: f64,
    pub amp: f64,
    pub tstar: f64,
    pub w: f64,
}

impl Components for StepIdealGas {
    fn components(&self) -> usize {
        1
    }
    fn subset(&self, _: &[usize]) -> Self {
        self.clone()
    }
}

impl IdealGas for StepIdealGas {
    fn ln_lambda3<D: DualNum<f64> + Copy>(&self, temperature: D) -> Array1<D> {
        TLOG.with(|l| l.borrow_mut().push(temperature.re()));
        let mut v = -temperature.ln() * (self.k - 1.0) + 3.0;
        if self.amp != 0.0 {
            let x = (temperature - self.tstar) / self.w;
            let ax = if x.re() < 0.0 { -x } else { x };
            let lncosh = ax + ((-ax * 2.0).exp() + 1.0).ln() - std::f64::consts::LN_2;
            v -= lncosh * (self.amp * self.w / (self.tstar * self.tstar));
        }
        Array1::from_elem(1, v)
    }
    fn ideal_gas_model(&self) -> String {
        "mock ideal gas with a caloric step".into()
    }
}
