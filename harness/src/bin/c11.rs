//! C11 — history and schedule independence of `State` (derivative cache) and `PhaseDiagram::par_pure`.
//!
//! Runs on the REAL `State`:
//!  * exhaustive histories (all sequences of length <= 2 (quick) / <= 3 (thorough) over the complete request
//!    alphabet of the configuration) and random pool histories (requests on any state of a pool, `clone`,
//!    public getters) up to length 50; records every response (f64 bit pattern) and the final cache
//!    snapshot(s) through the cfg(feos_verif) hooks `State::verif_cache_request` / `verif_cache_snapshot`;
//!  * computes the oracle tuples (what the closures handed to the cache compute) independently through the
//!    public API (`eos.residual_helmholtz_energy(&state.derive*(..)) * T`) and measures their consistency;
//!  * emits the same histories + the oracle tables as Coq files replayed by the model `Cache.v` under vm_compute;
//!  * runtime support (not decided by proof): multi-thread stress on a shared state, `par_pure` vs `pure`.
use feos::ResidualModel;
use feos_core::{Contributions, Derivative, PhaseDiagram, PhaseEquilibrium, ReferenceSystem, Residual, SolverOptions, State};
use feos_verif::configs::{self, Config, RState, Rng};
use feos_verif::trace;
use ndarray::Array1;
use quantity::{Moles, Temperature, Volume};
use serde_json::{json, Value};
use std::collections::{BTreeMap, BTreeSet};
use std::fmt::Write as _;
use std::sync::Arc;

type St = State<ResidualModel>;

/// tolerance (in ulps) for a cache value read back through a public getter: `from_reduced` multiplies by the SI
/// reference value and `to_reduced` divides by it again (two roundings)
const GETTER_ULPS: u64 = 4;
/// relative tolerance of the runtime support searches for "the same value" (see checks/c11.py TOL_HIST)
const VALUE_TOL: f64 = 1e-7;
/// relative tolerance of par_pure vs pure (see checks/c11.py TOL_PAR)
const PAR_TOL: f64 = 1e-8;

fn mk_state(model: &Arc<ResidualModel>, s: &RState) -> St {
    State::new_nvt(
        model,
        Temperature::from_reduced(s.t),
        Volume::from_reduced(s.v),
        &Moles::from_reduced(Array1::from_vec(s.n.clone())),
    )
    .expect("state")
}

// ------------------------------------------------------------------------------------------------
// requests

/// derivative code: 0 = DV, 1 = DT, 2+i = DN(i)   (code order == derived `Ord` of `Derivative`)
fn deriv(code: usize) -> Derivative {
    match code {
        0 => Derivative::DV,
        1 => Derivative::DT,
        i => Derivative::DN(i - 2),
    }
}
fn dname(code: usize) -> String {
    match code {
        0 => "DV".into(),
        1 => "DT".into(),
        i => format!("DN({})", i - 2),
    }
}
fn dcoq(code: usize) -> String {
    match code {
        0 => "DV".into(),
        1 => "DT".into(),
        i => format!("(DN {})", i - 2),
    }
}

#[derive(Clone, Copy, PartialEq, Eq, Hash, Debug, PartialOrd, Ord)]
enum Rq {
    Z,
    F(usize),
    S(usize),
    M(usize, usize),
    T(usize),
}

impl Rq {
    fn issue(&self, st: &St) -> f64 {
        match *self {
            Rq::Z => st.verif_cache_request(0, Derivative::DV, Derivative::DV),
            Rq::F(d) => st.verif_cache_request(1, deriv(d), Derivative::DV),
            Rq::S(d) => st.verif_cache_request(2, deriv(d), Derivative::DV),
            Rq::M(a, b) => st.verif_cache_request(3, deriv(a), deriv(b)),
            Rq::T(d) => st.verif_cache_request(4, deriv(d), Derivative::DV),
        }
    }
    /// `Debug` text of the `PartialDerivative` request
    fn name(&self) -> String {
        match *self {
            Rq::Z => "Zeroth".into(),
            Rq::F(d) => format!("First({})", dname(d)),
            Rq::S(d) => format!("Second({})", dname(d)),
            Rq::M(a, b) => format!("SecondMixed({}, {})", dname(a), dname(b)),
            Rq::T(d) => format!("Third({})", dname(d)),
        }
    }
    fn coq(&self) -> String {
        match *self {
            Rq::Z => "Zeroth".into(),
            Rq::F(d) => format!("First {}", dcoq(d)),
            Rq::S(d) => format!("Second {}", dcoq(d)),
            Rq::M(a, b) => format!("SecondMixed {} {}", dcoq(a), dcoq(b)),
            Rq::T(d) => format!("Third {}", dcoq(d)),
        }
    }
    /// the key (Debug text) under which the property text expects the answer — the harness' own reading,
    /// used only by the runtime stress test
    fn key(&self) -> String {
        match *self {
            Rq::S(d) => Rq::M(d, d).name(),
            Rq::M(a, b) => Rq::M(a.min(b), a.max(b)).name(),
            r => r.name(),
        }
    }
}

fn alphabet(ncomp: usize) -> Vec<Rq> {
    let nd = ncomp + 2;
    let mut v = vec![Rq::Z];
    v.extend((0..nd).map(Rq::F));
    v.extend((0..nd).map(Rq::S));
    for a in 0..nd {
        for b in 0..nd {
            v.push(Rq::M(a, b));
        }
    }
    v.extend((0..nd).map(Rq::T));
    v
}

// ------------------------------------------------------------------------------------------------
// oracle: the tuples the closures compute, obtained through public API only

struct Oracle {
    nd: usize,
    o0: f64,
    o1: Vec<[f64; 2]>,
    o2: Vec<[f64; 3]>,
    oh: Vec<Vec<[f64; 4]>>,
    o3: Vec<[f64; 4]>,
}

fn oracle(model: &Arc<ResidualModel>, rs: &RState) -> Oracle {
    let nd = rs.n.len() + 2;
    // a fresh state per tuple: nothing can be shared through a cache
    let o0 = {
        let st = mk_state(model, rs);
        let h = st.derive0();
        model.residual_helmholtz_energy(&h) * h.temperature
    };
    let o1 = (0..nd)
        .map(|d| {
            let st = mk_state(model, rs);
            let h = st.derive1(deriv(d));
            let x = model.residual_helmholtz_energy(&h) * h.temperature;
            [x.re, x.eps]
        })
        .collect();
    let o2 = (0..nd)
        .map(|d| {
            let st = mk_state(model, rs);
            let h = st.derive2(deriv(d));
            let x = model.residual_helmholtz_energy(&h) * h.temperature;
            [x.re, x.v1, x.v2]
        })
        .collect();
    let oh = (0..nd)
        .map(|a| {
            (0..nd)
                .map(|b| {
                    let st = mk_state(model, rs);
                    let h = st.derive2_mixed(deriv(a), deriv(b));
                    let x = model.residual_helmholtz_energy(&h) * h.temperature;
                    [x.re, x.eps1, x.eps2, x.eps1eps2]
                })
                .collect()
        })
        .collect();
    let o3 = (0..nd)
        .map(|d| {
            let st = mk_state(model, rs);
            let h = st.derive3(deriv(d));
            let x = model.residual_helmholtz_energy(&h) * h.temperature;
            [x.re, x.v1, x.v2, x.v3]
        })
        .collect();
    Oracle { nd, o0, o1, o2, oh, o3 }
}

fn zb(x: f64) -> String {
    format!("{}%Z", x.to_bits())
}

impl Oracle {
    fn coq(&self) -> String {
        let mut s = String::new();
        let _ = writeln!(s, "Definition O : oracle Z := oracle_of_tables {}", zb(self.o0));
        let t1: Vec<String> = (0..self.nd).map(|d| format!("({}, ({}, {}))", dcoq(d), zb(self.o1[d][0]), zb(self.o1[d][1]))).collect();
        let _ = writeln!(s, "  [{}]", t1.join("; "));
        let t2: Vec<String> = (0..self.nd)
            .map(|d| format!("({}, ({}, {}, {}))", dcoq(d), zb(self.o2[d][0]), zb(self.o2[d][1]), zb(self.o2[d][2])))
            .collect();
        let _ = writeln!(s, "  [{}]", t2.join("; "));
        let mut th = Vec::new();
        for a in 0..self.nd {
            for b in 0..self.nd {
                let x = self.oh[a][b];
                th.push(format!("({}, {}, ({}, {}, {}, {}))", dcoq(a), dcoq(b), zb(x[0]), zb(x[1]), zb(x[2]), zb(x[3])));
            }
        }
        let _ = writeln!(s, "  [{}]", th.join(";\n   "));
        let t3: Vec<String> = (0..self.nd)
            .map(|d| {
                let x = self.o3[d];
                format!("({}, ({}, {}, {}, {}))", dcoq(d), zb(x[0]), zb(x[1]), zb(x[2]), zb(x[3]))
            })
            .collect();
        let _ = writeln!(s, "  [{}].", t3.join("; "));
        s
    }

    /// every value some tuple claims for a key (Debug text of the canonical key)
    fn claims(&self) -> BTreeMap<String, Vec<(String, f64)>> {
        let mut m: BTreeMap<String, Vec<(String, f64)>> = BTreeMap::new();
        let mut add = |k: String, src: String, v: f64| m.entry(k).or_default().push((src, v));
        add(Rq::Z.name(), "f64".into(), self.o0);
        for d in 0..self.nd {
            add(Rq::Z.name(), format!("Dual64[{}].re", dname(d)), self.o1[d][0]);
            add(Rq::F(d).name(), format!("Dual64[{}].eps", dname(d)), self.o1[d][1]);
            add(Rq::Z.name(), format!("Dual2_64[{}].re", dname(d)), self.o2[d][0]);
            add(Rq::F(d).name(), format!("Dual2_64[{}].v1", dname(d)), self.o2[d][1]);
            add(Rq::M(d, d).name(), format!("Dual2_64[{}].v2", dname(d)), self.o2[d][2]);
            add(Rq::Z.name(), format!("Dual3_64[{}].re", dname(d)), self.o3[d][0]);
            add(Rq::F(d).name(), format!("Dual3_64[{}].v1", dname(d)), self.o3[d][1]);
            add(Rq::M(d, d).name(), format!("Dual3_64[{}].v2", dname(d)), self.o3[d][2]);
            add(Rq::T(d).name(), format!("Dual3_64[{}].v3", dname(d)), self.o3[d][3]);
            for b in 0..self.nd {
                let x = self.oh[d][b];
                let src = format!("HyperDual64[{},{}]", dname(d), dname(b));
                add(Rq::Z.name(), format!("{src}.re"), x[0]);
                add(Rq::F(d).name(), format!("{src}.eps1"), x[1]);
                add(Rq::F(b).name(), format!("{src}.eps2"), x[2]);
                add(Rq::M(d.min(b), d.max(b)).name(), format!("{src}.eps1eps2"), x[3]);
            }
        }
        m
    }
}

fn rel_dev(a: f64, b: f64) -> f64 {
    if a.to_bits() == b.to_bits() {
        0.0
    } else {
        let sc = a.abs().max(b.abs());
        if sc == 0.0 {
            0.0
        } else if !(a - b).is_finite() {
            f64::INFINITY
        } else {
            (a - b).abs() / sc
        }
    }
}

/// consistency of the oracle: per key the spread of all claims
fn consistency(claims: &BTreeMap<String, Vec<(String, f64)>>) -> Value {
    let mut worst = 0.0f64;
    let mut worst_key = String::new();
    let mut worst_pair = json!(null);
    let mut keys_not_bit_identical = 0usize;
    let mut nclaims = 0usize;
    for (k, v) in claims {
        nclaims += v.len();
        let mut ident = true;
        for (s1, x1) in v {
            for (s2, x2) in v {
                let r = rel_dev(*x1, *x2);
                if x1.to_bits() != x2.to_bits() {
                    ident = false;
                }
                if r > worst {
                    worst = r;
                    worst_key = k.clone();
                    worst_pair = json!([[s1, x1], [s2, x2]]);
                }
            }
        }
        if !ident {
            keys_not_bit_identical += 1;
        }
    }
    json!({"keys": claims.len(), "claims": nclaims, "keys_not_bit_identical": keys_not_bit_identical,
           "worst_rel": if worst.is_finite() { json!(worst) } else { json!("inf") }, "worst_key": worst_key, "worst_pair": worst_pair})
}

// ------------------------------------------------------------------------------------------------
// public getters as bundles of requests (residual_properties.rs); sign = what the getter applies

#[derive(Clone, Copy, Debug)]
enum Getter {
    ResidualHelmholtzEnergy,
    ResidualEntropy,
    PressureResidual,
    ResidualChemicalPotential,
    DpDv,
    DpDt,
    DpDni,
    D2pDv2,
    DmuDni,
    DsResDt,
    D2sResDt2,
    DmuResDt,
}
const GETTERS: [Getter; 12] = [
    Getter::ResidualHelmholtzEnergy,
    Getter::ResidualEntropy,
    Getter::PressureResidual,
    Getter::ResidualChemicalPotential,
    Getter::DpDv,
    Getter::DpDt,
    Getter::DpDni,
    Getter::D2pDv2,
    Getter::DmuDni,
    Getter::DsResDt,
    Getter::D2sResDt2,
    Getter::DmuResDt,
];

impl Getter {
    /// the requests the getter issues, in order, as read from the source
    fn requests(&self, nc: usize) -> Vec<Rq> {
        match self {
            Getter::ResidualHelmholtzEnergy => vec![Rq::Z],
            Getter::ResidualEntropy => vec![Rq::F(1)],
            Getter::PressureResidual => vec![Rq::F(0)],
            Getter::ResidualChemicalPotential => (0..nc).map(|i| Rq::F(2 + i)).collect(),
            Getter::DpDv => vec![Rq::S(0)],
            Getter::DpDt => vec![Rq::M(0, 1)],
            Getter::DpDni => (0..nc).map(|i| Rq::M(0, 2 + i)).collect(),
            Getter::D2pDv2 => vec![Rq::T(0)],
            Getter::DmuDni => (0..nc).flat_map(|i| (0..nc).map(move |j| Rq::M(2 + i, 2 + j))).collect(),
            Getter::DsResDt => vec![Rq::S(1)],
            Getter::D2sResDt2 => vec![Rq::T(1)],
            Getter::DmuResDt => (0..nc).map(|i| Rq::M(1, 2 + i)).collect(),
        }
    }
    /// call the public getter; returns the cache values it must have read (sign undone), in request order
    fn call(&self, st: &St) -> Vec<f64> {
        let r = Contributions::Residual;
        match self {
            Getter::ResidualHelmholtzEnergy => vec![st.residual_helmholtz_energy().to_reduced()],
            Getter::ResidualEntropy => vec![-st.residual_entropy().to_reduced()],
            Getter::PressureResidual => vec![-st.pressure(r).to_reduced()],
            Getter::ResidualChemicalPotential => st.residual_chemical_potential().to_reduced().to_vec(),
            Getter::DpDv => vec![-st.dp_dv(r).to_reduced()],
            Getter::DpDt => vec![-st.dp_dt(r).to_reduced()],
            Getter::DpDni => st.dp_dni(r).to_reduced().iter().map(|x| -x).collect(),
            Getter::D2pDv2 => vec![-st.d2p_dv2(r).to_reduced()],
            Getter::DmuDni => st.dmu_dni(r).to_reduced().iter().cloned().collect(),
            Getter::DsResDt => vec![-st.ds_res_dt().to_reduced()],
            Getter::D2sResDt2 => vec![-st.d2s_res_dt2().to_reduced()],
            Getter::DmuResDt => st.dmu_res_dt().to_reduced().to_vec(),
        }
    }
}

// ------------------------------------------------------------------------------------------------
// histories

#[derive(Clone, Debug)]
enum Op {
    Req(usize, Rq),
    Clone(usize),
    Get(usize, Getter),
}

fn dcoq_txt(s: &str) -> String {
    if s.starts_with("DN(") && s.ends_with(')') {
        format!("(DN {})", &s[3..s.len() - 1])
    } else {
        s.to_string()
    }
}
/// `Debug` text of a `PartialDerivative` key -> Coq term of type `pd`
fn key_coq(k: &str) -> String {
    match k.find('(') {
        Some(p) if k.ends_with(')') => {
            let inner = &k[p + 1..k.len() - 1];
            let parts: Vec<String> = inner.split(", ").map(dcoq_txt).collect();
            format!("{} {}", &k[..p], parts.join(" "))
        }
        _ => k.to_string(),
    }
}
/// table of the distinct bit patterns of one generated file: the cases refer to `v i` (parsing thousands of
/// 64-bit literals is what makes coqc slow, not the replay)
#[derive(Default)]
struct Vals {
    idx: std::collections::HashMap<u64, usize>,
    list: Vec<u64>,
}
impl Vals {
    fn v(&mut self, b: u64) -> String {
        let n = self.list.len();
        let i = *self.idx.entry(b).or_insert(n);
        if i == n {
            self.list.push(b);
        }
        format!("v {}", i)
    }
    fn coq(&self) -> String {
        format!(
            "Definition vals : list Z := [{}].\nDefinition v (i : nat) : Z := nth i vals (-1)%Z.\n",
            self.list.iter().map(|b| format!("{}%Z", b)).collect::<Vec<_>>().join("; ")
        )
    }
}
fn snap_coq(st: &St, vals: &mut Vals) -> String {
    let (e, h, m) = st.verif_cache_snapshot();
    let items: Vec<String> = e.iter().map(|(k, b)| format!("({}, {})", key_coq(k), vals.v(*b))).collect();
    format!("([{}], {}, {})", items.join("; "), h, m)
}

fn snap_json(st: &St) -> Value {
    let (e, h, m) = st.verif_cache_snapshot();
    json!([e.iter().map(|(k, b)| json!([k, b])).collect::<Vec<_>>(), h, m])
}

struct FreshTable {
    /// what a fresh state returns for each request
    v: BTreeMap<Rq, f64>,
}

fn fresh_table(model: &Arc<ResidualModel>, rs: &RState, alpha: &[Rq]) -> FreshTable {
    FreshTable { v: alpha.iter().map(|r| (*r, r.issue(&mk_state(model, rs)))).collect() }
}

#[derive(Default)]
struct Dev {
    responses: usize,
    bit_different: usize,
    worst: f64,
    first: Option<Value>,
    worst_case: Option<Value>,
}
impl Dev {
    fn see(&mut self, hist: &dyn Fn() -> Value, r: &Rq, got: f64, fresh: f64) {
        self.responses += 1;
        if got.to_bits() != fresh.to_bits() {
            self.bit_different += 1;
            let d = rel_dev(got, fresh);
            let case = json!({"history": hist(), "request": r.name(), "after_history": got, "after_history_bits": got.to_bits(),
                              "fresh_state": fresh, "fresh_state_bits": fresh.to_bits(), "rel_dev": if d.is_finite() { json!(d) } else { json!("inf") }});
            if self.first.is_none() {
                self.first = Some(case.clone());
            }
            if d > self.worst || self.worst_case.is_none() {
                self.worst = self.worst.max(d);
                self.worst_case = Some(case);
            }
        }
    }
    fn json(&self) -> Value {
        json!({"responses": self.responses, "bit_different_from_fresh": self.bit_different,
               "worst_rel": if self.worst.is_finite() { json!(self.worst) } else { json!("inf") },
               "first": self.first, "worst_case": self.worst_case})
    }
}

fn coq_header() -> String {
    "From Coq Require Import List ZArith String.\nImport ListNotations.\nFrom FeosVerif Require Import Cache.\nOpen Scope string_scope.\n".to_string()
}

/// all sequences over `alpha` of length 0..=maxlen, in length-lexicographic order
fn all_histories(alpha: &[Rq], maxlen: usize) -> Vec<Vec<Rq>> {
    let mut out: Vec<Vec<Rq>> = vec![vec![]];
    let mut layer: Vec<Vec<Rq>> = vec![vec![]];
    for _ in 0..maxlen {
        let mut next = Vec::with_capacity(layer.len() * alpha.len());
        for h in &layer {
            for a in alpha {
                let mut g = h.clone();
                g.push(*a);
                next.push(g);
            }
        }
        out.extend(next.iter().cloned());
        layer = next;
    }
    out
}

fn random_pool_history(rng: &mut Rng, alpha: &[Rq], nc: usize, maxlen: usize) -> Vec<Op> {
    let len = 1 + rng.below(maxlen);
    let mut pool = 1usize;
    let mut h = Vec::new();
    // biased towards "high derivative first, lower later": first third draws from the upper part of the alphabet
    let nd = nc + 2;
    let high: Vec<Rq> = alpha.iter().cloned().filter(|r| !matches!(r, Rq::Z | Rq::F(_))).collect();
    let mut total = 0usize;
    while total < len {
        let s = rng.below(pool);
        let u = rng.f64();
        if u < 0.10 && pool < 6 {
            h.push(Op::Clone(s));
            pool += 1;
            total += 1;
        } else if u < 0.30 {
            let g = GETTERS[rng.below(GETTERS.len())];
            total += g.requests(nc).len();
            h.push(Op::Get(s, g));
        } else if total * 3 < len && rng.f64() < 0.7 {
            h.push(Op::Req(s, high[rng.below(high.len())]));
            total += 1;
        } else {
            h.push(Op::Req(s, alpha[rng.below(alpha.len())]));
            total += 1;
        }
    }
    let _ = nd;
    h
}

fn op_text(o: &Op) -> String {
    match o {
        Op::Req(s, r) => format!("{}@{}", r.name(), s),
        Op::Clone(s) => format!("clone@{}", s),
        Op::Get(s, g) => format!("{:?}@{}", g, s),
    }
}

fn run_config(c: &Config, model_name: &str, rs: &RState, full: bool, rng: &mut Rng, out_dir: &str, files: &mut Vec<Value>) -> Value {
    let nc = c.ncomp;
    let alpha = alphabet(nc);
    let orc = oracle(&c.model, rs);
    let claims = orc.claims();
    let cons = consistency(&claims);
    let fresh = fresh_table(&c.model, rs, &alpha);
    let ocoq = orc.coq();

    // ---------------- exhaustive single-state histories
    let maxlen = if full && nc <= 2 { 3 } else { 2 };
    let hists = all_histories(&alpha, maxlen);
    let mut dev = Dev::default();
    let chunk = 1000usize;
    let mut nfiles = 0usize;
    for (ci, hs) in hists.chunks(chunk).enumerate() {
        let fname = format!("exh_{}_{}.v", c.name, ci);
        let mut vals = Vals::default();
        let mut v = String::new();
        v.push_str("Definition cases : list (list pd * (list (Z * Z) * snap_t)) := [\n");
        let mut cases = Vec::with_capacity(hs.len());
        for (i, h) in hs.iter().enumerate() {
            let st = mk_state(&c.model, rs);
            let mut resp = Vec::with_capacity(h.len());
            for (j, r) in h.iter().enumerate() {
                let x = r.issue(&st);
                dev.see(&|| json!(h[..=j].iter().map(|q| q.name()).collect::<Vec<_>>()), r, x, fresh.v[r]);
                resp.push(x.to_bits());
            }
            let _ = writeln!(
                v,
                "  ([{}], ([{}], {})){}",
                h.iter().map(|r| r.coq()).collect::<Vec<_>>().join("; "),
                resp.iter().map(|b| format!("({}, 0%Z)", vals.v(*b))).collect::<Vec<_>>().join("; "),
                snap_coq(&st, &mut vals),
                if i + 1 < hs.len() { ";" } else { "" }
            );
            cases.push(json!(h.iter().map(|r| r.name()).collect::<Vec<_>>().join(";")));
        }
        v.push_str("].\n");
        v.push_str("Eval vm_compute in (\"N\", List.length cases).\n");
        v.push_str("Eval vm_compute in (\"BAD\", check1 O cases).\n");
        v.push_str("Eval vm_compute in (\"SAMPLE\", map (fun c => (fst c, replay1 O (fst c))) (firstn 1 (skipn 40 cases))).\n");
        v.push_str("Lemma model_and_implementation_agree : check1 O cases = [].\nProof. vm_compute. reflexivity. Qed.\n");
        let v = format!("{}{}{}{}", coq_header(), ocoq, vals.coq(), v);
        std::fs::write(format!("{out_dir}/{fname}"), v).unwrap();
        files.push(json!({"file": fname, "kind": "exh", "config": c.name, "cases": cases}));
        nfiles += 1;
    }

    // ---------------- random pool histories with clones and public getters
    let nrand = if full { 400 } else { 60 };
    let per_file = 50usize;
    let mut rdev = Dev::default();
    let mut getter_worst = 0.0f64;
    let mut getter_calls = 0usize;
    let mut len_hist = [0usize; 6]; // 1-10, 11-20, ... 41-50, >50
    let mut nclones = 0usize;
    let rhists: Vec<Vec<Op>> = (0..nrand).map(|_| random_pool_history(rng, &alpha, nc, 50)).collect();
    for (ci, hs) in rhists.chunks(per_file).enumerate() {
        let fname = format!("rnd_{}_{}.v", c.name, ci);
        let mut vals = Vals::default();
        let mut v = String::new();
        v.push_str("Definition cases : list (list gop * (list (option (Z * Z)) * list snap_t)) := [\n");
        let mut cases = Vec::new();
        for (i, h) in hs.iter().enumerate() {
            let mut pool: Vec<St> = vec![mk_state(&c.model, rs)];
            let mut ops_coq: Vec<String> = Vec::new();
            let mut resp: Vec<Value> = Vec::new();
            let mut resp_coq: Vec<String> = Vec::new();
            let mut prim = 0usize;
            for o in h {
                match o {
                    Op::Req(s, r) => {
                        let x = r.issue(&pool[*s]);
                        rdev.see(&|| json!(h.iter().map(op_text).collect::<Vec<_>>()), r, x, fresh.v[r]);
                        ops_coq.push(format!("GReq {} ({})", s, r.coq()));
                        resp.push(json!({"b": x.to_bits(), "exact": true}));
                        resp_coq.push(format!("Some ({}, 0%Z)", vals.v(x.to_bits())));
                        prim += 1;
                    }
                    Op::Clone(s) => {
                        let cl = pool[*s].clone();
                        pool.push(cl);
                        ops_coq.push(format!("GClone {}", s));
                        resp.push(json!(null));
                        resp_coq.push("None".into());
                        nclones += 1;
                        prim += 1;
                    }
                    Op::Get(s, g) => {
                        let gvals = g.call(&pool[*s]);
                        let reqs = g.requests(nc);
                        assert_eq!(gvals.len(), reqs.len());
                        getter_calls += 1;
                        // the model expands the getter into its requests (Cache.v: getter_requests)
                        ops_coq.push(format!("GGet {} G{:?}", s, g));
                        for (r, x) in reqs.iter().zip(gvals.iter()) {
                            getter_worst = getter_worst.max(rel_dev(*x, fresh.v[r]));
                            resp.push(json!({"b": x.to_bits(), "exact": false, "getter": format!("{:?}", g)}));
                            resp_coq.push(format!("Some ({}, {}%Z)", vals.v(x.to_bits()), GETTER_ULPS));
                            prim += 1;
                        }
                    }
                }
            }
            len_hist[((prim.max(1) - 1) / 10).min(5)] += 1;
            let _ = writeln!(
                v,
                "  ([{}], ([{}], [{}])){}",
                ops_coq.join("; "),
                resp_coq.join("; "),
                pool.iter().map(|st| snap_coq(st, &mut vals)).collect::<Vec<_>>().join("; "),
                if i + 1 < hs.len() { ";" } else { "" }
            );
            let _ = &resp;
            cases.push(json!(h.iter().map(op_text).collect::<Vec<_>>().join(";")));
        }
        v.push_str("].\n");
        v.push_str("Eval vm_compute in (\"N\", List.length cases).\n");
        let _ = writeln!(v, "Eval vm_compute in (\"BAD\", check_api {nc} O cases).");
        let _ = writeln!(v, "Lemma model_and_implementation_agree : check_api {nc} O cases = [].\nProof. vm_compute. reflexivity. Qed.");
        let v = format!("{}{}{}{}", coq_header(), ocoq, vals.coq(), v);
        std::fs::write(format!("{out_dir}/{fname}"), v).unwrap();
        files.push(json!({"file": fname, "kind": "rnd", "config": c.name, "cases": cases}));
        nfiles += 1;
    }

    // ---------------- runtime: threads sharing one state
    let stress = stress(c, rs, &alpha, &claims, rng, full);

    json!({
        "name": c.name, "model": model_name, "ncomp": nc, "state_TVN": rs.vars(), "alphabet": alpha.iter().map(|r| r.name()).collect::<Vec<_>>(),
        "oracle_consistency": cons, "files": nfiles,
        "exhaustive": {"max_len": maxlen, "histories": hists.len(), "vs_fresh": dev.json()},
        "random": {"histories": rhists.len(), "clones": nclones, "getter_calls": getter_calls,
                   "getter_vs_fresh_worst_rel": getter_worst, "primitive_length_histogram_by_10": len_hist, "vs_fresh": rdev.json()},
        "stress": stress,
    })
}

// ------------------------------------------------------------------------------------------------
// runtime support: 2-16 threads on one shared state

fn stress(c: &Config, rs: &RState, alpha: &[Rq], claims: &BTreeMap<String, Vec<(String, f64)>>, rng: &mut Rng, full: bool) -> Value {
    let rounds = if full { 40 } else { 8 };
    let mut total_resp = 0usize;
    let mut runs = 0usize;
    let mut failures: Vec<Value> = Vec::new();
    let allowed: BTreeMap<String, BTreeSet<u64>> =
        claims.iter().map(|(k, v)| (k.clone(), v.iter().map(|(_, x)| x.to_bits()).collect())).collect();
    for &nt in &[2usize, 3, 4, 8, 16] {
        for _ in 0..rounds {
            runs += 1;
            let lists: Vec<Vec<Rq>> = (0..nt)
                .map(|_| {
                    let len = 1 + rng.below(30);
                    (0..len).map(|_| alpha[rng.below(alpha.len())]).collect()
                })
                .collect();
            let st = mk_state(&c.model, rs);
            let barrier = std::sync::Barrier::new(nt);
            let results: Vec<Vec<f64>> = std::thread::scope(|sc| {
                let hs: Vec<_> = lists
                    .iter()
                    .map(|l| {
                        let st = &st;
                        let barrier = &barrier;
                        sc.spawn(move || {
                            barrier.wait();
                            l.iter().map(|r| r.issue(st)).collect::<Vec<f64>>()
                        })
                    })
                    .collect();
                hs.into_iter().map(|h| h.join().unwrap()).collect()
            });
            let (entries, hit, miss) = st.verif_cache_snapshot();
            let nreq: usize = lists.iter().map(|l| l.len()).sum();
            total_resp += nreq;
            let distinct: BTreeSet<String> = lists.iter().flatten().map(|r| r.key()).collect();
            let mut bad = Vec::new();
            let mut value_problem = false;
            for (t, (l, res)) in lists.iter().zip(results.iter()).enumerate() {
                for (r, x) in l.iter().zip(res.iter()) {
                    if !allowed.get(&r.key()).map(|s| s.contains(&x.to_bits())).unwrap_or(false) {
                        // not bit-identical to any value a fresh state can produce for this key: how far off?
                        let near = claims.get(&r.key()).map(|v| v.iter().map(|(_, y)| rel_dev(*x, *y)).fold(f64::INFINITY, f64::min)).unwrap_or(f64::INFINITY);
                        if near > VALUE_TOL {
                            value_problem = true;
                        }
                        bad.push(json!({"thread": t, "request": r.name(), "value": x, "bits": x.to_bits(),
                                        "rel_dev_from_nearest_fresh_state_value": if near.is_finite() { json!(near) } else { json!("inf") },
                                        "fresh_state_values": claims.get(&r.key())}));
                    }
                }
            }
            for (k, b) in &entries {
                if !allowed.get(k).map(|s| s.contains(b)).unwrap_or(false) {
                    bad.push(json!({"cache_entry": k, "bits": b, "fresh_state_values": claims.get(k)}));
                }
            }
            if hit + miss != nreq as u64 {
                bad.push(json!({"counters": [hit, miss], "requests": nreq, "what": "hit + miss != number of requests"}));
            }
            if miss as usize > distinct.len() || miss == 0 {
                bad.push(json!({"counters": [hit, miss], "distinct_keys_requested": distinct.len(),
                                "what": "a key was computed more than once (lookup+compute+insert not atomic) or never"}));
            }
            for k in &distinct {
                if !entries.iter().any(|(e, _)| e == k) {
                    bad.push(json!({"missing_key": k}));
                }
            }
            if !bad.is_empty() && failures.len() < 3 {
                failures.push(json!({"threads": nt, "config": c.name, "state_TVN": rs.vars(), "value_problem": value_problem,
                                     "request_lists": lists.iter().map(|l| l.iter().map(|r| r.name()).collect::<Vec<_>>()).collect::<Vec<_>>(),
                                     "problems": bad.into_iter().take(5).collect::<Vec<_>>()}));
            }
        }
    }
    json!({"runs": runs, "thread_counts": [2, 3, 4, 8, 16], "responses": total_resp, "failures": failures})
}

// ------------------------------------------------------------------------------------------------
// runtime support: par_pure vs pure

const CRIT: usize = 9999;

/// index of the grid temperature a returned state belongs to (CRIT for the critical point, 7777 = none)
fn grid_index(t: f64, grid: &[f64], tc: f64, last: bool) -> usize {
    if last && rel_dev(t, tc) <= 1e-9 {
        return CRIT;
    }
    let mut best = (7777usize, f64::INFINITY);
    for (i, g) in grid.iter().enumerate() {
        let d = rel_dev(t, *g);
        if d < best.1 {
            best = (i, d);
        }
    }
    if best.1 <= 1e-9 {
        best.0
    } else {
        7777
    }
}

fn diagram_table(d: &PhaseDiagram<ResidualModel, 2>) -> Vec<[f64; 3]> {
    d.states
        .iter()
        .map(|pe| [pe.vapor().temperature.to_reduced(), pe.vapor().density.to_reduced(), pe.liquid().density.to_reduced()])
        .collect()
}

/// `par_pure` vs `pure` over (model, grid, threads, chunk size).  Grids: ordinary ranges where every temperature has a
/// converged equilibrium AND ranges starting far below the triple-point region where the point solver fails for the
/// first temperatures (those points are skipped by both variants).  Besides the state-by-state comparison the observed
/// results are emitted for the Coq model `ParPure.v` (point solver = table of which grid temperatures converge from
/// scratch), which must predict the list of returned states for every chunk size.
fn par_pure_runs(full: bool, rng: &mut Rng, out_dir: &str, files: &mut Vec<Value>) -> Value {
    let all = configs::all(false);
    let names: &[&str] = if full { &["pr1", "pcsaft_propane", "pcsaft_water", "pets1", "gcpcsaft_propane"] } else { &["pr1", "pcsaft_propane", "pets1"] };
    let mut runs = 0usize;
    let mut states = 0usize;
    let mut grids = 0usize;
    let mut grids_with_failing_points = 0usize;
    let mut failing_points = 0usize;
    let mut worst = 0.0f64;
    let mut worst_case = json!(null);
    let mut first_failure = json!(null);
    let mut failures: Vec<Value> = Vec::new();
    let mut samples: Vec<Value> = Vec::new();
    let threads: &[usize] = if full { &[1, 2, 3, 4, 8, 16] } else { &[1, 2, 4, 16] };
    let options = SolverOptions::default();
    for name in names {
        let c = all.iter().find(|c| &c.name == name).unwrap();
        let eos = &c.model;
        let sc = match State::critical_point(eos, None, None, SolverOptions::default()) {
            Ok(s) => s,
            Err(_) => continue,
        };
        let tc = sc.temperature.to_reduced();
        // (npoints, lowest temperature as a fraction of Tc)
        let mut plan: Vec<(usize, f64)> = Vec::new();
        let npts: Vec<usize> = if full { vec![2, 3, 4, 5, 7, 10, 17, 33, 64] } else { vec![2, 3, 5, 10, 17] };
        for &np in &npts {
            plan.push((np, rng.range(0.55, 0.8)));
        }
        let low: Vec<usize> = if full { vec![3, 5, 8, 13, 21, 34] } else { vec![4, 9, 21] };
        for &np in &low {
            plan.push((np, rng.range(0.02, 0.12)));
            plan.push((np, rng.range(0.12, 0.35)));
        }
        for (gi, &(np, frac)) in plan.iter().enumerate() {
            let tmin = Temperature::from_reduced(tc * frac);
            let seq = match PhaseDiagram::pure(eos, tmin, np, None, options) {
                Ok(d) => d,
                Err(_) => continue,
            };
            let sv = diagram_table(&seq);
            // the grid exactly as par_pure builds it, and which of its points converge without an initial guess
            let max_t = tmin + (sc.temperature - tmin) * ((np - 2) as f64 / (np - 1) as f64);
            let grid: Vec<f64> = Array1::linspace(tmin.to_reduced(), max_t.to_reduced(), np - 1).to_vec();
            let ok: Vec<bool> = grid
                .iter()
                .map(|t| PhaseEquilibrium::pure(eos, Temperature::from_reduced(*t), None, options).is_ok())
                .collect();
            let nfail = ok.iter().filter(|b| !**b).count();
            grids += 1;
            failing_points += nfail;
            if nfail > 0 {
                grids_with_failing_points += 1;
            }
            let seq_idx: Vec<usize> = sv.iter().enumerate().map(|(i, x)| grid_index(x[0], &grid, tc, i + 1 == sv.len())).collect();
            let mut cs: Vec<usize> = vec![1, 2, 3, 5, np.max(1), np + 3];
            cs.push(1 + rng.below(np + 2));
            cs.sort();
            cs.dedup();
            let mut cases_coq: Vec<String> = Vec::new();
            let mut cases_json: Vec<Value> = Vec::new();
            for &nt in threads {
                for &k in &cs {
                    runs += 1;
                    let pool = rayon::ThreadPoolBuilder::new().num_threads(nt).build().unwrap();
                    let par = match PhaseDiagram::par_pure(eos, tmin, np, k, pool, None, options) {
                        Ok(d) => d,
                        Err(e) => {
                            failures.push(json!({"config": name, "npoints": np, "chunksize": k, "threads": nt, "error": format!("{e}")}));
                            continue;
                        }
                    };
                    let pv = diagram_table(&par);
                    states += pv.len();
                    let par_idx: Vec<usize> = pv.iter().enumerate().map(|(i, x)| grid_index(x[0], &grid, tc, i + 1 == pv.len())).collect();
                    cases_coq.push(format!("({}, [{}])", k, par_idx.iter().map(|i| i.to_string()).collect::<Vec<_>>().join("; ")));
                    cases_json.push(json!({"chunksize": k, "threads": nt, "returned_grid_indices": par_idx}));
                    let mut w = 0.0f64;
                    if pv.len() != sv.len() {
                        w = f64::INFINITY;
                    } else {
                        for (a, b) in pv.iter().zip(sv.iter()) {
                            for j in 0..3 {
                                w = w.max(rel_dev(a[j], b[j]));
                            }
                        }
                    }
                    let case = json!({"config": name, "t_min": tmin.to_reduced(), "t_min_over_tc": frac, "npoints": np, "chunksize": k, "threads": nt,
                                      "rel_dev": if w.is_finite() { json!(w) } else { json!("inf") },
                                      "grid_points_without_converged_equilibrium": nfail, "n_seq": sv.len(), "n_par": pv.len()});
                    if w > worst {
                        worst = w;
                        worst_case = json!({"case": case, "pure_T_rhoV_rhoL": sv, "par_pure_T_rhoV_rhoL": pv});
                    }
                    // the first case beyond the tolerance of the check
                    if w > PAR_TOL && first_failure.is_null() {
                        first_failure = json!({"case": case, "pure_T_rhoV_rhoL": sv, "par_pure_T_rhoV_rhoL": pv});
                    }
                    if samples.len() < 6 && nt > 1 && k > 1 && k < np && (nfail > 0) == (samples.len() % 2 == 0) {
                        samples.push(case);
                    }
                }
            }
            // replay by the Coq model
            let fname = format!("par_{}_{}.v", name, gi);
            let mut v = String::from("From Coq Require Import List String.\nImport ListNotations.\nFrom FeosVerif Require Import ParPure.\nOpen Scope string_scope.\n");
            let _ = writeln!(v, "(* {} : npoints {}, T_min = {} K = {:.4} T_c; grid points that converge without an initial guess *)", name, np, tmin.to_reduced(), frac);
            let _ = writeln!(v, "Definition ok : list bool := [{}].", ok.iter().map(|b| b.to_string()).collect::<Vec<_>>().join("; "));
            let _ = writeln!(v, "Definition observed_pure : list nat := [{}].", seq_idx.iter().map(|i| i.to_string()).collect::<Vec<_>>().join("; "));
            let _ = writeln!(v, "Definition cases : list (nat * list nat) := [\n  {}].", cases_coq.join(";\n  "));
            let _ = writeln!(v, "Eval vm_compute in (\"N\", List.length cases).");
            let _ = writeln!(v, "Eval vm_compute in (\"PURE\", pure_model ok {CRIT}).");
            let _ = writeln!(v, "Eval vm_compute in (\"PARBAD\", par_mismatches ok {CRIT} cases).");
            let _ = writeln!(v, "Lemma model_and_implementation_agree : pure_model ok {CRIT} = observed_pure /\\ par_mismatches ok {CRIT} cases = [].\nProof. vm_compute. split; reflexivity. Qed.");
            std::fs::write(format!("{out_dir}/{fname}"), v).unwrap();
            files.push(json!({"file": fname, "kind": "par", "config": name, "t_min": tmin.to_reduced(), "t_min_over_tc": frac, "npoints": np,
                              "grid": grid, "converges_without_guess": ok, "observed_pure": seq_idx, "cases": cases_json,
                              "pure_T_rhoV_rhoL": sv}));
        }
    }
    json!({"runs": runs, "states_compared": states, "grids": grids, "grids_with_failing_points": grids_with_failing_points,
           "failing_grid_points": failing_points,
           "worst_rel": if worst.is_finite() { json!(worst) } else { json!("inf") },
           "worst_case": worst_case, "first_failure": first_failure, "errors": failures, "samples": samples})
}

// ------------------------------------------------------------------------------------------------
// one history on one state, in full detail (used for replays and by the search of the check)

fn parse_deriv(t: &str) -> Option<usize> {
    match t {
        "DV" => Some(0),
        "DT" => Some(1),
        _ => t.strip_prefix("DN(")?.strip_suffix(')')?.parse::<usize>().ok().map(|i| i + 2),
    }
}
fn parse_rq(t: &str) -> Option<Rq> {
    if t == "Zeroth" {
        return Some(Rq::Z);
    }
    let p = t.find('(')?;
    let inner = t[p + 1..].strip_suffix(')')?;
    match &t[..p] {
        "First" => Some(Rq::F(parse_deriv(inner)?)),
        "Second" => Some(Rq::S(parse_deriv(inner)?)),
        "Third" => Some(Rq::T(parse_deriv(inner)?)),
        "SecondMixed" => {
            let (a, b) = inner.split_once(", ")?;
            Some(Rq::M(parse_deriv(a)?, parse_deriv(b)?))
        }
        _ => None,
    }
}
fn parse_op(t: &str) -> Option<Op> {
    let (what, s) = match t.rsplit_once('@') {
        Some((w, s)) => (w, s.parse::<usize>().ok()?),
        None => (t, 0),
    };
    if what == "clone" {
        return Some(Op::Clone(s));
    }
    if let Some(r) = parse_rq(what) {
        return Some(Op::Req(s, r));
    }
    GETTERS.iter().find(|g| format!("{:?}", g) == what).map(|g| Op::Get(s, *g))
}

fn one(model_name: &str, state: &str, history: &str, extend: bool) -> Value {
    let all = configs::all(false);
    let c = all.iter().find(|c| c.name == model_name).expect("config");
    let x: Vec<f64> = state.split(',').map(|t| t.trim().parse::<f64>().expect("state")).collect();
    let rs = RState { t: x[0], v: x[1], n: x[2..].to_vec() };
    let nc = c.ncomp;
    let ops: Vec<Op> = history.split(';').filter(|t| !t.is_empty()).map(|t| parse_op(t.trim()).expect("op")).collect();
    let mut pool: Vec<St> = vec![mk_state(&c.model, &rs)];
    let mut steps = Vec::new();
    let mut worst = 0.0f64;
    for o in &ops {
        match o {
            Op::Req(s, r) => {
                let got = r.issue(&pool[*s]);
                let fresh = r.issue(&mk_state(&c.model, &rs));
                worst = worst.max(rel_dev(got, fresh));
                steps.push(json!({"op": op_text(o), "value": got, "bits": got.to_bits(), "fresh_state_value": fresh,
                                  "fresh_state_bits": fresh.to_bits(), "rel_dev": rel_dev(got, fresh)}));
            }
            Op::Clone(s) => {
                let cl = pool[*s].clone();
                pool.push(cl);
                steps.push(json!({"op": op_text(o)}));
            }
            Op::Get(s, g) => {
                let got = g.call(&pool[*s]);
                let fresh = g.call(&mk_state(&c.model, &rs));
                let d = got.iter().zip(fresh.iter()).map(|(a, b)| rel_dev(*a, *b)).fold(0.0, f64::max);
                worst = worst.max(d);
                steps.push(json!({"op": op_text(o), "requests": g.requests(nc).iter().map(|r| r.name()).collect::<Vec<_>>(),
                                  "values": got, "fresh_state_values": fresh, "rel_dev": d}));
            }
        }
    }
    // search: one more request after the history, on any state of the pool
    let mut extension = json!(null);
    if extend {
        let mut w = 0.0f64;
        for (si, st) in pool.iter().enumerate() {
            for r in alphabet(nc) {
                let got = r.issue(&st.clone());
                let fresh = r.issue(&mk_state(&c.model, &rs));
                let d = rel_dev(got, fresh);
                if d > w {
                    w = d;
                    let sep = if history.is_empty() { "" } else { ";" };
                    extension = json!({"history": format!("{history}{sep}{}@{si}", r.name()), "request": r.name(), "after_history": got,
                                       "fresh_state": fresh, "rel_dev": if d.is_finite() { json!(d) } else { json!("inf") }});
                }
            }
        }
    }
    json!({"model": model_name, "state_TVN": rs.vars(), "history": history, "steps": steps, "extension": extension,
           "worst_rel_dev_from_fresh_state": if worst.is_finite() { json!(worst) } else { json!("inf") },
           "snapshots": pool.iter().map(snap_json).collect::<Vec<_>>()})
}

fn main() {
    let cli = feos_verif::cli::Cli::parse("/verif/coq/gen/C11");
    if let Some(m) = cli.opt("--one") {
        let r = one(&m, &cli.opt("--state").expect("--state"), &cli.opt("--history").unwrap_or_default(), cli.args.iter().any(|a| a == "--extend"));
        cli.write_impl(&json!({"property": "C11", "one": r}));
        return;
    }
    let full = cli.full();
    let only = cli.opt("--only");
    let all = configs::all(false);
    let quick = ["pr2", "pcsaft_propane_butane_kij"];
    let thorough = [
        "pr2",
        "pcsaft_propane_butane_kij",
        "pcsaft_water_methanol",
        "pcsaft_acetone_butanone",
        "pets2",
        "pr3",
        "pr1",
        "gcpcsaft_propanol_ethanol",
    ];
    let names: Vec<&str> = if full { thorough.to_vec() } else { quick.to_vec() };
    let mut files = Vec::new();
    let mut cfgs = Vec::new();
    for name in names {
        if let Some(o) = &only {
            if o != name {
                continue;
            }
        }
        let c = all.iter().find(|c| c.name == name).expect("config");
        let mut rng = Rng(cli.seed ^ trace::fxhash(&c.name) ^ 0xC11);
        let nstates = if only.is_some() { 1 } else if full { 2 } else { 1 };
        for si in 0..nstates {
            let rs = configs::sample_state(c, &mut rng);
            let mut cc = c.clone();
            if nstates > 1 {
                cc.name = format!("{}_s{}", c.name, si);
            }
            cfgs.push(run_config(&cc, &c.name, &rs, full, &mut rng, &cli.out, &mut files));
        }
    }
    let mut rng = Rng(cli.seed ^ 0x9A7);
    let pp = if cli.opt("--no-par").is_some() { json!(null) } else { par_pure_runs(full, &mut rng, &cli.out, &mut files) };
    cli.write_impl(&json!({"property": "C11", "tier": cli.tier, "seed": cli.seed, "configs": cfgs, "files": files, "par_pure": pp}));
}
