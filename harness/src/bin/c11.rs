//! C11 — history and schedule independence of `State` (derivative cache) and `PhaseDiagram::par_pure`.
//!
//! Runs on the REAL `State`:
//!  * exhaustive histories (all sequences of length <= 2 (quick) / <= 3 (thorough) over the complete request
//!    alphabet of the configuration) and random pool histories (requests on any state of a pool, `clone`,
//!    public getters) up to length 50; records every response (f64 bit pattern) and the final cache
//!    snapshot(s) through the cfg(feos_verif) hooks `State::verif_cache_request` / `verif_cache_snapshot`;
//!  * computes the oracle tuples (what the closures handed to the cache compute) independently through the
//!    public API (`eos.residual_helmholtz_energy(&state.derive*(..)) * T`) and measures their consistency;
//!  * emits the same histories + the oracle tables as Coq files replayed by the model `Cache.v` under vm_compute;
//!  * runtime support (not decided by proof): multi-thread stress on a shared state, `par_pure` vs `pure`.
use feos::ResidualModel;
use feos_core::{Contributions, Derivative, PhaseDiagram, PhaseEquilibrium, ReferenceSystem, Residual, SolverOptions, State};
use feos_verif::configs::{self, Config, RState, Rng};
use feos_verif::trace;
use ndarray::Array1;
use quantity::{Moles, Temperature, Volume};
use serde_json::{json, Value};
use std::collections::{BTreeMap, BTreeSet};
use std::fmt::Write as _;
use std::sync::Arc;

type St = State<ResidualModel>;

/// tolerance (in ulps) for a cache value read back through a public getter: `from_reduced` multiplies by the SI
/// reference value and `to_reduced` divides by it again (two roundings)
const GETTER_ULPS: u64 = 4;
/// relative tolerance of the runtime support searches for "the same value" (see checks/c11.py TOL_HIST)
/// Two evaluations of the same derivative with different dual number types differ by round-off only; measured over all
/// model families (5250 states, seeds 1-25 thorough): <= max(1e-11, 4e-14 / (rho/rho_max)) — at low density the residual
/// quantities are O(rho) while terms like ln(1 - eta) carry an absolute error of one ulp.  ~100x margin.
fn value_tol(density_fraction: f64) -> f64 {
    1e-9 + 2e-12 / density_fraction.max(1e-300)
}
/// relative tolerance of par_pure vs pure (see checks/c11.py TOL_PAR)
const PAR_TOL: f64 = 1e-8;

/// run `f`, turning a panic of the code under test into an `Err(message)` (a panic is an observation, not an infrastructure failure)
fn guard<T>(f: impl FnOnce() -> T) -> Result<T, String> {
    std::panic::catch_unwind(std::panic::AssertUnwindSafe(f)).map_err(|e| {
        e.downcast_ref::<&str>()
            .map(|s| s.to_string())
            .or_else(|| e.downcast_ref::<String>().cloned())
            .unwrap_or_else(|| "panic".to_string())
    })
}

/// PC-SAFT mixtures with association sites of every kind (A/B pairs and self-complementary C sites, one or several
/// per molecule, on one or several components): the models whose Helmholtz energy contains an iterative solver that is
/// continued in dual numbers, i.e. where "all dual number types give the same derivative" is not a syntactic fact.
fn association_configs() -> Vec<Config> {
    use feos::pcsaft::{PcSaft, PcSaftParameters, PcSaftRecord};
    use feos_core::parameter::Parameter;
    let rec = |m: f64, sigma: f64, eps: f64, kappa: f64, eps_ab: f64, na: f64, nb: f64, nc: f64| {
        PcSaftRecord::new(m, sigma, eps, None, None, Some(kappa), Some(eps_ab), Some(na), Some(nb), Some(nc), None, None, None)
    };
    let inert = |m: f64, sigma: f64, eps: f64| PcSaftRecord::new(m, sigma, eps, None, None, None, None, None, None, None, None, None, None);
    let mk = |name: &str, recs: Vec<PcSaftRecord>, t_scale: f64, core: bool| {
        let n = recs.len();
        configs::cfg_of(name, ResidualModel::PcSaft(PcSaft::new(Arc::new(PcSaftParameters::from_model_records(recs).unwrap()))), n, t_scale, core)
    };
    vec![
        // one C site on each of two components
        mk("assoc_c_c", vec![rec(1.9, 3.3, 225.0, 0.025, 2300.0, 0.0, 0.0, 1.0), rec(2.7, 3.6, 255.0, 0.008, 1750.0, 0.0, 0.0, 1.0)], 520.0, true),
        // two C sites + one C site
        mk("assoc_c2_c", vec![rec(1.4, 3.1, 200.0, 0.04, 2100.0, 0.0, 0.0, 2.0), rec(3.1, 3.7, 260.0, 0.012, 1600.0, 0.0, 0.0, 1.0)], 500.0, false),
        // A/B pair on one component, C site on the other
        mk("assoc_ab_c", vec![rec(1.6, 3.0, 280.0, 0.035, 2500.0, 1.0, 1.0, 0.0), rec(2.2, 3.4, 240.0, 0.02, 2000.0, 0.0, 0.0, 1.0)], 560.0, true),
        // 2B + 3B-like (two A, one B)
        mk("assoc_2b_3b", vec![rec(1.5, 3.2, 250.0, 0.03, 2400.0, 1.0, 1.0, 0.0), rec(2.0, 3.0, 300.0, 0.04, 2200.0, 2.0, 1.0, 0.0)], 600.0, false),
        // ternary: C, A/B, inert
        mk("assoc_c_ab_inert", vec![rec(1.8, 3.3, 230.0, 0.02, 2250.0, 0.0, 0.0, 1.0), rec(1.7, 3.1, 270.0, 0.03, 2450.0, 1.0, 1.0, 0.0), inert(2.5, 3.8, 235.0)], 540.0, false),
        // ternary: three components with C sites of different multiplicity
        mk("assoc_c_c2_c", vec![rec(1.2, 3.0, 210.0, 0.03, 2000.0, 0.0, 0.0, 1.0), rec(2.1, 3.4, 245.0, 0.015, 1850.0, 0.0, 0.0, 2.0), rec(2.9, 3.7, 265.0, 0.01, 1700.0, 0.0, 0.0, 1.0)], 520.0, false),
    ]
}

/// Models with an iterative (cross-)association solver, built with NON-DEFAULT iteration limits (2..8 instead of 50):
/// where the limit is reached the model must report the failure (NaN) for every dual number type alike.
fn solver_option_configs(full: bool) -> Vec<Config> {
    use feos::gc_pcsaft::{GcPcSaft, GcPcSaftEosParameters, GcPcSaftOptions};
    use feos::pcsaft::{PcSaft, PcSaftOptions, PcSaftParameters};
    use feos::saftvrmie::{SaftVRMie, SaftVRMieOptions, SaftVRMieParameters};
    use feos_core::parameter::{IdentifierOption, Parameter, ParameterHetero};
    let mut v = Vec::new();
    let iters: &[usize] = if full { &[1, 2, 3, 5, 8] } else { &[2, 3] };
    for &k in iters {
        for names in [["methanol", "ethanol"], ["methanol", "1-propanol"]] {
            if let Ok(p) = SaftVRMieParameters::from_json(names.to_vec(), format!("{}/saftvrmie/lafitte2013.json", configs::params()), None, IdentifierOption::Name) {
                let m = SaftVRMie::with_options(Arc::new(p), SaftVRMieOptions { max_iter_cross_assoc: k, ..Default::default() });
                v.push(configs::cfg_of(&format!("saftvrmie_{}_{}_maxiter{k}", names[0], names[1]), ResidualModel::SaftVRMie(m), 2, 500.0, true));
            }
        }
        let p = configs::pcsaft_params(&["water", "methanol"], "gross2002.json", None);
        let m = PcSaft::with_options(Arc::new(p), PcSaftOptions { max_iter_cross_assoc: k, ..Default::default() });
        v.push(configs::cfg_of(&format!("pcsaft_water_methanol_maxiter{k}"), ResidualModel::PcSaft(m), 2, 600.0, true));
        if let Ok(p) = GcPcSaftEosParameters::from_json_segments(
            &["1-propanol", "ethanol"],
            format!("{}/pcsaft/gc_substances.json", configs::params()),
            format!("{}/pcsaft/sauer2014_hetero.json", configs::params()),
            None,
            IdentifierOption::Name,
        ) {
            let m = GcPcSaft::with_options(Arc::new(p), GcPcSaftOptions { max_iter_cross_assoc: k, ..Default::default() });
            v.push(configs::cfg_of(&format!("gcpcsaft_propanol_ethanol_maxiter{k}"), ResidualModel::GcPcSaft(m), 2, 520.0, true));
        }
    }
    let _ = PcSaftParameters::from_records;
    v
}

fn all_configs(full: bool) -> Vec<Config> {
    let mut v = configs::all(full);
    v.extend(association_configs());
    v.extend(solver_option_configs(full));
    v
}

fn mk_state(model: &Arc<ResidualModel>, s: &RState) -> St {
    State::new_nvt(
        model,
        Temperature::from_reduced(s.t),
        Volume::from_reduced(s.v),
        &Moles::from_reduced(Array1::from_vec(s.n.clone())),
    )
    .expect("state")
}

// ------------------------------------------------------------------------------------------------
// requests

/// derivative code: 0 = DV, 1 = DT, 2+i = DN(i)   (code order == derived `Ord` of `Derivative`)
fn deriv(code: usize) -> Derivative {
    match code {
        0 => Derivative::DV,
        1 => Derivative::DT,
        i => Derivative::DN(i - 2),
    }
}
fn dname(code: usize) -> String {
    match code {
        0 => "DV".into(),
        1 => "DT".into(),
        i => format!("DN({})", i - 2),
    }
}
fn dcoq(code: usize) -> String {
    match code {
        0 => "DV".into(),
        1 => "DT".into(),
        i => format!("(DN {})", i - 2),
    }
}

#[derive(Clone, Copy, PartialEq, Eq, Hash, Debug, PartialOrd, Ord)]
enum Rq {
    Z,
    F(usize),
    S(usize),
    M(usize, usize),
    T(usize),
}

impl Rq {
    fn issue(&self, st: &St) -> f64 {
        match *self {
            Rq::Z => st.verif_cache_request(0, Derivative::DV, Derivative::DV),
            Rq::F(d) => st.verif_cache_request(1, deriv(d), Derivative::DV),
            Rq::S(d) => st.verif_cache_request(2, deriv(d), Derivative::DV),
            Rq::M(a, b) => st.verif_cache_request(3, deriv(a), deriv(b)),
            Rq::T(d) => st.verif_cache_request(4, deriv(d), Derivative::DV),
        }
    }
    /// `Debug` text of the `PartialDerivative` request
    fn name(&self) -> String {
        match *self {
            Rq::Z => "Zeroth".into(),
            Rq::F(d) => format!("First({})", dname(d)),
            Rq::S(d) => format!("Second({})", dname(d)),
            Rq::M(a, b) => format!("SecondMixed({}, {})", dname(a), dname(b)),
            Rq::T(d) => format!("Third({})", dname(d)),
        }
    }
    fn coq(&self) -> String {
        match *self {
            Rq::Z => "Zeroth".into(),
            Rq::F(d) => format!("First {}", dcoq(d)),
            Rq::S(d) => format!("Second {}", dcoq(d)),
            Rq::M(a, b) => format!("SecondMixed {} {}", dcoq(a), dcoq(b)),
            Rq::T(d) => format!("Third {}", dcoq(d)),
        }
    }
    /// the key (Debug text) under which the property text expects the answer — the harness' own reading,
    /// used only by the runtime stress test
    fn key(&self) -> String {
        match *self {
            Rq::S(d) => Rq::M(d, d).name(),
            Rq::M(a, b) => Rq::M(a.min(b), a.max(b)).name(),
            r => r.name(),
        }
    }
}

fn alphabet(ncomp: usize) -> Vec<Rq> {
    let nd = ncomp + 2;
    let mut v = vec![Rq::Z];
    v.extend((0..nd).map(Rq::F));
    v.extend((0..nd).map(Rq::S));
    for a in 0..nd {
        for b in 0..nd {
            v.push(Rq::M(a, b));
        }
    }
    v.extend((0..nd).map(Rq::T));
    v
}

// ------------------------------------------------------------------------------------------------
// oracle: the tuples the closures compute, obtained through public API only

struct Oracle {
    nd: usize,
    o0: f64,
    o1: Vec<[f64; 2]>,
    o2: Vec<[f64; 3]>,
    oh: Vec<Vec<[f64; 4]>>,
    o3: Vec<[f64; 4]>,
}

fn oracle(model: &Arc<ResidualModel>, rs: &RState) -> Oracle {
    let nd = rs.n.len() + 2;
    // a fresh state per tuple: nothing can be shared through a cache
    let o0 = {
        let st = mk_state(model, rs);
        let h = st.derive0();
        model.residual_helmholtz_energy(&h) * h.temperature
    };
    let o1 = (0..nd)
        .map(|d| {
            let st = mk_state(model, rs);
            let h = st.derive1(deriv(d));
            let x = model.residual_helmholtz_energy(&h) * h.temperature;
            [x.re, x.eps]
        })
        .collect();
    let o2 = (0..nd)
        .map(|d| {
            let st = mk_state(model, rs);
            let h = st.derive2(deriv(d));
            let x = model.residual_helmholtz_energy(&h) * h.temperature;
            [x.re, x.v1, x.v2]
        })
        .collect();
    let oh = (0..nd)
        .map(|a| {
            (0..nd)
                .map(|b| {
                    let st = mk_state(model, rs);
                    let h = st.derive2_mixed(deriv(a), deriv(b));
                    let x = model.residual_helmholtz_energy(&h) * h.temperature;
                    [x.re, x.eps1, x.eps2, x.eps1eps2]
                })
                .collect()
        })
        .collect();
    let o3 = (0..nd)
        .map(|d| {
            let st = mk_state(model, rs);
            let h = st.derive3(deriv(d));
            let x = model.residual_helmholtz_energy(&h) * h.temperature;
            [x.re, x.v1, x.v2, x.v3]
        })
        .collect();
    Oracle { nd, o0, o1, o2, oh, o3 }
}

fn zb(x: f64) -> String {
    format!("{}%Z", x.to_bits())
}

impl Oracle {
    fn coq(&self) -> String {
        let mut s = String::new();
        let _ = writeln!(s, "Definition O : oracle Z := oracle_of_tables {}", zb(self.o0));
        let t1: Vec<String> = (0..self.nd).map(|d| format!("({}, ({}, {}))", dcoq(d), zb(self.o1[d][0]), zb(self.o1[d][1]))).collect();
        let _ = writeln!(s, "  [{}]", t1.join("; "));
        let t2: Vec<String> = (0..self.nd)
            .map(|d| format!("({}, ({}, {}, {}))", dcoq(d), zb(self.o2[d][0]), zb(self.o2[d][1]), zb(self.o2[d][2])))
            .collect();
        let _ = writeln!(s, "  [{}]", t2.join("; "));
        let mut th = Vec::new();
        for a in 0..self.nd {
            for b in 0..self.nd {
                let x = self.oh[a][b];
                th.push(format!("({}, {}, ({}, {}, {}, {}))", dcoq(a), dcoq(b), zb(x[0]), zb(x[1]), zb(x[2]), zb(x[3])));
            }
        }
        let _ = writeln!(s, "  [{}]", th.join(";\n   "));
        let t3: Vec<String> = (0..self.nd)
            .map(|d| {
                let x = self.o3[d];
                format!("({}, ({}, {}, {}, {}))", dcoq(d), zb(x[0]), zb(x[1]), zb(x[2]), zb(x[3]))
            })
            .collect();
        let _ = writeln!(s, "  [{}].", t3.join("; "));
        s
    }

    /// (key, producing request, value, is the value the producing request's own response)
    fn produced(&self) -> Vec<(String, Rq, f64, bool)> {
        let mut v = vec![(Rq::Z.name(), Rq::Z, self.o0, true)];
        for d in 0..self.nd {
            v.push((Rq::Z.name(), Rq::F(d), self.o1[d][0], false));
            v.push((Rq::F(d).name(), Rq::F(d), self.o1[d][1], true));
            v.push((Rq::Z.name(), Rq::S(d), self.o2[d][0], false));
            v.push((Rq::F(d).name(), Rq::S(d), self.o2[d][1], false));
            v.push((Rq::M(d, d).name(), Rq::S(d), self.o2[d][2], true));
            v.push((Rq::Z.name(), Rq::T(d), self.o3[d][0], false));
            v.push((Rq::F(d).name(), Rq::T(d), self.o3[d][1], false));
            v.push((Rq::M(d, d).name(), Rq::T(d), self.o3[d][2], false));
            v.push((Rq::T(d).name(), Rq::T(d), self.o3[d][3], true));
            for b in 0..self.nd {
                let x = self.oh[d][b];
                v.push((Rq::Z.name(), Rq::M(d, b), x[0], false));
                if d != b {
                    // for d == b the eps1 entry is overwritten by eps2 before anyone can read it
                    v.push((Rq::F(d).name(), Rq::M(d, b), x[1], false));
                }
                v.push((Rq::F(b).name(), Rq::M(d, b), x[2], false));
                v.push((Rq::M(d.min(b), d.max(b)).name(), Rq::M(d, b), x[3], true));
            }
        }
        v
    }

    /// every value some tuple claims for a key (Debug text of the canonical key)
    fn claims(&self) -> BTreeMap<String, Vec<(String, f64)>> {
        let mut m: BTreeMap<String, Vec<(String, f64)>> = BTreeMap::new();
        let mut add = |k: String, src: String, v: f64| m.entry(k).or_default().push((src, v));
        add(Rq::Z.name(), "f64".into(), self.o0);
        for d in 0..self.nd {
            add(Rq::Z.name(), format!("Dual64[{}].re", dname(d)), self.o1[d][0]);
            add(Rq::F(d).name(), format!("Dual64[{}].eps", dname(d)), self.o1[d][1]);
            add(Rq::Z.name(), format!("Dual2_64[{}].re", dname(d)), self.o2[d][0]);
            add(Rq::F(d).name(), format!("Dual2_64[{}].v1", dname(d)), self.o2[d][1]);
            add(Rq::M(d, d).name(), format!("Dual2_64[{}].v2", dname(d)), self.o2[d][2]);
            add(Rq::Z.name(), format!("Dual3_64[{}].re", dname(d)), self.o3[d][0]);
            add(Rq::F(d).name(), format!("Dual3_64[{}].v1", dname(d)), self.o3[d][1]);
            add(Rq::M(d, d).name(), format!("Dual3_64[{}].v2", dname(d)), self.o3[d][2]);
            add(Rq::T(d).name(), format!("Dual3_64[{}].v3", dname(d)), self.o3[d][3]);
            for b in 0..self.nd {
                let x = self.oh[d][b];
                let src = format!("HyperDual64[{},{}]", dname(d), dname(b));
                add(Rq::Z.name(), format!("{src}.re"), x[0]);
                add(Rq::F(d).name(), format!("{src}.eps1"), x[1]);
                add(Rq::F(b).name(), format!("{src}.eps2"), x[2]);
                add(Rq::M(d.min(b), d.max(b)).name(), format!("{src}.eps1eps2"), x[3]);
            }
        }
        m
    }
}

fn rel_dev(a: f64, b: f64) -> f64 {
    if a.to_bits() == b.to_bits() || (a.is_nan() && b.is_nan()) {
        // (NaN = "the model reported an error" in every order of evaluation)
        0.0
    } else {
        let sc = a.abs().max(b.abs());
        if sc == 0.0 {
            0.0
        } else if !(a - b).is_finite() {
            f64::INFINITY
        } else {
            (a - b).abs() / sc
        }
    }
}

/// consistency of the oracle: per key the spread of all claims
fn consistency(claims: &BTreeMap<String, Vec<(String, f64)>>) -> Value {
    let mut worst = 0.0f64;
    let mut worst_key = String::new();
    let mut worst_pair = json!(null);
    let mut keys_not_bit_identical = 0usize;
    let mut nclaims = 0usize;
    for (k, v) in claims {
        nclaims += v.len();
        let mut ident = true;
        for (s1, x1) in v {
            for (s2, x2) in v {
                let r = rel_dev(*x1, *x2);
                if x1.to_bits() != x2.to_bits() {
                    ident = false;
                }
                if r > worst {
                    worst = r;
                    worst_key = k.clone();
                    worst_pair = json!([[s1, x1], [s2, x2]]);
                }
            }
        }
        if !ident {
            keys_not_bit_identical += 1;
        }
    }
    json!({"keys": claims.len(), "claims": nclaims, "keys_not_bit_identical": keys_not_bit_identical,
           "worst_rel": if worst.is_finite() { json!(worst) } else { json!("inf") }, "worst_key": worst_key, "worst_pair": worst_pair})
}

// ------------------------------------------------------------------------------------------------
// public getters as bundles of requests (residual_properties.rs); sign = what the getter applies

#[derive(Clone, Copy, Debug)]
enum Getter {
    ResidualHelmholtzEnergy,
    ResidualEntropy,
    PressureResidual,
    ResidualChemicalPotential,
    DpDv,
    DpDt,
    DpDni,
    D2pDv2,
    DmuDni,
    DsResDt,
    D2sResDt2,
    DmuResDt,
}
const GETTERS: [Getter; 12] = [
    Getter::ResidualHelmholtzEnergy,
    Getter::ResidualEntropy,
    Getter::PressureResidual,
    Getter::ResidualChemicalPotential,
    Getter::DpDv,
    Getter::DpDt,
    Getter::DpDni,
    Getter::D2pDv2,
    Getter::DmuDni,
    Getter::DsResDt,
    Getter::D2sResDt2,
    Getter::DmuResDt,
];

impl Getter {
    /// the requests the getter issues, in order, as read from the source
    fn requests(&self, nc: usize) -> Vec<Rq> {
        match self {
            Getter::ResidualHelmholtzEnergy => vec![Rq::Z],
            Getter::ResidualEntropy => vec![Rq::F(1)],
            Getter::PressureResidual => vec![Rq::F(0)],
            Getter::ResidualChemicalPotential => (0..nc).map(|i| Rq::F(2 + i)).collect(),
            Getter::DpDv => vec![Rq::S(0)],
            Getter::DpDt => vec![Rq::M(0, 1)],
            Getter::DpDni => (0..nc).map(|i| Rq::M(0, 2 + i)).collect(),
            Getter::D2pDv2 => vec![Rq::T(0)],
            Getter::DmuDni => (0..nc).flat_map(|i| (0..nc).map(move |j| Rq::M(2 + i, 2 + j))).collect(),
            Getter::DsResDt => vec![Rq::S(1)],
            Getter::D2sResDt2 => vec![Rq::T(1)],
            Getter::DmuResDt => (0..nc).map(|i| Rq::M(1, 2 + i)).collect(),
        }
    }
    /// call the public getter; returns the cache values it must have read (sign undone), in request order
    fn call(&self, st: &St) -> Vec<f64> {
        let r = Contributions::Residual;
        match self {
            Getter::ResidualHelmholtzEnergy => vec![st.residual_helmholtz_energy().to_reduced()],
            Getter::ResidualEntropy => vec![-st.residual_entropy().to_reduced()],
            Getter::PressureResidual => vec![-st.pressure(r).to_reduced()],
            Getter::ResidualChemicalPotential => st.residual_chemical_potential().to_reduced().to_vec(),
            Getter::DpDv => vec![-st.dp_dv(r).to_reduced()],
            Getter::DpDt => vec![-st.dp_dt(r).to_reduced()],
            Getter::DpDni => st.dp_dni(r).to_reduced().iter().map(|x| -x).collect(),
            Getter::D2pDv2 => vec![-st.d2p_dv2(r).to_reduced()],
            Getter::DmuDni => st.dmu_dni(r).to_reduced().iter().cloned().collect(),
            Getter::DsResDt => vec![-st.ds_res_dt().to_reduced()],
            Getter::D2sResDt2 => vec![-st.d2s_res_dt2().to_reduced()],
            Getter::DmuResDt => st.dmu_res_dt().to_reduced().to_vec(),
        }
    }
}

// ------------------------------------------------------------------------------------------------
// histories

#[derive(Clone, Debug)]
enum Op {
    Req(usize, Rq),
    Clone(usize),
    Get(usize, Getter),
    /// a pure evaluator: 0 residual_helmholtz_energy_contributions, 1 pressure_contributions, 2+i residual_chemical_potential_contributions(i)
    Pure(usize, usize),
}

fn call_pure_evaluator(st: &St, k: usize) -> usize {
    match k {
        0 => st.residual_helmholtz_energy_contributions().len(),
        1 => st.pressure_contributions().len(),
        i => st.residual_chemical_potential_contributions(i - 2).len(),
    }
}

fn dcoq_txt(s: &str) -> String {
    if s.starts_with("DN(") && s.ends_with(')') {
        format!("(DN {})", &s[3..s.len() - 1])
    } else {
        s.to_string()
    }
}
/// `Debug` text of a `PartialDerivative` key -> Coq term of type `pd`
fn key_coq(k: &str) -> String {
    match k.find('(') {
        Some(p) if k.ends_with(')') => {
            let inner = &k[p + 1..k.len() - 1];
            let parts: Vec<String> = inner.split(", ").map(dcoq_txt).collect();
            format!("{} {}", &k[..p], parts.join(" "))
        }
        _ => k.to_string(),
    }
}
/// table of the distinct bit patterns of one generated file: the cases refer to `v i` (parsing thousands of
/// 64-bit literals is what makes coqc slow, not the replay)
#[derive(Default)]
struct Vals {
    idx: std::collections::HashMap<u64, usize>,
    list: Vec<u64>,
}
impl Vals {
    fn v(&mut self, b: u64) -> String {
        let n = self.list.len();
        let i = *self.idx.entry(b).or_insert(n);
        if i == n {
            self.list.push(b);
        }
        format!("v {}", i)
    }
    fn coq(&self) -> String {
        format!(
            "Definition vals : list Z := [{}].\nDefinition v (i : nat) : Z := nth i vals (-1)%Z.\n",
            self.list.iter().map(|b| format!("{}%Z", b)).collect::<Vec<_>>().join("; ")
        )
    }
}
fn snap_coq(st: &St, vals: &mut Vals) -> String {
    let (e, h, m) = st.verif_cache_snapshot();
    let items: Vec<String> = e.iter().map(|(k, b)| format!("({}, {})", key_coq(k), vals.v(*b))).collect();
    format!("([{}], {}, {})", items.join("; "), h, m)
}

fn snap_json(st: &St) -> Value {
    let (e, h, m) = st.verif_cache_snapshot();
    json!([e.iter().map(|(k, b)| json!([k, b])).collect::<Vec<_>>(), h, m])
}

struct FreshTable {
    /// what a fresh state returns for each request
    v: BTreeMap<Rq, f64>,
}

fn fresh_table(model: &Arc<ResidualModel>, rs: &RState, alpha: &[Rq]) -> FreshTable {
    FreshTable { v: alpha.iter().map(|r| (*r, r.issue(&mk_state(model, rs)))).collect() }
}

#[derive(Default)]
struct Dev {
    responses: usize,
    bit_different: usize,
    worst: f64,
    first: Option<Value>,
    worst_case: Option<Value>,
}
impl Dev {
    fn see(&mut self, hist: &dyn Fn() -> Value, r: &Rq, got: f64, fresh: f64) {
        self.responses += 1;
        if got.to_bits() != fresh.to_bits() {
            self.bit_different += 1;
            let d = rel_dev(got, fresh);
            let case = json!({"history": hist(), "request": r.name(), "after_history": got, "after_history_bits": got.to_bits(),
                              "fresh_state": fresh, "fresh_state_bits": fresh.to_bits(), "rel_dev": if d.is_finite() { json!(d) } else { json!("inf") }});
            if self.first.is_none() {
                self.first = Some(case.clone());
            }
            if d > self.worst || self.worst_case.is_none() {
                self.worst = self.worst.max(d);
                self.worst_case = Some(case);
            }
        }
    }
    fn json(&self) -> Value {
        json!({"responses": self.responses, "bit_different_from_fresh": self.bit_different,
               "worst_rel": if self.worst.is_finite() { json!(self.worst) } else { json!("inf") },
               "first": self.first, "worst_case": self.worst_case})
    }
}

fn coq_header() -> String {
    "From Coq Require Import List ZArith String.\nImport ListNotations.\nFrom FeosVerif Require Import Cache.\nOpen Scope string_scope.\n".to_string()
}

/// all sequences over `alpha` of length 0..=maxlen, in length-lexicographic order
fn all_histories(alpha: &[Rq], maxlen: usize) -> Vec<Vec<Rq>> {
    let mut out: Vec<Vec<Rq>> = vec![vec![]];
    let mut layer: Vec<Vec<Rq>> = vec![vec![]];
    for _ in 0..maxlen {
        let mut next = Vec::with_capacity(layer.len() * alpha.len());
        for h in &layer {
            for a in alpha {
                let mut g = h.clone();
                g.push(*a);
                next.push(g);
            }
        }
        out.extend(next.iter().cloned());
        layer = next;
    }
    out
}

fn random_pool_history(rng: &mut Rng, alpha: &[Rq], nc: usize, maxlen: usize) -> Vec<Op> {
    let len = 1 + rng.below(maxlen);
    let mut pool = 1usize;
    let mut h = Vec::new();
    // biased towards "high derivative first, lower later": first third draws from the upper part of the alphabet
    let nd = nc + 2;
    let high: Vec<Rq> = alpha.iter().cloned().filter(|r| !matches!(r, Rq::Z | Rq::F(_))).collect();
    let mut total = 0usize;
    while total < len {
        let s = rng.below(pool);
        let u = rng.f64();
        if u < 0.10 && pool < 6 {
            h.push(Op::Clone(s));
            pool += 1;
            total += 1;
        } else if u < 0.16 {
            h.push(Op::Pure(s, rng.below(2 + nc)));
            total += 1;
        } else if u < 0.30 {
            let g = GETTERS[rng.below(GETTERS.len())];
            total += g.requests(nc).len();
            h.push(Op::Get(s, g));
        } else if total * 3 < len && rng.f64() < 0.7 {
            h.push(Op::Req(s, high[rng.below(high.len())]));
            total += 1;
        } else {
            h.push(Op::Req(s, alpha[rng.below(alpha.len())]));
            total += 1;
        }
    }
    let _ = nd;
    h
}

fn op_text(o: &Op) -> String {
    match o {
        Op::Req(s, r) => format!("{}@{}", r.name(), s),
        Op::Clone(s) => format!("clone@{}", s),
        Op::Get(s, g) => format!("{:?}@{}", g, s),
        Op::Pure(s, k) => format!("pure{}@{}", k, s),
    }
}

fn run_config(c: &Config, model_name: &str, rs: &RState, full: bool, rng: &mut Rng, out_dir: &str, files: &mut Vec<Value>) -> Value {
    let nc = c.ncomp;
    let alpha = alphabet(nc);
    let orc = oracle(&c.model, rs);
    let claims = orc.claims();
    let cons = consistency(&claims);
    let fresh = fresh_table(&c.model, rs, &alpha);
    let ocoq = orc.coq();

    // ---------------- exhaustive single-state histories
    let maxlen = if full && nc <= 2 { 3 } else { 2 };
    let hists = all_histories(&alpha, maxlen);
    let mut dev = Dev::default();
    let chunk = 1000usize;
    let mut nfiles = 0usize;
    for (ci, hs) in hists.chunks(chunk).enumerate() {
        let fname = format!("exh_{}_{}.v", c.name, ci);
        let mut vals = Vals::default();
        let mut v = String::new();
        v.push_str("Definition cases : list (list pd * (list (Z * Z) * snap_t)) := [\n");
        let mut cases = Vec::with_capacity(hs.len());
        for (i, h) in hs.iter().enumerate() {
            let st = mk_state(&c.model, rs);
            let mut resp = Vec::with_capacity(h.len());
            for (j, r) in h.iter().enumerate() {
                let x = r.issue(&st);
                dev.see(&|| json!(h[..=j].iter().map(|q| q.name()).collect::<Vec<_>>()), r, x, fresh.v[r]);
                resp.push(x.to_bits());
            }
            let _ = writeln!(
                v,
                "  ([{}], ([{}], {})){}",
                h.iter().map(|r| r.coq()).collect::<Vec<_>>().join("; "),
                resp.iter().map(|b| format!("({}, 0%Z)", vals.v(*b))).collect::<Vec<_>>().join("; "),
                snap_coq(&st, &mut vals),
                if i + 1 < hs.len() { ";" } else { "" }
            );
            cases.push(json!(h.iter().map(|r| r.name()).collect::<Vec<_>>().join(";")));
        }
        v.push_str("].\n");
        v.push_str("Eval vm_compute in (\"N\", List.length cases).\n");
        v.push_str("Eval vm_compute in (\"BAD\", check1 O cases).\n");
        v.push_str("Eval vm_compute in (\"SAMPLE\", map (fun c => (fst c, replay1 O (fst c))) (firstn 1 (skipn 40 cases))).\n");
        v.push_str("Lemma model_and_implementation_agree : check1 O cases = [].\nProof. vm_compute. reflexivity. Qed.\n");
        let v = format!("{}{}{}{}", coq_header(), ocoq, vals.coq(), v);
        std::fs::write(format!("{out_dir}/{fname}"), v).unwrap();
        files.push(json!({"file": fname, "kind": "exh", "config": c.name, "cases": cases}));
        nfiles += 1;
    }

    // ---------------- random pool histories with clones and public getters
    let nrand = if full { 400 } else { 60 };
    let per_file = 50usize;
    let mut rdev = Dev::default();
    let mut getter_worst = 0.0f64;
    let mut getter_calls = 0usize;
    let mut len_hist = [0usize; 6]; // 1-10, 11-20, ... 41-50, >50
    let mut nclones = 0usize;
    let rhists: Vec<Vec<Op>> = (0..nrand).map(|_| random_pool_history(rng, &alpha, nc, 50)).collect();
    for (ci, hs) in rhists.chunks(per_file).enumerate() {
        let fname = format!("rnd_{}_{}.v", c.name, ci);
        let mut vals = Vals::default();
        let mut v = String::new();
        v.push_str("Definition cases : list (list gop * (list (option (Z * Z)) * list snap_t)) := [\n");
        let mut cases = Vec::new();
        for (i, h) in hs.iter().enumerate() {
            let mut pool: Vec<St> = vec![mk_state(&c.model, rs)];
            let mut ops_coq: Vec<String> = Vec::new();
            let mut resp: Vec<Value> = Vec::new();
            let mut resp_coq: Vec<String> = Vec::new();
            let mut prim = 0usize;
            for o in h {
                match o {
                    Op::Req(s, r) => {
                        let x = r.issue(&pool[*s]);
                        rdev.see(&|| json!(h.iter().map(op_text).collect::<Vec<_>>()), r, x, fresh.v[r]);
                        ops_coq.push(format!("GReq {} ({})", s, r.coq()));
                        resp.push(json!({"b": x.to_bits(), "exact": true}));
                        resp_coq.push(format!("Some ({}, 0%Z)", vals.v(x.to_bits())));
                        prim += 1;
                    }
                    Op::Clone(s) => {
                        let cl = pool[*s].clone();
                        pool.push(cl);
                        ops_coq.push(format!("GClone {}", s));
                        resp.push(json!(null));
                        resp_coq.push("None".into());
                        nclones += 1;
                        prim += 1;
                    }
                    Op::Pure(s, k) => {
                        let _ = call_pure_evaluator(&pool[*s], *k);
                        ops_coq.push(format!("GPure {}", s));
                        prim += 1;
                    }
                    Op::Get(s, g) => {
                        let gvals = g.call(&pool[*s]);
                        let reqs = g.requests(nc);
                        assert_eq!(gvals.len(), reqs.len());
                        getter_calls += 1;
                        // the model expands the getter into its requests (Cache.v: getter_requests)
                        ops_coq.push(format!("GGet {} G{:?}", s, g));
                        for (r, x) in reqs.iter().zip(gvals.iter()) {
                            getter_worst = getter_worst.max(rel_dev(*x, fresh.v[r]));
                            resp.push(json!({"b": x.to_bits(), "exact": false, "getter": format!("{:?}", g)}));
                            resp_coq.push(format!("Some ({}, {}%Z)", vals.v(x.to_bits()), GETTER_ULPS));
                            prim += 1;
                        }
                    }
                }
            }
            len_hist[((prim.max(1) - 1) / 10).min(5)] += 1;
            let _ = writeln!(
                v,
                "  ([{}], ([{}], [{}])){}",
                ops_coq.join("; "),
                resp_coq.join("; "),
                pool.iter().map(|st| snap_coq(st, &mut vals)).collect::<Vec<_>>().join("; "),
                if i + 1 < hs.len() { ";" } else { "" }
            );
            let _ = &resp;
            cases.push(json!(h.iter().map(op_text).collect::<Vec<_>>().join(";")));
        }
        v.push_str("].\n");
        v.push_str("Eval vm_compute in (\"N\", List.length cases).\n");
        let _ = writeln!(v, "Eval vm_compute in (\"BAD\", check_api {nc} O cases).");
        let _ = writeln!(v, "Lemma model_and_implementation_agree : check_api {nc} O cases = [].\nProof. vm_compute. reflexivity. Qed.");
        let v = format!("{}{}{}{}", coq_header(), ocoq, vals.coq(), v);
        std::fs::write(format!("{out_dir}/{fname}"), v).unwrap();
        files.push(json!({"file": fname, "kind": "rnd", "config": c.name, "cases": cases}));
        nfiles += 1;
    }

    // ---------------- runtime: threads sharing one state
    let stress = stress(c, rs, &alpha, &claims, rng, full);

    json!({
        "name": c.name, "model": model_name, "ncomp": nc, "state_TVN": rs.vars(),
        "density_fraction": density_fraction(c, rs), "value_tol": value_tol(density_fraction(c, rs)), "alphabet": alpha.iter().map(|r| r.name()).collect::<Vec<_>>(),
        "oracle_consistency": cons, "files": nfiles,
        "exhaustive": {"max_len": maxlen, "histories": hists.len(), "vs_fresh": dev.json()},
        "random": {"histories": rhists.len(), "clones": nclones, "getter_calls": getter_calls,
                   "getter_vs_fresh_worst_rel": getter_worst, "primitive_length_histogram_by_10": len_hist, "vs_fresh": rdev.json()},
        "stress": stress,
    })
}

// ------------------------------------------------------------------------------------------------
// consistency of the oracle over all model families (the hypothesis of the theorems), every run

/// For every configuration and a few sampled states: compute all tuples the closures of the cache can compute and compare,
/// per key, every by-product with the value the direct request returns.  By `C11_byproduct_*_observable` a difference IS a
/// history dependence; the witness history [producer of the by-product; direct request] is then run on the real `State`.
fn consistency_sweep(full: bool, seed: u64, only: &Option<String>) -> Value {
    let cfgs: Vec<Config> = all_configs(full).into_iter().filter(|c| full || c.core).collect();
    let nstates = if full { 6 } else { 2 };
    let mut evaluated = 0usize;
    let mut error_states = 0usize;
    let mut comparisons = 0usize;
    let mut worst = 0.0f64;
    let mut worst_case = json!(null);
    let mut per_config = Vec::new();
    let mut all_states: Vec<Value> = Vec::new();
    let mut failures: Vec<Value> = Vec::new();
    let mut panics: Vec<Value> = Vec::new();
    for c in &cfgs {
        if let Some(o) = only {
            if o != &c.name {
                continue;
            }
        }
        let mut rng = Rng(seed ^ trace::fxhash(&c.name) ^ 0x5EE9);
        let mut cw = 0.0f64;
        let ns = if c.name.contains("maxiter") { nstates.max(4) } else { nstates };
        for _ in 0..ns {
            let rs = configs::sample_state(c, &mut rng);
            let orc = match guard(|| oracle(&c.model, &rs)) {
                Ok(o) => o,
                Err(e) => {
                    panics.push(json!({"config": c.name, "state_TVN": rs.vars(), "where": "evaluating the Helmholtz energy in dual numbers", "panic": e}));
                    continue;
                }
            };
            evaluated += 1;
            if orc.o0.is_nan() {
                error_states += 1;
            }
            let prod = orc.produced();
            let mut sw = 0.0f64;
            let mut sc: Option<(Rq, Rq, f64, f64, String)> = None;
            for (k1, direct, y, primary) in &prod {
                if !*primary {
                    continue;
                }
                for (k2, by, x, _) in &prod {
                    if k1 != k2 || by == direct {
                        continue;
                    }
                    comparisons += 1;
                    let d = rel_dev(*x, *y);
                    if d > sw || (d == sw && sc.is_none()) {
                        sw = d;
                        sc = Some((*by, *direct, *x, *y, k1.clone()));
                    }
                }
            }
            cw = cw.max(sw);
            all_states.push(json!([c.name, density_fraction(c, &rs), sw]));
            if let Some((by, direct, x, y, key)) = sc {
                let case = json!({"config": c.name, "state_TVN": rs.vars(), "key": key, "history": [by.name(), direct.name()],
                                  "by_product_value": x, "direct_value": y, "rel_dev": if sw.is_finite() { json!(sw) } else { json!("inf") }});
                if sw > worst {
                    worst = sw;
                    worst_case = case.clone();
                }
                let vtol = value_tol(density_fraction(c, &rs));
                if !(sw <= vtol) && failures.len() < 5 {
                    // replay the witness on the real State
                    let st = mk_state(&c.model, &rs);
                    let _ = by.issue(&st);
                    let got = direct.issue(&st);
                    let fresh = direct.issue(&mk_state(&c.model, &rs));
                    let d = rel_dev(got, fresh);
                    failures.push(json!({"model": c.name, "state_TVN": rs.vars(), "history": format!("{};{}", by.name(), direct.name()),
                                         "request": direct.name(), "after_history": got, "fresh_state": fresh,
                                         "rel_dev": if d.is_finite() { json!(d) } else { json!("inf") }, "reproduced_on_state": !(d <= vtol), "value_tol": vtol,
                                         "oracle": case}));
                }
            }
        }
        per_config.push(json!({"config": c.name, "worst_rel": if cw.is_finite() { json!(cw) } else { json!("inf") }}));
    }
    json!({"configurations": per_config.len(), "states": evaluated, "states_where_the_model_reports_an_error_(NaN)": error_states, "comparisons": comparisons,
           "worst_rel": if worst.is_finite() { json!(worst) } else { json!("inf") }, "worst_case": worst_case,
           "per_config": per_config, "states_fraction_dev": all_states, "failures": failures, "panics": panics})
}

/// density of the state as a fraction of the model's maximum density
fn density_fraction(c: &Config, rs: &RState) -> f64 {
    let n = Array1::from_vec(rs.n.clone());
    let ntot: f64 = rs.n.iter().sum();
    (ntot / rs.v) / c.model.compute_max_density(&n)
}

// ------------------------------------------------------------------------------------------------
// runtime support: 2-16 threads on one shared state

fn stress(c: &Config, rs: &RState, alpha: &[Rq], claims: &BTreeMap<String, Vec<(String, f64)>>, rng: &mut Rng, full: bool) -> Value {
    let vtol = value_tol(density_fraction(c, rs));
    let rounds = if full { 40 } else { 8 };
    let mut total_resp = 0usize;
    let mut runs = 0usize;
    let mut failures: Vec<Value> = Vec::new();
    let allowed: BTreeMap<String, BTreeSet<u64>> =
        claims.iter().map(|(k, v)| (k.clone(), v.iter().map(|(_, x)| x.to_bits()).collect())).collect();
    for &nt in &[2usize, 3, 4, 8, 16] {
        for _ in 0..rounds {
            runs += 1;
            let lists: Vec<Vec<Rq>> = (0..nt)
                .map(|_| {
                    let len = 1 + rng.below(30);
                    (0..len).map(|_| alpha[rng.below(alpha.len())]).collect()
                })
                .collect();
            let st = mk_state(&c.model, rs);
            let barrier = std::sync::Barrier::new(nt);
            let results: Vec<Vec<f64>> = std::thread::scope(|sc| {
                let hs: Vec<_> = lists
                    .iter()
                    .map(|l| {
                        let st = &st;
                        let barrier = &barrier;
                        sc.spawn(move || {
                            barrier.wait();
                            l.iter().map(|r| r.issue(st)).collect::<Vec<f64>>()
                        })
                    })
                    .collect();
                hs.into_iter().map(|h| h.join().unwrap()).collect()
            });
            let (entries, hit, miss) = st.verif_cache_snapshot();
            let nreq: usize = lists.iter().map(|l| l.len()).sum();
            total_resp += nreq;
            let distinct: BTreeSet<String> = lists.iter().flatten().map(|r| r.key()).collect();
            let mut bad = Vec::new();
            let mut value_problem = false;
            for (t, (l, res)) in lists.iter().zip(results.iter()).enumerate() {
                for (r, x) in l.iter().zip(res.iter()) {
                    if !allowed.get(&r.key()).map(|s| s.contains(&x.to_bits())).unwrap_or(false) {
                        // not bit-identical to any value a fresh state can produce for this key: how far off?
                        let near = claims.get(&r.key()).map(|v| v.iter().map(|(_, y)| rel_dev(*x, *y)).fold(f64::INFINITY, f64::min)).unwrap_or(f64::INFINITY);
                        if near > vtol {
                            value_problem = true;
                        }
                        bad.push(json!({"thread": t, "request": r.name(), "value": x, "bits": x.to_bits(),
                                        "rel_dev_from_nearest_fresh_state_value": if near.is_finite() { json!(near) } else { json!("inf") },
                                        "fresh_state_values": claims.get(&r.key())}));
                    }
                }
            }
            for (k, b) in &entries {
                if !allowed.get(k).map(|s| s.contains(b)).unwrap_or(false) {
                    bad.push(json!({"cache_entry": k, "bits": b, "fresh_state_values": claims.get(k)}));
                }
            }
            if hit + miss != nreq as u64 {
                bad.push(json!({"counters": [hit, miss], "requests": nreq, "what": "hit + miss != number of requests"}));
            }
            if miss as usize > distinct.len() || miss == 0 {
                bad.push(json!({"counters": [hit, miss], "distinct_keys_requested": distinct.len(),
                                "what": "a key was computed more than once (lookup+compute+insert not atomic) or never"}));
            }
            for k in &distinct {
                if !entries.iter().any(|(e, _)| e == k) {
                    bad.push(json!({"missing_key": k}));
                }
            }
            if !bad.is_empty() && failures.len() < 3 {
                failures.push(json!({"threads": nt, "config": c.name, "state_TVN": rs.vars(), "value_problem": value_problem,
                                     "request_lists": lists.iter().map(|l| l.iter().map(|r| r.name()).collect::<Vec<_>>()).collect::<Vec<_>>(),
                                     "problems": bad.into_iter().take(5).collect::<Vec<_>>()}));
            }
        }
    }
    json!({"runs": runs, "thread_counts": [2, 3, 4, 8, 16], "responses": total_resp, "failures": failures})
}

// ------------------------------------------------------------------------------------------------
// runtime support: par_pure vs pure

const CRIT: usize = 9999;

/// index of the grid temperature a returned state belongs to (CRIT for the critical point, 7777 = none)
fn grid_index(t: f64, grid: &[f64], tc: f64, last: bool) -> usize {
    if last && rel_dev(t, tc) <= 1e-9 {
        return CRIT;
    }
    let mut best = (7777usize, f64::INFINITY);
    for (i, g) in grid.iter().enumerate() {
        let d = rel_dev(t, *g);
        if d < best.1 {
            best = (i, d);
        }
    }
    if best.1 <= 1e-9 {
        best.0
    } else {
        7777
    }
}

fn diagram_table(d: &PhaseDiagram<ResidualModel, 2>) -> Vec<[f64; 3]> {
    d.states
        .iter()
        .map(|pe| [pe.vapor().temperature.to_reduced(), pe.vapor().density.to_reduced(), pe.liquid().density.to_reduced()])
        .collect()
}

/// outcome of one call of `pure` / `par_pure`: the table of states, an `Err`, or a panic
#[derive(Clone, Debug, PartialEq)]
enum Outcome {
    Ok(Vec<[f64; 3]>),
    Err(String),
    Panic(String),
}
impl Outcome {
    fn kind(&self) -> &'static str {
        match self {
            Outcome::Ok(_) => "Ok",
            Outcome::Err(_) => "Err",
            Outcome::Panic(_) => "panic",
        }
    }
    fn json(&self) -> Value {
        match self {
            Outcome::Ok(t) => json!({"Ok_T_rhoV_rhoL": t}),
            Outcome::Err(e) => json!({"Err": e}),
            Outcome::Panic(e) => json!({"panic": e}),
        }
    }
}

#[derive(Clone, Copy, Debug)]
struct Opts {
    max_iter: Option<usize>,
    tol: Option<f64>,
}
impl Opts {
    fn solver(&self) -> SolverOptions {
        let mut o = SolverOptions::default();
        if let Some(m) = self.max_iter {
            o = o.max_iter(m);
        }
        if let Some(t) = self.tol {
            o = o.tol(t);
        }
        o
    }
    fn is_default(&self) -> bool {
        self.max_iter.is_none() && self.tol.is_none()
    }
    fn json(&self) -> Value {
        json!({"max_iter": self.max_iter, "tol": self.tol})
    }
}

fn call_pure(eos: &Arc<ResidualModel>, tmin: Temperature, np: usize, guess: Option<Temperature>, o: Opts) -> Outcome {
    match guard(|| PhaseDiagram::pure(eos, tmin, np, guess, o.solver())) {
        Ok(Ok(d)) => Outcome::Ok(diagram_table(&d)),
        Ok(Err(e)) => Outcome::Err(format!("{e}")),
        Err(p) => Outcome::Panic(p),
    }
}
fn call_par(eos: &Arc<ResidualModel>, tmin: Temperature, np: usize, k: usize, nt: usize, guess: Option<Temperature>, o: Opts) -> Outcome {
    match guard(|| {
        let pool = rayon::ThreadPoolBuilder::new().num_threads(nt).build().unwrap();
        PhaseDiagram::par_pure(eos, tmin, np, k, pool, guess, o.solver())
    }) {
        Ok(Ok(d)) => Outcome::Ok(diagram_table(&d)),
        Ok(Err(e)) => Outcome::Err(format!("{e}")),
        Err(p) => Outcome::Panic(p),
    }
}

/// `par_pure` vs `pure` over (model, grid, threads, chunk size, solver options, initial critical temperature).
/// Grids: ordinary ranges where every temperature has a converged equilibrium AND ranges starting far below the
/// triple-point region where the point solver fails for the first temperatures (skipped by both variants).
/// With the default options the two variants are compared state by state and the observed results are emitted for the
/// Coq model `ParPure.v` (point solver = table of which grid temperatures converge from scratch), which must predict the
/// list of returned states for every chunk size.  With non-default options (where convergence of a point may legitimately
/// depend on the initial guess, property C12) what `C11_par_pure_api_order` / `C11_api_same_critical_state` state without a
/// hypothesis on the point solver is compared: same Ok/Err, same critical end state, every returned temperature on the
/// grid built from the default-options critical point; densities at common grid points when the tolerance is the default.
fn par_pure_runs(full: bool, rng: &mut Rng, out_dir: &str, files: &mut Vec<Value>) -> Value {
    let all = configs::all(false);
    let names: &[&str] = if full { &["pr1", "pcsaft_propane", "pcsaft_water", "pets1", "gcpcsaft_propane"] } else { &["pr1", "pcsaft_propane", "pets1"] };
    let mut runs = 0usize;
    let mut runs_nondefault = 0usize;
    let mut states = 0usize;
    let mut grids = 0usize;
    let mut grids_with_failing_points = 0usize;
    let mut failing_points = 0usize;
    let mut outcome_hist: BTreeMap<String, usize> = BTreeMap::new();
    let mut worst = 0.0f64;
    let mut worst_case = json!(null);
    let mut first_failure = json!(null);
    let mut samples: Vec<Value> = Vec::new();
    let threads: &[usize] = if full { &[1, 2, 3, 4, 8, 16] } else { &[1, 2, 4, 16] };
    let default = Opts { max_iter: None, tol: None };
    let variants: Vec<Opts> = vec![
        Opts { max_iter: None, tol: Some(1e-2) },
        Opts { max_iter: None, tol: Some(1e-5) },
        Opts { max_iter: Some(3), tol: None },
        Opts { max_iter: Some(8), tol: None },
        Opts { max_iter: Some(15), tol: Some(1e-3) },
        Opts { max_iter: Some(200), tol: Some(1e-14) },
    ];
    for name in names {
        let c = all.iter().find(|c| &c.name == name).unwrap();
        let eos = &c.model;
        let tc = match guard(|| State::critical_point(eos, None, None, SolverOptions::default())) {
            Ok(Ok(s)) => s.temperature.to_reduced(),
            _ => continue,
        };
        // (npoints, lowest temperature as a fraction of Tc, options, initial critical temperature as a multiple of Tc)
        let mut plan: Vec<(usize, f64, Opts, Option<f64>)> = Vec::new();
        let npts: Vec<usize> = if full { vec![2, 3, 4, 5, 7, 10, 17, 33, 64] } else { vec![2, 3, 5, 10, 17] };
        for &np in &npts {
            plan.push((np, rng.range(0.55, 0.8), default, None));
        }
        let low: Vec<usize> = if full { vec![3, 5, 8, 13, 21, 34] } else { vec![4, 9, 21] };
        for &np in &low {
            plan.push((np, rng.range(0.02, 0.12), default, None));
            plan.push((np, rng.range(0.12, 0.35), default, None));
        }
        // non-default solver options and initial critical temperatures
        let nopt = if full { 3 } else { 1 };
        for v in &variants {
            for _ in 0..nopt {
                let np = 2 + rng.below(if full { 20 } else { 9 });
                let frac = if rng.f64() < 0.3 { rng.range(0.03, 0.3) } else { rng.range(0.5, 0.85) };
                let g = match rng.below(4) {
                    0 => None,
                    1 => Some(rng.range(0.9, 1.3)),
                    2 => Some(rng.range(2.0, 8.0)),
                    _ => Some(rng.range(0.3, 0.8)),
                };
                plan.push((np, frac, *v, g));
            }
        }
        plan.push((2 + rng.below(8), rng.range(0.5, 0.8), default, Some(rng.range(2.0, 8.0))));
        for (gi, &(np, frac, opts, gfac)) in plan.iter().enumerate() {
            let tmin = Temperature::from_reduced(tc * frac);
            let guess = gfac.map(|f| Temperature::from_reduced(tc * f));
            let seq = call_pure(eos, tmin, np, guess, opts);
            // the grid exactly as par_pure builds it (critical point with the DEFAULT options and the caller's initial value)
            let sc = match guard(|| State::critical_point(eos, None, guess, SolverOptions::default())) {
                Ok(Ok(s)) => Some(s),
                _ => None,
            };
            let (grid, tcg): (Vec<f64>, f64) = match &sc {
                Some(sc) => {
                    let max_t = tmin + (sc.temperature - tmin) * ((np - 2) as f64 / (np - 1) as f64);
                    (Array1::linspace(tmin.to_reduced(), max_t.to_reduced(), np - 1).to_vec(), sc.temperature.to_reduced())
                }
                None => (vec![], f64::NAN),
            };
            let ok: Vec<bool> = grid
                .iter()
                .map(|t| matches!(guard(|| PhaseEquilibrium::pure(eos, Temperature::from_reduced(*t), None, opts.solver())), Ok(Ok(_))))
                .collect();
            let nfail = ok.iter().filter(|b| !**b).count();
            grids += 1;
            failing_points += nfail;
            if nfail > 0 {
                grids_with_failing_points += 1;
            }
            let idx = |t: &Vec<[f64; 3]>| -> Vec<usize> { t.iter().enumerate().map(|(i, x)| grid_index(x[0], &grid, tcg, i + 1 == t.len())).collect() };
            let seq_idx: Vec<usize> = match &seq {
                Outcome::Ok(t) => idx(t),
                _ => vec![],
            };
            let mut cs: Vec<usize> = vec![1, 2, 3, 5, np.max(1), np + 3];
            cs.push(1 + rng.below(np + 2));
            cs.sort();
            cs.dedup();
            let mut cases_coq: Vec<String> = Vec::new();
            let mut cases_json: Vec<Value> = Vec::new();
            let th: Vec<usize> = if opts.is_default() && gfac.is_none() { threads.to_vec() } else { vec![1, 3, 16] };
            for &nt in &th {
                for &k in &cs {
                    runs += 1;
                    if !opts.is_default() {
                        runs_nondefault += 1;
                    }
                    let par = call_par(eos, tmin, np, k, nt, guess, opts);
                    *outcome_hist.entry(format!("pure {} / par_pure {}", seq.kind(), par.kind())).or_default() += 1;
                    let mut w = 0.0f64;
                    let mut why = String::new();
                    let mut par_idx: Vec<usize> = vec![];
                    match (&seq, &par) {
                        (Outcome::Ok(sv), Outcome::Ok(pv)) => {
                            states += pv.len();
                            par_idx = idx(pv);
                            // same critical end state (no hypothesis on the point solver)
                            let (ls, lp) = (sv.last().unwrap(), pv.last().unwrap());
                            for j in 0..3 {
                                let d = rel_dev(ls[j], lp[j]);
                                if d > 1e-12 {
                                    why = format!("the critical end states differ (component {j}: {} vs {})", ls[j], lp[j]);
                                }
                                w = w.max(if d > 1e-12 { d.max(PAR_TOL * 10.0) } else { d });
                            }
                            // every returned temperature lies on the grid built from the default-options critical point
                            if sc.is_some() && (seq_idx.iter().any(|i| *i == 7777) || par_idx.iter().any(|i| *i == 7777)
                                || seq_idx.last() != Some(&CRIT) || par_idx.last() != Some(&CRIT)) {
                                w = f64::INFINITY;
                                if why.is_empty() {
                                    why = "a returned temperature is not a point of the grid built from the default-options critical point".into();
                                }
                            }
                            if sc.is_none() {
                                w = f64::INFINITY;
                                why = "pure/par_pure succeed although the critical point with default options fails".into();
                            }
                            if opts.is_default() {
                                // state by state
                                if pv.len() != sv.len() {
                                    w = f64::INFINITY;
                                    if why.is_empty() {
                                        why = format!("number of states differs: pure {} / par_pure {}", sv.len(), pv.len());
                                    }
                                } else {
                                    for (a, b) in pv.iter().zip(sv.iter()) {
                                        for j in 0..3 {
                                            w = w.max(rel_dev(a[j], b[j]));
                                        }
                                    }
                                }
                            } else if opts.tol.is_none() {
                                // common grid points converged to the default tolerance in both variants
                                for (i, a) in seq_idx.iter().zip(sv.iter()) {
                                    if let Some(p) = par_idx.iter().position(|q| q == i) {
                                        for j in 0..3 {
                                            w = w.max(rel_dev(a[j], pv[p][j]));
                                        }
                                    }
                                }
                            }
                        }
                        (a, b) if a.kind() == b.kind() && a.kind() == "Err" => {}
                        (a, b) => {
                            w = f64::INFINITY;
                            why = format!("pure returns {} but par_pure returns {}", a.kind(), b.kind());
                        }
                    }
                    cases_coq.push(format!("({}, [{}])", k, par_idx.iter().map(|i| i.to_string()).collect::<Vec<_>>().join("; ")));
                    cases_json.push(json!({"chunksize": k, "threads": nt, "returned_grid_indices": par_idx, "outcome": par.kind()}));
                    let case = json!({"config": name, "t_min": tmin.to_reduced(), "t_min_over_tc": frac, "npoints": np, "chunksize": k, "threads": nt,
                                      "solver_options": opts.json(), "initial_critical_temperature": guess.map(|g| g.to_reduced()),
                                      "rel_dev": if w.is_finite() { json!(w) } else { json!("inf") }, "why": why,
                                      "grid_points_without_converged_equilibrium": nfail,
                                      "n_seq": if let Outcome::Ok(t) = &seq { json!(t.len()) } else { json!(null) },
                                      "n_par": if let Outcome::Ok(t) = &par { json!(t.len()) } else { json!(null) }});
                    if w > worst {
                        worst = w;
                        worst_case = json!({"case": case, "pure": seq.json(), "par_pure": par.json()});
                    }
                    // the first case beyond the tolerance of the check
                    if w > PAR_TOL && first_failure.is_null() {
                        first_failure = json!({"case": case, "pure": seq.json(), "par_pure": par.json()});
                    }
                    if samples.len() < 8 && nt > 1 && k > 1 && k < np && (samples.len() % 4 == 3 && !opts.is_default() || (nfail > 0) == (samples.len() % 2 == 0)) {
                        samples.push(case);
                    }
                }
            }
            // replay by the Coq model
            let fname = format!("par_{}_{}.v", name, gi);
            let mut v = String::from("From Coq Require Import List String.\nImport ListNotations.\nFrom FeosVerif Require Import ParPure.\nOpen Scope string_scope.\n");
            let _ = writeln!(v, "(* {} : npoints {}, T_min = {} K = {:.4} T_c, solver options {}, initial critical temperature {:?} *)", name, np, tmin.to_reduced(), frac, opts.json(), guess.map(|g| g.to_reduced()));
            let _ = writeln!(v, "Definition ok : list bool := [{}].", ok.iter().map(|b| b.to_string()).collect::<Vec<_>>().join("; "));
            let _ = writeln!(v, "Definition observed_pure : list nat := [{}].", seq_idx.iter().map(|i| i.to_string()).collect::<Vec<_>>().join("; "));
            let _ = writeln!(v, "Definition cases : list (nat * list nat) := [\n  {}].", cases_coq.join(";\n  "));
            let _ = writeln!(v, "Eval vm_compute in (\"N\", List.length cases).");
            let strict = opts.is_default() && matches!(seq, Outcome::Ok(_));
            if strict {
                // grid points that converge, in order, then the critical point — for pure and for every (chunk size, pool size)
                let _ = writeln!(v, "Eval vm_compute in (\"PURE\", pure_model ok {CRIT}).");
                let _ = writeln!(v, "Eval vm_compute in (\"PARBAD\", par_mismatches ok {CRIT} cases).");
                let _ = writeln!(v, "Lemma model_and_implementation_agree : pure_model ok {CRIT} = observed_pure /\\ par_mismatches ok {CRIT} cases = [].\nProof. vm_compute. split; reflexivity. Qed.");
            } else {
                // non-default options: both results are laid out on the same grid and end in the critical point
                // (or both calls fail: empty lists)
                let _ = writeln!(v, "Definition laid_out (l : list nat) : bool := match l with [] => {} | _ => on_grid (List.length ok) {CRIT} l end.", if matches!(seq, Outcome::Ok(_)) { "false" } else { "true" });
                let _ = writeln!(v, "Eval vm_compute in (\"PURE\", observed_pure).");
                let _ = writeln!(v, "Eval vm_compute in (\"PARBAD\", filter (fun c => negb (laid_out (snd c))) cases).");
                let _ = writeln!(v, "Lemma model_and_implementation_agree : laid_out observed_pure = true /\\ forallb (fun c => laid_out (snd c)) cases = true.\nProof. vm_compute. split; reflexivity. Qed.");
            }
            std::fs::write(format!("{out_dir}/{fname}"), v).unwrap();
            files.push(json!({"file": fname, "kind": "par", "strict": strict, "config": name, "t_min": tmin.to_reduced(), "t_min_over_tc": frac, "npoints": np,
                              "solver_options": opts.json(), "initial_critical_temperature": guess.map(|g| g.to_reduced()),
                              "grid": grid, "converges_without_guess": ok, "observed_pure": seq_idx, "pure_outcome": seq.kind(), "cases": cases_json,
                              "pure": seq.json()}));
        }
    }
    json!({"runs": runs, "runs_with_non_default_options": runs_nondefault, "states_compared": states, "grids": grids,
           "grids_with_failing_points": grids_with_failing_points, "failing_grid_points": failing_points, "outcomes": outcome_hist,
           "worst_rel": if worst.is_finite() { json!(worst) } else { json!("inf") },
           "worst_case": worst_case, "first_failure": first_failure, "errors": Vec::<Value>::new(), "samples": samples})
}

// ------------------------------------------------------------------------------------------------
// one history on one state, in full detail (used for replays and by the search of the check)

fn parse_deriv(t: &str) -> Option<usize> {
    match t {
        "DV" => Some(0),
        "DT" => Some(1),
        _ => t.strip_prefix("DN(")?.strip_suffix(')')?.parse::<usize>().ok().map(|i| i + 2),
    }
}
fn parse_rq(t: &str) -> Option<Rq> {
    if t == "Zeroth" {
        return Some(Rq::Z);
    }
    let p = t.find('(')?;
    let inner = t[p + 1..].strip_suffix(')')?;
    match &t[..p] {
        "First" => Some(Rq::F(parse_deriv(inner)?)),
        "Second" => Some(Rq::S(parse_deriv(inner)?)),
        "Third" => Some(Rq::T(parse_deriv(inner)?)),
        "SecondMixed" => {
            let (a, b) = inner.split_once(", ")?;
            Some(Rq::M(parse_deriv(a)?, parse_deriv(b)?))
        }
        _ => None,
    }
}
fn parse_op(t: &str) -> Option<Op> {
    let (what, s) = match t.rsplit_once('@') {
        Some((w, s)) => (w, s.parse::<usize>().ok()?),
        None => (t, 0),
    };
    if what == "clone" {
        return Some(Op::Clone(s));
    }
    if let Some(k) = what.strip_prefix("pure") {
        return k.parse::<usize>().ok().map(|k| Op::Pure(s, k));
    }
    if let Some(r) = parse_rq(what) {
        return Some(Op::Req(s, r));
    }
    GETTERS.iter().find(|g| format!("{:?}", g) == what).map(|g| Op::Get(s, *g))
}

fn one(model_name: &str, state: &str, history: &str, extend: bool) -> Value {
    let all = all_configs(true);
    let c = all.iter().find(|c| c.name == model_name).expect("config");
    let x: Vec<f64> = state.split(',').map(|t| t.trim().parse::<f64>().expect("state")).collect();
    let rs = RState { t: x[0], v: x[1], n: x[2..].to_vec() };
    let nc = c.ncomp;
    let ops: Vec<Op> = history.split(';').filter(|t| !t.is_empty()).map(|t| parse_op(t.trim()).expect("op")).collect();
    let mut pool: Vec<St> = vec![mk_state(&c.model, &rs)];
    let mut steps = Vec::new();
    let mut worst = 0.0f64;
    for o in &ops {
        match o {
            Op::Req(s, r) => {
                let got = r.issue(&pool[*s]);
                let fresh = r.issue(&mk_state(&c.model, &rs));
                worst = worst.max(rel_dev(got, fresh));
                steps.push(json!({"op": op_text(o), "value": got, "bits": got.to_bits(), "fresh_state_value": fresh,
                                  "fresh_state_bits": fresh.to_bits(), "rel_dev": rel_dev(got, fresh)}));
            }
            Op::Clone(s) => {
                let cl = pool[*s].clone();
                pool.push(cl);
                steps.push(json!({"op": op_text(o)}));
            }
            Op::Pure(s, k) => {
                let _ = call_pure_evaluator(&pool[*s], *k);
                steps.push(json!({"op": op_text(o)}));
            }
            Op::Get(s, g) => {
                let got = g.call(&pool[*s]);
                let fresh = g.call(&mk_state(&c.model, &rs));
                let d = got.iter().zip(fresh.iter()).map(|(a, b)| rel_dev(*a, *b)).fold(0.0, f64::max);
                worst = worst.max(d);
                steps.push(json!({"op": op_text(o), "requests": g.requests(nc).iter().map(|r| r.name()).collect::<Vec<_>>(),
                                  "values": got, "fresh_state_values": fresh, "rel_dev": d}));
            }
        }
    }
    // search: one more request after the history, on any state of the pool
    let mut extension = json!(null);
    if extend {
        let mut w = 0.0f64;
        for (si, st) in pool.iter().enumerate() {
            for r in alphabet(nc) {
                let got = r.issue(&st.clone());
                let fresh = r.issue(&mk_state(&c.model, &rs));
                let d = rel_dev(got, fresh);
                if d > w {
                    w = d;
                    let sep = if history.is_empty() { "" } else { ";" };
                    extension = json!({"history": format!("{history}{sep}{}@{si}", r.name()), "request": r.name(), "after_history": got,
                                       "fresh_state": fresh, "rel_dev": if d.is_finite() { json!(d) } else { json!("inf") }});
                }
            }
        }
    }
    json!({"model": model_name, "state_TVN": rs.vars(), "history": history, "steps": steps, "extension": extension,
           "density_fraction": density_fraction(c, &rs), "value_tol": value_tol(density_fraction(c, &rs)),
           "worst_rel_dev_from_fresh_state": if worst.is_finite() { json!(worst) } else { json!("inf") },
           "snapshots": pool.iter().map(snap_json).collect::<Vec<_>>()})
}

// ------------------------------------------------------------------------------------------------
// the whole public property API of `State` (total properties need an ideal-gas model): every ordered pair

type Eos = feos_core::EquationOfState<feos::ideal_gas::Joback, ResidualModel>;
type StE = State<Eos>;

struct ApiFn {
    name: String,
    /// per the source the function does not go through `get_or_compute_derivative*` (a pure evaluator)
    cache_free: bool,
    call: Box<dyn Fn(&StE) -> Vec<f64> + Sync>,
}

fn api_functions(nc: usize) -> Vec<ApiFn> {
    use Contributions::{IdealGas as I, Residual as R, Total as T};
    let mut v: Vec<ApiFn> = Vec::new();
    macro_rules! add {
        ($name:expr, $free:expr, $f:expr) => {
            v.push(ApiFn { name: $name.to_string(), cache_free: $free, call: Box::new($f) })
        };
    }
    macro_rules! scalar_c {
        ($($m:ident),*) => { $( for (c, cn) in [(T, "Total"), (R, "Residual"), (I, "IdealGas")] {
            add!(format!("{}({})", stringify!($m), cn), false, move |s: &StE| vec![s.$m(c).to_reduced()]);
        } )* };
    }
    macro_rules! array_c {
        ($($m:ident),*) => { $( for (c, cn) in [(T, "Total"), (R, "Residual"), (I, "IdealGas")] {
            add!(format!("{}({})", stringify!($m), cn), false, move |s: &StE| s.$m(c).to_reduced().iter().cloned().collect());
        } )* };
    }
    macro_rules! scalar0 {
        ($($m:ident),*) => { $( add!(stringify!($m), false, |s: &StE| vec![s.$m().to_reduced()]); )* };
    }
    macro_rules! array0 {
        ($($m:ident),*) => { $( add!(stringify!($m), false, |s: &StE| s.$m().to_reduced().iter().cloned().collect()); )* };
    }
    scalar_c!(pressure, dp_dv, dp_drho, dp_dt, d2p_dv2, d2p_drho2, molar_isochoric_heat_capacity, dc_v_dt, molar_isobaric_heat_capacity,
              entropy, molar_entropy, ds_dt, d2s_dt2, enthalpy, molar_enthalpy, helmholtz_energy, molar_helmholtz_energy, internal_energy,
              molar_internal_energy, gibbs_energy, molar_gibbs_energy, specific_isochoric_heat_capacity, specific_isobaric_heat_capacity,
              specific_entropy, specific_enthalpy, specific_helmholtz_energy, specific_internal_energy, specific_gibbs_energy);
    array_c!(chemical_potential, dmu_dt, dp_dni, dmu_dni);
    for (c, cn) in [(T, "Total"), (R, "Residual"), (I, "IdealGas")] {
        add!(format!("compressibility({cn})"), false, move |s: &StE| vec![s.compressibility(c)]);
    }
    scalar0!(residual_helmholtz_energy, residual_molar_helmholtz_energy, residual_entropy, residual_molar_entropy, isothermal_compressibility,
             ds_res_dt, d2s_res_dt2, residual_molar_isochoric_heat_capacity, dc_v_res_dt, residual_molar_isobaric_heat_capacity,
             residual_enthalpy, residual_molar_enthalpy, residual_internal_energy, residual_molar_internal_energy, residual_gibbs_energy,
             residual_molar_gibbs_energy, joule_thomson, isentropic_compressibility, isenthalpic_compressibility, thermal_expansivity,
             speed_of_sound, total_molar_weight, total_mass, mass_density);
    array0!(partial_molar_entropy, partial_molar_enthalpy, residual_chemical_potential, partial_molar_volume, dmu_res_dt, dln_phi_dt, dln_phi_dp, dln_phi_dnj, mass);
    add!("structure_factor", false, |s: &StE| vec![s.structure_factor()]);
    add!("grueneisen_parameter", false, |s: &StE| vec![s.grueneisen_parameter()]);
    add!("ln_phi", false, |s: &StE| s.ln_phi().to_vec());
    add!("thermodynamic_factor", false, |s: &StE| s.thermodynamic_factor().iter().cloned().collect());
    add!("massfracs", false, |s: &StE| s.massfracs().to_vec());
    // pure evaluators
    add!("residual_helmholtz_energy_contributions", true, |s: &StE| s.residual_helmholtz_energy_contributions().iter().map(|(_, x)| x.to_reduced()).collect());
    add!("pressure_contributions", true, |s: &StE| s.pressure_contributions().iter().map(|(_, x)| x.to_reduced()).collect());
    for i in 0..nc {
        add!(format!("residual_chemical_potential_contributions({i})"), true, move |s: &StE| {
            s.residual_chemical_potential_contributions(i).iter().map(|(_, x)| x.to_reduced()).collect()
        });
        for (c, cn) in [(T, "Total"), (R, "Residual"), (I, "IdealGas")] {
            add!(format!("chemical_potential_contributions({i}, {cn})"), true, move |s: &StE| {
                s.chemical_potential_contributions(i, c).iter().map(|(_, x)| x.to_reduced()).collect()
            });
        }
    }
    // properties.rs: with Contributions::IdealGas, `get_or_compute_derivative` skips the residual part, so the functions built
    // from it alone never reach the cache (pressure & co. of residual_properties.rs always evaluate the residual part)
    let ig_free = ["chemical_potential", "dmu_dt", "molar_isochoric_heat_capacity", "dc_v_dt", "entropy", "molar_entropy", "ds_dt", "d2s_dt2",
                   "helmholtz_energy", "molar_helmholtz_energy", "internal_energy", "molar_internal_energy", "specific_isochoric_heat_capacity",
                   "specific_entropy", "specific_helmholtz_energy", "specific_internal_energy"];
    for f in v.iter_mut() {
        if let Some(base) = f.name.strip_suffix("(IdealGas)") {
            if ig_free.contains(&base) {
                f.cache_free = true;
            }
        }
    }
    v
}

fn joback(nc: usize) -> feos::ideal_gas::Joback {
    use feos::ideal_gas::{Joback, JobackRecord};
    use feos_core::parameter::{Identifier, Parameter, PureRecord};
    let recs: Vec<_> = (0..nc)
        .map(|i| {
            let k = i as f64;
            PureRecord::new(Identifier::default(), 1.0, JobackRecord::new(30.0 + 11.0 * k, 0.18 + 0.05 * k, -1.1e-4 + 2e-5 * k, 2.4e-8, -1.0e-12))
        })
        .collect();
    Joback::from_records(recs, None).unwrap()
}

/// relative deviation beyond an absolute round-off floor (for quantities that are exact zeros by cancellation)
fn worst_dev(a: &[f64], b: &[f64], floor: f64) -> f64 {
    if a.len() != b.len() {
        return f64::INFINITY;
    }
    a.iter()
        .zip(b.iter())
        .map(|(x, y)| if (x - y).abs() <= floor { 0.0 } else { rel_dev(*x, *y) })
        .fold(0.0, f64::max)
}

/// Every ordered pair (A, B) of public property functions: B evaluated after A on the same state (and on a clone taken after A)
/// must return what B returns on a fresh state; a pure evaluator must leave the cache exactly as it found it.
fn api_pairs(c: &Config, rs: &RState, rng: &mut Rng, full: bool) -> Value {
    let nc = c.ncomp;
    let eos: Arc<Eos> = Arc::new(feos_core::EquationOfState::new(Arc::new(joback(nc)), c.model.clone()));
    let mk = || -> StE {
        State::new_nvt(&eos, Temperature::from_reduced(rs.t), Volume::from_reduced(rs.v), &Moles::from_reduced(Array1::from_vec(rs.n.clone()))).expect("state")
    };
    let fns = api_functions(nc);
    // composite properties (differences and quotients of derivatives) amplify the round-off between dual number types
    let tol = 1e3 * value_tol(density_fraction(c, rs));
    let fresh: Vec<Result<Vec<f64>, String>> = fns.iter().map(|f| guard(|| (f.call)(&mk()))).collect();
    // Round-off floor of every function at this state: some properties are exact zeros by cancellation (dln_phi_dnj of a pure
    // component, Gibbs-Duhem), where a relative comparison is meaningless.  The floor is 100 x the change of the value when the
    // cache is first filled through the highest-order requests (all Third, all SecondMixed; in both orders) instead of directly —
    // the benign, round-off-only history dependence measured by the consistency sweep.
    let nd = nc + 2;
    let mut prelude: Vec<Rq> = (0..nd).map(Rq::T).collect();
    for a in 0..nd {
        for b in a..nd {
            prelude.push(Rq::M(a, b));
        }
    }
    let issue_e = |st: &StE, r: &Rq| match *r {
        Rq::Z => st.verif_cache_request(0, Derivative::DV, Derivative::DV),
        Rq::F(d) => st.verif_cache_request(1, deriv(d), Derivative::DV),
        Rq::S(d) => st.verif_cache_request(2, deriv(d), Derivative::DV),
        Rq::M(a, b) => st.verif_cache_request(3, deriv(a), deriv(b)),
        Rq::T(d) => st.verif_cache_request(4, deriv(d), Derivative::DV),
    };
    let floors: Vec<f64> = fns
        .iter()
        .zip(fresh.iter())
        .map(|(f, fr)| {
            let fr = match fr {
                Ok(x) => x,
                Err(_) => return 0.0,
            };
            let mut fl = 0.0f64;
            for rev in [false, true] {
                let st = mk();
                let mut p = prelude.clone();
                if rev {
                    p.reverse();
                }
                for r in &p {
                    let _ = issue_e(&st, r);
                }
                if let Ok(v) = guard(|| (f.call)(&st)) {
                    for (x, y) in v.iter().zip(fr.iter()) {
                        if (x - y).is_finite() {
                            fl = fl.max((x - y).abs());
                        }
                    }
                }
            }
            100.0 * fl
        })
        .collect();
    let mut pairs = 0usize;
    let mut worst = 0.0f64;
    let mut worst_case = json!(null);
    let mut failures: Vec<Value> = Vec::new();
    let mut cache_touched: Vec<Value> = Vec::new();
    let mut panics: Vec<Value> = Vec::new();
    let base = json!({"model": c.name, "ideal_gas": "Joback", "state_TVN": rs.vars()});
    for (ia, a) in fns.iter().enumerate() {
        if fresh[ia].is_err() {
            if panics.len() < 3 {
                panics.push(json!({"config": c.name, "state_TVN": rs.vars(), "where": format!("State::{} on a fresh state", a.name), "panic": fresh[ia].clone().err()}));
            }
            continue;
        }
        // a pure evaluator leaves the cache untouched
        if a.cache_free {
            let st = mk();
            let _ = guard(|| (a.call)(&st));
            let (e, h, m) = st.verif_cache_snapshot();
            if (!e.is_empty() || h != 0 || m != 0) && cache_touched.len() < 5 {
                cache_touched.push(json!({"function": a.name, "cache_after_the_call": {"entries": e, "hit": h, "miss": m}}));
            }
        }
        for (ib, b) in fns.iter().enumerate() {
            let fb = match &fresh[ib] {
                Ok(x) => x,
                Err(_) => continue,
            };
            // the third function of a triple, now and then
            let mid = if full && rng.below(4) == 0 { Some(rng.below(fns.len())) } else { None };
            let st = mk();
            let r = guard(|| {
                let _ = (a.call)(&st);
                if let Some(m) = mid {
                    let _ = (fns[m].call)(&st);
                }
                let direct = (b.call)(&st);
                let on_clone = (b.call)(&st.clone());
                (direct, on_clone)
            });
            pairs += 1;
            let (direct, on_clone) = match r {
                Ok(x) => x,
                Err(e) => {
                    if panics.len() < 3 {
                        panics.push(json!({"config": c.name, "state_TVN": rs.vars(), "where": format!("State::{} after State::{}", b.name, a.name), "panic": e}));
                    }
                    continue;
                }
            };
            let d = worst_dev(&direct, fb, floors[ib]).max(worst_dev(&on_clone, fb, floors[ib]));
            if d > worst {
                worst = d;
                worst_case = json!({"first": a.name, "then": b.name, "rel_dev": if d.is_finite() { json!(d) } else { json!("inf") }});
            }
            if !(d <= tol) && failures.len() < 6 {
                let mut f = base.clone();
                f["history"] = json!([a.name, mid.map(|m| fns[m].name.clone()), b.name]);
                f["after_history"] = json!(direct);
                f["after_history_on_a_clone"] = json!(on_clone);
                f["fresh_state"] = json!(fb);
                f["rel_dev"] = if d.is_finite() { json!(d) } else { json!("inf") };
                f["tolerance"] = json!(tol);
                f["absolute_round_off_floor"] = json!(floors[ib]);
                failures.push(f);
            }
        }
    }
    json!({"config": c.name, "state_TVN": rs.vars(), "functions": fns.len(), "pure_evaluators": fns.iter().filter(|f| f.cache_free).count(),
           "ordered_pairs": pairs, "tolerance": tol, "worst_rel": if worst.is_finite() { json!(worst) } else { json!("inf") }, "worst_case": worst_case,
           "failures": failures, "cache_touched_by_pure_evaluators": cache_touched, "panics": panics,
           "sample_functions": fns.iter().step_by(17).map(|f| f.name.clone()).collect::<Vec<_>>()})
}

fn main() {
    let cli = feos_verif::cli::Cli::parse("/verif/coq/gen/C11");
    if let Some(m) = cli.opt("--one") {
        let r = one(&m, &cli.opt("--state").expect("--state"), &cli.opt("--history").unwrap_or_default(), cli.args.iter().any(|a| a == "--extend"));
        cli.write_impl(&json!({"property": "C11", "one": r}));
        return;
    }
    let full = cli.full();
    let only = cli.opt("--only").or_else(|| std::env::var("FV_ONLY").ok());
    let all = all_configs(false);
    let quick = ["pr2", "pcsaft_propane_butane_kij", "assoc_c_c"];
    let thorough = [
        "pr2",
        "pcsaft_propane_butane_kij",
        "pcsaft_water_methanol",
        "pcsaft_acetone_butanone",
        "pets2",
        "pr3",
        "pr1",
        "gcpcsaft_propanol_ethanol",
        "assoc_c_c",
        "assoc_ab_c",
    ];
    let names: Vec<&str> = if full { thorough.to_vec() } else { quick.to_vec() };
    let mut files = Vec::new();
    let mut cfgs = Vec::new();
    let mut panics: Vec<Value> = Vec::new();
    let sweep_only = cli.args.iter().any(|a| a == "--sweep-only");
    for name in names {
        if sweep_only {
            continue;
        }
        if let Some(o) = &only {
            if o != name {
                continue;
            }
        }
        let c = all.iter().find(|c| c.name == name).expect("config");
        let mut rng = Rng(cli.seed ^ trace::fxhash(&c.name) ^ 0xC11);
        let nstates = if only.is_some() { 1 } else if full { 2 } else { 1 };
        for si in 0..nstates {
            let rs = configs::sample_state(c, &mut rng);
            let mut cc = c.clone();
            if nstates > 1 {
                cc.name = format!("{}_s{}", c.name, si);
            }
            let nfiles = files.len();
            match guard(|| run_config(&cc, &c.name, &rs, full, &mut rng, &cli.out, &mut files)) {
                Ok(v) => cfgs.push(v),
                Err(e) => {
                    // the files of a configuration that did not finish are not checked
                    files.truncate(nfiles);
                    panics.push(json!({"config": cc.name, "model": c.name, "state_TVN": rs.vars(), "where": "histories on State", "panic": e}));
                }
            }
        }
    }
    // API-level ordered pairs (total properties: Joback ideal gas)
    let mut api = Vec::new();
    let api_names: &[&str] = if full { &["pr2", "pcsaft_propane_butane_kij", "pcsaft_water_methanol", "assoc_c_c", "pets2", "pr3", "pr1"] } else { &["pr2", "pcsaft_propane_butane_kij"] };
    for name in api_names {
        if sweep_only || only.as_ref().map(|o| o != name).unwrap_or(false) {
            continue;
        }
        let c = all.iter().find(|c| &c.name == name).expect("config");
        let mut rng = Rng(cli.seed ^ trace::fxhash(&c.name) ^ 0xA91);
        for _ in 0..(if full { 2 } else { 1 }) {
            let rs = configs::sample_state(c, &mut rng);
            match guard(|| api_pairs(c, &rs, &mut rng, full)) {
                Ok(v) => api.push(v),
                Err(e) => panics.push(json!({"config": c.name, "state_TVN": rs.vars(), "where": "API pairs", "panic": e})),
            }
        }
    }
    let sweep = consistency_sweep(full, cli.seed, &only);
    let mut rng = Rng(cli.seed ^ 0x9A7);
    let pp = if cli.opt("--no-par").is_some() { json!(null) } else { par_pure_runs(full, &mut rng, &cli.out, &mut files) };
    cli.write_impl(&json!({"property": "C11", "tier": cli.tier, "seed": cli.seed, "configs": cfgs, "files": files, "par_pure": pp,
                           "consistency_sweep": sweep, "api_pairs": api, "panics": panics}));
}
