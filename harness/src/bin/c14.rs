//! C14 — parameter construction.  Generates JSON parameter files in a scratch directory, calls the REAL
//! `Parameter::{from_json, from_multiple_json, from_records, new_binary, subset, records, from_segments,
//! from_json_segments}` / `ParameterHetero::from_json_segments` / serde on them, and emits the same cases as Coq data
//! (coq/gen/C14/*.v) to be evaluated by the models of ParamLookup.v / Segments.v / ParamSerde.v.
use feos::gc_pcsaft::{GcPcSaftEosParameters, GcPcSaftRecord};
use feos::epcsaft::{ElectrolytePcSaftBinaryRecord, ElectrolytePcSaftRecord};
use feos::ideal_gas::{DipprRecord, JobackRecord};
use feos::pcsaft::{PcSaft, PcSaftBinaryRecord, PcSaftParameters, PcSaftRecord};
use feos::pets::{PetsBinaryRecord, PetsRecord};
use feos::saftvrqmie::{SaftVRQMieBinaryRecord, SaftVRQMieRecord};
use feos::uvtheory::{UVTheoryBinaryRecord, UVTheoryRecord};
use quantity::{JOULE, KB, KELVIN};
use feos::saftvrmie::{SaftVRMieBinaryRecord, SaftVRMieParameters, SaftVRMieRecord};
use feos_core::cubic::{PengRobinsonParameters, PengRobinsonRecord};
use feos_core::parameter::{
    BinaryRecord, ChemicalRecord, Identifier, IdentifierOption, Parameter, ParameterError, ParameterHetero, PureRecord,
    SegmentRecord,
};
use feos_core::{Residual, StateHD};
use feos_verif::configs::{self, Rng};
use ndarray::Array1;
use serde::de::DeserializeOwned;
use serde::Serialize;
use serde_json::{json, Map, Value};
use std::fmt::Write as _;
use std::panic::{catch_unwind, AssertUnwindSafe};
use std::sync::Arc;

const OPTS: [IdentifierOption; 6] = [
    IdentifierOption::Cas,
    IdentifierOption::Name,
    IdentifierOption::IupacName,
    IdentifierOption::Smiles,
    IdentifierOption::Inchi,
    IdentifierOption::Formula,
];
const OPT_COQ: [&str; 6] = ["Cas", "Name", "IupacName", "Smiles", "Inchi", "Formula"];
const OPT_KEY: [&str; 6] = ["cas", "name", "iupac_name", "smiles", "inchi", "formula"];

/// the identifier string that is interned as the number `k`.  Consecutive numbers 2j-1, 2j are DIFFERENT strings that
/// only a sloppy comparison would identify: they differ in case only (like the SMILES c1ccccc1 / C1CCCCC1), by a trailing
/// blank, or one is a prefix of the other.
fn key(k: u32) -> String {
    let j = (k + 1) / 2;
    let variant = k % 2 == 0;
    match j % 3 {
        1 => if variant { format!("C1CC{:03}", j) } else { format!("c1cc{:03}", j) },
        2 => if variant { format!("n{:03} ", j) } else { format!("n{:03}", j) },
        _ => if variant { format!("p{:03}0", j) } else { format!("p{:03}", j) },
    }
}
/// the interned numbers of the quoted names of an error message (9999 for a string that is not one of ours)
fn quoted_keys(s: &str) -> Vec<u32> {
    let mut out = vec![];
    let parts: Vec<&str> = s.split('"').collect();
    let mut i = 1;
    while i < parts.len() {
        out.push((1..=64).find(|k| key(*k) == parts[i]).unwrap_or(9999));
        i += 2;
    }
    out.sort();
    out
}
fn seg_name(k: u32) -> String {
    format!("g{:03}", k)
}
/// every token x### / g### of a string (error messages list the missing names in debug format)
fn tokens(s: &str, c: char) -> Vec<u32> {
    let b: Vec<char> = s.chars().collect();
    let mut out = vec![];
    let mut i = 0;
    while i + 3 < b.len() {
        if b[i] == c && b[i + 1].is_ascii_digit() && b[i + 2].is_ascii_digit() && b[i + 3].is_ascii_digit() {
            out.push(b[i + 1..i + 4].iter().collect::<String>().parse().unwrap());
            i += 4;
        } else {
            i += 1;
        }
    }
    out.sort();
    out
}

fn classify(e: &ParameterError, c: char) -> Value {
    match e {
        ParameterError::IncompatibleParameters(m) if m.contains("more than once") => json!({"err": 1, "missing": []}),
        ParameterError::ComponentsNotFound(m) => json!({"err": 2, "missing": if c == 'x' { quoted_keys(m) } else { tokens(m, c) }}),
        ParameterError::FileIO(_) => json!({"err": 3, "missing": []}),
        ParameterError::Serde(_) => json!({"err": 4, "missing": []}),
        ParameterError::IncompatibleParameters(_) => json!({"err": 5, "missing": []}),
        ParameterError::IdentifierNotFound(_) => json!({"err": 7, "missing": []}),
        ParameterError::InsufficientInformation => json!({"err": 8, "missing": []}),
    }
}

#[derive(Clone, Debug)]
struct Id([Option<u32>; 6]);
impl Id {
    fn json(&self) -> Value {
        let mut m = Map::new();
        for f in 0..6 {
            if let Some(k) = self.0[f] {
                m.insert(OPT_KEY[f].into(), json!(key(k)));
            }
        }
        Value::Object(m)
    }
    fn coq(&self) -> String {
        let f = |x: Option<u32>| x.map_or("None".to_string(), |k| format!("(Some {}%N)", k));
        format!("(mkId {} {} {} {} {} {})", f(self.0[0]), f(self.0[1]), f(self.0[2]), f(self.0[3]), f(self.0[4]), f(self.0[5]))
    }
    fn random(rng: &mut Rng, nkeys: usize, p_some: f64) -> Id {
        let mut a = [None; 6];
        for x in a.iter_mut() {
            if rng.f64() < p_some {
                *x = Some(1 + rng.below(nkeys) as u32);
            }
        }
        Id(a)
    }
}

#[derive(Clone)]
struct PRec {
    id: Id,
    tag: u32,
}
#[derive(Clone)]
struct BRec {
    id1: Id,
    id2: Id,
    k: i32, // k_ij = k / 64
}
#[derive(Clone)]
enum FileSpec<T> {
    NoFile,
    BadJson,
    Recs(Vec<T>),
}

#[derive(Clone)]
struct LoadCase {
    opt: usize,
    inputs: Vec<(Vec<u32>, usize)>,
    bin: Option<usize>,
}
impl LoadCase {
    fn coq(&self) -> String {
        let inp: Vec<String> =
            self.inputs.iter().map(|(q, f)| format!("({}, {}%N)", nlist(q), f)).collect();
        format!(
            "(mkLoad {} [{}] {})",
            OPT_COQ[self.opt],
            inp.join("; "),
            self.bin.map_or("None".to_string(), |b| format!("(Some {}%N)", b))
        )
    }
    fn json(&self) -> Value {
        json!({"opt": OPT_COQ[self.opt], "inputs": self.inputs.iter().map(|(q, f)| json!({"query": q.iter().map(|k| key(*k)).collect::<Vec<_>>(), "file": f})).collect::<Vec<_>>(), "binary_file": self.bin})
    }
}
fn nlist(q: &[u32]) -> String {
    format!("[{}]%N", q.iter().map(|k| k.to_string()).collect::<Vec<_>>().join("; "))
}

/// the three implementations of `Parameter` that are exercised
trait M {
    type P: Parameter;
    const NAME: &'static str;
    fn pure(tag: u32) -> Value;
    fn binary(k: f64) -> Value;
    fn kof(b: &<Self::P as Parameter>::Binary) -> f64;
    /// (molar weights as stored in the parameter arrays, k_ij recovered from the interaction-energy matrix)
    fn derived(p: &Self::P) -> Option<(Vec<f64>, Vec<Vec<f64>>)>;
}
struct MPc;
impl M for MPc {
    type P = PcSaftParameters;
    const NAME: &'static str = "pcsaft";
    fn pure(tag: u32) -> Value {
        json!({"m": 1.0 + tag as f64 / 64.0, "sigma": 3.0 + (tag % 7) as f64 / 8.0, "epsilon_k": 150.0 + tag as f64})
    }
    fn binary(k: f64) -> Value {
        json!({ "k_ij": k })
    }
    fn kof(b: &PcSaftBinaryRecord) -> f64 {
        b.k_ij
    }
    fn derived(p: &PcSaftParameters) -> Option<(Vec<f64>, Vec<Vec<f64>>)> {
        let n = p.m.len();
        let k = (0..n).map(|i| (0..n).map(|j| 1.0 - p.epsilon_k_ij[[i, j]] / p.e_k_ij[[i, j]]).collect()).collect();
        Some((p.molarweight.to_vec(), k))
    }
}
struct MPr;
impl M for MPr {
    type P = PengRobinsonParameters;
    const NAME: &'static str = "pr";
    fn pure(tag: u32) -> Value {
        json!({"tc": 300.0 + tag as f64, "pc": 4.0e6 + 1000.0 * tag as f64, "acentric_factor": 0.125 + (tag % 5) as f64 / 32.0})
    }
    fn binary(k: f64) -> Value {
        json!(k)
    }
    fn kof(b: &f64) -> f64 {
        *b
    }
    fn derived(_: &PengRobinsonParameters) -> Option<(Vec<f64>, Vec<Vec<f64>>)> {
        None
    }
}
struct MVr;
impl M for MVr {
    type P = SaftVRMieParameters;
    const NAME: &'static str = "saftvrmie";
    fn pure(tag: u32) -> Value {
        json!({"m": 1.0 + tag as f64 / 64.0, "sigma": 3.0 + (tag % 7) as f64 / 8.0, "epsilon_k": 150.0 + tag as f64, "lr": 12.0 + (tag % 3) as f64, "la": 6.0})
    }
    fn binary(k: f64) -> Value {
        json!({ "k_ij": k })
    }
    fn kof(b: &SaftVRMieBinaryRecord) -> f64 {
        b.k_ij
    }
    fn derived(p: &SaftVRMieParameters) -> Option<(Vec<f64>, Vec<Vec<f64>>)> {
        let n = p.m.len();
        let k = (0..n).map(|i| (0..n).map(|j| 1.0 - p.epsilon_k_ij[[i, j]] / p.e_k_ij[[i, j]]).collect()).collect();
        Some((p.molarweight.to_vec(), k))
    }
}

fn pure_json<X: M>(r: &PRec) -> Value {
    json!({"identifier": r.id.json(), "molarweight": r.tag as f64, "model_record": X::pure(r.tag)})
}
fn bin_json<X: M>(r: &BRec) -> Value {
    json!({"id1": r.id1.json(), "id2": r.id2.json(), "model_record": X::binary(r.k as f64 / 64.0)})
}

fn write_files<X: M>(dir: &str, pfiles: &[FileSpec<PRec>], bfiles: &[FileSpec<BRec>]) {
    let d = format!("{dir}/{}", X::NAME);
    std::fs::create_dir_all(&d).unwrap();
    for (i, f) in pfiles.iter().enumerate() {
        let p = format!("{d}/p{i}.json");
        let _ = std::fs::remove_file(&p);
        match f {
            FileSpec::NoFile => {}
            FileSpec::BadJson => std::fs::write(&p, "[{\"identifier\": {\"cas\": \"x001\"}, \"model_record\": ").unwrap(),
            FileSpec::Recs(v) => std::fs::write(&p, serde_json::to_string_pretty(&Value::Array(v.iter().map(pure_json::<X>).collect())).unwrap()).unwrap(),
        }
    }
    for (i, f) in bfiles.iter().enumerate() {
        let p = format!("{d}/b{i}.json");
        let _ = std::fs::remove_file(&p);
        match f {
            FileSpec::NoFile => {}
            FileSpec::BadJson => std::fs::write(&p, "[{\"id1\": 3}]").unwrap(),
            FileSpec::Recs(v) => std::fs::write(&p, serde_json::to_string_pretty(&Value::Array(v.iter().map(bin_json::<X>).collect())).unwrap()).unwrap(),
        }
    }
}

fn describe<X: M>(p: &X::P) -> Value {
    let (pure, bin) = p.records();
    let tags: Vec<u32> = pure.iter().map(|r| r.molarweight as u32).collect();
    let mut exact = true;
    let kij = bin.map(|b| {
        let n = b.nrows();
        (0..n)
            .map(|i| {
                (0..b.ncols())
                    .map(|j| {
                        let x = X::kof(&b[[i, j]]) * 64.0;
                        if x != x.round() {
                            exact = false;
                        }
                        x.round() as i64
                    })
                    .collect::<Vec<_>>()
            })
            .collect::<Vec<_>>()
    });
    // faithful to its records: the arrays the equation of state uses agree with the retained records
    let mut derived_ok = true;
    if let Some((mw, kd)) = X::derived(p) {
        for (i, t) in tags.iter().enumerate() {
            if mw[i] != *t as f64 {
                derived_ok = false;
            }
        }
        for i in 0..tags.len() {
            for j in 0..tags.len() {
                let want = kij.as_ref().map_or(0.0, |k| k[i][j] as f64 / 64.0);
                if (kd[i][j] - want).abs() > 1e-12 {
                    derived_ok = false;
                }
            }
        }
    }
    json!({"ok": {"tags": tags, "kij": kij}, "kij_exact": exact, "derived_ok": derived_ok})
}

fn run_load<X: M>(dir: &str, c: &LoadCase) -> Result<X::P, Value> {
    let d = format!("{dir}/{}", X::NAME);
    let names: Vec<Vec<String>> = c.inputs.iter().map(|(q, _)| q.iter().map(|k| key(*k)).collect()).collect();
    let inputs: Vec<(Vec<&str>, String)> = c
        .inputs
        .iter()
        .zip(names.iter())
        .map(|((_, f), n)| (n.iter().map(|s| s.as_str()).collect(), format!("{d}/p{f}.json")))
        .collect();
    let bin = c.bin.map(|b| format!("{d}/b{b}.json"));
    let r = catch_unwind(AssertUnwindSafe(|| X::P::from_multiple_json(&inputs, bin.clone(), OPTS[c.opt])));
    let r = match r {
        Err(_) => return Err(json!({"err": 6, "missing": []})),
        Ok(Err(e)) => Err(classify(&e, 'x')),
        Ok(Ok(p)) => Ok(p),
    };
    // from_json is from_multiple_json with one input
    if inputs.len() == 1 {
        let r1 = catch_unwind(AssertUnwindSafe(|| X::P::from_json(inputs[0].0.clone(), inputs[0].1.clone(), bin, OPTS[c.opt])));
        let a = match &r {
            Ok(p) => describe::<X>(p),
            Err(v) => v.clone(),
        };
        let b = match r1 {
            Err(_) => json!({"err": 6, "missing": []}),
            Ok(Err(e)) => classify(&e, 'x'),
            Ok(Ok(p)) => describe::<X>(&p),
        };
        if a != b {
            return Err(json!({"err": 99, "missing": [], "from_json_differs": [a, b]}));
        }
    }
    r
}

fn load_value<X: M>(dir: &str, c: &LoadCase) -> Value {
    match run_load::<X>(dir, c) {
        Ok(p) => describe::<X>(&p),
        Err(v) => v,
    }
}

fn subset_value<X: M>(dir: &str, c: &LoadCase, idx: &[usize], idx2: &[usize]) -> Value {
    match run_load::<X>(dir, c) {
        Err(v) => json!([v.clone(), v]),
        Ok(p) => {
            let r = catch_unwind(AssertUnwindSafe(|| {
                let p1 = p.subset(idx);
                let p2 = p1.subset(idx2);
                // from_records on the retained records reproduces the parameter set
                let (pure, bin) = p1.records();
                let p3 = X::P::from_records(pure.to_vec(), bin.cloned()).unwrap();
                (describe::<X>(&p1), describe::<X>(&p2), describe::<X>(&p3))
            }));
            match r {
                Ok((a, b, c3)) => {
                    if a != c3 {
                        json!([{"err": 98, "missing": [], "from_records_differs": [a, c3]}, b])
                    } else {
                        json!([a, b])
                    }
                }
                Err(_) => json!([{"err": 6, "missing": []}, {"err": 6, "missing": []}]),
            }
        }
    }
}

fn new_binary_value<X: M>(t1: u32, t2: u32, k: Option<i32>) -> Value
where
    <X::P as Parameter>::Pure: DeserializeOwned,
{
    let mk = |t: u32| -> PureRecord<<X::P as Parameter>::Pure> {
        serde_json::from_value(pure_json::<X>(&PRec { id: Id([Some(t), None, None, None, None, None]), tag: t })).unwrap()
    };
    let b: Option<<X::P as Parameter>::Binary> = k.map(|k| serde_json::from_value(X::binary(k as f64 / 64.0)).unwrap());
    match catch_unwind(AssertUnwindSafe(|| X::P::new_binary(vec![mk(t1), mk(t2)], b))) {
        Ok(Ok(p)) => describe::<X>(&p),
        Ok(Err(e)) => classify(&e, 'x'),
        Err(_) => json!({"err": 6, "missing": []}),
    }
}

// ------------------------------------------------------------------------------------------------------------
// group contribution

#[derive(Clone)]
struct Chem {
    id: Id,
    segs: Vec<u32>,
    bonds: Option<Vec<[usize; 2]>>,
}
#[derive(Clone)]
struct SegRec {
    kind: u32,
    mw: i64,    // /4
    m: i64,     // /8
    sigma: i64, // /8
    eps: i64,   // integer
    polar: u8,  // 0 none, 1 mu, 2 q, 3 association sites, 4 association record without sites
    mu: i64,    // /8: dipole moment of the kinds 5 and (heterosegmented only) 6
}
#[derive(Clone)]
struct SegCase {
    opt: usize,
    query: Vec<u32>,
    chems: Vec<Chem>,
    srecs: Vec<SegRec>,
    sbin: Option<Vec<(u32, u32, i32)>>, // k/64
}

fn qz(num: i64, den: i64) -> String {
    format!("({} # {})", if num < 0 { format!("({})", num) } else { num.to_string() }, den)
}

impl SegCase {
    fn coq(&self) -> String {
        let chems: Vec<String> = self
            .chems
            .iter()
            .map(|c| {
                format!(
                    "mkChem {} {} {}",
                    c.id.coq(),
                    nlist(&c.segs),
                    c.bonds.as_ref().map_or("None".to_string(), |b| format!(
                        "(Some [{}]%nat)",
                        b.iter().map(|x| format!("({}, {})", x[0], x[1])).collect::<Vec<_>>().join("; ")
                    ))
                )
            })
            .collect();
        let srecs: Vec<String> = self
            .srecs
            .iter()
            .map(|s| {
                format!(
                    "({}%N, mkSeg {} {} {} {} {})",
                    s.kind,
                    qz(s.mw, 4),
                    qz(s.m, 8),
                    qz(s.sigma, 8),
                    qz(s.eps, 1),
                    if (1..=3).contains(&s.polar) { "true" } else { "false" }
                )
            })
            .collect();
        let sbin = self.sbin.as_ref().map_or("None".to_string(), |b| {
            format!("(Some [{}])", b.iter().map(|(a, b, k)| format!("({}%N, {}%N, {})", a, b, qz(*k as i64, 64))).collect::<Vec<_>>().join("; "))
        });
        // dipole moments of the heterosegmented records (kinds 5 and 6 carry "mu" there)
        let mus: Vec<String> = self
            .srecs
            .iter()
            .map(|s| format!("({}%N, {})", s.kind, if s.polar == 1 || s.polar == 2 { qz(s.mu, 8) } else { qz(0, 1) }))
            .collect();
        format!(
            "(mkSegCase {} {} [{}] [{}] [{}] {})",
            OPT_COQ[self.opt],
            nlist(&self.query),
            chems.join("; "),
            srecs.join("; "),
            mus.join("; "),
            sbin
        )
    }
    fn json(&self) -> Value {
        json!({"opt": OPT_COQ[self.opt], "query": self.query.iter().map(|k| key(*k)).collect::<Vec<_>>(),
               "chemical_records": self.chems.iter().map(|c| json!({"identifier": c.id.json(), "segments": c.segs.iter().map(|s| seg_name(*s)).collect::<Vec<_>>(), "bonds": c.bonds})).collect::<Vec<_>>(),
               "segment_records": self.srecs.iter().map(|s| json!({"identifier": seg_name(s.kind), "mw": s.mw as f64 / 4.0, "m": s.m as f64 / 8.0, "sigma": s.sigma as f64 / 8.0, "epsilon_k": s.eps, "polar": s.polar, "mu(hetero: kinds 5,6; homo: kind 5)": s.mu as f64 / 8.0})).collect::<Vec<_>>(),
               "binary_segment_records": self.sbin.as_ref().map(|b| b.iter().map(|(a, b, k)| json!([seg_name(*a), seg_name(*b), *k as f64 / 64.0])).collect::<Vec<_>>())})
    }
    fn chem_json(c: &Chem) -> Value {
        let mut m = Map::new();
        m.insert("identifier".into(), c.id.json());
        m.insert("segments".into(), json!(c.segs.iter().map(|s| seg_name(*s)).collect::<Vec<_>>()));
        if let Some(b) = &c.bonds {
            m.insert("bonds".into(), json!(b));
        }
        Value::Object(m)
    }
    fn write(&self, dir: &str, hetero: bool) -> (String, String, Option<String>) {
        std::fs::create_dir_all(dir).unwrap();
        let fc = format!("{dir}/chem.json");
        let fs = format!("{dir}/segments.json");
        let fb = format!("{dir}/binary.json");
        std::fs::write(&fc, serde_json::to_string(&Value::Array(self.chems.iter().map(Self::chem_json).collect())).unwrap()).unwrap();
        let segs: Vec<Value> = self
            .srecs
            .iter()
            .map(|s| {
                let mut m = Map::new();
                m.insert("m".into(), json!(s.m as f64 / 8.0));
                m.insert("sigma".into(), json!(s.sigma as f64 / 8.0));
                m.insert("epsilon_k".into(), json!(s.eps as f64));
                if hetero {
                    // GcPcSaftRecord: dipolar kinds (no quadrupole in the heterosegmented model: kind 6 is a second dipolar kind)
                    if s.polar == 1 || s.polar == 2 {
                        m.insert("mu".into(), json!(s.mu as f64 / 8.0));
                    }
                } else {
                    match s.polar {
                        1 => {
                            m.insert("mu".into(), json!(s.mu as f64 / 8.0));
                        }
                        2 => {
                            m.insert("q".into(), json!(2.25));
                        }
                        3 => {
                            m.insert("kappa_ab".into(), json!(0.03125));
                            m.insert("epsilon_k_ab".into(), json!(2500.0));
                            m.insert("na".into(), json!(1.0));
                            m.insert("nb".into(), json!(1.0));
                        }
                        4 => {
                            m.insert("kappa_ab".into(), json!(0.03125));
                            m.insert("epsilon_k_ab".into(), json!(2500.0));
                        }
                        _ => {}
                    }
                }
                json!({"identifier": seg_name(s.kind), "molarweight": s.mw as f64 / 4.0, "model_record": Value::Object(m)})
            })
            .collect();
        std::fs::write(&fs, serde_json::to_string(&Value::Array(segs)).unwrap()).unwrap();
        let fbo = self.sbin.as_ref().map(|b| {
            let v: Vec<Value> = b.iter().map(|(a, b, k)| json!({"id1": seg_name(*a), "id2": seg_name(*b), "model_record": *k as f64 / 64.0})).collect();
            std::fs::write(&fb, serde_json::to_string(&Value::Array(v)).unwrap()).unwrap();
            fb.clone()
        });
        (fc, fs, fbo)
    }
}

fn describe_homo(p: &PcSaftParameters) -> Value {
    let (pure, bin) = p.records();
    let comps: Vec<Value> = pure
        .iter()
        .map(|r| json!([r.molarweight, r.model_record.m, r.model_record.sigma, r.model_record.epsilon_k, r.model_record.mu, r.model_record.q]))
        .collect();
    let n = pure.len();
    let k: Vec<Vec<f64>> = (0..n).map(|i| (0..n).map(|j| bin.map_or(0.0, |b| b[[i, j]].k_ij)).collect()).collect();
    json!({"ok": {"comps": comps, "kij": k}})
}

fn run_homo(dir: &str, c: &SegCase, rng: &mut Rng) -> Value {
    let (fc, fs, fb) = c.write(dir, false);
    let names: Vec<String> = c.query.iter().map(|k| key(*k)).collect();
    let q: Vec<&str> = names.iter().map(|s| s.as_str()).collect();
    let r = catch_unwind(AssertUnwindSafe(|| PcSaftParameters::from_json_segments(&q, fc.clone(), fs.clone(), fb.clone(), OPTS[c.opt])));
    let mut v = match r {
        Err(_) => return json!({"err": 6, "missing": []}),
        Ok(Err(e)) => {
            let cls = classify(&e, if matches!(&e, ParameterError::ComponentsNotFound(m) if m.contains('g')) { 'g' } else { 'x' });
            return cls;
        }
        Ok(Ok(p)) => describe_homo(&p),
    };
    // the same through from_segments (records instead of files), with the segments of every molecule shuffled
    let srecs: Vec<SegmentRecord<PcSaftRecord>> = SegmentRecord::from_json(&fs).unwrap();
    let brecs: Option<Vec<BinaryRecord<String, f64>>> = fb.as_ref().map(|f| BinaryRecord::from_json(f).unwrap());
    let mut found: Vec<Chem> = vec![];
    let mut seen = vec![];
    for k in &c.query {
        if seen.contains(k) {
            continue;
        }
        seen.push(*k);
        if let Some(ch) = c.chems.iter().rev().find(|ch| ch.id.0[c.opt] == Some(*k)) {
            found.push(ch.clone());
        }
    }
    let mk = |shuffle: bool, rng: &mut Rng| -> Vec<ChemicalRecord> {
        found
            .iter()
            .map(|ch| {
                let mut s = ch.segs.clone();
                if shuffle {
                    for i in (1..s.len()).rev() {
                        s.swap(i, rng.below(i + 1));
                    }
                }
                ChemicalRecord::new(
                    serde_json::from_value::<Identifier>(ch.id.json()).unwrap(),
                    s.iter().map(|x| seg_name(*x)).collect(),
                    Some(vec![]),
                )
            })
            .collect()
    };
    let direct = PcSaftParameters::from_segments(mk(false, rng), srecs.clone(), brecs.clone()).map(|p| describe_homo(&p)).ok();
    let shuffled = PcSaftParameters::from_segments(mk(true, rng), srecs, brecs).map(|p| describe_homo(&p)).ok();
    v["from_segments"] = direct.unwrap_or(json!("error"));
    v["from_segments_shuffled"] = shuffled.unwrap_or(json!("error"));
    v
}

fn run_hetero(dir: &str, c: &SegCase) -> Value {
    let (fc, fs, fb) = c.write(dir, true);
    let names: Vec<String> = c.query.iter().map(|k| key(*k)).collect();
    let q: Vec<&str> = names.iter().map(|s| s.as_str()).collect();
    let r = catch_unwind(AssertUnwindSafe(|| GcPcSaftEosParameters::from_json_segments(&q, fc.clone(), fs.clone(), fb.clone(), OPTS[c.opt])));
    let p = match r {
        Err(_) => return json!({"err": 6, "missing": []}),
        Ok(Err(e)) => {
            return classify(&e, if matches!(&e, ParameterError::ComponentsNotFound(m) if m.contains('g')) { 'g' } else { 'x' });
        }
        Ok(Ok(p)) => p,
    };
    // sigma identifies the segment kind (the identifiers of the parameter set are private): sigma = kind-specific
    let kind_of = |sigma: f64| -> u32 {
        c.srecs.iter().rev().find(|s| s.sigma as f64 / 8.0 == sigma).map_or(0, |s| s.kind)
    };
    let nseg = p.m.len();
    let kinds: Vec<u32> = (0..nseg).map(|i| kind_of(p.sigma[i])).collect();
    let comps: Vec<Value> = p
        .chemical_records
        .iter()
        .enumerate()
        .map(|(i, cr)| {
            let mut counts: Vec<(u32, f64)> = cr.segments.iter().map(|(s, n)| (tokens(s, 'g')[0], *n)).collect();
            counts.sort_by(|a, b| a.0.cmp(&b.0));
            let mut bonds: Vec<(u32, u32, f64)> = cr.bonds.iter().map(|(b, n)| (tokens(&b[0], 'g')[0], tokens(&b[1], 'g')[0], *n)).collect();
            bonds.sort_by(|a, b| (a.0, a.1).cmp(&(b.0, b.1)));
            // the arrays used by the equation of state
            let mut mcount: Vec<(u32, f64)> = (0..nseg)
                .filter(|&s| p.component_index[s] == i)
                .map(|s| {
                    let sr = c.srecs.iter().rev().find(|r| r.kind == kinds[s]).unwrap();
                    (kinds[s], p.m[s] / (sr.m as f64 / 8.0))
                })
                .collect();
            mcount.sort_by(|a, b| a.0.cmp(&b.0));
            let mut pb: Vec<(u32, u32, f64)> = p
                .bonds
                .iter()
                .filter(|(b, _)| p.component_index[b[0]] == i)
                .map(|(b, n)| {
                    let (a, bb) = (kinds[b[0]], kinds[b[1]]);
                    (a.min(bb), a.max(bb), *n)
                })
                .collect();
            pb.sort_by(|a, b| (a.0, a.1).cmp(&(b.0, b.1)));
            // dipole: mu2 = (sum n mu^2) / m * factor; m_mix, sigma_mix (diagonal of s_ij), epsilon_mix (diagonal of e_k_ij)
            let factor = 1e-19 * (JOULE / KELVIN / KB).into_value();
            let dip = p.dipole_comp.iter().position(|&c| c == i).map(|k| {
                json!({"mu2_sum": p.mu2[k] * p.m_mix[k] / factor, "m": p.m_mix[k], "sigma": p.s_ij[[k, k]], "epsilon_k": p.e_k_ij[[k, k]]})
            });
            json!({"counts": counts, "bonds": bonds, "mw": p.molarweight[i], "m_counts": mcount, "param_bonds": pb, "dipole": dip})
        })
        .collect();
    // (the order of the segments inside a component is the iteration order of a HashMap: sort for a canonical output)
    let mut kk: Vec<(usize, u32, usize, u32, f64)> = vec![];
    for i in 0..nseg {
        for j in 0..nseg {
            kk.push((p.component_index[i], kinds[i], p.component_index[j], kinds[j], p.k_ij[[i, j]]));
        }
    }
    kk.sort_by(|a, b| (a.0, a.1, a.2, a.3).cmp(&(b.0, b.1, b.2, b.3)));
    let k: Vec<Value> = kk.iter().map(|e| json!([e.0, e.1, e.2, e.3, e.4])).collect();
    json!({"ok": {"comps": comps, "k": k}})
}

// ------------------------------------------------------------------------------------------------------------
// serde

fn tok(rng: &mut Rng) -> i64 {
    rng.below(40) as i64 - 8
}
fn otok(rng: &mut Rng, nz: bool) -> Option<i64> {
    if rng.f64() < 0.5 {
        None
    } else {
        let t = tok(rng);
        Some(if nz && t == 0 { 1 } else { t })
    }
}
fn coq_z(z: i64) -> String {
    if z < 0 {
        format!("({})%Z", z)
    } else {
        format!("{}%Z", z)
    }
}
fn coq_oz(z: Option<i64>) -> String {
    z.map_or("None".into(), |z| format!("(Some {})", coq_z(z)))
}
fn coq_oarr(z: &Option<Vec<i64>>) -> String {
    z.as_ref().map_or("None".into(), |v| format!("(Some [{}])", v.iter().map(|z| coq_z(*z)).collect::<Vec<_>>().join("; ")))
}
fn f(z: i64) -> f64 {
    z as f64 / 8.0
}

fn roundtrip<T: Serialize + DeserializeOwned>(x: &T) -> (Value, Option<(Value, T)>) {
    let s1 = serde_json::to_value(x).unwrap();
    match serde_json::from_value::<T>(s1.clone()) {
        Ok(y) => {
            let s2 = serde_json::to_value(&y).unwrap();
            (s1, Some((s2, y)))
        }
        Err(_) => (s1, None),
    }
}

fn serde_cases(rng: &mut Rng, n: usize, coq: &mut String) -> Value {
    let mut pc = vec![];
    let mut pcq = vec![];
    for _ in 0..n {
        let (m, s, e) = (tok(rng), tok(rng), tok(rng));
        let (mu, q) = (otok(rng, false), otok(rng, false));
        let arr = |rng: &mut Rng, n: usize| -> Option<Vec<i64>> {
            if rng.f64() < 0.6 {
                None
            } else {
                Some((0..n).map(|_| tok(rng)).collect())
            }
        };
        let (v, d, t) = (arr(rng, 4), arr(rng, 5), arr(rng, 4));
        let a4 = |v: &Option<Vec<i64>>| v.as_ref().map(|v| [f(v[0]), f(v[1]), f(v[2]), f(v[3])]);
        let a5 = |v: &Option<Vec<i64>>| v.as_ref().map(|v| [f(v[0]), f(v[1]), f(v[2]), f(v[3]), f(v[4])]);
        let has_assoc = rng.f64() < 0.6;
        let (ka, ea) = (otok(rng, false), otok(rng, false));
        let z0 = |rng: &mut Rng| if rng.f64() < 0.5 { 0 } else { rng.below(3) as i64 * 8 };
        let (na, nb, nc) = (z0(rng), z0(rng), z0(rng));
        let rec = if has_assoc {
            PcSaftRecord::new(f(m), f(s), f(e), mu.map(f), q.map(f), ka.map(f), ea.map(f), Some(f(na)), Some(f(nb)), Some(f(nc)), a4(&v), a5(&d), a4(&t))
        } else {
            PcSaftRecord { m: f(m), sigma: f(s), epsilon_k: f(e), mu: mu.map(f), q: q.map(f), association_record: None, viscosity: a4(&v), diffusion: a5(&d), thermal_conductivity: a4(&t) }
        };
        let (s1, rt) = roundtrip(&rec);
        pc.push(json!({"print": s1, "reprint": rt.as_ref().map(|x| x.0.clone()), "assoc_some_after": rt.as_ref().map(|x| x.1.association_record.is_some()),
                       "assoc_some_before": has_assoc}));
        let assoc = if has_assoc {
            format!("(Some (mkSA {} {} {} {} {}))", coq_oz(ka), coq_oz(ea), coq_z(na), coq_z(nb), coq_z(nc))
        } else {
            "None".into()
        };
        pcq.push(format!(
            "mkSP {} {} {} {} {} {} {} {} {}",
            coq_z(m), coq_z(s), coq_z(e), coq_oz(mu), coq_oz(q), assoc, coq_oarr(&v), coq_oarr(&d), coq_oarr(&t)
        ));
    }
    let mut bn = vec![];
    let mut bnq = vec![];
    for _ in 0..n {
        let k = if rng.f64() < 0.3 { 0 } else { tok(rng) };
        let (ka, ea) = (otok(rng, false), otok(rng, false));
        let rec = PcSaftBinaryRecord::new(Some(f(k)), ka.map(f), ea.map(f));
        let (s1, rt) = roundtrip(&rec);
        bn.push(json!({"print": s1, "reprint": rt.as_ref().map(|x| x.0.clone()), "k_after": rt.as_ref().map(|x| x.1.k_ij)}));
        let assoc = if ka.is_none() && ea.is_none() { "None".to_string() } else { format!("(Some (mkSBA {} {} None))", coq_oz(ka), coq_oz(ea)) };
        bnq.push(format!("mkSB {} {}", coq_z(k), assoc));
    }
    // ePC-SAFT binary record: coefficient vector of the temperature polynomial (zeros at every position, incl. the first)
    let mut eb = vec![];
    let mut ebq = vec![];
    for _ in 0..n {
        let len = [0usize, 1, 2, 4, 4, 4, 5][rng.below(7)];
        let pz = [0.2, 0.5, 0.8][rng.below(3)];
        let k: Vec<i64> = (0..len).map(|_| if rng.f64() < pz { 0 } else { tok(rng) }).collect();
        let (ka, ea) = (otok(rng, false), otok(rng, false));
        let rec = ElectrolytePcSaftBinaryRecord::new(Some(k.iter().map(|z| f(*z)).collect()), ka.map(f), ea.map(f));
        let (s1, rt) = roundtrip(&rec);
        eb.push(json!({"print": s1, "reprint": rt.as_ref().map(|x| x.0.clone()), "k_after": rt.as_ref().map(|x| x.1.k_ij.clone()),
                       "k_before": k.iter().map(|z| f(*z)).collect::<Vec<_>>()}));
        let assoc = if ka.is_none() && ea.is_none() { "None".to_string() } else { format!("(Some (mkSBA {} {} None))", coq_oz(ka), coq_oz(ea)) };
        ebq.push(format!("mkSEB [{}] {}", k.iter().map(|z| coq_z(*z)).collect::<Vec<_>>().join("; "), assoc));
    }
    writeln!(coq, "Definition serde_eb : list sebinary := [\n {}].", ebq.join(";\n ")).unwrap();
    writeln!(coq, "Eval vm_compute in (\"SERDE_EB\", map run_serde_ebinary serde_eb).").unwrap();
    writeln!(coq, "Definition serde_pc : list spcsaft := [\n {}].", pcq.join(";\n ")).unwrap();
    writeln!(coq, "Definition serde_bn : list sbinary := [\n {}].", bnq.join(";\n ")).unwrap();
    writeln!(coq, "Eval vm_compute in (\"SERDE_PC\", map run_serde_pcsaft serde_pc).").unwrap();
    writeln!(coq, "Eval vm_compute in (\"SERDE_BN\", map run_serde_binary serde_bn).").unwrap();
    json!({"pcsaft": pc, "binary": bn, "ebinary": eb})
}

// ------------------------------------------------------------------------------------------------------------
// schema-driven serde sweep over the model records of EVERY model: random JSON objects built from the keys of the type
// (zeros at every position), read -> written -> re-read -> re-written; nothing but zero/default values may disappear

#[derive(Clone, Copy)]
enum K {
    R,             // required number
    O,             // optional number
    U,             // required small unsigned integer
    V(usize, usize), // optional vector of numbers, length in lo..=hi
    A(usize),      // optional array of fixed length
    S,             // optional site_indices [usize; 2]
}

fn val(rng: &mut Rng, pz: f64) -> f64 {
    if rng.f64() < pz {
        0.0
    } else {
        (1 + rng.below(60)) as f64 / 16.0 * if rng.f64() < 0.2 { -1.0 } else { 1.0 }
    }
}

/// `groups`: keys that only make sense together (a flattened record with required keys): (required keys, optional keys)
fn gen_obj(rng: &mut Rng, fields: &[(&str, K)], groups: &[(&[&str], &[&str])]) -> Value {
    let mut m = Map::new();
    let pz = [0.15, 0.5][rng.below(2)];
    for (k, kind) in fields {
        match kind {
            K::R => {
                m.insert(k.to_string(), json!(val(rng, 0.1)));
            }
            K::U => {
                m.insert(k.to_string(), json!(rng.below(3)));
            }
            K::O => {
                if rng.f64() < 0.5 {
                    m.insert(k.to_string(), json!(val(rng, pz)));
                }
            }
            K::V(lo, hi) => {
                if rng.f64() < 0.75 {
                    let n = lo + rng.below(hi - lo + 1);
                    m.insert(k.to_string(), json!((0..n).map(|_| val(rng, pz)).collect::<Vec<_>>()));
                }
            }
            K::A(n) => {
                if rng.f64() < 0.4 {
                    m.insert(k.to_string(), json!((0..*n).map(|_| val(rng, pz)).collect::<Vec<_>>()));
                }
            }
            K::S => {
                if rng.f64() < 0.3 {
                    m.insert(k.to_string(), json!([rng.below(2), rng.below(2)]));
                }
            }
        }
    }
    for (req, opt) in groups {
        if rng.f64() < 0.5 {
            for k in req.iter() {
                m.insert(k.to_string(), json!(val(rng, pz)));
            }
            for k in opt.iter() {
                if rng.f64() < 0.5 {
                    m.insert(k.to_string(), json!(val(rng, pz)));
                }
            }
        }
    }
    Value::Object(m)
}

/// what of `o` (the JSON that was read) is missing from / different in `s` (what was written)
fn lost_values(path: String, o: &Value, s: &Value, lost: &mut Vec<Value>) {
    match o {
        Value::Object(m) => {
            for (k, v) in m {
                match s.get(k) {
                    Some(sv) => lost_values(format!("{path}/{k}"), v, sv, lost),
                    None => {
                        // a number may be dropped only when it is zero (skip_serializing_if is_zero + default), site
                        // indices only when [0,0], an array of numbers only when it is empty
                        let dflt = v.as_f64() == Some(0.0) || v.is_null() || *v == json!([0, 0]) || *v == json!([]);
                        if !dflt {
                            lost.push(json!({"key": format!("{path}/{k}"), "value_read": v, "written": "<absent>"}));
                        }
                    }
                }
            }
        }
        Value::Array(a) => {
            if s.as_array().map_or(true, |sa| sa.len() != a.len()) {
                lost.push(json!({"key": path, "value_read": o, "written": s}));
                return;
            }
            for (j, v) in a.iter().enumerate() {
                lost_values(format!("{path}/{j}"), v, &s[j], lost);
            }
        }
        Value::Number(x) => {
            if s.as_f64() != x.as_f64() {
                lost.push(json!({"key": path, "value_read": o, "written": s}));
            }
        }
        _ => {
            if o != s {
                lost.push(json!({"key": path, "value_read": o, "written": s}));
            }
        }
    }
}

fn sweep<T: Serialize + DeserializeOwned>(name: &str, n: usize, rng: &mut Rng, gen: &dyn Fn(&mut Rng) -> Value) -> Value {
    let mut accepted = 0;
    let mut rejected = 0;
    let mut failures = vec![];
    let mut sample = Value::Null;
    for _ in 0..n {
        let input = gen(rng);
        let x: T = match serde_json::from_value(input.clone()) {
            Ok(x) => x,
            Err(_) => {
                rejected += 1;
                continue;
            }
        };
        accepted += 1;
        let (s1, rt) = roundtrip(&x);
        if sample.is_null() {
            sample = json!({"read": input, "written": s1});
        }
        let mut lost = vec![];
        lost_values(String::new(), &input, &s1, &mut lost);
        let unstable = match &rt {
            None => Some(json!("the written form cannot be read back")),
            Some((s2, _)) if *s2 != s1 => Some(json!({"rewritten": s2})),
            _ => None,
        };
        if (!lost.is_empty() || unstable.is_some()) && failures.len() < 5 {
            failures.push(json!({"record_read": input, "written": s1, "lost_or_changed": lost, "unstable": unstable}));
        } else if !lost.is_empty() || unstable.is_some() {
            failures.push(Value::Null);
        }
    }
    let nfail = failures.len();
    failures.retain(|f| !f.is_null());
    json!({"type": name, "generated": n, "accepted": accepted, "rejected": rejected, "failing": nfail, "failures": failures, "sample": sample})
}

fn serde_sweep(rng: &mut Rng, n: usize) -> Vec<Value> {
    use K::*;
    let visc: [(&str, K); 3] = [("viscosity", A(4)), ("diffusion", A(5)), ("thermal_conductivity", A(4))];
    let cat = |a: &[(&'static str, K)], b: &[(&'static str, K)]| -> Vec<(&'static str, K)> { a.iter().chain(b.iter()).cloned().collect() };
    let mut out = vec![];
    let f = cat(&[("m", R), ("sigma", R), ("epsilon_k", R), ("mu", O), ("q", O), ("kappa_ab", O), ("epsilon_k_ab", O), ("na", O), ("nb", O), ("nc", O)], &visc);
    out.push(sweep::<PcSaftRecord>("PcSaftRecord", n, rng, &|r| gen_obj(r, &f, &[])));
    let f = [("k_ij", O), ("kappa_ab", O), ("epsilon_k_ab", O), ("site_indices", S)];
    out.push(sweep::<PcSaftBinaryRecord>("PcSaftBinaryRecord", n, rng, &|r| gen_obj(r, &f, &[])));
    let f = [("m", R), ("sigma", R), ("epsilon_k", R), ("mu", O), ("kappa_ab", O), ("epsilon_k_ab", O), ("na", O), ("nb", O), ("nc", O), ("psi_dft", O)];
    out.push(sweep::<GcPcSaftRecord>("GcPcSaftRecord", n, rng, &|r| gen_obj(r, &f, &[])));
    let f = cat(&[("m", R), ("sigma", R), ("epsilon_k", R), ("lr", R), ("la", R), ("rc_ab", O), ("epsilon_k_ab", O), ("na", O), ("nb", O), ("nc", O)], &visc);
    out.push(sweep::<SaftVRMieRecord>("SaftVRMieRecord", n, rng, &|r| gen_obj(r, &f, &[])));
    let f = [("k_ij", O), ("gamma_ij", O), ("rc_ab", O), ("epsilon_k_ab", O), ("site_indices", S)];
    out.push(sweep::<SaftVRMieBinaryRecord>("SaftVRMieBinaryRecord", n, rng, &|r| gen_obj(r, &f, &[])));
    let f = cat(&[("m", R), ("sigma", R), ("epsilon_k", R), ("lr", R), ("la", R), ("fh", U)], &visc);
    out.push(sweep::<SaftVRQMieRecord>("SaftVRQMieRecord", n, rng, &|r| gen_obj(r, &f, &[])));
    let f = [("k_ij", R), ("l_ij", R)];
    out.push(sweep::<SaftVRQMieBinaryRecord>("SaftVRQMieBinaryRecord", n, rng, &|r| gen_obj(r, &f, &[])));
    let f = cat(&[("sigma", R), ("epsilon_k", R)], &visc);
    out.push(sweep::<PetsRecord>("PetsRecord", n, rng, &|r| gen_obj(r, &f, &[])));
    let f = [("k_ij", R)];
    out.push(sweep::<PetsBinaryRecord>("PetsBinaryRecord", n, rng, &|r| gen_obj(r, &f, &[])));
    out.push(sweep::<UVTheoryBinaryRecord>("UVTheoryBinaryRecord", n, rng, &|r| gen_obj(r, &f, &[])));
    let f = [("rep", R), ("att", R), ("sigma", R), ("epsilon_k", R)];
    out.push(sweep::<UVTheoryRecord>("UVTheoryRecord", n, rng, &|r| gen_obj(r, &f, &[])));
    // ePC-SAFT: the flattened association record has two required keys
    let f = [("m", R), ("sigma", R), ("epsilon_k", R), ("z", O)];
    let g: [(&[&str], &[&str]); 1] = [(&["kappa_ab", "epsilon_k_ab"], &["na", "nb", "nc"])];
    out.push(sweep::<ElectrolytePcSaftRecord>("ElectrolytePcSaftRecord", n, rng, &|r| {
        let mut o = gen_obj(r, &f, &g);
        match r.below(4) {
            0 => {
                o["permittivity_record"] = json!({"PerturbationTheory": {"dipole_scaling": val(r, 0.3), "polarizability_scaling": val(r, 0.3), "correlation_integral_parameter": val(r, 0.3)}});
            }
            1 => {
                let n = 1 + r.below(3);
                o["permittivity_record"] = json!({"ExperimentalData": {"data": (0..n).map(|i| json!([280.0 + 10.0 * i as f64, val(r, 0.3)])).collect::<Vec<_>>()}});
            }
            _ => {}
        }
        o
    }));
    let f = [("k_ij", V(0, 5)), ("kappa_ab", O), ("epsilon_k_ab", O), ("site_indices", S)];
    out.push(sweep::<ElectrolytePcSaftBinaryRecord>("ElectrolytePcSaftBinaryRecord", n, rng, &|r| gen_obj(r, &f, &[])));
    let f = [("tc", R), ("pc", R), ("acentric_factor", R)];
    out.push(sweep::<PengRobinsonRecord>("PengRobinsonRecord", n, rng, &|r| gen_obj(r, &f, &[])));
    let f = [("a", R), ("b", R), ("c", R), ("d", R), ("e", R)];
    out.push(sweep::<JobackRecord>("JobackRecord", n, rng, &|r| gen_obj(r, &f, &[])));
    out.push(sweep::<DipprRecord>("DipprRecord", n, rng, &|r| {
        let (name, len) = [("DIPPR100", 1 + r.below(7)), ("DIPPR107", 5), ("DIPPR127", 7)][r.below(3)];
        let mut m = Map::new();
        m.insert(name.into(), json!((0..len).map(|_| val(r, 0.4)).collect::<Vec<_>>()));
        Value::Object(m)
    }));
    // the wrappers
    let f = [("k_ij", V(0, 5)), ("kappa_ab", O), ("epsilon_k_ab", O)];
    out.push(sweep::<BinaryRecord<Identifier, ElectrolytePcSaftBinaryRecord>>("BinaryRecord<Identifier, ElectrolytePcSaftBinaryRecord>", n, rng, &|r| {
        json!({"id1": Id::random(r, 5, 0.6).json(), "id2": Id::random(r, 5, 0.6).json(), "model_record": gen_obj(r, &f, &[])})
    }));
    let f = [("m", R), ("sigma", R), ("epsilon_k", R), ("mu", O), ("kappa_ab", O), ("epsilon_k_ab", O), ("na", O), ("nb", O), ("psi_dft", O)];
    out.push(sweep::<SegmentRecord<GcPcSaftRecord>>("SegmentRecord<GcPcSaftRecord>", n, rng, &|r| {
        json!({"identifier": seg_name(1 + r.below(6) as u32), "molarweight": val(r, 0.2), "model_record": gen_obj(r, &f, &[])})
    }));
    // chemical records: bond lists of branched / cyclic molecules, written in random direction, or no bond list
    out.push(sweep::<ChemicalRecord>("ChemicalRecord", n, rng, &|r| {
        let len = 1 + r.below(8);
        let mut o = json!({"identifier": Id::random(r, 5, 0.6).json(), "segments": (0..len).map(|_| seg_name(1 + r.below(6) as u32)).collect::<Vec<_>>()});
        if r.f64() < 0.7 {
            let mut b: Vec<[usize; 2]> = (1..len).map(|i| { let j = r.below(i); if r.f64() < 0.5 { [i, j] } else { [j, i] } }).collect();
            if len > 2 && r.f64() < 0.3 {
                b.push([0, len - 1]);
            }
            o["bonds"] = json!(b);
        }
        o
    }));
    let f = [("k_ij", O), ("kappa_ab", O), ("epsilon_k_ab", O)];
    out.push(sweep::<PureRecord<PcSaftRecord>>("PureRecord<PcSaftRecord>", n, rng, &|r| {
        let mut o = json!({"identifier": Id::random(r, 5, 0.6).json(), "model_record": {"m": val(r, 0.1), "sigma": val(r, 0.1), "epsilon_k": val(r, 0.1)}});
        if r.f64() < 0.6 {
            o["molarweight"] = json!(val(r, 0.3));
        }
        let _ = &f;
        o
    }));
    out
}

/// serialise -> deserialise -> serialise of every record of a shipped file
fn file_roundtrip<T: Serialize + DeserializeOwned>(path: &str) -> Value {
    let text = match std::fs::read_to_string(path) {
        Ok(t) => t,
        Err(_) => return json!({"file": path, "error": "unreadable"}),
    };
    let orig: Vec<Value> = serde_json::from_str(&text).unwrap_or_default();
    let recs: Vec<T> = match serde_json::from_str(&text) {
        Ok(r) => r,
        Err(e) => return json!({"file": path, "error": format!("{e}")}),
    };
    let mut unstable = vec![];
    let mut lost = vec![];
    for (i, r) in recs.iter().enumerate() {
        let (s1, rt) = roundtrip(r);
        match rt {
            None => unstable.push(json!({"index": i, "print": s1, "reparse": "failed"})),
            Some((s2, _)) => {
                if s1 != s2 {
                    unstable.push(json!({"index": i, "print": s1, "reprint": s2}));
                }
            }
        }
        // every number / string of the file record is still there after serialisation (apart from zero/defaults)
        fn walk(path: String, o: &Value, s: &Value, lost: &mut Vec<Value>, idx: usize) {
            match o {
                Value::Object(m) => {
                    for (k, v) in m {
                        match s.get(k) {
                            Some(sv) => walk(format!("{path}/{k}"), v, sv, lost, idx),
                            None => {
                                let dflt = v.as_f64() == Some(0.0) || v.is_null() || *v == json!([0, 0]);
                                if !dflt {
                                    lost.push(json!({"index": idx, "key": format!("{path}/{k}"), "value": v}));
                                }
                            }
                        }
                    }
                }
                Value::Array(a) => {
                    for (j, v) in a.iter().enumerate() {
                        match s.get(j) {
                            Some(sv) => walk(format!("{path}/{j}"), v, sv, lost, idx),
                            None => lost.push(json!({"index": idx, "key": format!("{path}/{j}"), "value": v})),
                        }
                    }
                }
                Value::Number(x) => {
                    if s.as_f64() != x.as_f64() {
                        lost.push(json!({"index": idx, "key": path, "value": o, "got": s}));
                    }
                }
                _ => {
                    if o != s {
                        lost.push(json!({"index": idx, "key": path, "value": o, "got": s}));
                    }
                }
            }
        }
        if let Some(o) = orig.get(i) {
            walk(String::new(), o, &s1, &mut lost, i);
        }
    }
    json!({"file": path, "records": recs.len(), "unstable": unstable, "lost": lost})
}

/// identical behaviour: reduced residual Helmholtz energy of the PC-SAFT model built from a record and from its round trip
fn behaviour_pcsaft(path: &str, max: usize) -> Value {
    let recs: Vec<PureRecord<PcSaftRecord>> = serde_json::from_str(&std::fs::read_to_string(path).unwrap()).unwrap();
    let mut n = 0;
    let mut diffs = vec![];
    let step = (recs.len() / max).max(1);
    for (i, r) in recs.iter().enumerate().step_by(step) {
        let r2: PureRecord<PcSaftRecord> = serde_json::from_value(serde_json::to_value(r).unwrap()).unwrap();
        let a = |r: &PureRecord<PcSaftRecord>| -> f64 {
            let p = PcSaftParameters::new_pure(r.clone()).unwrap();
            let eos = PcSaft::new(Arc::new(p));
            let s = StateHD::new(350.0, 1000.0, Array1::from_vec(vec![3.0]));
            eos.residual_helmholtz_energy(&s)
        };
        let (a1, a2) = (a(r), a(&r2));
        n += 1;
        if a1.to_bits() != a2.to_bits() && !(a1.is_nan() && a2.is_nan()) {
            diffs.push(json!({"index": i, "identifier": serde_json::to_value(&r.identifier).unwrap(), "a_before": a1, "a_after": a2}));
        }
    }
    json!({"file": path, "evaluated": n, "differences": diffs})
}

// ------------------------------------------------------------------------------------------------------------

/// SAFT-VR Mie parameter sets from records: components with A and/or B sites in every order, a symmetric matrix of binary
/// records some of which carry cross-association parameters; what the association parameters of every site pair are
fn assoc_cases(rng: &mut Rng, n: usize, coq: &mut String) -> Value {
    let mut out = vec![];
    let mut cq = vec![];
    for _ in 0..n {
        let nc = 2 + rng.below(2);
        let sites: Vec<(u32, u32)> = (0..nc).map(|_| [(1, 1), (1, 1), (2, 1), (1, 0), (0, 1), (0, 0), (0, 2)][rng.below(7)]).collect();
        let pure: Vec<PureRecord<SaftVRMieRecord>> = (0..nc)
            .map(|i| {
                let (na, nb) = sites[i];
                let rec = SaftVRMieRecord::new(
                    1.0 + i as f64 / 4.0, 3.0 + i as f64 / 8.0, 200.0 + 16.0 * i as f64, 12.0 + i as f64, 6.0,
                    Some(0.25 + i as f64 / 16.0), Some(1500.0 + 64.0 * i as f64), Some(na as f64), Some(nb as f64), None, None, None, None);
                PureRecord::new(Identifier::default(), 10.0 + i as f64, rec)
            })
            .collect();
        // symmetric matrix: one record per unordered pair
        let mut eps: Vec<Vec<Option<i64>>> = vec![vec![None; nc]; nc];
        let mut rc: Vec<Vec<Option<i64>>> = vec![vec![None; nc]; nc];
        for i in 0..nc {
            for j in i + 1..nc {
                let e = if rng.f64() < 0.7 { Some(1 + rng.below(60) as i64) } else { None };
                let r = if rng.f64() < 0.5 { Some(1 + rng.below(60) as i64) } else { None };
                eps[i][j] = e; eps[j][i] = e; rc[i][j] = r; rc[j][i] = r;
            }
        }
        let mk = |with_assoc: bool| -> ndarray::Array2<SaftVRMieBinaryRecord> {
            ndarray::Array2::from_shape_fn([nc, nc], |(i, j)| {
                if i == j {
                    SaftVRMieBinaryRecord::default()
                } else if with_assoc {
                    SaftVRMieBinaryRecord::new(Some(0.015625), None, rc[i][j].map(|z| z as f64 / 64.0), eps[i][j].map(|z| z as f64 * 64.0))
                } else {
                    SaftVRMieBinaryRecord::new(Some(0.015625), None, None, None)
                }
            })
        };
        let build = |with_assoc: bool| -> Option<(Vec<Vec<f64>>, Vec<Vec<f64>>)> {
            catch_unwind(AssertUnwindSafe(|| SaftVRMieParameters::from_records(pure.clone(), Some(mk(with_assoc))).ok()))
                .ok()
                .flatten()
                .map(|p| {
                    let a = &p.association;
                    let rows = |m: &ndarray::Array2<f64>| (0..m.nrows()).map(|x| m.row(x).to_vec()).collect::<Vec<_>>();
                    (rows(&a.epsilon_k_ab), rows(&a.rc_ab))
                })
        };
        let with = build(true);
        let base = build(false);
        out.push(json!({"sites_na_nb": sites, "binary_epsilon_k_ab/64": eps, "binary_rc_ab*64": rc,
                        "with": with.as_ref().map(|x| json!({"epsilon_k_ab": x.0, "rc_ab": x.1})),
                        "base": base.as_ref().map(|x| json!({"epsilon_k_ab": x.0, "rc_ab": x.1}))}));
        let bl = |v: Vec<bool>| format!("[{}]", v.iter().map(|b| b.to_string()).collect::<Vec<_>>().join("; "));
        let ml = |m: &Vec<Vec<Option<i64>>>| format!("[{}]", m.iter().map(|r| format!("[{}]", r.iter().map(|z| coq_oz(*z)).collect::<Vec<_>>().join("; "))).collect::<Vec<_>>().join("; "));
        cq.push(format!("mkAC {} {} {} {}", bl(sites.iter().map(|s| s.0 > 0).collect()), bl(sites.iter().map(|s| s.1 > 0).collect()), ml(&eps), ml(&rc)));
    }
    writeln!(coq, "Definition assoc_cases : list assoc_case := [\n {}].", cq.join(";\n ")).unwrap();
    writeln!(coq, "Eval vm_compute in (\"ASSOC\", map run_assoc assoc_cases).").unwrap();
    Value::Array(out)
}

fn gen_bfile(rng: &mut Rng, nkeys: usize, style: usize) -> FileSpec<BRec> {
    match style {
        0 => FileSpec::Recs(vec![]),
        1 => FileSpec::NoFile,
        2 => FileSpec::BadJson,
        _ => {
            let n = 1 + rng.below(6);
            let mut v: Vec<BRec> = vec![];
            for _ in 0..n {
                let r = rng.f64();
                if r < 0.2 && !v.is_empty() {
                    // the same pair again: same or opposite orientation, same or different value
                    let o = v[rng.below(v.len())].clone();
                    let k = if rng.f64() < 0.5 { o.k } else { rng.below(41) as i32 - 20 };
                    if rng.f64() < 0.5 {
                        v.push(BRec { id1: o.id2, id2: o.id1, k });
                    } else {
                        v.push(BRec { id1: o.id1, id2: o.id2, k });
                    }
                } else {
                    v.push(BRec { id1: Id::random(rng, nkeys, 0.8), id2: Id::random(rng, nkeys, 0.8), k: rng.below(41) as i32 - 20 });
                }
            }
            FileSpec::Recs(v)
        }
    }
}

fn perms(n: usize, k: usize, cur: &mut Vec<u32>, out: &mut Vec<Vec<u32>>) {
    out.push(cur.clone());
    if cur.len() == k {
        return;
    }
    for x in 1..=n as u32 {
        if !cur.contains(&x) {
            cur.push(x);
            perms(n, k, cur, out);
            cur.pop();
        }
    }
}

fn main() {
    let cli = feos_verif::cli::Cli::parse("/verif/coq/gen/C14");
    let full = cli.full();
    let mut rng = Rng(cli.seed.wrapping_mul(0x51ED270B).wrapping_add(14));
    let scratch = format!("/verif/build/c14/{}", cli.out.replace('/', "_"));
    let _ = std::fs::remove_dir_all(&scratch);
    std::fs::create_dir_all(&scratch).unwrap();

    // ---------------------------------------------------------------- files
    let mut pfiles: Vec<FileSpec<PRec>> = vec![];
    let mut bfiles: Vec<FileSpec<BRec>> = vec![];
    // exhaustive block: 4 records; every identifier field carries a (different) permutation of the keys 1..4
    let fieldperm: [[u32; 4]; 6] = [[1, 2, 3, 4], [2, 3, 4, 1], [4, 3, 2, 1], [3, 1, 4, 2], [2, 1, 4, 3], [1, 3, 2, 4]];
    let base: Vec<PRec> = (0..4)
        .map(|i| PRec { id: Id([0, 1, 2, 3, 4, 5].map(|f| Some(fieldperm[f][i]))), tag: 11 + i as u32 })
        .collect();
    let mut orders: Vec<Vec<usize>> = vec![vec![0, 1, 2, 3], vec![3, 2, 1, 0]];
    let nrand_orders = if full { 6 } else { 2 };
    for _ in 0..nrand_orders {
        let mut o = vec![0, 1, 2, 3];
        for i in (1..4).rev() {
            o.swap(i, rng.below(i + 1));
        }
        orders.push(o);
    }
    for o in &orders {
        pfiles.push(FileSpec::Recs(o.iter().map(|&i| base[i].clone()).collect()));
    }
    let n_ex_files = orders.len();
    // binary file for the exhaustive block, per option the pairs are stored in mixed orientation
    let mk_id = |i: usize| base[i].id.clone();
    bfiles.push(FileSpec::Recs(vec![
        BRec { id1: mk_id(0), id2: mk_id(1), k: 5 },
        BRec { id1: mk_id(2), id2: mk_id(0), k: -7 },
        BRec { id1: mk_id(3), id2: mk_id(1), k: 12 },
        BRec { id1: mk_id(3), id2: mk_id(2), k: 3 },
    ]));
    bfiles.push(FileSpec::Recs(vec![
        BRec { id1: mk_id(2), id2: mk_id(3), k: 3 },
        BRec { id1: mk_id(1), id2: mk_id(3), k: 12 },
        BRec { id1: mk_id(1), id2: mk_id(0), k: 5 },
        BRec { id1: mk_id(0), id2: mk_id(2), k: -7 },
    ]));
    let n_ex_bfiles = 2;
    // special files
    let i_nofile = pfiles.len();
    pfiles.push(FileSpec::NoFile);
    let i_bad = pfiles.len();
    pfiles.push(FileSpec::BadJson);
    // random files
    let nkeys = 6;
    let n_rand_files = if full { 40 } else { 12 };
    let first_rand = pfiles.len();
    let mut tag = 100;
    for _ in 0..n_rand_files {
        let n = rng.below(8);
        let p_some = [0.5, 0.8, 1.0][rng.below(3)];
        let mut v = vec![];
        for _ in 0..n {
            tag += 1;
            v.push(PRec { id: Id::random(&mut rng, nkeys, p_some), tag });
        }
        pfiles.push(FileSpec::Recs(v));
    }
    let first_rand_b = bfiles.len();
    let n_rand_b = if full { 40 } else { 14 };
    for i in 0..n_rand_b {
        let style = if i < 3 { i } else { 3 };
        bfiles.push(gen_bfile(&mut rng, nkeys, style));
    }
    write_files::<MPc>(&scratch, &pfiles, &bfiles);
    write_files::<MPr>(&scratch, &pfiles, &bfiles);
    write_files::<MVr>(&scratch, &pfiles, &bfiles);

    // ---------------------------------------------------------------- load cases
    let mut loads: Vec<LoadCase> = vec![];
    let mut queries = vec![];
    perms(5, if full { 4 } else { 3 }, &mut vec![], &mut queries);
    let n_exhaustive_queries = queries.len();
    for (qi, q) in queries.iter().enumerate() {
        for fi in 0..n_ex_files {
            // every option for the short queries, a rotating one for the longer ones
            let opts: Vec<usize> = if q.len() <= 2 || full { (0..6).collect() } else { vec![(qi + fi) % 6] };
            for o in opts {
                let bin = match (qi + fi + o) % 3 {
                    0 => None,
                    b => Some((b - 1) % n_ex_bfiles),
                };
                loads.push(LoadCase { opt: o, inputs: vec![(q.clone(), fi)], bin });
            }
        }
    }
    // duplicate stream (exhaustive over {1,2,5}^2 and ^3)
    for a in [1u32, 2, 5] {
        for b in [1u32, 2, 5] {
            loads.push(LoadCase { opt: (a + b) as usize % 6, inputs: vec![(vec![a, b], (a as usize) % n_ex_files)], bin: Some(0) });
            loads.push(LoadCase { opt: (a * b) as usize % 6, inputs: vec![(vec![a], 0), (vec![b], 1)], bin: None });
            for c in [1u32, 2, 5] {
                loads.push(LoadCase { opt: c as usize % 6, inputs: vec![(vec![a, b, c], 1)], bin: None });
                loads.push(LoadCase { opt: b as usize % 6, inputs: vec![(vec![a, b], 0), (vec![c], 2 % n_ex_files)], bin: Some(1) });
            }
        }
    }
    // special files: errors and their order
    for f in [i_nofile, i_bad] {
        loads.push(LoadCase { opt: 0, inputs: vec![(vec![1, 2], f)], bin: None });
        loads.push(LoadCase { opt: 0, inputs: vec![(vec![1, 1], f)], bin: None });
        loads.push(LoadCase { opt: 0, inputs: vec![(vec![1], 0), (vec![2], f)], bin: None });
        loads.push(LoadCase { opt: 0, inputs: vec![(vec![5], 0), (vec![2], f)], bin: None });
        loads.push(LoadCase { opt: 0, inputs: vec![(vec![2], f), (vec![5], 0)], bin: None });
        loads.push(LoadCase { opt: 1, inputs: vec![(vec![2], f), (vec![2], 0)], bin: None });
    }
    for b in 0..3 {
        loads.push(LoadCase { opt: 0, inputs: vec![(vec![1, 2], 0)], bin: Some(first_rand_b + b) });
        loads.push(LoadCase { opt: 0, inputs: vec![(vec![1, 5], 0)], bin: Some(first_rand_b + b) });
    }
    let n_structured = loads.len();
    // random stream
    let n_random = if full { 6000 } else { 700 };
    for _ in 0..n_random {
        let ninp = 1 + rng.below(3);
        let mut inputs = vec![];
        for _ in 0..ninp {
            let fi = if rng.f64() < 0.04 { [i_nofile, i_bad][rng.below(2)] } else { first_rand + rng.below(n_rand_files) };
            let qlen = rng.below(4);
            let mut q: Vec<u32> = vec![];
            // bias towards keys that exist in the file under some field
            for _ in 0..qlen {
                let k = match &pfiles[fi] {
                    FileSpec::Recs(v) if !v.is_empty() && rng.f64() < 0.8 => {
                        let r = &v[rng.below(v.len())];
                        r.id.0[rng.below(6)].unwrap_or(1 + rng.below(nkeys + 1) as u32)
                    }
                    _ => 1 + rng.below(nkeys + 1) as u32,
                };
                q.push(k);
            }
            inputs.push((q, fi));
        }
        let opt = rng.below(6);
        // make most cases succeed: choose the option under which the first queried key is found
        let bin = if rng.f64() < 0.3 { None } else { Some(first_rand_b + rng.below(n_rand_b)) };
        loads.push(LoadCase { opt, inputs, bin });
    }
    // improve the success rate of the random stream: re-pick the option that matches most queries
    for c in loads.iter_mut().skip(n_structured) {
        if rng.f64() < 0.7 {
            let mut best = (0usize, c.opt);
            for o in 0..6 {
                let mut hits = 0;
                for (q, fi) in &c.inputs {
                    if let FileSpec::Recs(v) = &pfiles[*fi] {
                        hits += q.iter().filter(|k| v.iter().any(|r| r.id.0[o] == Some(**k))).count();
                    }
                }
                if hits > best.0 {
                    best = (hits, o);
                }
            }
            c.opt = best.1;
        }
    }

    // ---------------------------------------------------------------- run the loads
    let mut impl_loads = vec![];
    for (i, c) in loads.iter().enumerate() {
        let mut res = Map::new();
        let which: Vec<usize> = if full || i >= n_structured { vec![0, 1, 2] } else { vec![i % 3] };
        for w in which {
            match w {
                0 => res.insert(MPc::NAME.into(), load_value::<MPc>(&scratch, c)),
                1 => res.insert(MPr::NAME.into(), load_value::<MPr>(&scratch, c)),
                _ => res.insert(MVr::NAME.into(), load_value::<MVr>(&scratch, c)),
            };
        }
        impl_loads.push(json!({"case": c.json(), "impl": res}));
    }

    // ---------------------------------------------------------------- subset / from_records / new_binary
    let mut subs = vec![];
    let mut impl_subs = vec![];
    let n_sub = if full { 1500 } else { 250 };
    let mut tries = 0;
    while subs.len() < n_sub && tries < 50 * n_sub {
        tries += 1;
        let c = &loads[rng.below(loads.len())];
        let n: usize = c.inputs.iter().map(|(q, _)| q.len()).sum();
        if n == 0 {
            continue;
        }
        // only successful loads are interesting here
        if run_load::<MPr>(&scratch, c).is_err() {
            continue;
        }
        let l1 = 1 + rng.below(n.min(3) + 1);
        let idx: Vec<usize> = (0..l1).map(|_| rng.below(n)).collect();
        let l2 = 1 + rng.below(l1);
        let idx2: Vec<usize> = (0..l2).map(|_| rng.below(l1)).collect();
        let v = match subs.len() % 3 {
            0 => json!({MPc::NAME: subset_value::<MPc>(&scratch, c, &idx, &idx2)}),
            1 => json!({MPr::NAME: subset_value::<MPr>(&scratch, c, &idx, &idx2)}),
            _ => json!({MVr::NAME: subset_value::<MVr>(&scratch, c, &idx, &idx2)}),
        };
        impl_subs.push(json!({"case": c.json(), "idx": idx, "idx2": idx2, "impl": v}));
        subs.push((c.clone(), idx, idx2));
    }
    let mut nbs = vec![];
    let mut impl_nb = vec![];
    for i in 0..(if full { 60 } else { 12 }) {
        let k = if i % 4 == 0 { None } else { Some(rng.below(41) as i32 - 20) };
        let (t1, t2) = (1 + rng.below(50) as u32, 60 + rng.below(50) as u32);
        let v = match i % 3 {
            0 => json!({MPc::NAME: new_binary_value::<MPc>(t1, t2, k)}),
            1 => json!({MPr::NAME: new_binary_value::<MPr>(t1, t2, k)}),
            _ => json!({MVr::NAME: new_binary_value::<MVr>(t1, t2, k)}),
        };
        impl_nb.push(json!({"tags": [t1, t2], "k": k, "impl": v}));
        nbs.push(k);
    }

    // ---------------------------------------------------------------- group contribution
    let n_seg_cases = if full { 1500 } else { 220 };
    let mut segcases = vec![];
    let mut impl_homo = vec![];
    let mut impl_hetero = vec![];
    for ci in 0..n_seg_cases {
        let nkinds = 6u32;
        // segment records: kinds 1..6 (5: dipole, 6: quadrupole, 4: associating), sometimes one missing / duplicated
        let mut srecs: Vec<SegRec> = vec![];
        for kind in 1..=nkinds {
            if rng.f64() < 0.03 {
                continue;
            }
            let polar = match kind {
                4 => 3,
                5 => 1,
                6 => 2,
                3 => 4,
                _ => 0,
            };
            let mk = |rng: &mut Rng| SegRec {
                kind,
                mw: 40 + rng.below(60) as i64,
                m: 2 + rng.below(10) as i64,
                sigma: 16 + 3 * kind as i64 + if rng.f64() < 0.5 { 0 } else { 1 },
                eps: 150 + rng.below(200) as i64,
                polar,
                mu: 6 + rng.below(20) as i64,
            };
            srecs.push(mk(&mut rng));
            if rng.f64() < 0.08 {
                srecs.push(mk(&mut rng));
            }
        }
        for i in (1..srecs.len()).rev() {
            srecs.swap(i, rng.below(i + 1));
        }
        let opt = rng.below(6);
        let nch = 2 + rng.below(3);
        let mut chems = vec![];
        for ic in 0..nch {
            let len = 1 + rng.below(8);
            // mostly non-polar kinds; every fifth molecule is rich in polar groups (repeated dipolar / associating kinds)
            let p_plain = if rng.f64() < 0.2 { 0.5 } else { 0.95 };
            let segs: Vec<u32> = (0..len)
                .map(|_| if rng.f64() < p_plain { 1 + rng.below(3) as u32 } else { 4 + rng.below(3) as u32 })
                .collect();
            let bonds = if rng.f64() < 0.4 {
                None
            } else {
                // a random tree over the segments plus sometimes a ring closure, written in random direction
                let mut b: Vec<[usize; 2]> = (1..len)
                    .map(|i| {
                        let j = rng.below(i);
                        if rng.f64() < 0.5 {
                            [i, j]
                        } else {
                            [j, i]
                        }
                    })
                    .collect();
                if len > 2 && rng.f64() < 0.3 {
                    b.push([0, len - 1]);
                }
                Some(b)
            };
            // mostly distinct names under the selected identifier, sometimes a clash (the later record wins) or none
            let mut id = Id::random(&mut rng, 5, 0.85);
            let r = rng.f64();
            id.0[opt] = if r < 0.9 { Some(1 + ic as u32) } else if r < 0.95 { Some(1 + rng.below(nch) as u32) } else { None };
            chems.push(Chem { id, segs, bonds });
        }
        let qlen = 1 + rng.below(3);
        let mut query: Vec<u32> = vec![];
        for _ in 0..qlen {
            let k = if rng.f64() < 0.95 { 1 + rng.below(nch) as u32 } else { 6 + rng.below(2) as u32 };
            // mostly duplicate free
            if !query.contains(&k) || rng.f64() < 0.05 {
                query.push(k);
            }
        }
        if ci % 9 == 0 && !query.is_empty() {
            // duplicate stream
            let d = query[rng.below(query.len())];
            query.push(d);
        }
        let sbin = if rng.f64() < 0.15 {
            None
        } else {
            let n = rng.below(8);
            let kind = |rng: &mut Rng| if rng.f64() < 0.85 { 1 + rng.below(3) as u32 } else { 4 + rng.below(3) as u32 };
            let mut v: Vec<(u32, u32, i32)> = vec![];
            for _ in 0..n {
                if !v.is_empty() && rng.f64() < 0.15 {
                    let o = v[rng.below(v.len())];
                    let k = if rng.f64() < 0.5 { o.2 } else { rng.below(33) as i32 - 16 };
                    v.push((o.1, o.0, k));
                } else {
                    v.push((kind(&mut rng), kind(&mut rng), rng.below(33) as i32 - 16));
                }
            }
            Some(v)
        };
        let c = SegCase { opt, query, chems, srecs, sbin };
        let d = format!("{scratch}/seg");
        impl_homo.push(json!({"case": c.json(), "impl": run_homo(&d, &c, &mut rng)}));
        impl_hetero.push(json!({"case": c.json(), "impl": run_hetero(&d, &c)}));
        segcases.push(c);
    }

    // ---------------------------------------------------------------- Coq files
    let header = "From Coq Require Import String List NArith ZArith QArith.\nFrom FeosVerif Require Import ParamLookup Segments ParamSerde C14Run.\nImport ListNotations.\nOpen Scope string_scope.\nSet Printing Width 1000000.\nSet Printing Depth 1000000.\n";
    let mut coq = String::from(header);
    let pf: Vec<String> = pfiles
        .iter()
        .map(|f| match f {
            FileSpec::NoFile => "FNoFile".to_string(),
            FileSpec::BadJson => "FBadJson".to_string(),
            FileSpec::Recs(v) => format!("FRecords [{}]", v.iter().map(|r| format!("mkP {} {}%N", r.id.coq(), r.tag)).collect::<Vec<_>>().join("; ")),
        })
        .collect();
    writeln!(coq, "Definition pfiles : list (file (prec N)) := [\n {}].", pf.join(";\n ")).unwrap();
    let bf: Vec<String> = bfiles
        .iter()
        .map(|f| match f {
            FileSpec::NoFile => "FNoFile".to_string(),
            FileSpec::BadJson => "FBadJson".to_string(),
            FileSpec::Recs(v) => format!(
                "FRecords [{}]",
                v.iter().map(|r| format!("mkB {} {} {}", r.id1.coq(), r.id2.coq(), coq_z(r.k as i64))).collect::<Vec<_>>().join("; ")
            ),
        })
        .collect();
    writeln!(coq, "Definition bfiles : list (file (brec Z)) := [\n {}].", bf.join(";\n ")).unwrap();
    writeln!(coq, "Definition loads : list load_case := [\n {}].", loads.iter().map(|c| c.coq()).collect::<Vec<_>>().join(";\n ")).unwrap();
    writeln!(coq, "Eval vm_compute in (\"LOAD\", map (run_load pfiles bfiles) loads).").unwrap();
    writeln!(
        coq,
        "Definition subs : list (load_case * list N * list N) := [\n {}].",
        subs.iter()
            .map(|(c, i1, i2)| format!("({}, {}, {})", c.coq(), nlist(&i1.iter().map(|x| *x as u32).collect::<Vec<_>>()), nlist(&i2.iter().map(|x| *x as u32).collect::<Vec<_>>())))
            .collect::<Vec<_>>()
            .join(";\n ")
    )
    .unwrap();
    writeln!(coq, "Eval vm_compute in (\"SUBSET\", map (run_subset pfiles bfiles) subs).").unwrap();
    writeln!(
        coq,
        "Eval vm_compute in (\"NEWBIN\", map run_new_binary [{}]).",
        nbs.iter().map(|k| k.map_or("None".to_string(), |k| format!("Some {}", coq_z(k as i64)))).collect::<Vec<_>>().join("; ")
    )
    .unwrap();
    std::fs::write(format!("{}/lookup.v", cli.out), &coq).unwrap();

    // the reading of the property text decides whether a duplicated query must be rejected by from_json_segments
    let dup_check = cli.opt("--segments-dup-check").map_or(true, |s| s != "false");
    let mut coq = String::from(header);
    writeln!(coq, "Definition segcases : list seg_case := [\n {}].", segcases.iter().map(|c| c.coq()).collect::<Vec<_>>().join(";\n ")).unwrap();
    writeln!(coq, "Eval vm_compute in (\"HOMO\", map (run_segments {}) segcases).", dup_check).unwrap();
    writeln!(coq, "Eval vm_compute in (\"HETERO\", map (run_hetero {}) segcases).", dup_check).unwrap();
    std::fs::write(format!("{}/segments.v", cli.out), &coq).unwrap();

    // ---------------------------------------------------------------- binary association records (SAFT-VR Mie)
    let mut coq = String::from(header);
    let impl_assoc = assoc_cases(&mut rng, if full { 1500 } else { 200 }, &mut coq);
    std::fs::write(format!("{}/assoc.v", cli.out), &coq).unwrap();

    let mut coq = String::from(header);
    let impl_serde = serde_cases(&mut rng, if full { 2000 } else { 300 }, &mut coq);
    std::fs::write(format!("{}/serde.v", cli.out), &coq).unwrap();

    // ---------------------------------------------------------------- shipped files
    let pdir = configs::params();
    let mut shipped = vec![];
    let mut behaviour = vec![];
    for f in ["gross2001", "gross2002", "gross2005_fit", "gross2005_literature", "gross2006", "esper2023", "eller2022", "loetgeringlin2018", "rehner2020"] {
        let p = format!("{pdir}/pcsaft/{f}.json");
        shipped.push(file_roundtrip::<PureRecord<PcSaftRecord>>(&p));
        behaviour.push(behaviour_pcsaft(&p, if full { 10000 } else { 25 }));
    }
    // (rehner2023_binary.json is an empty file in the checkout; whether shipped files load is property C15)
    for f in ["gross2002_binary"] {
        shipped.push(file_roundtrip::<BinaryRecord<Identifier, PcSaftBinaryRecord>>(&format!("{pdir}/pcsaft/{f}.json")));
    }
    for f in ["sauer2014_homo", "loetgeringlin2015_homo", "rehner2023_homo"] {
        shipped.push(file_roundtrip::<SegmentRecord<PcSaftRecord>>(&format!("{pdir}/pcsaft/{f}.json")));
    }
    for f in ["sauer2014_hetero", "rehner2023_hetero"] {
        shipped.push(file_roundtrip::<SegmentRecord<GcPcSaftRecord>>(&format!("{pdir}/pcsaft/{f}.json")));
    }
    for f in ["rehner2023_homo_binary", "rehner2023_hetero_binary"] {
        shipped.push(file_roundtrip::<BinaryRecord<String, f64>>(&format!("{pdir}/pcsaft/{f}.json")));
    }
    shipped.push(file_roundtrip::<ChemicalRecord>(&format!("{pdir}/pcsaft/gc_substances.json")));
    shipped.push(file_roundtrip::<PureRecord<SaftVRMieRecord>>(&format!("{pdir}/saftvrmie/lafitte2013.json")));
    shipped.push(file_roundtrip::<PureRecord<ElectrolytePcSaftRecord>>(&format!("{pdir}/epcsaft/held2014_w_permittivity_added.json")));
    shipped.push(file_roundtrip::<BinaryRecord<Identifier, ElectrolytePcSaftBinaryRecord>>(&format!("{pdir}/epcsaft/held2014_binary.json")));
    for f in ["aasen2019", "aasen2019_fh2", "hammer2023"] {
        shipped.push(file_roundtrip::<PureRecord<SaftVRQMieRecord>>(&format!("{pdir}/saftvrqmie/{f}.json")));
    }
    for f in ["aasen2020_binary", "aasen2020_binary_fh2"] {
        shipped.push(file_roundtrip::<BinaryRecord<Identifier, SaftVRQMieBinaryRecord>>(&format!("{pdir}/saftvrqmie/{f}.json")));
    }
    shipped.push(file_roundtrip::<SegmentRecord<JobackRecord>>(&format!("{pdir}/ideal_gas/joback1987.json")));
    shipped.push(file_roundtrip::<PureRecord<DipprRecord>>(&format!("{pdir}/ideal_gas/poling2000.json")));
    let sweep_results = serde_sweep(&mut rng, if full { 3000 } else { 400 });

    let pf_json: Vec<Value> = pfiles.iter().map(|f| match f {
        FileSpec::NoFile => json!("<file does not exist>"),
        FileSpec::BadJson => json!("<malformed JSON>"),
        FileSpec::Recs(v) => Value::Array(v.iter().map(|r| json!({"identifier": r.id.json(), "molarweight(tag)": r.tag})).collect()),
    }).collect();
    let bf_json: Vec<Value> = bfiles.iter().map(|f| match f {
        FileSpec::NoFile => json!("<file does not exist>"),
        FileSpec::BadJson => json!("<malformed JSON>"),
        FileSpec::Recs(v) => Value::Array(v.iter().map(|r| json!({"id1": r.id1.json(), "id2": r.id2.json(), "k_ij*64": r.k})).collect()),
    }).collect();
    cli.write_impl(&json!({
        "scratch": scratch,
        "pure_files": pf_json,
        "binary_files": bf_json,
        "loads": impl_loads,
        "n_structured": n_structured,
        "n_exhaustive_queries": n_exhaustive_queries,
        "exhaustive_query_size": if full { 4 } else { 3 },
        "file_orders": n_ex_files,
        "subsets": impl_subs,
        "new_binary": impl_nb,
        "homo": impl_homo,
        "hetero": impl_hetero,
        "serde": impl_serde,
        "serde_sweep": sweep_results,
        "assoc": impl_assoc,
        "shipped": shipped,
        "behaviour": behaviour,
        "segments_dup_check": dup_check,
    }));
}
