//! exploration (temporary)
use feos::pcsaft::{PcSaftFunctional, PcSaftParameters};
use feos_core::parameter::{IdentifierOption, Parameter};
use feos_core::{PhaseEquilibrium, ReferenceSystem, State, StateBuilder};
use feos_dft::adsorption::{ExternalPotential, Pore1D, PoreSpecification};
use feos_dft::interface::PlanarInterface;
use feos_dft::{DFTProfile, DFTSolver, DFTSpecifications, Geometry, HelmholtzEnergyFunctional};
use feos_verif::configs::params;
use ndarray::{Array1, Dimension, Ix1};
use quantity::*;
use std::sync::Arc;

fn report<F: HelmholtzEnergyFunctional>(tag: &str, p: &DFTProfile<Ix1, F>, r: &Result<(), String>, spec: &Array1<f64>) {
    let rho = p.density.to_reduced();
    let mn = rho.iter().cloned().fold(f64::INFINITY, f64::min);
    let fin = rho.iter().all(|x| x.is_finite());
    let res = p.residual(false).map(|x| x.2).unwrap_or(f64::NAN);
    let log = p.solver_log.as_ref().map(|l| (l.residual().len(), l.residual().last().cloned())).unwrap_or((0, None));
    println!(
        "{tag}: result={:?} moles={:?} spec={:?} bulk={:?} res_norm={:e} min_rho={:e} finite={} log={:?}",
        r,
        p.moles().to_reduced().to_vec(),
        spec.to_vec(),
        p.bulk.partial_density.to_reduced().to_vec(),
        res,
        mn,
        fin,
        log
    );
}

fn main() {
    let p = Arc::new(
        PcSaftParameters::from_json(vec!["propane"], format!("{}/pcsaft/gross2001.json", params()), None, IdentifierOption::Name).unwrap(),
    );
    let func = Arc::new(PcSaftFunctional::new(p));
    let t = 200.0 * KELVIN;
    let tc = State::critical_point(&func, None, None, Default::default()).unwrap().temperature;
    let vle = PhaseEquilibrium::pure(&func, t, None, Default::default()).unwrap();
    let solvers: Vec<(&str, Option<DFTSolver>)> = vec![
        ("default", None),
        ("picard", Some(DFTSolver::new(None).picard_iteration(None, Some(2000), None, None))),
        ("picardlog+anderson", Some(DFTSolver::new(None).picard_iteration(Some(true), Some(50), Some(1e-5), None).anderson_mixing(None, None, None, None, None))),
        ("newton", Some(DFTSolver::new(None).newton(None, None, None, None))),
        ("anderson+newton", Some(DFTSolver::new(None).anderson_mixing(Some(true), Some(50), Some(1e-5), None, None).newton(None, None, None, None))),
    ];
    for fix in [false, true] {
        for (name, s) in &solvers {
            let mut pi = PlanarInterface::from_tanh(&vle, 512, 100.0 * ANGSTROM, tc, fix);
            let spec = pi.profile.moles().to_reduced();
            let r = pi.solve_inplace(s.as_ref(), false).map_err(|e| e.to_string());
            report(&format!("planar fix={fix} {name}"), &pi.profile, &r, &spec);
            println!("   gamma = {:?}", pi.surface_tension.map(|g| g.to_reduced()));
        }
    }
    // Moles spec on planar
    for (name, s) in &solvers {
        let mut pi = PlanarInterface::from_tanh(&vle, 512, 100.0 * ANGSTROM, tc, false);
        pi.profile.specification = DFTSpecifications::moles_from_profile(&pi.profile);
        let spec = pi.profile.moles().to_reduced();
        let r = pi.solve_inplace(s.as_ref(), false).map_err(|e| e.to_string());
        report(&format!("planar Moles {name}"), &pi.profile, &r, &spec);
    }
    // slit pore
    let bulk = StateBuilder::new(&func).temperature(300.0 * KELVIN).pressure(5.0 * BAR).build().unwrap();
    let pore = Pore1D::new(
        Geometry::Cartesian,
        20.0 * ANGSTROM,
        ExternalPotential::LJ93 { epsilon_k_ss: 10.0, sigma_ss: 3.0, rho_s: 0.08 },
        Some(256),
        None,
    );
    for (name, s) in &solvers {
        let mut pp = pore.initialize(&bulk, None, None).unwrap();
        let spec0 = pp.profile.moles().to_reduced();
        let r = pp.solve_inplace(s.as_ref(), false).map_err(|e| e.to_string());
        report(&format!("pore chem {name}"), &pp.profile, &r, &spec0);
        println!("   omega = {:?} ift = {:?}", pp.grand_potential.map(|g| g.to_reduced()), pp.interfacial_tension.map(|g| g.to_reduced()));
        if r.is_ok() {
            // now specify 1.1 x the converged amount
            let n = pp.profile.moles().to_reduced() * 1.1;
            for variant in ["Moles", "TotalMoles"] {
                let mut q = pp.clone();
                q.profile.specification = Arc::new(match variant {
                    "Moles" => DFTSpecifications::Moles { moles: n.clone() },
                    _ => DFTSpecifications::TotalMoles { total_moles: n.sum() },
                });
                let r = q.solve_inplace(s.as_ref(), false).map_err(|e| e.to_string());
                report(&format!("pore {variant} {name}"), &q.profile, &r, &n);
            }
        }
    }
    let _ = <Ix1 as Dimension>::NDIM;
}
