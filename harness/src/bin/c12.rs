//! C12 — converged equilibria do not depend on the initial guess or on the continuation order.
//! Runs the REAL implementation and writes
//!  * tie.v      : for every recorded driver call the failure pattern observed through the `verif_c12` hooks, to be
//!                 replayed by the executable model `ContinuationC12.Tie` (vm_compute) — guess origins, cascade stage
//!                 logs, diagram composition must be predicted exactly
//!  * impl.json  : the observed bookkeeping + the support search for H_unique (with/without guess, different
//!                 npoints / direction, diagram vs stand-alone) on the public API.
use feos::pcsaft::{PcSaft, PcSaftParameters};
use feos::ResidualModel;
use feos_core::parameter::{IdentifierOption, Parameter};
use feos_core::verif_c12::{verif_trace_start, verif_trace_take, VerifEvent};
use feos_core::{
    Components, Contributions, DensityInitialization, EosError, EquationOfState, IdealGas, PhaseDiagram, PhaseEquilibrium,
    ReferenceSystem, Residual, SolverOptions, State,
};
use num_dual::DualNum;
use feos_verif::configs::{self, Rng};
use ndarray::{arr1, Array1};
use quantity::{Moles, Pressure, Temperature};
use serde_json::{json, Value};
use std::panic::{catch_unwind, AssertUnwindSafe};
use std::sync::Arc;

type Eos = ResidualModel;
type Vle = PhaseEquilibrium<Eos, 2>;

/// constant-cp ideal gas (harness side, public trait) so that the h- and s-specified state constructors can be called
struct CpIdealGas {
    ncomp: usize,
}
impl Components for CpIdealGas {
    fn components(&self) -> usize {
        self.ncomp
    }
    fn subset(&self, component_list: &[usize]) -> Self {
        CpIdealGas { ncomp: component_list.len() }
    }
}
impl IdealGas for CpIdealGas {
    fn ln_lambda3<D: DualNum<f64> + Copy>(&self, temperature: D) -> Array1<D> {
        Array1::from_shape_fn(self.ncomp, |i| -temperature.ln() * (3.5 + 0.25 * i as f64) + 3.0)
    }
    fn ideal_gas_model(&self) -> String {
        "constant-cp ideal gas (C12 harness)".into()
    }
}

// ------------------------------------------------------------------------------------------------
// tolerances of the with/without-guess comparisons (relative; see notes/C12.md)
const TOL_PURE: f64 = 1e-9; // pure_t / pure_p stop at |dp| < 1e-12 p resp. |dT| < 1e-12 T; densities follow by one Newton step
const TOL_BD: f64 = 1e-7; // bubble/dew: ||(dmu, dp)|| < 1e-10 (Newton) in reduced units
const TOL_FLASH: f64 = 1e-6; // tp_flash: ||ln K update|| < 1e-8; plus 1e-8 / (relative width of the envelope), see flash_tol
const TOL_CRIT: f64 = 1e-6; // critical points: the Newton iteration stops at |step| < 1e-8 (reduced T, rho); the conditions are degenerate in rho
/// bubble/dew points under caller-supplied options: the OUTER tolerance (default 1e-10) decides about acceptance
const BD_OPT_FACTOR: f64 = 1000.0;
const TOL_STATE: f64 = 1e-8; // density iteration (relative 1e-10..1e-12) and Newton on T (|dT| < 1e-8 K) incl. the inner density iteration; worst observed 5.8e-10

fn err_kind(e: &EosError) -> String {
    let s = format!("{e:?}");
    s.split('(').next().unwrap_or("err").to_string()
}

fn guard<T>(f: impl FnOnce() -> Result<T, EosError>) -> Result<T, String> {
    match catch_unwind(AssertUnwindSafe(f)) {
        Ok(Ok(v)) => Ok(v),
        Ok(Err(e)) => Err(err_kind(&e)),
        Err(_) => Err("panic".into()),
    }
}

/// the flash stops on a 1e-8 change of ln K; in a narrow envelope (near an azeotrope) the phase compositions are
/// ill-conditioned by the inverse relative width of the envelope
fn flash_tol(pb: f64, pd: f64) -> f64 {
    TOL_FLASH + 1e-8 * pb / (pb - pd).abs().max(1e-300)
}

fn opts2() -> (SolverOptions, SolverOptions) {
    (SolverOptions::default(), SolverOptions::default())
}

fn bits_eq(a: &[f64], b: &[f64]) -> bool {
    a.len() == b.len() && a.iter().zip(b).all(|(x, y)| x.to_bits() == y.to_bits())
}

fn rel(a: f64, b: f64) -> f64 {
    if a == b {
        0.0
    } else {
        (a - b).abs() / a.abs().max(b.abs()).max(1e-300)
    }
}

// ------------------------------------------------------------------------------------------------
// hook trace -> calls

#[derive(Clone, Debug)]
struct Call {
    spec: Vec<f64>,
    guess: Option<Vec<f64>>,
    log: Vec<(u8, u8)>,
    result: Option<Vec<f64>>,
}

fn stage_code(s: &str) -> u8 {
    match s {
        "guess" => 0,
        "given" => 1,
        "ideal_gas" => 2,
        "spinodal" => 3,
        "stability_1" => 4,
        "stability_2" => 5,
        _ => 99,
    }
}

/// the calls of `solver` in a recorded trace (calls of the same solver do not nest)
fn parse_calls(evs: &[VerifEvent], solver: &str) -> Vec<Call> {
    let mut calls = Vec::new();
    let mut cur: Option<Call> = None;
    let mut pending: Option<(u8, bool)> = None; // (stage, iteration started)
    fn close(cur: &mut Option<Call>, pending: &mut Option<(u8, bool)>) {
        if let (Some(c), Some((s, started))) = (cur.as_mut(), pending.take()) {
            c.log.push((s, if started { 1 } else { 0 }));
        }
    }
    for e in evs {
        match e {
            VerifEvent::Enter { solver: s, spec, guess } if *s == solver => {
                cur = Some(Call { spec: spec.clone(), guess: guess.clone(), log: vec![], result: None });
                pending = None;
            }
            VerifEvent::Stage { solver: s, stage } if *s == solver => {
                close(&mut cur, &mut pending);
                pending = Some((stage_code(stage), false));
            }
            VerifEvent::IterStart { solver: s, .. } if *s == solver => {
                if let Some(p) = pending.as_mut() {
                    p.1 = true;
                }
            }
            VerifEvent::Converged { solver: s, result } if *s == solver => {
                if let (Some(c), Some((st, _))) = (cur.as_mut(), pending.take()) {
                    c.log.push((st, 2));
                    c.result = Some(result.clone());
                }
            }
            VerifEvent::Leave { solver: s } if *s == solver => {
                close(&mut cur, &mut pending);
                if let Some(c) = cur.take() {
                    calls.push(c);
                }
            }
            _ => {}
        }
    }
    calls
}

#[derive(Clone, Copy, PartialEq)]
enum Kind {
    Pure,
    Flash,
    Bd,
}

impl Kind {
    fn coq(&self) -> &'static str {
        match self {
            Kind::Pure => "Tie.KPure",
            Kind::Flash => "Tie.KFlash",
            Kind::Bd => "Tie.KBd",
        }
    }
    fn solver(&self) -> &'static str {
        match self {
            Kind::Pure => "pure_t",
            Kind::Flash => "tp_flash",
            Kind::Bd => "bubble_dew_point",
        }
    }
}

/// the guess a later call would receive if it were built from the result of `c` (None: c did not converge)
fn next_guess(kind: Kind, c: &Call, consumer: &Call) -> Option<Vec<f64>> {
    let r = c.result.as_ref()?;
    Some(match kind {
        Kind::Pure | Kind::Flash => r.clone(),
        Kind::Bd => {
            // spec = [is_pressure_spec, value, bubble, x...]; result = [T, p1, p2, x1.., x2..]
            let n = c.spec.len() - 3;
            let tp = if consumer.spec[0] == 0.0 {
                if c.spec[2] == 1.0 {
                    r[2]
                } else {
                    r[1]
                }
            } else {
                r[0]
            };
            let mut v = vec![tp];
            v.extend(&r[3 + n..3 + 2 * n]);
            v
        }
    })
}

const UNKNOWN: usize = 9999;

/// origin code of every call: 0 = the reset value, j+1 = the result of call j, UNKNOWN = neither
fn origins(kind: Kind, calls: &[Call], reset: &Option<Vec<f64>>) -> Vec<usize> {
    let mut out = Vec::new();
    for (k, c) in calls.iter().enumerate() {
        let o = match (&c.guess, reset) {
            (None, None) => 0,
            (Some(g), Some(r)) if bits_eq(g, r) => 0,
            (Some(g), _) => {
                let mut found = UNKNOWN;
                for j in (0..k).rev() {
                    if let Some(ng) = next_guess(kind, &calls[j], c) {
                        let swapped = kind == Kind::Pure && g.len() == 3 && bits_eq(&[g[0], g[2], g[1]], &ng);
                        if bits_eq(g, &ng) || swapped {
                            found = j + 1;
                            break;
                        }
                    }
                }
                found
            }
            (None, Some(_)) => UNKNOWN,
        };
        out.push(o);
    }
    out
}

struct TieCase {
    name: String,
    kind: Kind,
    reset_given: bool,
    calls: Vec<Call>,
    origins: Vec<usize>,
    /// ids of the states of the returned diagram (call index; 2000/2001 end points; 3000 critical point; 1000+i second branch; UNKNOWN)
    observed_states: Vec<usize>,
    /// how the model assembles the diagram: "crit" | "plain" | "binary_bubble" | "binary_dew" | "vlle:<n1>"
    assembly: String,
    info: Value,
}

fn coq_table(calls: &[Call]) -> String {
    let mut items = Vec::new();
    for (p, c) in calls.iter().enumerate() {
        for (s, o) in &c.log {
            items.push(format!("({p}, {s}, {o})"));
        }
    }
    format!("[{}]", items.join("; "))
}

fn emit_tie(cases: &[TieCase], singles: &[(String, Kind, Call)]) -> String {
    let mut s = String::from(
        "From Coq Require Import List Arith String.\nImport ListNotations.\nFrom FeosVerif Require Import ContinuationC12.\nOpen Scope string_scope.\n\n",
    );
    for c in cases {
        let reset = if c.reset_given { "true" } else { "false" };
        if let Some(rest) = c.assembly.strip_prefix("dew:") {
            let mut it = rest.split(':');
            let n_t: usize = it.next().unwrap().parse().unwrap();
            let n_p: usize = it.next().unwrap().parse().unwrap();
            let (a, b) = c.calls.split_at(n_t);
            let lp = format!("Tie.loop {} {} false {}", c.kind.coq(), coq_table(a), a.len());
            // phase_envelope.rs:100-103: the pressure stage only runs when the last temperature point converged
            let ps = format!(
                "(if existsb (fun i => Nat.eqb i {}) (snd ({lp})) then Tie.pstage {} {} else ([], []))",
                n_t.wrapping_sub(1),
                coq_table(b),
                n_p
            );
            s += &format!("Eval vm_compute in (\"LOOP\", \"{}#T\", {}).\n", c.name, lp);
            s += &format!("Eval vm_compute in (\"PSTAGE\", \"{}#P\", {}).\n", c.name, ps);
            // phase_envelope.rs:100-103: without a last temperature-stage state the diagram ends there (no critical point)
            s += &format!(
                "Eval vm_compute in (\"ASM\", \"{}\", if existsb (fun i => Nat.eqb i {}) (snd ({lp})) then (snd ({lp}) ++ map (fun i => 1000 + i) (snd ({ps})) ++ [3000])%list else snd ({lp})).\n",
                c.name,
                n_t.wrapping_sub(1)
            );
            let sh: Vec<String> = a.iter().zip(&c.origins).map(|(cl, o)| format!("({}, {})", o, if cl.result.is_some() { "true" } else { "false" })).collect();
            s += &format!("Eval vm_compute in (\"CLASS\", \"{}#T\", Tie.class_ok [{}]).\n", c.name, sh.join("; "));
            let sh: Vec<String> = b.iter().zip(&c.origins[n_t..]).map(|(cl, o)| format!("({}, {})", o, if cl.result.is_some() { "true" } else { "false" })).collect();
            s += &format!("Eval vm_compute in (\"CLASS\", \"{}#P\", Tie.class_ok [{}]).\n", c.name, sh.join("; "));
            continue;
        }
        if let Some(n1) = c.assembly.strip_prefix("vlle:") {
            let n1: usize = n1.parse().unwrap();
            let (a, b) = c.calls.split_at(n1);
            s += &format!(
                "Eval vm_compute in (\"LOOP\", \"{}#1\", Tie.loop {} {} {} {}).\n",
                c.name,
                c.kind.coq(),
                coq_table(a),
                reset,
                a.len()
            );
            s += &format!(
                "Eval vm_compute in (\"LOOP\", \"{}#2\", Tie.loop {} {} {} {}).\n",
                c.name,
                c.kind.coq(),
                coq_table(b),
                reset,
                b.len()
            );
            s += &format!(
                "Eval vm_compute in (\"ASM\", \"{}\", Tie.vlle (snd (Tie.loop {} {} {} {})) (snd (Tie.loop {} {} {} {}))).\n",
                c.name,
                c.kind.coq(),
                coq_table(a),
                reset,
                a.len(),
                c.kind.coq(),
                coq_table(b),
                reset,
                b.len()
            );
        } else {
            let lp = format!("Tie.loop {} {} {} {}", c.kind.coq(), coq_table(&c.calls), reset, c.calls.len());
            s += &format!("Eval vm_compute in (\"LOOP\", \"{}\", {}).\n", c.name, lp);
            let asm = match c.assembly.as_str() {
                "crit" => format!("(snd ({lp}) ++ [3000])%list"),
                "binary_bubble" => format!("Tie.binary true (snd ({lp}))"),
                "binary_dew" => format!("Tie.binary false (snd ({lp}))"),
                _ => format!("snd ({lp})"),
            };
            s += &format!("Eval vm_compute in (\"ASM\", \"{}\", {}).\n", c.name, asm);
        }
        let sh: Vec<String> = c
            .calls
            .iter()
            .zip(&c.origins)
            .map(|(cl, o)| format!("({}, {})", o, if cl.result.is_some() { "true" } else { "false" }))
            .collect();
        if let Some(n1) = c.assembly.strip_prefix("vlle:") {
            let n1: usize = n1.parse().unwrap();
            s += &format!("Eval vm_compute in (\"CLASS\", \"{}#1\", Tie.class_ok [{}]).\n", c.name, sh[..n1].join("; "));
            // origins of the second branch are relative to the whole call list: shift
            let sh2: Vec<String> = c.calls[n1..]
                .iter()
                .zip(&c.origins[n1..])
                .map(|(cl, o)| {
                    let o2 = if *o == 0 || *o == UNKNOWN { *o } else if *o > n1 { *o - n1 } else { UNKNOWN };
                    format!("({}, {})", o2, if cl.result.is_some() { "true" } else { "false" })
                })
                .collect();
            s += &format!("Eval vm_compute in (\"CLASS\", \"{}#2\", Tie.class_ok [{}]).\n", c.name, sh2.join("; "));
        } else {
            s += &format!("Eval vm_compute in (\"CLASS\", \"{}\", Tie.class_ok [{}]).\n", c.name, sh.join("; "));
        }
    }
    for (name, kind, c) in singles {
        s += &format!(
            "Eval vm_compute in (\"CALL\", \"{}\", Tie.call {} {} {}).\n",
            name,
            kind.coq(),
            coq_table(std::slice::from_ref(c)),
            if c.guess.is_some() { "true" } else { "false" }
        );
    }
    s
}

fn call_json(c: &Call, origin: usize) -> Value {
    json!({"spec": c.spec, "guess": c.guess, "origin": origin, "log": c.log.iter().map(|(a, b)| vec![*a, *b]).collect::<Vec<_>>(), "ok": c.result.is_some()})
}

fn tie_json(c: &TieCase) -> Value {
    json!({
        "name": c.name,
        "kind": c.kind.solver(),
        "reset_given": c.reset_given,
        "assembly": c.assembly,
        "calls": c.calls.iter().zip(&c.origins).map(|(cl, o)| call_json(cl, *o)).collect::<Vec<_>>(),
        "observed_states": c.observed_states,
        "info": c.info,
    })
}

// ------------------------------------------------------------------------------------------------
// systems

#[derive(Clone)]
struct Sys {
    name: String,
    eos: Arc<Eos>,
    tc: Vec<f64>,
}

fn pcsaft(names: &[&str]) -> Arc<Eos> {
    let p = PcSaftParameters::from_json(
        names.to_vec(),
        format!("{}/pcsaft/gross2001.json", configs::params()),
        None,
        IdentifierOption::Name,
    )
    .unwrap();
    Arc::new(ResidualModel::PcSaft(PcSaft::new(Arc::new(p))))
}

fn tc_of(eos: &Arc<Eos>) -> Option<f64> {
    guard(|| State::critical_point(eos, None, None, SolverOptions::default())).ok().map(|s| s.temperature.to_reduced())
}

fn pure_systems(full: bool) -> Vec<Sys> {
    let mut v = Vec::new();
    for c in configs::all(full) {
        if c.ncomp == 1 && !c.name.starts_with("epcsaft") && !c.name.starts_with("saftvrqmie") {
            if let Some(tc) = tc_of(&c.model) {
                v.push(Sys { name: c.name.clone(), eos: c.model.clone(), tc: vec![tc] });
            }
        }
    }
    let extra: &[&str] = if full {
        &["methane", "hexane", "decane", "benzene", "toluene", "cyclohexane", "eicosane", "ethylene", "isobutane"]
    } else {
        &["hexane", "benzene", "eicosane"]
    };
    for n in extra {
        let eos = pcsaft(&[n]);
        if let Some(tc) = tc_of(&eos) {
            v.push(Sys { name: format!("pcsaft_{n}"), eos, tc: vec![tc] });
        }
    }
    v
}

/// SAFT-VR Mie records (several of them have a second, unphysical solution of the criticality conditions)
fn saftvrmie_systems(full: bool) -> Vec<Sys> {
    let names: &[&str] = if full {
        &["methane", "ethane", "propane", "n-butane", "pentane", "hexane", "heptane", "octane", "nonane", "decane", "dodecane", "pentadecane", "eicosane", "carbon dioxide", "benzene", "toluene"]
    } else {
        &["hexane", "decane", "toluene", "propane"]
    };
    let mut v = Vec::new();
    for n in names {
        let eos = Arc::new(ResidualModel::SaftVRMie(configs::saftvrmie(&[n])));
        if let Some(tc) = tc_of(&eos) {
            v.push(Sys { name: format!("saftvrmie_{n}"), eos, tc: vec![tc] });
        }
    }
    v
}

/// wide-boiling pairs (still inside the window T_c ratio < 1.8): the composition of the incipient phase is sensitive
/// to where the outer loop stops
const WIDE_QUICK: &[(&str, &str)] = &[("ethane", "hexane"), ("propane", "decane")];
const WIDE_FULL: &[(&str, &str)] = &[("ethane", "hexane"), ("propane", "decane"), ("butane", "decane"), ("ethane", "pentane"), ("propane", "octane"), ("methane", "ethane")];

fn wide_systems(full: bool) -> Vec<Sys> {
    let mut v = Vec::new();
    for (a, b) in if full { WIDE_FULL } else { WIDE_QUICK } {
        if let (Some(tca), Some(tcb)) = (tc_of(&pcsaft(&[a])), tc_of(&pcsaft(&[b]))) {
            if tca.max(tcb) / tca.min(tcb) < 1.8 {
                v.push(Sys { name: format!("pcsaft_{a}_{b}"), eos: pcsaft(&[a, b]), tc: vec![tca, tcb] });
            }
        }
    }
    v
}

const PAIRS_QUICK: &[(&str, &str)] = &[("propane", "butane"), ("hexane", "octane"), ("benzene", "toluene")];
const PAIRS_FULL: &[(&str, &str)] = &[
    ("propane", "butane"),
    ("hexane", "octane"),
    ("benzene", "toluene"),
    ("butane", "hexane"),
    ("pentane", "heptane"),
    ("cyclohexane", "benzene"),
    ("heptane", "decane"),
    ("ethane", "propane"),
    ("isobutane", "butane"),
    ("toluene", "octane"),
];

fn binary_systems(full: bool) -> Vec<Sys> {
    let mut v = Vec::new();
    for (a, b) in if full { PAIRS_FULL } else { PAIRS_QUICK } {
        let tca = tc_of(&pcsaft(&[a]));
        let tcb = tc_of(&pcsaft(&[b]));
        if let (Some(tca), Some(tcb)) = (tca, tcb) {
            if tca.max(tcb) / tca.min(tcb) < 1.8 {
                v.push(Sys { name: format!("pcsaft_{a}_{b}"), eos: pcsaft(&[a, b]), tc: vec![tca, tcb] });
            }
        }
    }
    v
}

fn swapped(s: &Sys) -> Sys {
    let names: Vec<&str> = s.name.trim_start_matches("pcsaft_").split('_').collect();
    Sys { name: format!("pcsaft_{}_{}", names[1], names[0]), eos: pcsaft(&[names[1], names[0]]), tc: vec![s.tc[1], s.tc[0]] }
}

// ------------------------------------------------------------------------------------------------
// observations of equilibria

fn vle_vec(v: &Vle) -> Vec<f64> {
    // T, p, rho_v, rho_l, y..., x...
    let mut r = vec![
        v.vapor().temperature.to_reduced(),
        v.vapor().pressure(Contributions::Total).to_reduced(),
        v.vapor().density.to_reduced(),
        v.liquid().density.to_reduced(),
    ];
    r.extend(v.vapor().molefracs.iter());
    r.extend(v.liquid().molefracs.iter());
    r
}

fn max_rel(a: &[f64], b: &[f64]) -> f64 {
    a.iter().zip(b).map(|(x, y)| if x.abs().max(y.abs()) < 1e-12 { (x - y).abs() } else { rel(*x, *y) }).fold(0.0, f64::max)
}

struct Stats {
    comparisons: usize,
    both_ok: usize,
    guess_only_ok: usize,
    none_only_ok: usize,
    both_fail: usize,
    worst: f64,
    by_kind: std::collections::BTreeMap<String, (usize, usize, f64)>,
    failures: Vec<Value>,
    notes: Vec<Value>,
    samples: Vec<Value>,
}

impl Stats {
    fn new() -> Self {
        Stats { comparisons: 0, both_ok: 0, guess_only_ok: 0, none_only_ok: 0, both_fail: 0, worst: 0.0, by_kind: Default::default(), failures: vec![], notes: vec![], samples: vec![] }
    }
    /// compare a result obtained with a guess with the stand-alone one
    fn cmp(&mut self, what: &str, key: Value, with: &Result<Vec<f64>, String>, without: &Result<Vec<f64>, String>, tol: f64) {
        self.comparisons += 1;
        let ent = self.by_kind.entry(what.to_string()).or_insert((0, 0, 0.0));
        ent.0 += 1;
        match (with, without) {
            (Ok(a), Ok(b)) => {
                self.both_ok += 1;
                let d = max_rel(a, b);
                ent.1 += 1;
                if d > ent.2 {
                    ent.2 = d;
                }
                if d.is_nan() || d > tol {
                    self.failures.push(json!({"what": what, "key": key, "with_guess": a, "without_guess": b, "max_rel_diff": d, "tol": tol,
                        "broken": "H_unique: the result accepted with the guess differs from the stand-alone result"}));
                } else {
                    self.worst = self.worst.max(d);
                }
                if self.samples.len() < 6 {
                    self.samples.push(json!({"what": what, "key": key, "with_guess": a, "without_guess": b, "max_rel_diff": d}));
                }
            }
            (Ok(_), Err(e)) => {
                self.guess_only_ok += 1;
                if self.notes.len() < 40 {
                    self.notes.push(json!({"what": what, "key": key, "note": format!("converges only with the guess (stand-alone: {e})")}));
                }
            }
            (Err(e), Ok(_)) => {
                self.none_only_ok += 1;
                if self.notes.len() < 40 {
                    self.notes.push(json!({"what": what, "key": key, "note": format!("fails with the guess ({e}), converges stand-alone")}));
                }
            }
            (Err(_), Err(_)) => self.both_fail += 1,
        }
    }
}

/// the specification survives the guess: a returned equilibrium is AT the requested temperature / pressure
/// (v = [T, p, ...] as produced by vle_vec / crit vectors); T must be reproduced exactly, p to 1e-7 relative
fn spec_check(out: &mut Vec<Value>, what: &str, key: &Value, r: &Result<Vec<f64>, String>, t: Option<f64>, p: Option<f64>) {
    if let Ok(v) = r {
        let bad_t = t.map(|t| rel(v[0], t) > 1e-12).unwrap_or(false);
        let bad_p = p.map(|p| rel(v[1], p) > 1e-7).unwrap_or(false);
        if bad_t || bad_p {
            out.push(json!({"key": key, "call": what, "result": v, "specified_T": t, "specified_p": p,
                "broken": format!("{what}: the returned state is not at the specified {} (diagram_accepted / accepted_only: the acceptance test is taken at the requested point)",
                    if bad_t { "temperature" } else { "pressure" })}));
        }
    }
}

// ------------------------------------------------------------------------------------------------
// recorded drivers

fn match_state(kind: Kind, calls: &[Call], st: &Vle) -> usize {
    for (j, c) in calls.iter().enumerate() {
        if let Some(r) = &c.result {
            let hit = match kind {
                // (the hook records the two branches in iteration order; the returned equilibrium is ordered by density)
                Kind::Pure => {
                    bits_eq(r, &[st.vapor().temperature.to_reduced(), st.vapor().density.to_reduced(), st.liquid().density.to_reduced()])
                        || bits_eq(r, &[st.vapor().temperature.to_reduced(), st.liquid().density.to_reduced(), st.vapor().density.to_reduced()])
                }
                Kind::Flash => {
                    let mut v = vec![st.vapor().temperature.to_reduced(), st.vapor().density.to_reduced(), st.liquid().density.to_reduced()];
                    v.extend(st.vapor().molefracs.iter());
                    v.extend(st.liquid().molefracs.iter());
                    bits_eq(r, &v)
                }
                Kind::Bd => {
                    let n = c.spec.len() - 3;
                    let bubble = c.spec[2] == 1.0;
                    let (s1, s2) = if bubble { (st.liquid(), st.vapor()) } else { (st.vapor(), st.liquid()) };
                    let mut v = vec![s1.temperature.to_reduced(), s1.pressure(Contributions::Total).to_reduced(), s2.pressure(Contributions::Total).to_reduced()];
                    v.extend(s1.molefracs.iter());
                    v.extend(s2.molefracs.iter());
                    let _ = n;
                    bits_eq(r, &v)
                }
            };
            if hit {
                return j;
            }
        }
    }
    UNKNOWN
}

fn is_crit(st: &Vle) -> bool {
    st.vapor().density.to_reduced().to_bits() == st.liquid().density.to_reduced().to_bits()
}

fn record_pure(sys: &Sys, tmin_frac: f64, npoints: usize) -> Option<(TieCase, PhaseDiagram<Eos, 2>)> {
    let tmin = Temperature::from_reduced(tmin_frac * sys.tc[0]);
    verif_trace_start();
    let dia = guard(|| PhaseDiagram::pure(&sys.eos, tmin, npoints, None, SolverOptions::default()));
    let evs = verif_trace_take();
    let dia = dia.ok()?;
    let calls = parse_calls(&evs, "pure_t");
    let origins = origins(Kind::Pure, &calls, &None);
    let observed: Vec<usize> = dia.states.iter().map(|s| if is_crit(s) { 3000 } else { match_state(Kind::Pure, &calls, s) }).collect();
    let temps: Vec<f64> = calls.iter().map(|c| c.spec[0]).collect();
    Some((
        TieCase {
            name: format!("pure:{}:{}:{}", sys.name, tmin_frac, npoints),
            kind: Kind::Pure,
            reset_given: false,
            calls,
            origins,
            observed_states: observed,
            assembly: "crit".into(),
            info: json!({"driver": "PhaseDiagram::pure", "system": sys.name, "T_min": tmin.to_reduced(), "npoints": npoints, "T_c": sys.tc[0], "temperatures": temps}),
        },
        dia,
    ))
}

/// pure-component end points: 2000 = the one the traversal starts from, 2001 = the other one
fn end_id_dir(st: &Vle, from_zero: bool) -> Option<usize> {
    let x = st.liquid().molefracs[0];
    if x == 0.0 {
        Some(if from_zero { 2000 } else { 2001 })
    } else if x == 1.0 {
        Some(if from_zero { 2001 } else { 2000 })
    } else {
        None
    }
}

fn record_binary(sys: &Sys, t_frac: f64, npoints: usize, x_lle: Option<(f64, f64)>) -> Option<(TieCase, PhaseDiagram<Eos, 2>)> {
    let t = Temperature::from_reduced(t_frac * sys.tc[0].min(sys.tc[1]));
    verif_trace_start();
    let dia = guard(|| PhaseDiagram::binary_vle(&sys.eos, t, Some(npoints), x_lle, opts2()));
    let evs = verif_trace_take();
    let dia = dia.ok()?;
    let calls = parse_calls(&evs, "bubble_dew_point");
    if calls.is_empty() {
        return None;
    }
    let from_zero = x_lle.is_some() || calls[0].spec[3] < 0.5;
    let end_id = |s: &Vle| end_id_dir(s, from_zero);
    let (assembly, n1) = match x_lle {
        None => ("binary_bubble".to_string(), calls.len()),
        Some(_) => {
            // the first branch runs x from 0 upwards, the second from 1 downwards
            let n1 = calls.iter().position(|c| c.spec[3] > x_lle.unwrap().0 + 1e-9).unwrap_or(calls.len());
            (format!("vlle:{n1}"), n1)
        }
    };
    // reset value = the guess of the first call of a branch (pressure only): checked against the end point state below
    let mut origins_all = Vec::new();
    let mut reset_is_endpoint = true;
    for (lo, hi, endpoint) in [(0usize, n1, 2000usize), (n1, calls.len(), 2001usize)] {
        if lo == hi {
            continue;
        }
        let reset = calls[lo].guess.clone();
        let ep = dia.states.iter().find(|s| end_id(s) == Some(endpoint));
        match (&reset, ep) {
            (Some(r), Some(ep)) => {
                if !(r.len() == 1 && r[0].to_bits() == ep.vapor().pressure(Contributions::Total).to_reduced().to_bits()) {
                    reset_is_endpoint = false;
                }
            }
            _ => reset_is_endpoint = false,
        }
        let o = origins(Kind::Bd, &calls[lo..hi], &reset);
        origins_all.extend(o.into_iter().map(|x| if x == 0 || x == UNKNOWN { x } else { x + lo }));
    }
    let observed: Vec<usize> = dia
        .states
        .iter()
        .map(|s| {
            // the second end point is the binary critical point when the lighter component is supercritical
            end_id(s).or(if is_crit(s) { Some(2001) } else { None }).unwrap_or_else(|| {
                let j = match_state(Kind::Bd, &calls, s);
                if j != UNKNOWN && j >= n1 {
                    1000 + (j - n1)
                } else {
                    j
                }
            })
        })
        .collect();
    let xs: Vec<f64> = calls.iter().map(|c| c.spec[3]).collect();
    Some((
        TieCase {
            name: format!("binary:{}:{}:{}:{}", sys.name, t_frac, npoints, x_lle.map(|x| format!("{}-{}", x.0, x.1)).unwrap_or("full".into())),
            kind: Kind::Bd,
            reset_given: true,
            calls,
            origins: origins_all,
            observed_states: observed,
            assembly,
            info: json!({"driver": "PhaseDiagram::binary_vle", "system": sys.name, "T": t.to_reduced(), "npoints": npoints, "x_lle": x_lle.map(|x| vec![x.0, x.1]),
                "x": xs, "reset_is_endpoint_pressure": reset_is_endpoint}),
        },
        dia,
    ))
}

fn record_bubble_line(sys: &Sys, x1: f64, tmin_frac: f64, npoints: usize) -> Option<(TieCase, PhaseDiagram<Eos, 2>)> {
    let moles = Moles::from_reduced(arr1(&[x1, 1.0 - x1]));
    let tmin = Temperature::from_reduced(tmin_frac * sys.tc[0].min(sys.tc[1]));
    verif_trace_start();
    let dia = guard(|| PhaseDiagram::bubble_point_line(&sys.eos, &moles, tmin, npoints, None, opts2()));
    let evs = verif_trace_take();
    let dia = dia.ok()?;
    let calls = parse_calls(&evs, "bubble_dew_point");
    let origins = origins(Kind::Bd, &calls, &None);
    let observed: Vec<usize> = dia.states.iter().map(|s| if is_crit(s) { 3000 } else { match_state(Kind::Bd, &calls, s) }).collect();
    let temps: Vec<f64> = calls.iter().map(|c| c.spec[1]).collect();
    Some((
        TieCase {
            name: format!("bubble_line:{}:{}:{}:{}", sys.name, x1, tmin_frac, npoints),
            kind: Kind::Bd,
            reset_given: false,
            calls,
            origins,
            observed_states: observed,
            assembly: "crit".into(),
            info: json!({"driver": "PhaseDiagram::bubble_point_line", "system": sys.name, "x1": x1, "T_min": tmin.to_reduced(), "npoints": npoints, "temperatures": temps}),
        },
        dia,
    ))
}

fn record_dew_line(sys: &Sys, y1: f64, tmin_frac: f64, npoints: usize) -> Result<(TieCase, PhaseDiagram<Eos, 2>), Value> {
    let moles = Moles::from_reduced(arr1(&[y1, 1.0 - y1]));
    let tmin = Temperature::from_reduced(tmin_frac * sys.tc[0].min(sys.tc[1]));
    let info = json!({"driver": "PhaseDiagram::dew_point_line", "system": sys.name, "y1": y1, "T_min": tmin.to_reduced(), "npoints": npoints,
        "call": "PhaseDiagram::dew_point_line(eos, moles = [y1, 1 - y1], T_min, npoints, None, default options)"});
    verif_trace_start();
    let dia = guard(|| PhaseDiagram::dew_point_line(&sys.eos, &moles, tmin, npoints, None, opts2()));
    let evs = verif_trace_take();
    let calls = parse_calls(&evs, "bubble_dew_point");
    let pattern: String = calls.iter().map(|c| if c.result.is_some() { if c.spec[0] == 0.0 { 'T' } else { 'P' } } else { 'x' }).collect();
    let dia = match dia {
        Ok(d) => d,
        Err(e) => {
            let mut i = info.clone();
            i["error"] = json!(e);
            i["pattern"] = json!(pattern);
            return Err(i);
        }
    };
    let n_t = calls.iter().filter(|c| c.spec[0] == 0.0).count();
    let all = origins(Kind::Bd, &calls, &None);
    let last_t = (0..n_t).rev().find(|j| calls[*j].result.is_some());
    let origins: Vec<usize> = all
        .iter()
        .enumerate()
        .map(|(j, o)| {
            if j < n_t || *o == UNKNOWN {
                *o
            } else if j == n_t {
                if Some(*o) == last_t.map(|l| l + 1) && last_t == Some(n_t - 1) {
                    0
                } else {
                    UNKNOWN
                }
            } else if *o > n_t {
                *o - n_t
            } else {
                UNKNOWN
            }
        })
        .collect();
    let observed: Vec<usize> = dia
        .states
        .iter()
        .map(|s| {
            if is_crit(s) {
                3000
            } else {
                let j = match_state(Kind::Bd, &calls, s);
                if j != UNKNOWN && j >= n_t {
                    1000 + (j - n_t)
                } else {
                    j
                }
            }
        })
        .collect();
    let mut info = info;
    info["pattern"] = json!(pattern);
    info["n_pressure_points"] = json!(npoints - npoints / 2);
    Ok((
        TieCase {
            name: format!("dew_line:{}:{}:{}:{}", sys.name, y1, tmin_frac, npoints),
            kind: Kind::Bd,
            reset_given: false,
            calls,
            origins,
            observed_states: observed,
            assembly: format!("dew:{}:{}", n_t, npoints - npoints / 2),
            info,
        },
        dia,
    ))
}

fn record_lle(sys: &Sys, t_frac: f64, z1: f64, p_lo: f64, p_hi: f64, npoints: usize) -> Option<(TieCase, PhaseDiagram<Eos, 2>)> {
    let t = Temperature::from_reduced(t_frac * sys.tc[0].min(sys.tc[1]));
    let feed = Moles::from_reduced(arr1(&[z1, 1.0 - z1]));
    verif_trace_start();
    let dia = guard(|| PhaseDiagram::lle(&sys.eos, t, &feed, Pressure::from_reduced(p_lo), Pressure::from_reduced(p_hi), Some(npoints)));
    let evs = verif_trace_take();
    let dia = dia.ok()?;
    let calls = parse_calls(&evs, "tp_flash");
    let origins = origins(Kind::Flash, &calls, &None);
    let observed: Vec<usize> = dia.states.iter().map(|s| match_state(Kind::Flash, &calls, s)).collect();
    let ps: Vec<f64> = calls.iter().map(|c| c.spec[1]).collect();
    Some((
        TieCase {
            name: format!("lle:{}:{}:{}:{}", sys.name, t_frac, z1, npoints),
            kind: Kind::Flash,
            reset_given: false,
            calls,
            origins,
            observed_states: observed,
            assembly: "plain".into(),
            info: json!({"driver": "PhaseDiagram::lle (flash continuation through the two-phase region)", "system": sys.name, "T": t.to_reduced(), "z1": z1, "p_lo": p_lo, "p_hi": p_hi, "npoints": npoints, "pressures": ps}),
        },
        dia,
    ))
}

/// the same driver with a pressure specification: a T-x-y diagram from flashes, continuation in temperature
fn record_lle_p(sys: &Sys, p: f64, z1: f64, t_lo: f64, t_hi: f64, npoints: usize) -> Option<(TieCase, PhaseDiagram<Eos, 2>)> {
    let feed = Moles::from_reduced(arr1(&[z1, 1.0 - z1]));
    verif_trace_start();
    let dia = guard(|| PhaseDiagram::lle(&sys.eos, Pressure::from_reduced(p), &feed, Temperature::from_reduced(t_lo), Temperature::from_reduced(t_hi), Some(npoints)));
    let evs = verif_trace_take();
    let dia = dia.ok()?;
    let calls = parse_calls(&evs, "tp_flash");
    let origins = origins(Kind::Flash, &calls, &None);
    let observed: Vec<usize> = dia.states.iter().map(|s| match_state(Kind::Flash, &calls, s)).collect();
    let ts: Vec<f64> = calls.iter().map(|c| c.spec[0]).collect();
    Some((
        TieCase {
            name: format!("lle_p:{}:{}:{}:{}", sys.name, p, z1, npoints),
            kind: Kind::Flash,
            reset_given: false,
            calls,
            origins,
            observed_states: observed,
            assembly: "plain".into(),
            info: json!({"driver": "PhaseDiagram::lle (pressure specification: flash continuation in temperature)", "system": sys.name, "p": p, "z1": z1, "T_lo": t_lo, "T_hi": t_hi, "npoints": npoints, "temperatures": ts}),
        },
        dia,
    ))
}

// ------------------------------------------------------------------------------------------------
// stand-alone solves

fn pure_at(eos: &Arc<Eos>, t: f64, init: Option<&Vle>) -> Result<Vle, String> {
    guard(|| PhaseEquilibrium::pure(eos, Temperature::from_reduced(t), init, SolverOptions::default()))
}

fn bubble_at(eos: &Arc<Eos>, t: f64, x1: f64, p_init: Option<f64>, y_init: Option<&Array1<f64>>) -> Result<Vle, String> {
    guard(|| {
        PhaseEquilibrium::bubble_point(eos, Temperature::from_reduced(t), &arr1(&[x1, 1.0 - x1]), p_init.map(Pressure::from_reduced), y_init, opts2())
    })
}

fn dew_at(eos: &Arc<Eos>, t: f64, y1: f64, p_init: Option<f64>, x_init: Option<&Array1<f64>>) -> Result<Vle, String> {
    guard(|| PhaseEquilibrium::dew_point(eos, Temperature::from_reduced(t), &arr1(&[y1, 1.0 - y1]), p_init.map(Pressure::from_reduced), x_init, opts2()))
}

fn vv(r: &Result<Vle, String>) -> Result<Vec<f64>, String> {
    r.as_ref().map(vle_vec).map_err(|e| e.clone())
}

/// the diagram's states against the stand-alone calculation at the same point
fn diagram_vs_standalone_pure(sys: &Sys, case: &TieCase, dia: &PhaseDiagram<Eos, 2>, st: &mut Stats, missing: &mut Vec<Value>) {
    for (k, c) in case.calls.iter().enumerate() {
        let t = c.spec[0];
        let alone = pure_at(&sys.eos, t, None);
        let in_dia = dia.states.iter().find(|s| !is_crit(s) && s.vapor().temperature.to_reduced().to_bits() == t.to_bits());
        let key = json!({"system": sys.name, "driver": "PhaseDiagram::pure", "T_min": case.info["T_min"], "npoints": case.info["npoints"], "point": k, "T": t});
        match (in_dia, &alone) {
            // numerical comparison inside the property's window T >= 0.45 T_c only (the cold diagrams exist for their failure patterns)
            (Some(_), _) if t < 0.45 * sys.tc[0] => {}
            (Some(s), _) => st.cmp("diagram state vs stand-alone PhaseEquilibrium::pure(T, None)", key, &Ok(vle_vec(s)), &vv(&alone), TOL_PURE),
            (None, Ok(a)) => missing.push(json!({"key": key, "stand_alone": vle_vec(a),
                "broken": "the diagram lacks a point whose stand-alone calculation converges (pure_t has a guess-free fallback: diagram_complete)"})),
            (None, Err(_)) => {}
        }
    }
}

fn main() {
    let cli = feos_verif::cli::Cli::parse("/verif/coq/gen/C12");
    let full = cli.full();
    let mut rng = Rng(cli.seed.wrapping_mul(0x9E3779B97F4A7C15) ^ 0xC12);
    let only = cli.opt("--only");

    let pures = pure_systems(full);
    let bins = binary_systems(full);

    let mut ties: Vec<TieCase> = Vec::new();
    let mut singles: Vec<(String, Kind, Call)> = Vec::new();
    let mut st = Stats::new();
    let mut missing: Vec<Value> = Vec::new();
    let mut spec_viol: Vec<Value> = Vec::new();
    let mut dropped: Vec<Value> = Vec::new();
    let mut grid_cmp = 0usize;

    // ---------------------------------------------------------------- A. pure diagrams
    let n_pure_dia = pures.len();
    for (i, sys) in pures.iter().enumerate() {
        if let Some(o) = &only {
            if !sys.name.contains(o.as_str()) {
                continue;
            }
        }
        if i >= n_pure_dia {
            break;
        }
        // a regular diagram, its refinement (shared points), and one whose coldest points fail
        let n = 5 + rng.below(6);
        let tmin = rng.range(0.45, 0.6);
        let mut dias = Vec::new();
        for (tf, np) in [(tmin, n), (tmin, 2 * n - 1), (rng.range(0.02, 0.12), 8 + rng.below(5))] {
            if let Some((case, dia)) = record_pure(sys, tf, np) {
                diagram_vs_standalone_pure(sys, &case, &dia, &mut st, &mut missing);
                dias.push((case.info.clone(), dia));
                ties.push(case);
            }
        }
        // shared points of the n-grid and the (2n-1)-grid: state i of the coarse grid = state 2i of the fine one
        if dias.len() >= 2 {
            let (a, b) = (&dias[0].1, &dias[1].1);
            for sa in a.states.iter().filter(|s| !is_crit(s)) {
                let ta = sa.vapor().temperature.to_reduced();
                if let Some(sb) = b.states.iter().find(|s| !is_crit(s) && rel(s.vapor().temperature.to_reduced(), ta) < 1e-13) {
                    grid_cmp += 1;
                    st.cmp(
                        "PhaseDiagram::pure with n and 2n-1 points at a shared temperature",
                        json!({"system": sys.name, "T_min": dias[0].0["T_min"], "npoints": [dias[0].0["npoints"].clone(), dias[1].0["npoints"].clone()], "T": ta}),
                        &Ok(vle_vec(sa)),
                        &Ok(vle_vec(sb)),
                        TOL_PURE,
                    );
                }
            }
            // reversed traversal (continuation through the public API from high to low temperature)
            let temps: Vec<f64> = a.states.iter().filter(|s| !is_crit(s)).map(|s| s.vapor().temperature.to_reduced()).collect();
            let mut prev: Option<Vle> = None;
            for t in temps.iter().rev() {
                let r = pure_at(&sys.eos, *t, prev.as_ref());
                let fwd = a.states.iter().find(|s| s.vapor().temperature.to_reduced().to_bits() == t.to_bits()).unwrap();
                grid_cmp += 1;
                st.cmp(
                    "continuation from high to low temperature vs PhaseDiagram::pure (low to high)",
                    json!({"system": sys.name, "T": t, "guess_T": prev.as_ref().map(|p| p.vapor().temperature.to_reduced())}),
                    &vv(&r),
                    &Ok(vle_vec(fwd)),
                    TOL_PURE,
                );
                prev = r.ok();
            }
        }
    }

    // ---------------------------------------------------------------- B. pure: guesses from other temperatures / pressures, bad guesses
    let n_guess = if full { 400 } else { 60 };
    for sys in &pures {
        if let Some(o) = &only {
            if !sys.name.contains(o.as_str()) {
                continue;
            }
        }
        let tc = sys.tc[0];
        for k in 0..n_guess {
            let t = tc * rng.range(0.45, 0.99);
            let lo = (t - 0.3 * tc).max(0.45 * tc);
            let hi = (t + 0.3 * tc).min(0.99 * tc);
            let tg = rng.range(lo, hi);
            let alone = pure_at(&sys.eos, t, None);
            let gs = pure_at(&sys.eos, tg, None);
            if let Ok(g) = &gs {
                verif_trace_start();
                let with = pure_at(&sys.eos, t, Some(g));
                let evs = verif_trace_take();
                spec_check(&mut spec_viol, "PhaseEquilibrium::pure(T, Some(solution at T_g))", &json!({"system": sys.name, "T": t, "T_guess": tg}), &vv(&with), Some(t), None);
                st.cmp("PhaseEquilibrium::pure(T, Some(solution at T_g))", json!({"system": sys.name, "T": t, "T_guess": tg, "T_c": tc}), &vv(&with), &vv(&alone), TOL_PURE);
                if k < 2 {
                    if let Some(c) = parse_calls(&evs, "pure_t").pop() {
                        singles.push((format!("pure_t:{}:T={}:Tg={}", sys.name, t, tg), Kind::Pure, c));
                    }
                }
                // the same through the pressure specification (pure_p has no fallback: compared when both converge)
                if let (Ok(a), true) = (&alone, k % 2 == 0) {
                    let p = a.vapor().pressure(Contributions::Total);
                    let wp = guard(|| PhaseEquilibrium::pure(&sys.eos, p, Some(g), SolverOptions::default()));
                    let np = guard(|| PhaseEquilibrium::pure(&sys.eos, p, None, SolverOptions::default()));
                    spec_check(&mut spec_viol, "PhaseEquilibrium::pure(p, Some(solution at T_g))", &json!({"system": sys.name, "p": p.to_reduced(), "T_guess": tg}), &vv(&wp), None, Some(p.to_reduced()));
                    st.cmp("PhaseEquilibrium::pure(p, Some(solution at T_g))", json!({"system": sys.name, "p": p.to_reduced(), "T_solution": t, "T_guess": tg, "T_c": tc}), &vv(&wp), &vv(&np), TOL_PURE);
                }
            }
            // a guess built from two states at a pressure within a factor 3 of the vapor pressure
            if let Ok(a) = &alone {
                let f = rng.log_range(1.0 / 3.0, 3.0);
                let p = a.vapor().pressure(Contributions::Total) * f;
                let m = Moles::from_reduced(arr1(&[1.0]));
                if let Ok(g) = guard(|| PhaseEquilibrium::new_npt(&sys.eos, Temperature::from_reduced(t), p, &m, &m)) {
                    verif_trace_start();
                    let with = pure_at(&sys.eos, t, Some(&g));
                    let evs = verif_trace_take();
                    st.cmp("PhaseEquilibrium::pure(T, Some(new_npt(T, f p_sat)))", json!({"system": sys.name, "T": t, "factor": f, "T_c": tc}), &vv(&with), &vv(&alone), TOL_PURE);
                    if k < 2 {
                        if let Some(c) = parse_calls(&evs, "pure_t").pop() {
                            singles.push((format!("pure_t:{}:T={}:npt_factor={}", sys.name, t, f), Kind::Pure, c));
                        }
                    }
                }
            }
        }
        // a useless guess (both phases identical: supercritical pressure) must fall back to the guess-free start
        let t = tc * rng.range(0.5, 0.95);
        let m = Moles::from_reduced(arr1(&[1.0]));
        if let Ok(cp) = guard(|| State::critical_point(&sys.eos, None, None, SolverOptions::default())) {
            let p = cp.pressure(Contributions::Total) * 3.0;
            if let Ok(g) = guard(|| PhaseEquilibrium::new_npt(&sys.eos, Temperature::from_reduced(t), p, &m, &m)) {
                verif_trace_start();
                let with = pure_at(&sys.eos, t, Some(&g));
                let evs = verif_trace_take();
                let alone = pure_at(&sys.eos, t, None);
                st.cmp("PhaseEquilibrium::pure(T, Some(trivial guess))", json!({"system": sys.name, "T": t, "guess": "new_npt at 3 p_c (both phases identical)"}), &vv(&with), &vv(&alone), TOL_PURE);
                if let (Err(e), Ok(a)) = (&with, &alone) {
                    missing.push(json!({"key": {"system": sys.name, "call": "PhaseEquilibrium::pure(T, Some(trivial guess), default)", "T": t, "guess": "PhaseEquilibrium::new_npt(T, 3 p_c, 1 mol, 1 mol)"},
                        "stand_alone": vle_vec(a), "with_guess_error": e,
                        "broken": "a failing guess did not fall back to the guess-free start (pure_t_H_cascade)"}));
                }
                if let Some(c) = parse_calls(&evs, "pure_t").pop() {
                    singles.push((format!("pure_t:{}:T={}:trivial_guess", sys.name, t), Kind::Pure, c));
                }
            }
        }
    }

    // ---------------------------------------------------------------- C. binary diagrams
    let n_bin_dia = bins.len();
    for (i, sys) in bins.iter().enumerate() {
        if let Some(o) = &only {
            if !sys.name.contains(o.as_str()) {
                continue;
            }
        }
        if i >= n_bin_dia {
            break;
        }
        let tf = rng.range(0.65, 0.9);
        let n = 5 + rng.below(5);
        let mut dias = Vec::new();
        for np in [n, 2 * n - 1] {
            if let Some((case, dia)) = record_binary(sys, tf, np, None) {
                // every interior state against the stand-alone bubble point
                for (k, c) in case.calls.iter().enumerate() {
                    let x1 = c.spec[3];
                    let t = c.spec[1];
                    let alone = bubble_at(&sys.eos, t, x1, None, None);
                    let key = json!({"system": sys.name, "driver": "PhaseDiagram::binary_vle", "T": t, "npoints": np, "point": k, "x1": x1});
                    match dia.states.iter().find(|s| match_state(Kind::Bd, std::slice::from_ref(c), s) == 0) {
                        Some(s) => st.cmp("binary_vle state vs stand-alone bubble_point(T, x, None, None)", key, &Ok(vle_vec(s)), &vv(&alone), TOL_BD),
                        None => {
                            if let Ok(a) = &alone {
                                dropped.push(json!({"key": key, "stand_alone": vle_vec(a), "log": c.log.iter().map(|(a, b)| vec![*a, *b]).collect::<Vec<_>>()}));
                            }
                        }
                    }
                }
                dias.push((np, dia));
                ties.push(case);
            }
        }
        if dias.len() == 2 {
            for sa in &dias[0].1.states {
                let xa = sa.liquid().molefracs[0];
                if let Some(sb) = dias[1].1.states.iter().find(|s| (s.liquid().molefracs[0] - xa).abs() < 1e-12) {
                    grid_cmp += 1;
                    st.cmp(
                        "PhaseDiagram::binary_vle with n and 2n-1 points at a shared composition",
                        json!({"system": sys.name, "T_frac": tf, "npoints": [dias[0].0, dias[1].0], "x1": xa}),
                        &Ok(vle_vec(sa)),
                        &Ok(vle_vec(sb)),
                        TOL_BD,
                    );
                }
            }
        }
        // opposite traversal direction: the same mixture with the components swapped runs x1 from 1 down to 0
        let sw = swapped(sys);
        if let (Some((_, d0)), Some((case_sw, d1))) = (dias.first(), record_binary(&sw, tf * sys.tc[0].min(sys.tc[1]) / sw.tc[0].min(sw.tc[1]), n, None)) {
            for sa in &d0.states {
                let xa = sa.liquid().molefracs[0];
                if let Some(sb) = d1.states.iter().find(|s| (s.liquid().molefracs[1] - xa).abs() < 1e-12) {
                    grid_cmp += 1;
                    let mut b = vle_vec(sb);
                    b.swap(4, 5);
                    b.swap(6, 7);
                    st.cmp(
                        "PhaseDiagram::binary_vle traversed in the opposite direction (components swapped) at a shared composition",
                        json!({"system": sys.name, "T_frac": tf, "npoints": n, "x1": xa}),
                        &Ok(vle_vec(sa)),
                        &Ok(b),
                        TOL_BD,
                    );
                }
            }
            ties.push(case_sw);
        }
        // two branches (x_lle given): the second branch is reversed when the diagram is assembled
        let a = rng.range(0.25, 0.45);
        let b = rng.range(0.55, 0.75);
        if let Some((case, dia)) = record_binary(sys, tf, 2 * n, Some((a, b))) {
            for s in &dia.states {
                if end_id_dir(s, true).is_none() {
                    let x1 = s.liquid().molefracs[0];
                    let t = s.vapor().temperature.to_reduced();
                    let alone = bubble_at(&sys.eos, t, x1, None, None);
                    st.cmp("binary_vle (two branches) state vs stand-alone bubble_point", json!({"system": sys.name, "T": t, "x1": x1, "x_lle": [a, b], "npoints": 2 * n}), &Ok(vle_vec(s)), &vv(&alone), TOL_BD);
                }
            }
            ties.push(case);
        }
        // above the critical temperature of the lighter component: the line ends at the binary critical point and
        // the points next to it may fail (continuation variables are then reset to the initial pressure)
        {
            let tl = sys.tc[0].min(sys.tc[1]);
            let th = sys.tc[0].max(sys.tc[1]);
            let tsc = (tl + rng.range(0.1, 0.6) * (th - tl)) / tl;
            // (outside the property's temperature window: bookkeeping tie only, no numerical comparison)
            if let Some((case, _dia)) = record_binary(sys, tsc, 8 + rng.below(8), None) {
                ties.push(case);
            }
        }
        // bubble point line (continuation in temperature at fixed composition)
        let x1 = rng.range(0.2, 0.8);
        if let Some((case, dia)) = record_bubble_line(sys, x1, rng.range(0.6, 0.7), 6 + rng.below(4)) {
            for (k, c) in case.calls.iter().enumerate() {
                let t = c.spec[1];
                if t > 0.95 * sys.tc[0].min(sys.tc[1]) {
                    continue;
                }
                let alone = bubble_at(&sys.eos, t, x1, None, None);
                let key = json!({"system": sys.name, "driver": "PhaseDiagram::bubble_point_line", "x1": x1, "point": k, "T": t, "T_min": case.info["T_min"], "npoints": case.info["npoints"]});
                match dia.states.iter().find(|s| match_state(Kind::Bd, std::slice::from_ref(c), s) == 0) {
                    Some(s) => st.cmp("bubble_point_line state vs stand-alone bubble_point(T, x, None, None)", key, &Ok(vle_vec(s)), &vv(&alone), TOL_BD),
                    None => {
                        if let Ok(a) = &alone {
                            dropped.push(json!({"key": key, "stand_alone": vle_vec(a), "log": c.log.iter().map(|(a, b)| vec![*a, *b]).collect::<Vec<_>>()}));
                        }
                    }
                }
            }
            ties.push(case);
        }
        // flash continuation in pressure through the two-phase region
        let t = tf * sys.tc[0].min(sys.tc[1]);
        let z1 = rng.range(0.3, 0.7);
        if let (Ok(bp), Ok(dp)) = (bubble_at(&sys.eos, t, z1, None, None), dew_at(&sys.eos, t, z1, None, None)) {
            let pb = bp.vapor().pressure(Contributions::Total).to_reduced();
            let pd = dp.vapor().pressure(Contributions::Total).to_reduced();
            // from below the dew pressure (single phase: the first flashes fail) to above the bubble pressure
            let (lo, hi) = (pd - 0.25 * (pb - pd), pb + 0.25 * (pb - pd));
            if let Some((case, dia)) = record_lle(sys, tf, z1, lo, hi, 9 + rng.below(4)) {
                let feed = Moles::from_reduced(arr1(&[z1, 1.0 - z1]));
                for (k, c) in case.calls.iter().enumerate() {
                    let p = c.spec[1];
                    let alone = guard(|| PhaseEquilibrium::tp_flash(&sys.eos, Temperature::from_reduced(t), Pressure::from_reduced(p), &feed, None, SolverOptions::default(), None));
                    let key = json!({"system": sys.name, "driver": "PhaseDiagram::lle", "T": t, "z1": z1, "point": k, "p": p, "p_lo": lo, "p_hi": hi, "npoints": case.info["npoints"]});
                    match dia.states.iter().find(|s| match_state(Kind::Flash, std::slice::from_ref(c), s) == 0) {
                        Some(s) => st.cmp("PhaseDiagram::lle state vs stand-alone tp_flash(T, p, feed, None)", key, &Ok(vle_vec(s)), &vv(&alone), flash_tol(pb, pd)),
                        None => {
                            if let Ok(a) = &alone {
                                // tp_flash falls back to the stability-based start unless update_pressure of the guess fails
                                let aborted = c.log.first() == Some(&(0, 0));
                                let rec = json!({"key": key, "stand_alone": vle_vec(a), "log": c.log.iter().map(|(a, b)| vec![*a, *b]).collect::<Vec<_>>(),
                                    "broken": "the flash continuation lacks a point whose stand-alone flash converges"});
                                if aborted {
                                    dropped.push(rec);
                                } else {
                                    missing.push(rec);
                                }
                            }
                        }
                    }
                }
                ties.push(case);
            }
            // ... and in temperature at the pressure of the middle of the envelope (T-x-y diagram from flashes)
            let pm = 0.5 * (pb + pd);
            let zs = arr1(&[z1, 1.0 - z1]);
            let tb = guard(|| PhaseEquilibrium::bubble_point(&sys.eos, Pressure::from_reduced(pm), &zs, Some(Temperature::from_reduced(t)), None, opts2()));
            let td = guard(|| PhaseEquilibrium::dew_point(&sys.eos, Pressure::from_reduced(pm), &zs, Some(Temperature::from_reduced(t)), None, opts2()));
            if let (Ok(tb), Ok(td)) = (tb, td) {
                let (tb, td) = (tb.vapor().temperature.to_reduced(), td.vapor().temperature.to_reduced());
                if td - tb > 1e-3 {
                    let (lo, hi) = (tb - 0.25 * (td - tb), td + 0.25 * (td - tb));
                    if let Some((case, dia)) = record_lle_p(sys, pm, z1, lo, hi, 9 + rng.below(4)) {
                        let feed = Moles::from_reduced(zs.clone());
                        for (k, c) in case.calls.iter().enumerate() {
                            let tk = c.spec[0];
                            let key = json!({"system": sys.name, "driver": "PhaseDiagram::lle (pressure specification)", "p": pm, "z1": z1, "point": k, "T": tk, "T_lo": lo, "T_hi": hi, "npoints": case.info["npoints"]});
                            if let Some(s) = dia.states.iter().find(|s| match_state(Kind::Flash, std::slice::from_ref(c), s) == 0) {
                                let alone = guard(|| PhaseEquilibrium::tp_flash(&sys.eos, Temperature::from_reduced(tk), Pressure::from_reduced(pm), &feed, None, SolverOptions::default(), None));
                                spec_check(&mut spec_viol, "PhaseDiagram::lle(p, feed, T_lo, T_hi) state", &key, &Ok(vle_vec(s)), Some(tk), Some(pm));
                                st.cmp("PhaseDiagram::lle (pressure specification) state vs stand-alone tp_flash(T, p, feed, None)", key, &Ok(vle_vec(s)), &vv(&alone), flash_tol(pb, pd));
                            }
                        }
                        ties.push(case);
                    }
                }
            }
        }
    }

    // ---------------------------------------------------------------- D. bubble / dew / flash with guesses within a factor 3
    let n_bd = if full { 300 } else { 40 };
    for sys in &bins {
        if let Some(o) = &only {
            if !sys.name.contains(o.as_str()) {
                continue;
            }
        }
        let tl = sys.tc[0].min(sys.tc[1]);
        for k in 0..n_bd {
            let t = tl * rng.range(0.6, 0.95);
            let x1 = rng.range(0.02, 0.98);
            let alone = bubble_at(&sys.eos, t, x1, None, None);
            if let Ok(a) = &alone {
                let p = a.vapor().pressure(Contributions::Total).to_reduced();
                let f = rng.log_range(1.0 / 3.0, 3.0);
                verif_trace_start();
                let with = bubble_at(&sys.eos, t, x1, Some(p * f), None);
                let evs = verif_trace_take();
                st.cmp("bubble_point(T, x, Some(f p), None)", json!({"system": sys.name, "T": t, "x1": x1, "factor": f}), &vv(&with), &vv(&alone), TOL_BD);
                if k < 2 {
                    if let Some(c) = parse_calls(&evs, "bubble_dew_point").pop() {
                        singles.push((format!("bubble_point:{}:T={}:x={}:f={}", sys.name, t, x1, f), Kind::Bd, c));
                    }
                }
                // initial vapor composition: the solution of a neighbouring composition, pressure within a factor 3
                let x1n = (x1 + rng.range(-0.15, 0.15)).clamp(0.02, 0.98);
                if let Ok(nb) = bubble_at(&sys.eos, t, x1n, None, None) {
                    let y = nb.vapor().molefracs.clone();
                    let with = bubble_at(&sys.eos, t, x1, Some(p * f), Some(&y));
                    st.cmp("bubble_point(T, x, Some(f p), Some(y of a neighbouring point))", json!({"system": sys.name, "T": t, "x1": x1, "factor": f, "x1_neighbour": x1n}), &vv(&with), &vv(&alone), TOL_BD);
                    let with = bubble_at(&sys.eos, t, x1, None, Some(&y));
                    st.cmp("bubble_point(T, x, None, Some(y of a neighbouring point))", json!({"system": sys.name, "T": t, "x1": x1, "x1_neighbour": x1n}), &vv(&with), &vv(&alone), TOL_BD);
                }
                // pressure specification: temperature guesses around the solution
                let dt = rng.range(-0.1, 0.1) * tl;
                let pq = a.vapor().pressure(Contributions::Total);
                let w1 = guard(|| PhaseEquilibrium::bubble_point(&sys.eos, pq, &arr1(&[x1, 1.0 - x1]), Some(Temperature::from_reduced(t + dt)), None, opts2()));
                let w2 = guard(|| PhaseEquilibrium::bubble_point(&sys.eos, pq, &arr1(&[x1, 1.0 - x1]), Some(Temperature::from_reduced(t)), None, opts2()));
                st.cmp("bubble_point(p, x, Some(T + dT), None) vs Some(T)", json!({"system": sys.name, "p": pq.to_reduced(), "x1": x1, "T": t, "dT": dt}), &vv(&w1), &vv(&w2), TOL_BD);
                st.cmp("bubble_point(p, x, Some(T), None) vs bubble_point(T, x, None, None)", json!({"system": sys.name, "p": pq.to_reduced(), "x1": x1, "T": t}), &vv(&w2), &vv(&alone), TOL_BD);
            }
            // dew point
            let y1 = rng.range(0.02, 0.98);
            let alone = dew_at(&sys.eos, t, y1, None, None);
            if let Ok(a) = &alone {
                let p = a.vapor().pressure(Contributions::Total).to_reduced();
                let f = rng.log_range(1.0 / 3.0, 3.0);
                let with = dew_at(&sys.eos, t, y1, Some(p * f), None);
                st.cmp("dew_point(T, y, Some(f p), None)", json!({"system": sys.name, "T": t, "y1": y1, "factor": f}), &vv(&with), &vv(&alone), TOL_BD);
            }
            // flash from the solution of a neighbouring (T, p)
            let z1 = rng.range(0.1, 0.9);
            if let (Ok(bp), Ok(dp)) = (bubble_at(&sys.eos, t, z1, None, None), dew_at(&sys.eos, t, z1, None, None)) {
                let pb = bp.vapor().pressure(Contributions::Total).to_reduced();
                let pd = dp.vapor().pressure(Contributions::Total).to_reduced();
                if pb - pd > 1e-6 * pb {
                    let feed = Moles::from_reduced(arr1(&[z1, 1.0 - z1]));
                    let p = pd + rng.range(0.1, 0.9) * (pb - pd);
                    let pg = pd + rng.range(0.1, 0.9) * (pb - pd);
                    let tg = t;
                    let flash = |t: f64, p: f64, init: Option<&Vle>| {
                        guard(|| PhaseEquilibrium::tp_flash(&sys.eos, Temperature::from_reduced(t), Pressure::from_reduced(p), &feed, init, SolverOptions::default(), None))
                    };
                    // the same with the heavier component declared non-volatile (an option of the flash): the previous
                    // equilibrium of a continuation in pressure is the guess
                    {
                        let heavy = if sys.tc[0] > sys.tc[1] { 0usize } else { 1 };
                        let nv_flash = |p: f64, init: Option<&Vle>| {
                            guard(|| PhaseEquilibrium::tp_flash(&sys.eos, Temperature::from_reduced(t), Pressure::from_reduced(p), &feed, init, SolverOptions::default(), Some(vec![heavy])))
                        };
                        let nv_alone = nv_flash(p, None);
                        if let Ok(g) = nv_flash(pg, None) {
                            let with = nv_flash(p, Some(&g));
                            st.cmp("tp_flash(T, p, feed, Some(flash at p_g), non_volatile_components = [heavy])", json!({"system": sys.name, "T": t, "p": p, "z1": z1, "p_guess": pg, "non_volatile": heavy}), &vv(&with), &vv(&nv_alone), flash_tol(pb, pd));
                        }
                    }
                    // a guess from another temperature (isobaric / general continuation): the flash at (T_g, p_g inside the envelope at T_g)
                    {
                        let tg2 = (t + rng.range(-0.1, 0.1) * tl).clamp(0.6 * tl, 0.95 * tl);
                        if let (Ok(bg), Ok(dg)) = (bubble_at(&sys.eos, tg2, z1, None, None), dew_at(&sys.eos, tg2, z1, None, None)) {
                            let (pbg, pdg) = (bg.vapor().pressure(Contributions::Total).to_reduced(), dg.vapor().pressure(Contributions::Total).to_reduced());
                            let pg2 = pdg + rng.range(0.1, 0.9) * (pbg - pdg);
                            if let Ok(g) = flash(tg2, pg2, None) {
                                let with = flash(t, p, Some(&g));
                                let key = json!({"system": sys.name, "T": t, "p": p, "z1": z1, "T_guess": tg2, "p_guess": pg2});
                                spec_check(&mut spec_viol, "tp_flash(T, p, feed, Some(flash at (T_g, p_g)))", &key, &vv(&with), Some(t), Some(p));
                                st.cmp("tp_flash(T, p, feed, Some(flash at (T_g, p_g)))", key, &vv(&with), &vv(&flash(t, p, None)), flash_tol(pb, pd));
                            }
                        }
                    }
                    let alone = flash(t, p, None);
                    if let Ok(g) = flash(tg, pg, None) {
                        verif_trace_start();
                        let with = flash(t, p, Some(&g));
                        let evs = verif_trace_take();
                        let key = json!({"system": sys.name, "T": t, "p": p, "z1": z1, "p_guess": pg, "p_dew": pd, "p_bubble": pb});
                        st.cmp("tp_flash(T, p, feed, Some(flash at p_g))", key.clone(), &vv(&with), &vv(&alone), flash_tol(pb, pd));
                        if let Some(c) = parse_calls(&evs, "tp_flash").pop() {
                            if c.log.first() == Some(&(0, 0)) && alone.is_ok() {
                                dropped.push(json!({"key": key, "log": c.log.iter().map(|(a, b)| vec![*a, *b]).collect::<Vec<_>>(),
                                    "note": "update_pressure of the supplied state failed: tp_flash returns the error instead of falling back (tp_flash_abort)"}));
                            }
                            if k < 2 {
                                singles.push((format!("tp_flash:{}:T={}:p={}:pg={}", sys.name, t, p, pg), Kind::Flash, c));
                            }
                        }
                    }
                }
            }
        }
    }

    // ---------------------------------------------------------------- E. state constructors with initial density / temperature
    let n_state = if full { 100 } else { 20 };
    for sys in pures.iter().chain(bins.iter()) {
        if let Some(o) = &only {
            if !sys.name.contains(o.as_str()) {
                continue;
            }
        }
        let n = sys.tc.len();
        let tcm = sys.tc.iter().cloned().fold(0.0, f64::max);
        for _ in 0..n_state {
            // supercritical temperature: one density root, so every start within a factor 3 must find it
            let t = tcm * rng.range(1.15, 2.0);
            let x: Vec<f64> = if n == 1 { vec![1.0] } else { let a = rng.range(0.05, 0.95); vec![a, 1.0 - a] };
            let m = Moles::from_reduced(Array1::from_vec(x.clone()));
            let rho_max = sys.eos.compute_max_density(&Array1::from_vec(x.clone()));
            let rho = rho_max * rng.log_range(1e-3, 0.6);
            let s0 = match guard(|| State::new_nvt(&sys.eos, Temperature::from_reduced(t), quantity::Volume::from_reduced(1.0 / rho), &m)) {
                Ok(s) => s,
                Err(_) => continue,
            };
            let p = s0.pressure(Contributions::Total);
            let f = rng.log_range(1.0 / 3.0, 3.0);
            let sv = |r: &Result<State<Eos>, String>| r.as_ref().map(|s| vec![s.temperature.to_reduced(), s.density.to_reduced()]).map_err(|e| e.clone());
            let with = guard(|| State::new_npt(&sys.eos, Temperature::from_reduced(t), p, &m, DensityInitialization::InitialDensity(s0.density * f)));
            let without = guard(|| State::new_npt(&sys.eos, Temperature::from_reduced(t), p, &m, DensityInitialization::None));
            st.cmp("State::new_npt(T > 1.15 T_c, p, InitialDensity(f rho)) vs DensityInitialization::None", json!({"system": sys.name, "T": t, "p": p.to_reduced(), "x": x, "factor": f}), &sv(&with), &sv(&without), TOL_STATE);
            // enthalpy / entropy specifications with an initial temperature
            if without.is_ok() {
                let full_eos = Arc::new(EquationOfState::new(Arc::new(CpIdealGas { ncomp: n }), sys.eos.clone()));
                let svf = |r: &Result<State<EquationOfState<CpIdealGas, Eos>>, String>| {
                    r.as_ref().map(|s| vec![s.temperature.to_reduced(), s.density.to_reduced()]).map_err(|e| e.clone())
                };
                if let Ok(s) = guard(|| State::new_npt(&full_eos, Temperature::from_reduced(t), p, &m, DensityInitialization::None)) {
                    let h = s.molar_enthalpy(Contributions::Total);
                    let ft = rng.range(0.8, 1.25);
                    let w = guard(|| State::new_nph(&full_eos, p, h, &m, DensityInitialization::None, Some(Temperature::from_reduced(t * ft))));
                    let wo = guard(|| State::new_nph(&full_eos, p, h, &m, DensityInitialization::None, Some(Temperature::from_reduced(t))));
                    st.cmp("State::new_nph(p, h, initial_temperature = f T) vs initial_temperature = T", json!({"system": sys.name, "T": t, "p": p.to_reduced(), "x": x, "factor": ft}), &svf(&w), &svf(&wo), TOL_STATE);
                    let sm = s.molar_entropy(Contributions::Total);
                    let w = guard(|| State::new_nps(&full_eos, p, sm, &m, DensityInitialization::None, Some(Temperature::from_reduced(t * ft))));
                    let wo = guard(|| State::new_nps(&full_eos, p, sm, &m, DensityInitialization::None, Some(Temperature::from_reduced(t))));
                    st.cmp("State::new_nps(p, s, initial_temperature = f T) vs initial_temperature = T", json!({"system": sys.name, "T": t, "p": p.to_reduced(), "x": x, "factor": ft}), &svf(&w), &svf(&wo), TOL_STATE);
                }
            }
        }
    }

    // ---------------------------------------------------------------- F. dew point line (temperature stage, then pressure stage)
    let mut dew_lines = Vec::new();
    let mut panics: Vec<Value> = Vec::new();
    let n_dew = if full { 8 } else { 3 };
    for (i, sys) in bins.iter().enumerate() {
        if let Some(o) = &only {
            if !sys.name.contains(o.as_str()) {
                continue;
            }
        }
        let _ = i;
        for _ in 0..n_dew {
            let np = 8 + rng.below(if full { 60 } else { 24 });
            let y1 = rng.range(0.1, 0.9);
            match record_dew_line(sys, y1, rng.range(0.6, 0.7), np) {
                Ok((case, dia)) => {
                    // temperature-stage states against the stand-alone dew point
                    for c in case.calls.iter().filter(|c| c.spec[0] == 0.0) {
                        let t = c.spec[1];
                        // the property's window: T <= 0.95 T_c of the lighter component (above it a dew temperature has two dew pressures)
                        if t > 0.95 * sys.tc[0].min(sys.tc[1]) {
                            continue;
                        }
                        if let Some(s) = dia.states.iter().find(|s| match_state(Kind::Bd, std::slice::from_ref(c), s) == 0) {
                            let alone = dew_at(&sys.eos, t, y1, None, None);
                            st.cmp("dew_point_line state vs stand-alone dew_point(T, y, None, None)", json!({"system": sys.name, "y1": y1, "T": t, "npoints": np}), &Ok(vle_vec(s)), &vv(&alone), TOL_BD);
                        }
                    }
                    dew_lines.push(case.info.clone());
                    ties.push(case);
                }
                Err(info) => panics.push(info),
            }
        }
    }

    // ---------------------------------------------------------------- G. critical points with an initial temperature
    let crit_state = |r: &Result<State<Eos>, String>| {
        r.as_ref()
            .map(|s| vec![s.temperature.to_reduced(), s.pressure(Contributions::Total).to_reduced(), s.density.to_reduced()])
            .map_err(|e| e.clone())
    };
    let mut crit_ties: Vec<Value> = Vec::new();
    let mut crit_coq = String::new();
    let mut rejected: Vec<Value> = Vec::new();
    let n_crit = if full { 40 } else { 12 };
    let vrmie = saftvrmie_systems(full);
    for sys in pures.iter().chain(vrmie.iter()) {
        if let Some(o) = &only {
            if !sys.name.contains(o.as_str()) {
                continue;
            }
        }
        let tc = sys.tc[0];
        let crit = |t0: Option<f64>| guard(|| State::critical_point(&sys.eos, None, t0.map(Temperature::from_reduced), SolverOptions::default()));
        let alone = crit(None);
        // the guess-free call is the first success of the trial temperatures 300, 700, 500 K (public API only)
        let trials: Vec<_> = [300.0, 700.0, 500.0].iter().map(|t| crit(Some(*t))).collect();
        let oks: Vec<bool> = trials.iter().map(|r| r.is_ok()).collect();
        let observed = match &alone {
            Ok(a) => trials.iter().position(|r| {
                r.as_ref().map(|s| s.temperature.to_reduced().to_bits() == a.temperature.to_reduced().to_bits() && s.density.to_reduced().to_bits() == a.density.to_reduced().to_bits()).unwrap_or(false)
                    && true
            }).map(|i| i as i64).unwrap_or(-2),
            Err(_) => -1,
        };
        // the first success must be the one returned: position() already returns the first bitwise match; make sure no earlier trial succeeded
        let first_ok = oks.iter().position(|b| *b).map(|i| i as i64).unwrap_or(-1);
        let name = format!("crit:{}", sys.name);
        crit_coq += &format!("Eval vm_compute in (\"CRIT\", \"{}\", Tie.crit_first {} {} {}).\n", name, oks[0], oks[1], oks[2]);
        crit_ties.push(json!({"name": name, "system": sys.name, "trial_ok": oks, "observed": observed, "first_ok": first_ok,
            "call": "State::critical_point(eos, None, None, default) vs Some(300 K), Some(700 K), Some(500 K)"}));
        for r in trials.iter().chain(std::iter::once(&alone)) {
            if let Ok(s) = r {
                if !(s.pressure(Contributions::Total).to_reduced() > 0.0) {
                    rejected.push(json!({"key": {"system": sys.name, "call": "State::critical_point (trial temperature or none)"}, "result": crit_state(r).unwrap(),
                        "broken": "a returned critical point of a pure substance has non-positive pressure (acceptance test: crit_accepted)"}));
                }
            }
        }
        for k in 0..n_crit {
            // stratified over the factor-3 window, lower end included
            let f = if k == 0 { 0.35 } else if k == 1 { 2.9 } else { rng.log_range(1.0 / 3.0, 3.0) };
            let with = crit(Some(f * tc));
            let key = json!({"system": sys.name, "T_c": tc, "factor": f, "initial_temperature": f * tc, "call": "State::critical_point(eos, None, Some(f T_c), default)"});
            if let Ok(s) = &with {
                if !(s.pressure(Contributions::Total).to_reduced() > 0.0) {
                    rejected.push(json!({"key": key, "result": crit_state(&with).unwrap(), "stand_alone": crit_state(&alone).ok(),
                        "broken": "a returned critical point of a pure substance has non-positive pressure (acceptance test: crit_accepted)"}));
                    continue;
                }
            }
            st.cmp("State::critical_point(None, Some(f T_c)) vs no initial temperature", key, &crit_state(&with), &crit_state(&alone), TOL_CRIT);
        }
        // the same guess through PhaseDiagram::pure(.., critical_temperature)
        for f in [rng.range(0.35, 0.6), rng.range(0.8, 1.5)] {
            let tmin = Temperature::from_reduced(0.6 * tc);
            let dv = |r: &Result<PhaseDiagram<Eos, 2>, String>| r.as_ref().map(|d| d.states.iter().flat_map(vle_vec).collect::<Vec<f64>>()).map_err(|e| e.clone());
            let with = guard(|| PhaseDiagram::pure(&sys.eos, tmin, 5, Some(Temperature::from_reduced(f * tc)), SolverOptions::default()));
            let none = guard(|| PhaseDiagram::pure(&sys.eos, tmin, 5, None, SolverOptions::default()));
            st.cmp("PhaseDiagram::pure(.., critical_temperature = Some(f T_c)) vs None", json!({"system": sys.name, "T_c": tc, "factor": f, "T_min": 0.6 * tc, "npoints": 5}), &dv(&with), &dv(&none), TOL_CRIT);
        }
    }
    // mixtures: critical point at fixed composition with an initial temperature
    for sys in &bins {
        if let Some(o) = &only {
            if !sys.name.contains(o.as_str()) {
                continue;
            }
        }
        for _ in 0..(if full { 10 } else { 3 }) {
            let x1 = rng.range(0.1, 0.9);
            let m = Moles::from_reduced(arr1(&[x1, 1.0 - x1]));
            let alone = guard(|| State::critical_point(&sys.eos, Some(&m), None, SolverOptions::default()));
            if let Ok(a) = &alone {
                let tcm = a.temperature.to_reduced();
                for _ in 0..3 {
                    let f = rng.log_range(0.5, 2.0);
                    let with = guard(|| State::critical_point(&sys.eos, Some(&m), Some(Temperature::from_reduced(f * tcm)), SolverOptions::default()));
                    st.cmp("State::critical_point(moles, Some(f T_c,mix)) vs no initial temperature", json!({"system": sys.name, "x1": x1, "T_c_mix": tcm, "factor": f}), &crit_state(&with), &crit_state(&alone), TOL_CRIT);
                }
            }
        }
    }

    let wides = wide_systems(full);
    // binary critical points at given temperature / pressure with start values (continuation along the critical line)
    let critb = |r: &Result<State<Eos>, String>| {
        r.as_ref()
            .map(|s| vec![s.temperature.to_reduced(), s.pressure(Contributions::Total).to_reduced(), s.density.to_reduced(), s.molefracs[0]])
            .map_err(|e| e.clone())
    };
    for sys in bins.iter().chain(wides.iter()) {
        if let Some(o) = &only {
            if !sys.name.contains(o.as_str()) {
                continue;
            }
        }
        let (tl, th) = (sys.tc[0].min(sys.tc[1]), sys.tc[0].max(sys.tc[1]));
        for _ in 0..(if full { 12 } else { 4 }) {
            let t = tl + rng.range(0.15, 0.85) * (th - tl);
            let tq = Temperature::from_reduced(t);
            let alone = guard(|| State::critical_point_binary(&sys.eos, tq, None, None, SolverOptions::default()));
            if let Ok(a) = &alone {
                let xa = a.molefracs[0];
                let p = a.pressure(Contributions::Total);
                // a neighbouring point of the critical line supplies the start values
                let t2 = (t + rng.range(-0.1, 0.1) * (th - tl)).clamp(tl + 0.05 * (th - tl), th - 0.05 * (th - tl));
                let x0 = (xa + rng.range(-0.1, 0.1)).clamp(0.02, 0.98);
                let key = json!({"system": sys.name, "T": t, "initial_temperature": t2, "initial_molefracs": [x0, 1.0 - x0]});
                for (it, ix) in [(Some(t2), None), (None, Some([x0, 1.0 - x0])), (Some(t2), Some([x0, 1.0 - x0]))] {
                    let with = guard(|| State::critical_point_binary(&sys.eos, tq, it.map(Temperature::from_reduced), ix, SolverOptions::default()));
                    let mut k2 = key.clone();
                    k2["given"] = json!({"initial_temperature": it.is_some(), "initial_molefracs": ix.is_some()});
                    spec_check(&mut spec_viol, "State::critical_point_binary(T, initial_temperature, initial_molefracs)", &k2, &critb(&with), Some(t), None);
                    st.cmp("State::critical_point_binary(T, start values) vs (T, None, None)", k2, &critb(&with), &critb(&alone), TOL_CRIT);
                }
                // the same point through the pressure specification
                let ft = rng.range(0.85, 1.15);
                let wp = guard(|| State::critical_point_binary(&sys.eos, p, Some(Temperature::from_reduced(t * ft)), Some([x0, 1.0 - x0]), SolverOptions::default()));
                let np = guard(|| State::critical_point_binary(&sys.eos, p, Some(tq), Some([xa, 1.0 - xa]), SolverOptions::default()));
                let k3 = json!({"system": sys.name, "p": p.to_reduced(), "T_solution": t, "initial_temperature": t * ft, "initial_molefracs": [x0, 1.0 - x0]});
                spec_check(&mut spec_viol, "State::critical_point_binary(p, initial_temperature, initial_molefracs)", &k3, &critb(&wp), None, Some(p.to_reduced()));
                // (no comparison of values at given pressure: the critical pressure has a maximum along the critical line, so one
                //  pressure can have two critical points; only the specification must be reproduced)
                spec_check(&mut spec_viol, "State::critical_point_binary(p, Some(T), Some(x)) started at the solution", &k3, &critb(&np), None, Some(p.to_reduced()));
            }
        }
    }

    // ---------------------------------------------------------------- H. caller-supplied solver options (inner, outer) for bubble / dew points
    let n_opt = if full { 60 } else { 12 };
    let inner_tols = [Some(1e-2), Some(1e-4), Some(1e-6), None];
    let inner_iters = [None, Some(1usize), Some(2), Some(3)];
    let outer_tols = [None, None, Some(1e-9), Some(1e-8)];
    for sys in bins.iter().chain(wides.iter()) {
        if let Some(o) = &only {
            if !sys.name.contains(o.as_str()) {
                continue;
            }
        }
        let tl = sys.tc[0].min(sys.tc[1]);
        for k in 0..n_opt {
            let t = tl * rng.range(0.6, 0.95);
            let x1 = rng.range(0.05, 0.95);
            let it = inner_tols[k % 4];
            let ii = inner_iters[(k / 4) % 4];
            let ot = outer_tols[rng.below(4)];
            let mut oi = SolverOptions::new();
            if let Some(v) = it {
                oi = oi.tol(v);
            }
            if let Some(v) = ii {
                oi = oi.max_iter(v);
            }
            let mut oo = SolverOptions::new();
            if let Some(v) = ot {
                oo = oo.tol(v);
            }
            let opts = (oi, oo);
            let tol = BD_OPT_FACTOR * ot.unwrap_or(1e-10);
            let okey = json!({"inner_tol": it, "inner_max_iter": ii, "outer_tol": ot});
            let xs = arr1(&[x1, 1.0 - x1]);
            for bubble in [true, false] {
                let call = |p0: Option<f64>, y0: Option<&Array1<f64>>, o: (SolverOptions, SolverOptions)| {
                    guard(|| {
                        if bubble {
                            PhaseEquilibrium::bubble_point(&sys.eos, Temperature::from_reduced(t), &xs, p0.map(Pressure::from_reduced), y0, o)
                        } else {
                            PhaseEquilibrium::dew_point(&sys.eos, Temperature::from_reduced(t), &xs, p0.map(Pressure::from_reduced), y0, o)
                        }
                    })
                };
                let what = if bubble { "bubble_point" } else { "dew_point" };
                let reference = call(None, None, opts2());
                let alone = call(None, None, opts);
                let key = json!({"system": sys.name, "T": t, "spec_x1": x1, "options_(inner,outer)": okey});
                st.cmp(&format!("{what}(T, x, None, None, (inner, outer) options) vs default options"), key.clone(), &vv(&alone), &vv(&reference), tol);
                if let Ok(r) = &reference {
                    let p = r.vapor().pressure(Contributions::Total).to_reduced();
                    let f = rng.log_range(1.0 / 3.0, 3.0);
                    let other = if bubble { r.vapor().molefracs.clone() } else { r.liquid().molefracs.clone() };
                    // initial composition: half way between the specified phase and the solution
                    let y0 = arr1(&[0.5 * (other[0] + x1), 1.0 - 0.5 * (other[0] + x1)]);
                    let mut key2 = key.clone();
                    key2["factor"] = json!(f);
                    let with = call(Some(p * f), None, opts);
                    st.cmp(&format!("{what}(T, x, Some(f p), None, (inner, outer) options) vs default options without guess"), key2.clone(), &vv(&with), &vv(&reference), tol);
                    let with = call(Some(p * f), Some(&y0), opts);
                    st.cmp(&format!("{what}(T, x, Some(f p), Some(y0), (inner, outer) options) vs default options without guess"), key2, &vv(&with), &vv(&reference), tol);
                }
            }
        }
    }

    // ---------------------------------------------------------------- output
    std::fs::write(format!("{}/tie.v", cli.out), emit_tie(&ties, &singles) + &crit_coq).unwrap();
    let out = json!({
        "dew_lines": dew_lines,
        "driver_errors": panics,
        "crit_ties": crit_ties,
        "rejected_results": rejected.into_iter().chain(spec_viol.into_iter()).collect::<Vec<_>>(),
        "ties": ties.iter().map(tie_json).collect::<Vec<_>>(),
        "singles": singles.iter().map(|(n, k, c)| json!({"name": n, "kind": k.solver(), "call": call_json(c, 0)})).collect::<Vec<_>>(),
        "support": {
            "comparisons": st.comparisons, "both_converged": st.both_ok, "only_with_guess": st.guess_only_ok, "only_without_guess": st.none_only_ok,
            "both_failed": st.both_fail, "worst_rel_diff_within_tol": st.worst,
            "by_kind": st.by_kind.iter().map(|(k, v)| json!({"what": k, "comparisons": v.0, "both_converged": v.1, "worst_rel_diff": v.2})).collect::<Vec<_>>(), "failures": st.failures, "notes": st.notes, "samples": st.samples,
            "missing_points": missing, "dropped_points_no_fallback_by_design": dropped, "grid_comparisons": grid_cmp,
            "tolerances": {"pure": TOL_PURE, "bubble_dew": TOL_BD, "tp_flash": TOL_FLASH, "state": TOL_STATE, "critical_point": TOL_CRIT, "bubble_dew_with_options": "1000 x outer tolerance"},
            "systems": {"pure": pures.iter().map(|s| s.name.clone()).collect::<Vec<_>>(), "binary": bins.iter().map(|s| s.name.clone()).collect::<Vec<_>>(),
                "critical_point_extra": vrmie.iter().map(|s| s.name.clone()).collect::<Vec<_>>(), "wide_boiling": wides.iter().map(|s| s.name.clone()).collect::<Vec<_>>()},
        },
    });
    cli.write_impl(&out);
}
