//! C04 — pure-component phase equilibria: harness.
//!
//!  * `sweep`  (public API only): support search of the partial clauses (success for every shipped record in the stated
//!    window, equilibrium conditions re-computed at the returned states, T/p round trip, phase diagrams).
//!  * `tie`    (cfg(feos_verif) hooks): the real `iterate_pure_t` / `pure_p` steps, the start cascade, `from_states`
//!    and the diagram assembly on the same inputs as the Coq model `PureVleC04.v` (generated `interval` / `vm_compute` files).
mod helpers;
mod sweep;
#[cfg(feos_verif)]
mod tie;

use feos_verif::configs::Rng;
use rayon::prelude::*;
use serde_json::{json, Value};

fn main() {
    let cli = feos_verif::cli::Cli::parse("/verif/coq/gen/C04");
    std::panic::set_hook(Box::new(|_| {}));
    let mut rng = Rng(cli.seed.wrapping_mul(0x9E37_79B9).wrapping_add(4));
    let cat = sweep::catalogue();

    // --- replay of one (file, index) with the thorough grid
    if let Some(pt) = cli.opt("--point") {
        let mut it = pt.split('|');
        let file = it.next().unwrap().to_string();
        let idx: usize = it.next().unwrap().parse().unwrap();
        let e = cat.iter().find(|e| e.1 == file && e.2 == idx).expect("record");
        let r = sweep::analyse_entry(e, false, &[3, 10, 50], true);
        cli.write_impl(&json!({"support": {"rows": [r]}}));
        return;
    }

    // --- which records
    let known: Vec<(String, usize)> = cli
        .opt("--known")
        .map(|s| s.split(';').filter(|x| !x.is_empty()).map(|x| {
            let mut it = x.split('|');
            (it.next().unwrap().to_string(), it.next().unwrap().parse().unwrap())
        }).collect())
        .unwrap_or_default();
    let full = cli.full() || cli.opt("--all").is_some();
    let mut chosen: Vec<usize> = Vec::new();
    if full {
        chosen = (0..cat.len()).collect();
    } else {
        // quick: 168 seeded records (150 PC-SAFT, 12 SAFT-VR Mie, 6 SAFT-VRQ Mie) + the records of the known findings
        let fam = |f: &str| -> Vec<usize> { (0..cat.len()).filter(|&i| cat[i].0 == f).collect() };
        for (f, n) in [("pcsaft", 150usize), ("saftvrmie", 12), ("saftvrqmie", 6)] {
            let mut pool = fam(f);
            for _ in 0..n.min(pool.len()) {
                let k = rng.below(pool.len());
                chosen.push(pool.swap_remove(k));
            }
        }
        for (file, idx) in &known {
            if let Some(i) = (0..cat.len()).find(|&i| &cat[i].1 == file && cat[i].2 == *idx) {
                if !chosen.contains(&i) {
                    chosen.push(i);
                }
            }
        }
        chosen.sort();
    }
    // diagrams: quick 8 records x {3, 10, 50} (4 of them also 200); thorough 160 seeded records x {3, 10, 50} + 32 x 200
    let mut dia_small: Vec<usize> = Vec::new();
    let mut dia_big: Vec<usize> = Vec::new();
    {
        // records with a known T-solve failure are not used for diagrams (their missing point is that finding)
        let mut pool: Vec<usize> = chosen.iter().copied().filter(|&i| !known.iter().any(|(f, k)| f == &cat[i].1 && *k == cat[i].2)).collect();
        let (ns, nb) = if full { (160, 32) } else { (8, 4) };
        for j in 0..ns.min(pool.len()) {
            let k = rng.below(pool.len());
            let i = pool.swap_remove(k);
            dia_small.push(i);
            if j < nb {
                dia_big.push(i);
            }
        }
    }
    let rows: Vec<Value> = chosen
        .par_iter()
        .map(|&i| {
            let mut d: Vec<usize> = Vec::new();
            if dia_small.contains(&i) {
                d.extend([3, 10, 50]);
            }
            if dia_big.contains(&i) {
                d.push(200);
            }
            sweep::analyse_entry(&cat[i], !full, &d, true)
        })
        .collect();
    let n_points: usize = rows.iter().map(|r| r["res"]["points"].as_array().map(|a| a.len()).unwrap_or(0)).sum();
    let support = json!({
        "catalogue": cat.len(), "records": rows.len(), "points_ok": n_points, "rows": rows,
        "grid": if full { sweep::FRACS_FULL.to_vec() } else { sweep::FRACS_QUICK.to_vec() },
        "grid_saftvrqmie": if full { sweep::FRACS_Q_FULL.to_vec() } else { sweep::FRACS_Q_QUICK.to_vec() },
        "tolerances": {"dp_stiff": sweep::TOL_P_STIFF, "dmu_over_RT": sweep::TOL_MU, "roundtrip_rel": sweep::TOL_ROUNDTRIP, "p_vapor_rel": sweep::TOL_P_REL_VAP},
    });
    #[cfg(feos_verif)]
    let tie = tie::run(&cli, &mut rng);
    #[cfg(not(feos_verif))]
    let tie = Value::Null;
    let helpers = helpers::run(full);
    cli.write_impl(&json!({"support": support, "tie": tie, "helpers": helpers}));
}
