//! C04 correspondence: the real solver stages (through the cfg(feos_verif) hooks and the public API) on the same
//! inputs as the Coq models `PureVleC04.v` / `PureDiagramC04.v`.
//!
//!  pt_*.v   `iterate_pure_t`: a mirror of the loop (f64, public State API for the EoS values) provides the anchor
//!           values of every pass; each pass of the Coq model [pt_pnew]/[newton_rho]/[pt_accept] is evaluated with
//!           `interval` on the exact inputs of that pass and must enclose the anchors; the REAL `iterate_pure_t`
//!           (hook) must return the densities of the last pass and need exactly that many passes.
//!  pp_*.v   `pure_p` likewise ([pp_dT], [pp_rho], [pp_fallback], [pp_accept]); real run through the public API.
//!  disc.v   `from_states` (hook), the start cascade of `pure_t` (hooks for the three starts vs. the public call) and
//!           the temperatures / assembly of `PhaseDiagram::pure`, evaluated by `vm_compute` over Q.
use crate::sweep;
use feos::pets::Pets;
use feos_core::cubic::PengRobinson;
use feos_core::{Contributions, DensityInitialization, EosError, PhaseDiagram, PhaseEquilibrium, ReferenceSystem, Residual, SolverOptions, State, Verbosity};
use feos_verif::configs::{self, Rng};
use feos_verif::prog::dyadic;
use quantity::{Density, Moles, Pressure, Temperature};
use serde_json::{json, Value};
use std::panic::{catch_unwind, AssertUnwindSafe};
use std::sync::Arc;

const HEADER: &str = "From Coq Require Import Reals ZArith List.\nFrom Interval Require Import Tactic.\nFrom FeosVerif Require Import ProgSem PureVleC04.\nOpen Scope R_scope.\n";
/// model vs. anchor, relative
pub const STEP_RTOL: f64 = 1e-11;
/// real result vs. last pass of the mirror, relative
pub const FINAL_RTOL: f64 = 1e-10;
const TOL_PURE: f64 = 1e-12;
const MAX_ITER_PURE: usize = 50;

fn dyr(x: f64) -> String {
    format!("(dy_R {}%Z)", dyadic(x))
}

#[derive(Clone, Copy, Debug)]
struct Sv {
    rho: f64,
    p: f64,
    prho: f64,
    ares: f64,
    pt: f64,
    sres: f64,
}

fn read_state<E: Residual>(s: &State<E>) -> Sv {
    Sv {
        rho: s.density.to_reduced(),
        p: s.pressure(Contributions::Total).to_reduced(),
        prho: s.dp_drho(Contributions::Total).to_reduced(),
        ares: s.residual_molar_helmholtz_energy().to_reduced(),
        pt: s.dp_dt(Contributions::Total).to_reduced(),
        sres: s.residual_molar_entropy().to_reduced(),
    }
}

fn sv_coq(s: &Sv) -> String {
    format!("(mkSv {} {} {} {})", dyr(s.rho), dyr(s.p), dyr(s.prho), dyr(s.ares))
}
fn svp_coq(s: &Sv) -> String {
    format!("(mkSvp {} {} {} {} {} {})", dyr(s.rho), dyr(s.p), dyr(s.prho), dyr(s.pt), dyr(s.sres), dyr(s.ares))
}

/// enclosure [lo, hi] of an anchor, relative radius r (both ends are f64, printed exactly)
fn ball(q: f64, r: f64) -> (f64, f64) {
    let d = q.abs() * r;
    (q - d, q + d)
}

// ------------------------------------------------------------------------------------------------
// A. iterate_pure_t

struct PtPass {
    v: Sv,
    l: Sv,
    pold: f64,
    neg: bool,
    q: Vec<f64>,      // q[0] = estimate, q[j+1] = nstep q[j]
    fabs: Vec<f64>,   // |f(q[j])|
    ntol: f64,
    broke: bool,
    pnew: f64,
    rho_v: f64,
    rho_l: f64,
    ratio: f64, // |pnew - pold| / (pold tol)
    accept: bool,
}

/// the loop of iterate_pure_t in f64 on reduced values (anchor values only; never the oracle)
fn mirror_pure_t<E: Residual>(eos: &Arc<E>, t: Temperature, rv0: f64, rl0: f64, max_iter: usize, tol: f64) -> (Vec<PtPass>, String) {
    let kt = t.to_reduced();
    let mut passes = Vec::new();
    let mk = |rho: f64| State::new_pure(eos, t, Density::from_reduced(rho));
    let (mut vs, mut ls) = match (mk(rv0), mk(rl0)) {
        (Ok(a), Ok(b)) => (a, b),
        _ => return (passes, "start".into()),
    };
    let mut pold = vs.pressure(Contributions::Total).to_reduced();
    for _ in 0..max_iter {
        let v = read_state(&vs);
        let l = read_state(&ls);
        let dv = 1.0 / v.rho - 1.0 / l.rho;
        let da = v.ares - l.ares + kt * (v.rho / l.rho).ln();
        let mut pn = -da / dv;
        let neg = pn.is_sign_negative();
        if neg {
            pn = v.p * ((-da - v.p * (1.0 / v.rho)) / kt).exp();
        }
        let ntol = pold * dv * tol;
        let mut q = vec![pn];
        let mut fabs = Vec::new();
        let mut broke = false;
        for _ in 0..20 {
            let frac = pn / pold;
            let f = pn * dv + da + (frac.ln() + 1.0 - frac) * kt;
            let df = dv + (1.0 / pn - 1.0 / pold) * kt;
            pn -= f / df;
            q.push(pn);
            fabs.push(f.abs());
            if f.abs() < ntol {
                broke = true;
                break;
            }
        }
        if pn.is_nan() {
            passes.push(PtPass { v, l, pold, neg, q, fabs, ntol, broke, pnew: pn, rho_v: f64::NAN, rho_l: f64::NAN, ratio: f64::NAN, accept: false });
            return (passes, "nan".into());
        }
        let rho_l = l.rho + (pn - l.p) / l.prho;
        let rho_v = v.rho + (pn - v.p) / v.prho;
        let ratio = (pn - pold).abs() / (pold * tol);
        let accept = (pn - pold).abs() < pold * tol;
        passes.push(PtPass { v, l, pold, neg, q, fabs, ntol, broke, pnew: pn, rho_v, rho_l, ratio, accept });
        match (mk(rho_v), mk(rho_l)) {
            (Ok(a), Ok(b)) => {
                vs = a;
                ls = b;
            }
            _ => return (passes, "invalid".into()),
        }
        if PhaseEquilibrium::is_trivial_solution(&vs, &ls) {
            return (passes, "trivial".into());
        }
        if accept {
            return (passes, "ok".into());
        }
        pold = pn;
    }
    (passes, "notconverged".into())
}

fn err_kind(e: &EosError) -> String {
    match e {
        EosError::NotConverged(_) => "notconverged".into(),
        EosError::TrivialSolution => "trivial".into(),
        EosError::IterationFailed(_) => "nan".into(),
        EosError::InvalidState(..) => "invalid".into(),
        other => format!("other: {other}"),
    }
}

/// Coq text for one pass.  Returns (text, number of goals); `notes` collects what was skipped as borderline.
fn pt_pass_coq(k: usize, kt: f64, tol: f64, p: &PtPass, notes: &mut Vec<String>) -> (String, usize) {
    let mut s = String::new();
    let mut goals = 0;
    let n = format!("s{k}");
    s.push_str(&format!("\n(* ---- pass {k} ---- *)\nDefinition {n}_v := {}.\nDefinition {n}_l := {}.\nDefinition {n}_pold := {}.\n", sv_coq(&p.v), sv_coq(&p.l), dyr(p.pold)));
    let unf = format!("unfold {n}_v, {n}_l, {n}_pold, c_kt, c_tol");
    if !(p.q[0].abs() > 0.0 && p.q[0].is_finite()) {
        notes.push(format!("pass {k}: zero/non-finite pressure estimate, pass not emitted"));
        return (s, goals);
    }
    let dv = 1.0 / p.v.rho - 1.0 / p.l.rho;
    let lnr = (p.v.rho / p.l.rho).ln();
    let da = p.v.ares - p.l.ares + kt * lnr;
    // radius of the estimate: round-off of the mirror (cancellation in delta_a) + margin
    let cancel = (p.v.ares.abs() + p.l.ares.abs() + (kt * lnr).abs() + da.abs()) / da.abs().max(1e-300);
    let mut radius = p.q[0].abs() * (4e-16 * cancel * if p.neg { (da.abs() / kt).max(1.0) } else { 1.0 } + 2e-14);
    let (lo0, hi0) = (p.q[0] - radius, p.q[0] + radius);
    s.push_str(&format!("Lemma {n}_branch : {} p_est0 c_kt {n}_v {n}_l < 0.\nProof. {}{unf}; c04_eval. Qed.\n",
        if p.neg { "" } else { "~" }, if p.neg { "" } else { "apply Rle_not_lt; " }));
    goals += 1;
    let est_proof = if p.neg {
        format!("Proof. unfold p_est. destruct (Rlt_dec (p_est0 c_kt {n}_v {n}_l) 0) as [H|H]; [|exfalso; apply H; apply {n}_branch]. {unf}; c04_eval. Qed.\n")
    } else {
        format!("Proof. unfold p_est. destruct (Rlt_dec (p_est0 c_kt {n}_v {n}_l) 0) as [H|H]; [exfalso; apply {n}_branch; exact H|]. {unf}; c04_eval. Qed.\n")
    };
    s.push_str(&format!("Lemma {n}_est : {} <= p_est c_kt {n}_v {n}_l <= {}.\n{est_proof}", dyr(lo0), dyr(hi0)));
    goals += 1;
    // inner iterations: enclosures; the radius follows the derivative of the Newton map, N' = f f''/f'^2
    let iters = p.q.len() - 1;
    let mut bounds = vec![(lo0, hi0)];
    for j in 0..iters {
        let x = p.q[j];
        let frac = x / p.pold;
        let f = x * dv + da + (frac.ln() + 1.0 - frac) * kt;
        let df = dv + (1.0 / x - 1.0 / p.pold) * kt;
        let ddf = -kt / (x * x);
        let nprime = (f * ddf / (df * df)).abs();
        // round-off of the anchor (f64 mirror), from the magnitudes of the terms that cancel: in f = x dv + da + (ln(x/p_old) + 1 - x/p_old) kT
        // and in the Newton update x - f/f' (a far-off estimate x >> x_new loses |x|/|x_new| digits)
        let err_f = 4e-16 * ((x * dv).abs() + da.abs() + (frac.ln().abs() + 1.0 + frac.abs()) * kt);
        let rnext = 2.0 * nprime * radius + 2e-14 * p.q[j + 1].abs() + 2.0 * err_f / df.abs() + 8e-16 * (x.abs() + (f / df).abs());
        // is the residual test decidable on the ball?
        let funcert = 2.0 * df.abs() * radius + 2.0 * err_f;
        if !(funcert < 0.2 * (p.fabs[j] - p.ntol).abs()) || !(radius < 1e-3 * x.abs()) {
            notes.push(format!("pass {k}: inner residual test at iteration {j} too close to its threshold for the enclosure (|f|/ntol = {:e}) — chain not emitted", p.fabs[j] / p.ntol));
            return (s, goals);
        }
        let (lo, hi) = bounds[j];
        let (lo2, hi2) = (p.q[j + 1] - rnext, p.q[j + 1] + rnext);
        let breaks_here = j + 1 == iters && p.broke;
        let test = if breaks_here {
            format!("Rabs (fobj c_kt (dv {n}_v {n}_l) (da c_kt {n}_v {n}_l) {n}_pold x) < ntol c_tol (dv {n}_v {n}_l) {n}_pold")
        } else {
            format!("ntol c_tol (dv {n}_v {n}_l) {n}_pold <= Rabs (fobj c_kt (dv {n}_v {n}_l) (da c_kt {n}_v {n}_l) {n}_pold x)")
        };
        s.push_str(&format!(
            "Lemma {n}_in{j} : forall x, {} <= x <= {} -> {} <= nstep c_kt (dv {n}_v {n}_l) (da c_kt {n}_v {n}_l) {n}_pold x <= {} /\\ {test}.\nProof. intros x Hx. split; {unf}; c04_eval_x x. Qed.\n",
            dyr(lo), dyr(hi), dyr(lo2), dyr(hi2)));
        goals += 1;
        bounds.push((lo2, hi2));
        radius = rnext;
    }
    // the chain: enclosure of pt_pnew
    let (lof, hif) = bounds[iters];
    s.push_str(&format!("Lemma {n}_pnew : {} <= pt_pnew c_kt c_tol {n}_v {n}_l {n}_pold <= {}.\nProof.\n  unfold pt_pnew. generalize {n}_est. generalize (p_est c_kt {n}_v {n}_l). intros x0 H0.\n", dyr(lof), dyr(hif)));
    let budget = 20;
    for j in 0..iters {
        let last = j + 1 == iters;
        let rem = budget - j - 1;
        if last && p.broke {
            s.push_str(&format!("  destruct ({n}_in{j} x{j} H{j}) as [H{} T{j}]. rewrite (inner_break c_kt c_tol _ _ _ {rem}%nat x{j} T{j}). exact H{}.\n", j + 1, j + 1));
        } else {
            s.push_str(&format!("  destruct ({n}_in{j} x{j} H{j}) as [H{} T{j}]. rewrite (inner_cont c_kt c_tol _ _ _ {rem}%nat x{j} T{j}). clear T{j}. revert H{}. generalize (nstep c_kt (dv {n}_v {n}_l) (da c_kt {n}_v {n}_l) {n}_pold x{j}). clear x{j} H{j}. intros x{} H{}.\n", j + 1, j + 1, j + 1, j + 1));
        }
    }
    if !p.broke {
        s.push_str(&format!("  cbn [inner]. exact H{iters}.\n"));
    }
    s.push_str("Qed.\n");
    goals += 1;
    // densities and acceptance from the enclosure of pnew
    if !(radius < 0.2 * STEP_RTOL * p.pnew.abs()) {
        notes.push(format!("pass {k}: enclosure of p_new too wide ({:e} relative) — density/acceptance goals not emitted", radius / p.pnew.abs()));
        return (s, goals);
    }
    let (lv, hv) = ball(p.rho_v, STEP_RTOL);
    let (ll, hl) = ball(p.rho_l, STEP_RTOL);
    s.push_str(&format!(
        "Lemma {n}_rho : forall pn, {} <= pn <= {} -> ({} <= newton_rho {n}_v pn <= {}) /\\ ({} <= newton_rho {n}_l pn <= {}).\nProof. intros pn Hpn. split; {unf}; c04_eval_x pn. Qed.\n",
        dyr(lof), dyr(hif), dyr(lv), dyr(hv), dyr(ll), dyr(hl)));
    goals += 1;
    let unc = radius / (p.pold * tol);
    if (p.ratio - 1.0).abs() < 0.2 + 5.0 * unc {
        notes.push(format!("pass {k}: |p_new - p_old| / (p_old tol) = {:e} too close to 1 — acceptance goal not emitted", p.ratio));
    } else {
        s.push_str(&format!(
            "Lemma {n}_acc : forall pn, {} <= pn <= {} -> {}.\nProof. intros pn Hpn. unfold pt_accept. {}{unf}; c04_eval_x pn. Qed.\n",
            dyr(lof), dyr(hif),
            if p.accept { format!("pt_accept c_tol pn {n}_pold") } else { format!("~ pt_accept c_tol pn {n}_pold") },
            if p.accept { "" } else { "apply Rle_not_lt; " }));
        goals += 1;
    }
    (s, goals)
}

fn pt_case<E: Residual>(cli: &feos_verif::cli::Cli, idx: usize, label: &str, eos: &Arc<E>, t: Temperature, rv0: f64, rl0: f64, tol: f64) -> Value {
    let kt = t.to_reduced();
    let (passes, outcome) = mirror_pure_t(eos, t, rv0, rl0, MAX_ITER_PURE, tol);
    // the real loop through the hook, on the same two states
    let mk = |rho: f64| State::new_pure(eos, t, Density::from_reduced(rho));
    let real = |max_iter: usize| -> Value {
        match (mk(rv0), mk(rl0)) {
            (Ok(v), Ok(l)) => match catch_unwind(AssertUnwindSafe(|| PhaseEquilibrium::verif_iterate_pure_t(v, l, max_iter, tol, Verbosity::None))) {
                Ok(Ok(vle)) => json!({"kind": "ok", "rho_v": vle.vapor().density.to_reduced(), "rho_l": vle.liquid().density.to_reduced(),
                                       "T_v": vle.vapor().temperature.to_reduced(), "T_l": vle.liquid().temperature.to_reduced(), "cond": sweep::conditions(&vle)}),
                Ok(Err(e)) => json!({"kind": err_kind(&e), "error": e.to_string()}),
                Err(_) => json!({"kind": "panic"}),
            },
            _ => json!({"kind": "start"}),
        }
    };
    let n = passes.len();
    let real_full = real(MAX_ITER_PURE);
    let real_exact = if outcome == "ok" { real(n) } else { Value::Null };
    let real_short = if outcome == "ok" && n >= 2 { real(n - 1) } else { Value::Null };
    // Coq file
    let mut notes = Vec::new();
    let mut v = String::from(HEADER);
    v.push_str(&format!("(* {label}: T = {kt} K, start rho_v = {rv0:e}, rho_l = {rl0:e}, tol = {tol:e}; mirror outcome {outcome} after {n} pass(es) *)\nDefinition c_kt := {}.\nDefinition c_tol := {}.\n", dyr(kt), dyr(tol)));
    let mut goals = 0;
    let mut emitted = 0;
    for (k, p) in passes.iter().enumerate() {
        if !p.pnew.is_finite() || !p.rho_v.is_finite() {
            notes.push(format!("pass {k}: non-finite values, not emitted"));
            continue;
        }
        // irregular passes (negative pressures, mechanically unstable states: a start outside the basin of the solver)
        // are run and compared through the outcome only
        if !(p.pold > 0.0 && p.q.iter().all(|&x| x > 0.0) && p.v.prho > 0.0 && p.l.prho > 0.0 && p.v.p > 0.0) {
            notes.push(format!("pass {k}: irregular (negative pressure / unstable state), not emitted"));
            continue;
        }
        if emitted >= 10 {
            notes.push(format!("pass {k}: more than 10 passes, not emitted"));
            continue;
        }
        emitted += 1;
        let (txt, g) = pt_pass_coq(k, kt, tol, p, &mut notes);
        v.push_str(&txt);
        goals += g;
    }
    let file = format!("pt_{idx:03}.v");
    std::fs::write(format!("{}/{file}", cli.out), v).unwrap();
    let last = passes.last();
    json!({
        "file": file, "label": label, "T": kt, "rho_v0": rv0, "rho_l0": rl0, "tol": tol, "goals": goals, "notes": notes,
        "mirror": {"outcome": outcome, "passes": n,
                   "rho_v": last.map(|p| p.rho_v), "rho_l": last.map(|p| p.rho_l), "p": last.map(|p| p.pnew),
                   "inner_iterations": passes.iter().map(|p| p.q.len() - 1).collect::<Vec<_>>(),
                   "negative_branch": passes.iter().map(|p| p.neg).collect::<Vec<_>>(),
                   "ratios": passes.iter().map(|p| p.ratio).collect::<Vec<_>>()},
        "real": real_full, "real_max_iter_exact": real_exact, "real_max_iter_one_less": real_short,
    })
}

// ------------------------------------------------------------------------------------------------
// B. pure_p

struct PpPass {
    t: f64,
    v: Sv,
    l: Sv,
    dt: f64,
    rho_v: f64,
    rho_l: f64,
    fallback: bool,
    fb_margin: f64,
    ratio: f64,
    accept: bool,
}

fn mirror_pure_p<E: Residual>(eos: &Arc<E>, p: Pressure, vs0: &State<E>, ls0: &State<E>, max_iter: usize, tol: f64) -> (Vec<PpPass>, String, Option<(f64, f64, f64)>) {
    let m = Moles::from_reduced(ndarray::arr1(&[1.0]));
    let ps = p.to_reduced();
    let mut passes = Vec::new();
    let (mut vs, mut ls) = (vs0.clone(), ls0.clone());
    // `update_pressure(..)?.check_trivial_solution()?` (feos commit 0b8b65df)
    if PhaseEquilibrium::is_trivial_solution(&vs, &ls) {
        return (passes, "trivial".into(), None);
    }
    for _ in 0..max_iter {
        let t = vs.temperature.to_reduced();
        let v = read_state(&vs);
        let l = read_state(&ls);
        let (vl, vv) = (1.0 / l.rho, 1.0 / v.rho);
        let ln_rho = (vl / vv).ln();
        let dt = (ps * (vv - vl) + (v.ares - l.ares + t * ln_rho)) / (v.sres - l.sres - ln_rho);
        let tn = t + dt;
        let rho_l = l.rho + (ps - l.p - l.pt * dt) / l.prho;
        let rho_v = v.rho + (ps - v.p - v.pt * dt) / v.prho;
        let fallback = rho_l.is_sign_negative() || rho_v.is_sign_negative() || dt.abs() > 1.0;
        // distance of the fallback decision from its thresholds
        let fb_margin = (rho_l.abs() / l.rho).min(rho_v.abs() / v.rho).min((dt.abs() - 1.0).abs());
        let tnew = Temperature::from_reduced(tn);
        let next = if fallback {
            let a = State::new_npt(eos, tnew, p, &m, DensityInitialization::InitialDensity(vs.density));
            let b = State::new_npt(eos, tnew, p, &m, DensityInitialization::InitialDensity(ls.density));
            match (a, b) {
                (Ok(a), Ok(b)) => {
                    if PhaseEquilibrium::is_trivial_solution(&a, &b) {
                        passes.push(PpPass { t, v, l, dt, rho_v, rho_l, fallback, fb_margin, ratio: f64::NAN, accept: false });
                        return (passes, "trivial".into(), None);
                    }
                    Some((a, b))
                }
                _ => None,
            }
        } else {
            match (State::new_pure(eos, tnew, Density::from_reduced(rho_v)), State::new_pure(eos, tnew, Density::from_reduced(rho_l))) {
                (Ok(a), Ok(b)) => {
                    // `.check_trivial_solution()?` of the Newton branch (feos commit 0b8b65df)
                    if PhaseEquilibrium::is_trivial_solution(&a, &b) {
                        passes.push(PpPass { t, v, l, dt, rho_v, rho_l, fallback, fb_margin, ratio: f64::NAN, accept: false });
                        return (passes, "trivial".into(), None);
                    }
                    Some((a, b))
                }
                _ => None,
            }
        };
        let ratio = dt.abs() / (tn * tol);
        let accept = dt.abs() < tn * tol;
        passes.push(PpPass { t, v, l, dt, rho_v, rho_l, fallback, fb_margin, ratio, accept });
        match next {
            None => return (passes, "invalid".into(), None),
            Some((a, b)) => {
                vs = a;
                ls = b;
            }
        }
        if accept {
            let r = (vs.temperature.to_reduced(), vs.density.to_reduced(), ls.density.to_reduced());
            return (passes, "ok".into(), Some(r));
        }
    }
    (passes, "notconverged".into(), None)
}

fn pp_case<E: Residual>(cli: &feos_verif::cli::Cli, idx: usize, label: &str, eos: &Arc<E>, p: Pressure, init: &PhaseEquilibrium<E, 2>, tol: f64) -> Value {
    let m = Moles::from_reduced(ndarray::arr1(&[1.0]));
    let t0 = init.vapor().temperature;
    // what `update_pressure(init.vapor().temperature, pressure)` builds (public API, same calls)
    let vs0 = State::new_npt(eos, t0, p, &m, DensityInitialization::InitialDensity(init.vapor().density));
    let ls0 = State::new_npt(eos, t0, p, &m, DensityInitialization::InitialDensity(init.liquid().density));
    let opts = SolverOptions::new().tol(tol);
    let real = match catch_unwind(AssertUnwindSafe(|| PhaseEquilibrium::pure(eos, p, Some(init), opts))) {
        Ok(Ok(vle)) => json!({"kind": "ok", "T": vle.vapor().temperature.to_reduced(), "T_l": vle.liquid().temperature.to_reduced(),
                               "rho_v": vle.vapor().density.to_reduced(), "rho_l": vle.liquid().density.to_reduced(), "cond": sweep::conditions(&vle)}),
        Ok(Err(e)) => json!({"kind": err_kind(&e), "error": e.to_string()}),
        Err(_) => json!({"kind": "panic"}),
    };
    let (vs0, ls0) = match (vs0, ls0) {
        (Ok(a), Ok(b)) => (a, b),
        _ => return json!({"file": Value::Null, "label": label, "real": real, "mirror": {"outcome": "start"}}),
    };
    let (passes, outcome, fin) = mirror_pure_p(eos, p, &vs0, &ls0, MAX_ITER_PURE, tol);
    let n = passes.len();
    let real_exact = if outcome == "ok" {
        match PhaseEquilibrium::pure(eos, p, Some(init), SolverOptions::new().tol(tol).max_iter(n)) {
            Ok(_) => json!("ok"),
            Err(e) => json!(err_kind(&e)),
        }
    } else {
        Value::Null
    };
    let real_short = if outcome == "ok" && n >= 2 {
        match PhaseEquilibrium::pure(eos, p, Some(init), SolverOptions::new().tol(tol).max_iter(n - 1)) {
            Ok(_) => json!("ok"),
            Err(e) => json!(err_kind(&e)),
        }
    } else {
        Value::Null
    };
    let ps = p.to_reduced();
    let mut v = String::from(HEADER);
    let mut notes: Vec<String> = Vec::new();
    let mut goals = 0;
    v.push_str(&format!("(* {label}: p = {ps:e}, start T = {} K, tol = {tol:e}; mirror outcome {outcome} after {n} pass(es) *)\nDefinition c_p := {}.\nDefinition c_tol := {}.\n", t0.to_reduced(), dyr(ps), dyr(tol)));
    for (k, q) in passes.iter().enumerate() {
        if !(q.dt.is_finite() && q.rho_v.is_finite() && q.rho_l.is_finite()) {
            notes.push(format!("pass {k}: non-finite values, not emitted"));
            continue;
        }
        // ill-conditioned pass (the two states are (nearly) the same phase: dT is a quotient of two cancelling differences)
        {
            let ln_rho = (q.v.rho / q.l.rho).ln();
            let den = q.v.sres - q.l.sres - ln_rho;
            if (q.v.sres.abs() + q.l.sres.abs() + ln_rho.abs()) > 1e4 * den.abs() || (q.l.rho / q.v.rho - 1.0).abs() < 1e-3 {
                notes.push(format!("pass {k}: ill-conditioned (nearly identical phases), not emitted"));
                continue;
            }
        }
        let nn = format!("s{k}");
        v.push_str(&format!("\n(* ---- pass {k} ---- *)\nDefinition {nn}_T := {}.\nDefinition {nn}_v := {}.\nDefinition {nn}_l := {}.\n", dyr(q.t), svp_coq(&q.v), svp_coq(&q.l)));
        let unf = format!("unfold {nn}_T, {nn}_v, {nn}_l, c_p, c_tol");
        // dT: absolute tolerance relative to T (dT -> 0 at convergence)
        let e = STEP_RTOL * q.t + STEP_RTOL * q.dt.abs();
        v.push_str(&format!("Lemma {nn}_dT : Rabs (pp_dT {nn}_T c_p {nn}_v {nn}_l - {}) <= {}.\nProof. {unf}; c04p_eval. Qed.\n", dyr(q.dt), dyr(e)));
        let (lv, hv) = ball(q.rho_v, 10.0 * STEP_RTOL);
        let (ll, hl) = ball(q.rho_l, 10.0 * STEP_RTOL);
        v.push_str(&format!("Lemma {nn}_rho : ({} <= pp_rho c_p {nn}_v (pp_dT {nn}_T c_p {nn}_v {nn}_l) <= {}) /\\ ({} <= pp_rho c_p {nn}_l (pp_dT {nn}_T c_p {nn}_v {nn}_l) <= {}).\nProof. split; {unf}; c04p_eval. Qed.\n",
            dyr(lv.min(hv)), dyr(lv.max(hv)), dyr(ll.min(hl)), dyr(ll.max(hl))));
        goals += 2;
        if q.fb_margin > 1e-6 {
            if q.fallback {
                let which = if q.rho_l.is_sign_negative() { "left" } else if q.rho_v.is_sign_negative() { "right; left" } else { "right; right" };
                v.push_str(&format!("Lemma {nn}_fb : pp_fallback {nn}_T c_p {nn}_v {nn}_l.\nProof. unfold pp_fallback. {which}; {unf}; c04p_eval. Qed.\n"));
            } else {
                v.push_str(&format!("Lemma {nn}_fb : ~ pp_fallback {nn}_T c_p {nn}_v {nn}_l.\nProof. unfold pp_fallback. intros [H|[H|H]]; revert H; [apply Rle_not_lt|apply Rle_not_lt|apply Rle_not_lt]; {unf}; c04p_eval. Qed.\n"));
            }
            goals += 1;
        } else {
            notes.push(format!("pass {k}: fallback decision borderline, not emitted"));
        }
        if q.ratio.is_finite() && !(0.8..=1.25).contains(&q.ratio) {
            if q.accept {
                v.push_str(&format!("Lemma {nn}_acc : pp_accept {nn}_T c_p c_tol {nn}_v {nn}_l.\nProof. unfold pp_accept. {unf}; c04p_eval. Qed.\n"));
            } else {
                v.push_str(&format!("Lemma {nn}_acc : ~ pp_accept {nn}_T c_p c_tol {nn}_v {nn}_l.\nProof. unfold pp_accept. apply Rle_not_lt. {unf}; c04p_eval. Qed.\n"));
            }
            goals += 1;
        } else if q.ratio.is_finite() {
            notes.push(format!("pass {k}: |dT| within 25% of T tol — acceptance goal not emitted"));
        }
    }
    let file = format!("pp_{idx:03}.v");
    std::fs::write(format!("{}/{file}", cli.out), v).unwrap();
    json!({
        "file": file, "label": label, "p": ps, "T0": t0.to_reduced(), "tol": tol, "goals": goals, "notes": notes,
        "mirror": {"outcome": outcome, "passes": n, "T": fin.map(|x| x.0), "rho_v": fin.map(|x| x.1), "rho_l": fin.map(|x| x.2),
                   "fallback": passes.iter().map(|q| q.fallback).collect::<Vec<_>>(), "dT": passes.iter().map(|q| q.dt).collect::<Vec<_>>()},
        "real": real, "real_max_iter_exact": real_exact, "real_max_iter_one_less": real_short,
    })
}

// ------------------------------------------------------------------------------------------------
// C/D/E. discrete parts

fn same_vle<E: Residual>(a: &PhaseEquilibrium<E, 2>, b: &PhaseEquilibrium<E, 2>) -> bool {
    a.vapor().density == b.vapor().density && a.liquid().density == b.liquid().density && a.vapor().temperature == b.vapor().temperature
}

/// the three attempts of pure_t through the hooks, and the real cascade
fn cascade_case<E: Residual>(label: &str, eos: &Arc<E>, t: Temperature, init: Option<&PhaseEquilibrium<E, 2>>) -> Value {
    let it = |s: Result<PhaseEquilibrium<E, 2>, EosError>| s.and_then(|v| {
        let [a, b] = [v.vapor().clone(), v.liquid().clone()];
        PhaseEquilibrium::verif_iterate_pure_t(a, b, MAX_ITER_PURE, TOL_PURE, Verbosity::None)
    });
    let r = catch_unwind(AssertUnwindSafe(|| {
        let given = init.map(|i| it(PhaseEquilibrium::verif_init_pure_state(i, t)));
        let ig = it(PhaseEquilibrium::verif_init_pure_ideal_gas(eos, t));
        let sp = it(PhaseEquilibrium::verif_init_pure_spinodal(eos, t));
        let real = PhaseEquilibrium::pure(eos, t, init, SolverOptions::default());
        // identify the real result among the attempts (1 = given, 2 = ideal gas, 3 = spinodal; 0 = none of them)
        let code = |x: &Result<PhaseEquilibrium<E, 2>, EosError>| if x.is_ok() { 1 } else { 0 };
        let which = match &real {
            Ok(r) => {
                let mut w = Vec::new();
                if let Some(Ok(g)) = &given {
                    if same_vle(r, g) {
                        w.push(1);
                    }
                }
                if let Ok(g) = &ig {
                    if same_vle(r, g) {
                        w.push(2);
                    }
                }
                if let Ok(g) = &sp {
                    if same_vle(r, g) {
                        w.push(3);
                    }
                }
                w
            }
            Err(e) => {
                let mut w = vec![];
                if let Err(e3) = &sp {
                    if e3.to_string() == e.to_string() {
                        w.push(-3);
                    }
                }
                w
            }
        };
        json!({"label": label, "T": t.to_reduced(), "given": given.as_ref().map(code), "ig": code(&ig), "sp": code(&sp),
               "real_ok": real.is_ok(), "real_matches": which,
               "errors": [given.as_ref().and_then(|g| g.as_ref().err().map(|e| e.to_string())), ig.as_ref().err().map(|e| e.to_string()), sp.as_ref().err().map(|e| e.to_string())]})
    }));
    r.unwrap_or_else(|_| json!({"label": label, "panic": true}))
}

fn from_states_cases<E: Residual>(eos: &Arc<E>, t: Temperature, rho_scale: f64, rng: &mut Rng, n: usize) -> Vec<Value> {
    let mut out = Vec::new();
    for i in 0..n {
        let r1 = rho_scale * rng.log_range(1e-4, 1.0);
        let r2 = match i % 4 {
            0 => r1,                                   // equal densities (critical point of a diagram)
            1 => r1 * (1.0 + 1e-12),                   // nearly equal (the code compares SI values: the unit conversion may merge 1-ulp neighbours)
            _ => rho_scale * rng.log_range(1e-4, 1.0),
        };
        let (s1, s2) = match (State::new_pure(eos, t, Density::from_reduced(r1)), State::new_pure(eos, t * 1.0000001, Density::from_reduced(r2))) {
            (Ok(a), Ok(b)) => (a, b),
            _ => continue,
        };
        let (d1, d2) = (s1.density.to_reduced(), s2.density.to_reduced());
        let (t1, t2) = (s1.temperature.to_reduced(), s2.temperature.to_reduced());
        let pe = PhaseEquilibrium::verif_from_states(s1, s2);
        // which argument became the vapor: identified by the temperature tag (the two states carry different temperatures)
        let vap = if pe.vapor().temperature.to_reduced() == t1 { 1 } else { 2 };
        let liq = if pe.liquid().temperature.to_reduced() == t1 { 1 } else { 2 };
        let _ = t2;
        out.push(json!({"rho1": d1, "rho2": d2, "coq": format!("({}%Z, {}%Z)", dyadic(d1), dyadic(d2)), "vapor_is": vap, "liquid_is": liq,
                        "rho_vapor": pe.vapor().density.to_reduced(), "rho_liquid": pe.liquid().density.to_reduced()}));
    }
    out
}

fn diagram_case<E: Residual>(label: &str, eos: &Arc<E>, frac: f64, n: usize, opt: Option<(usize, f64)>) -> Value {
    let r = catch_unwind(AssertUnwindSafe(|| -> Result<Value, String> {
        let cp = State::critical_point(eos, None, None, SolverOptions::default()).map_err(|e| e.to_string())?;
        if !sweep::physical(&cp) {
            return Err("unphysical default critical point".into());
        }
        let tmin = cp.temperature * frac;
        // the options are the VLE solver's; the critical point above is the one of the DEFAULT options (model: diagram_res)
        let o = match opt {
            None => SolverOptions::default(),
            Some((mi, tl)) => SolverOptions::new().max_iter(mi).tol(tl),
        };
        let dia = PhaseDiagram::pure(eos, tmin, n, None, o).map_err(|e| format!("{e} (State::critical_point with default options is Ok: T_c = {} K)", cp.temperature.to_reduced()))?;
        let ts: Vec<f64> = dia.states.iter().map(|s| s.vapor().temperature.to_reduced()).collect();
        let last = dia.states.last().unwrap();
        Ok(json!({"label": label, "npoints": n, "options": opt.map(|(mi, tl)| format!("max_iter = {mi}, tol = {tl:e}")), "tmin": tmin.to_reduced(), "tc": cp.temperature.to_reduced(), "temps": ts,
                  "coq": format!("(({}%Z, {}%Z), {n}%nat)", dyadic(tmin.to_reduced()), dyadic(cp.temperature.to_reduced())),
                  "last_is_critical": last.vapor().temperature == cp.temperature && last.vapor().density == cp.density && last.liquid().density == cp.density,
                  "last_rho_equal": last.vapor().density == last.liquid().density}))
    }));
    match r {
        Ok(Ok(v)) => v,
        Ok(Err(e)) => json!({"label": label, "npoints": n, "options": opt.map(|(mi, tl)| format!("max_iter = {mi}, tol = {tl:e}")), "error": e}),
        Err(_) => json!({"label": label, "npoints": n, "options": opt.map(|(mi, tl)| format!("max_iter = {mi}, tol = {tl:e}")), "error": "panic"}),
    }
}

// ------------------------------------------------------------------------------------------------

struct Acc<'a> {
    cli: &'a feos_verif::cli::Cli,
    pt: Vec<Value>,
    pp: Vec<Value>,
    casc: Vec<Value>,
    fs: Vec<Value>,
    dia: Vec<Value>,
}

fn model_cases<E: Residual>(acc: &mut Acc, label: &str, eos: &Arc<E>, rng: &mut Rng, fracs: &[f64], full: bool) {
    let opts = SolverOptions::default();
    let cp = match State::critical_point(eos, None, None, opts) {
        Ok(c) if sweep::physical(&c) => c,
        _ => return,
    };
    let tc = cp.temperature;
    for &f in fracs {
        let t = tc * f;
        let vle = match PhaseEquilibrium::pure(eos, t, None, opts) {
            Ok(v) => v,
            Err(_) => continue,
        };
        let (rv, rl) = (vle.vapor().density.to_reduced(), vle.liquid().density.to_reduced());
        // perturbed starts: small, medium, large (vapor density up to 30%, liquid density up to 3%)
        let nstart = if full { 3 } else { 1 };
        for s in 0..nstart {
            let (av, al) = match if full { s } else { acc.pt.len() % 2 } {
                0 => (0.02, 0.002),
                1 => (0.3, 0.03),
                _ => (0.1, 0.01),
            };
            let dv = 1.0 + av * rng.range(-1.0, 1.0);
            let dl = 1.0 + al * rng.range(-1.0, 1.0);
            let idx = acc.pt.len();
            let c = pt_case(acc.cli, idx, &format!("{label} T_r={f} start {s}"), eos, t, rv * dv, rl * dl, TOL_PURE);
            acc.pt.push(c);
        }
        // a loose tolerance (another acceptance pass, another inner budget)
        {
            let idx = acc.pt.len();
            let tol = 10f64.powf(rng.range(-9.0, -4.0));
            let c = pt_case(acc.cli, idx, &format!("{label} T_r={f} loose tol"), eos, t, rv * (1.0 + 0.05 * rng.range(-1.0, 1.0)), rl * (1.0 + 0.005 * rng.range(-1.0, 1.0)), tol);
            acc.pt.push(c);
        }
        // a strongly supersaturated vapor: the equal-area estimate is negative, the ideal-gas estimate is used
        if f <= 0.75 {
            let idx = acc.pt.len();
            let c = pt_case(acc.cli, idx, &format!("{label} T_r={f} dense vapor start"), eos, t, rv * rng.range(5.0, 30.0), rl * (1.0 + 0.002 * rng.range(-1.0, 1.0)), TOL_PURE);
            acc.pt.push(c);
        }
        // the ideal-gas start of the cascade (far from the solution; may take the negative-pressure branch)
        if let Ok(ig) = PhaseEquilibrium::verif_init_pure_ideal_gas(eos, t) {
            let idx = acc.pt.len();
            let c = pt_case(acc.cli, idx, &format!("{label} T_r={f} ideal-gas start"), eos, t, ig.vapor().density.to_reduced(), ig.liquid().density.to_reduced(), TOL_PURE);
            acc.pt.push(c);
        }
        // pure_p from the solution at a neighbouring temperature
        let p = vle.vapor().pressure(Contributions::Total);
        let gs = [1.0 + 0.004 * rng.range(0.2, 1.0), 1.0 - 0.02 * rng.range(0.2, 1.0)];
        for (gi, g) in gs.into_iter().enumerate() {
            if f * g >= 0.995 || (!full && gi != acc.pp.len() % 2) {
                continue;
            }
            if let Ok(init) = PhaseEquilibrium::pure(eos, t * g, Some(&vle), opts) {
                let idx = acc.pp.len();
                let c = pp_case(acc.cli, idx, &format!("{label} p_sat(T_r={f}) from T_r={}", f * g), eos, p, &init, TOL_PURE);
                acc.pp.push(c);
            }
        }
        // cascade: no initial state, a good one, a useless one
        acc.casc.push(cascade_case(&format!("{label} T_r={f} init none"), eos, t, None));
        acc.casc.push(cascade_case(&format!("{label} T_r={f} init self"), eos, t, Some(&vle)));
        if let Ok(far) = PhaseEquilibrium::pure(eos, tc * 0.5, None, opts) {
            acc.casc.push(cascade_case(&format!("{label} T_r={f} init from 0.5 T_c"), eos, t, Some(&far)));
        }
        // above the critical temperature every attempt fails
        acc.casc.push(cascade_case(&format!("{label} T = 1.05 T_c"), eos, tc * 1.05, Some(&vle)));
    }
    let rho_c = cp.density.to_reduced();
    let fs = from_states_cases(eos, tc * 0.8, 3.0 * rho_c, rng, if full { 24 } else { 8 });
    acc.fs.extend(fs);
    for n in if full { vec![3usize, 4, 10, 50, 200] } else { vec![3usize, 10, 50] } {
        acc.dia.push(diagram_case(label, eos, rng.range(0.45, 0.9), n, None));
    }
    // non-default options of the VLE solver (iteration limit 6..12, tolerance 1e-12..1e-9)
    for n in [5usize, 12] {
        let mi = 6 + rng.below(7);
        let tl = 10f64.powf(rng.range(-12.0, -9.0));
        acc.dia.push(diagram_case(label, eos, rng.range(0.6, 0.9), n, Some((mi, tl))));
    }
}

pub fn run(cli: &feos_verif::cli::Cli, rng: &mut Rng) -> Value {
    let full = cli.full();
    let mut acc = Acc { cli, pt: vec![], pp: vec![], casc: vec![], fs: vec![], dia: vec![] };
    let fr_q: Vec<f64> = vec![0.5, 0.7, 0.9, 0.98];
    let pick = |rng: &mut Rng, k: usize| -> Vec<f64> {
        if full {
            fr_q.clone()
        } else {
            let mut v = fr_q.clone();
            while v.len() > k {
                let i = rng.below(v.len());
                v.remove(i);
            }
            v
        }
    };
    // fixed representatives of the model families named in the property
    let pr = Arc::new(configs::peng_robinson(1));
    let f = pick(rng, 1);
    model_cases::<PengRobinson>(&mut acc, "Peng-Robinson propane", &pr, rng, &f, full);
    let pets = Arc::new(configs::pets(1));
    let f = pick(rng, 1);
    model_cases::<Pets>(&mut acc, "PeTS argon", &pets, rng, &f, full);
    let vr = Arc::new(configs::saftvrmie(&["ethane"]));
    let f = pick(rng, 1);
    model_cases(&mut acc, "SAFT-VR Mie ethane", &vr, rng, &f, full);
    // seeded PC-SAFT records of the shipped collections (non-associating, polar, associating alike)
    let cat = sweep::catalogue();
    let pool: Vec<usize> = (0..cat.len()).filter(|&i| cat[i].0 == "pcsaft").collect();
    let nrec = if full { 8 } else { 2 };
    for _ in 0..nrec {
        let e = &cat[pool[rng.below(pool.len())]];
        if let Ok(eos) = sweep::pcsaft_of(&e.1, e.2) {
            let f = pick(rng, 1);
            model_cases(&mut acc, &format!("PC-SAFT {} ({}#{})", e.3, e.1, e.2), &eos, rng, &f, full);
        }
    }
    // water (association) always
    if let Ok(eos) = sweep::pcsaft_of("pcsaft/gross2002.json", 0) {
        let f = pick(rng, 1);
        model_cases(&mut acc, "PC-SAFT gross2002#0", &eos, rng, &f, full);
    }
    // quantum fluids (critical temperatures far from the trial temperatures of the critical-point solver): diagrams only
    for (name, file) in [("hydrogen", "aasen2019.json"), ("neon", "hammer2023.json"), ("deuterium", "aasen2019_fh2.json")] {
        let eos = Arc::new(configs::saftvrqmie(&[name], file, None));
        let label = format!("SAFT-VRQ Mie {name} ({file})");
        acc.dia.push(diagram_case(&label, &eos, rng.range(0.6, 0.9), 10, None));
        let mi = 6 + rng.below(7);
        acc.dia.push(diagram_case(&label, &eos, rng.range(0.6, 0.9), 8, Some((mi, 1e-12))));
        if !full {
            break;
        }
    }
    // ---- disc.v: the discrete models evaluated by vm_compute
    let mut v = String::from("From Coq Require Import List ZArith QArith Qround String.\nFrom FeosVerif Require Import PureDiagramC04.\nImport ListNotations.\nOpen Scope string_scope.\nSet Printing Width 1000000.\nSet Printing Depth 1000000.\n");
    let fs_list: Vec<String> = acc.fs.iter().map(|c| c["coq"].as_str().unwrap().to_string()).collect();
    v.push_str(&format!(
        "Definition fs_cases : list ((Z * Z) * (Z * Z)) := [{}].\nEval vm_compute in (\"FS\", map (fun c => let r := from_states (fun i : nat => if Nat.eqb i 1 then dyQ (fst c) else dyQ (snd c)) 1%nat 2%nat in (Z.of_nat (fst r), Z.of_nat (snd r))) fs_cases).\n",
        fs_list.join("; ")));
    let casc_list: Vec<String> = acc.casc.iter().filter(|c| c.get("panic").is_none()).map(|c| {
        let g = match c["given"].as_i64() { None => "None".to_string(), Some(1) => "Some (Ok 1%Z)".to_string(), Some(_) => "Some (Err (-1)%Z)".to_string() };
        let ig = if c["ig"].as_i64() == Some(1) { "Ok 2%Z" } else { "Err (-2)%Z" };
        let sp = if c["sp"].as_i64() == Some(1) { "Ok 3%Z" } else { "Err (-3)%Z" };
        format!("({g}, {ig}, {sp})")
    }).collect();
    v.push_str(&format!(
        "Definition casc_cases : list (option (res Z Z) * res Z Z * res Z Z) := [{}].\nEval vm_compute in (\"CASC\", map (fun c => match pure_t_cascade (fst (fst c)) (snd (fst c)) (snd c) with Ok z => z | Err z => z end) casc_cases).\n",
        casc_list.join("; ")));
    let dia_ok: Vec<&Value> = acc.dia.iter().filter(|d| d.get("error").is_none()).collect();
    let dia_list: Vec<String> = dia_ok.iter().map(|c| c["coq"].as_str().unwrap().to_string()).collect();
    v.push_str(&format!(
        "Definition dia_cases : list (((Z * Z) * (Z * Z)) * nat) := [{}].\nEval vm_compute in (\"DIA\", map (fun c => map (fun q => Qfloor (q * inject_Z (2 ^ 40))) (diagram_temps (dyQ (fst (fst c))) (dyQ (snd (fst c))) (snd c) ++ [dyQ (snd (fst c))])) dia_cases).\n",
        dia_list.join("; ")));
    std::fs::write(format!("{}/disc.v", cli.out), v).unwrap();
    json!({
        "pt": acc.pt, "pp": acc.pp, "cascade": acc.casc, "from_states": acc.fs, "diagrams": acc.dia,
        "tolerances": {"model_vs_anchor_rel": STEP_RTOL, "real_vs_last_pass_rel": FINAL_RTOL, "diagram_temperature_rel": 1e-12},
    })
}
