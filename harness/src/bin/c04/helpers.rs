//! C04 — the per-component helpers of vle_pure.rs (`vapor_pressure`, `boiling_temperature`, `vle_pure_comps`) and
//! `State::critical_point_pure`: entry i must be the pure solver's result on the sub-model of component i *of the same model,
//! options included* (Coq model: PureDiagramC04.per_component).  Public API only.
//!
//! Oracle: the pure model of component 0 is built independently (same records, same options, never through `subset`);
//! the helper's entry 0 on the mixture model — and on the pure model itself — must be what `PhaseEquilibrium::pure` returns for
//! it; every entry of `vle_pure_comps`, whose states live in the caller's model, must satisfy the equilibrium conditions
//! recomputed in that model.
use crate::sweep;
use feos::pcsaft::{PcSaft, PcSaftOptions};
use feos::saftvrmie::{SaftVRMie, SaftVRMieOptions, SaftVRMieParameters};
use feos::uvtheory::Perturbation;
use feos_core::parameter::{IdentifierOption, Parameter};
use feos_core::{Contributions, PhaseEquilibrium, ReferenceSystem, Residual, SolverOptions, State};
use feos_verif::configs;
use quantity::{Pressure, Temperature};
use serde_json::{json, Value};
use std::panic::{catch_unwind, AssertUnwindSafe};
use std::sync::Arc;

pub const HELPER_RTOL: f64 = 1e-10;

fn rel(a: f64, b: f64) -> f64 {
    (a - b).abs() / b.abs().max(1e-300)
}

/// conditions of a `vle_pure_comps` entry for component i, recomputed in the model the states live in
fn comp_conditions<E: Residual>(vle: &PhaseEquilibrium<E, 2>, i: usize) -> Value {
    let (v, l) = (vle.vapor(), vle.liquid());
    let t = v.temperature.to_reduced();
    let (pv, pl) = (v.pressure(Contributions::Total).to_reduced(), l.pressure(Contributions::Total).to_reduced());
    let (rv, rl) = (v.partial_density.to_reduced()[i], l.partial_density.to_reduced()[i]);
    let prl = l.dp_drho(Contributions::Total).to_reduced();
    let muv = v.residual_chemical_potential().to_reduced()[i] + t * rv.ln();
    let mul = l.residual_chemical_potential().to_reduced()[i] + t * rl.ln();
    json!({"T_v": t, "T_equal": v.temperature == l.temperature, "p_v": pv, "p_l": pl, "rho_v": v.density.to_reduced(), "rho_l": l.density.to_reduced(),
           "dp_stiff": (pv - pl).abs() / pv.abs().max(l.density.to_reduced() * prl), "dmu": (muv - mul).abs() / t,
           "ordered": v.density < l.density,
           "other_components_empty": (0..v.moles.len()).all(|j| j == i || (v.moles.get(j).to_reduced() == 0.0 && l.moles.get(j).to_reduced() == 0.0))})
}

fn push_cmp(out: &mut Vec<Value>, label: &str, what: &str, input: Value, helper: Option<f64>, expected: Option<f64>) {
    let ok = match (helper, expected) {
        (None, None) => true,
        (Some(a), Some(b)) => rel(a, b) <= HELPER_RTOL,
        _ => false,
    };
    out.push(json!({"config": label, "what": what, "input": input, "helper": helper, "expected": expected, "ok": ok}));
}

/// `mix`: the caller's model (1 or more components); `pure0`: the independently built model of its component 0
fn helper_cases<E: Residual>(label: &str, mix: &Arc<E>, pure0: &Arc<E>, fracs: &[f64], out: &mut Vec<Value>, conds: &mut Vec<Value>) {
    let opts = SolverOptions::default();
    let r = catch_unwind(AssertUnwindSafe(|| {
        let cp = match State::critical_point(pure0, None, None, opts) {
            Ok(c) if sweep::physical(&c) => c,
            _ => {
                out.push(json!({"config": label, "what": "critical point of the independently built pure model", "ok": true, "skipped": true}));
                return;
            }
        };
        let tc = cp.temperature;
        let n = mix.components();
        // State::critical_point_pure (through subset)
        match State::critical_point_pure(mix, None, opts) {
            Ok(v) => push_cmp(out, label, "critical_point_pure[0].temperature vs critical_point of the pure model", json!({}), v.first().map(|s| s.temperature.to_reduced()), Some(tc.to_reduced())),
            Err(_) => push_cmp(out, label, "critical_point_pure[0].temperature vs critical_point of the pure model", json!({}), None, Some(tc.to_reduced())),
        }
        for &f in fracs {
            let t: Temperature = tc * f;
            let tin = json!({"T": t.to_reduced(), "T_r_of_component_0": f});
            let refv = PhaseEquilibrium::pure(pure0, t, None, opts).ok();
            let p_ref = refv.as_ref().map(|v| v.vapor().pressure(Contributions::Total));
            // vapor_pressure
            let vp = PhaseEquilibrium::vapor_pressure(mix, t);
            out.push(json!({"config": label, "what": "vapor_pressure: one entry per component", "input": tin, "helper": vp.len(), "expected": n, "ok": vp.len() == n}));
            push_cmp(out, label, "vapor_pressure[0] vs pure(T).vapor().pressure of the pure model", tin.clone(), vp.first().and_then(|x| x.map(|p| p.to_reduced())), p_ref.map(|p| p.to_reduced()));
            // vle_pure_comps at T
            let vc = PhaseEquilibrium::vle_pure_comps(mix, t);
            out.push(json!({"config": label, "what": "vle_pure_comps(T): one entry per component", "input": tin, "helper": vc.len(), "expected": n, "ok": vc.len() == n}));
            push_cmp(out, label, "vle_pure_comps(T)[0] liquid density vs pure(T) of the pure model", tin.clone(),
                     vc.first().and_then(|x| x.as_ref().map(|v| v.liquid().density.to_reduced())), refv.as_ref().map(|v| v.liquid().density.to_reduced()));
            push_cmp(out, label, "vle_pure_comps(T)[0] vapor density vs pure(T) of the pure model", tin.clone(),
                     vc.first().and_then(|x| x.as_ref().map(|v| v.vapor().density.to_reduced())), refv.as_ref().map(|v| v.vapor().density.to_reduced()));
            for (i, e) in vc.iter().enumerate() {
                if let Some(v) = e {
                    let mut c = comp_conditions(v, i);
                    c["config"] = json!(label);
                    c["component"] = json!(i);
                    c["spec"] = json!({"T": t.to_reduced()});
                    c["T_is_spec"] = json!(v.vapor().temperature == t);
                    // the helper vapor_pressure must agree with the states of vle_pure_comps
                    c["vapor_pressure_entry"] = json!(vp.get(i).and_then(|x| x.map(|p| p.to_reduced())));
                    conds.push(c);
                }
            }
            // boiling_temperature / vle_pure_comps at p = p_sat of component 0
            if let Some(p) = p_ref {
                let p: Pressure = p;
                let pin = json!({"p": p.to_reduced(), "from_T": t.to_reduced()});
                let refp = PhaseEquilibrium::pure(pure0, p, None, opts).ok();
                let bt = PhaseEquilibrium::boiling_temperature(mix, p);
                out.push(json!({"config": label, "what": "boiling_temperature: one entry per component", "input": pin, "helper": bt.len(), "expected": n, "ok": bt.len() == n}));
                push_cmp(out, label, "boiling_temperature[0] vs pure(p).vapor().temperature of the pure model", pin.clone(),
                         bt.first().and_then(|x| x.map(|t| t.to_reduced())), refp.as_ref().map(|v| v.vapor().temperature.to_reduced()));
                let vcp = PhaseEquilibrium::vle_pure_comps(mix, p);
                push_cmp(out, label, "vle_pure_comps(p)[0] temperature vs pure(p) of the pure model", pin.clone(),
                         vcp.first().and_then(|x| x.as_ref().map(|v| v.vapor().temperature.to_reduced())), refp.as_ref().map(|v| v.vapor().temperature.to_reduced()));
                for (i, e) in vcp.iter().enumerate() {
                    if let Some(v) = e {
                        let mut c = comp_conditions(v, i);
                        c["config"] = json!(label);
                        c["component"] = json!(i);
                        c["spec"] = json!({"p": p.to_reduced()});
                        c["T_is_spec"] = json!(true);
                        conds.push(c);
                    }
                }
            }
        }
    }));
    if r.is_err() {
        out.push(json!({"config": label, "what": "panic inside a per-component helper", "ok": false}));
    }
}

fn saftvrmie_opts(names: &[&str], o: SaftVRMieOptions) -> Arc<SaftVRMie> {
    let p = SaftVRMieParameters::from_json(names.to_vec(), format!("{}/saftvrmie/lafitte2013.json", configs::params()), None, IdentifierOption::Name).unwrap();
    Arc::new(SaftVRMie::with_options(Arc::new(p), o))
}

pub fn run(full: bool) -> Value {
    let mut out = Vec::new();
    let mut conds = Vec::new();
    let fr: &[f64] = if full { &[0.55, 0.7, 0.85, 0.95] } else { &[0.7, 0.9] };
    // uv-theory: every perturbation (Barker-Henderson and WCA-B3 are non-default options), pure and binary
    for (pl, pert) in [("WCA", Perturbation::WeeksChandlerAndersen), ("BH", Perturbation::BarkerHenderson), ("WCA-B3", Perturbation::WeeksChandlerAndersenB3)] {
        let pure = Arc::new(configs::uvtheory(1, pert.clone()));
        helper_cases(&format!("uv-theory {pl} pure"), &pure, &pure, fr, &mut out, &mut conds);
        // the B3 perturbation is implemented for pure components only
        if pl != "WCA-B3" {
            let mix = Arc::new(configs::uvtheory(2, pert.clone()));
            helper_cases(&format!("uv-theory {pl} binary"), &mix, &pure, fr, &mut out, &mut conds);
        }
    }
    // models with default options, pure and binary
    let pr1 = Arc::new(configs::peng_robinson(1));
    helper_cases("Peng-Robinson binary", &Arc::new(configs::peng_robinson(2)), &pr1, fr, &mut out, &mut conds);
    let pets1 = Arc::new(configs::pets(1));
    helper_cases("PeTS binary", &Arc::new(configs::pets(2)), &pets1, fr, &mut out, &mut conds);
    let pc1 = Arc::new(PcSaft::new(Arc::new(configs::pcsaft_params(&["propane"], "gross2001.json", None))));
    let pc2 = Arc::new(PcSaft::new(Arc::new(configs::pcsaft_params(&["propane", "butane"], "gross2001.json", None))));
    helper_cases("PC-SAFT propane/butane", &pc2, &pc1, fr, &mut out, &mut conds);
    helper_cases("PC-SAFT propane pure", &pc1, &pc1, fr, &mut out, &mut conds);
    // non-default options that must survive `subset`: a tight packing-fraction limit changes max_density, hence the liquid start
    // of the density iterations; association solver settings change the monomer fractions
    let po = PcSaftOptions { max_eta: 0.45, ..PcSaftOptions::default() };
    let pw1 = Arc::new(PcSaft::with_options(Arc::new(configs::pcsaft_params(&["water"], "gross2002.json", None)), po));
    let pw2 = Arc::new(PcSaft::with_options(Arc::new(configs::pcsaft_params(&["water", "methanol"], "gross2002.json", None)), po));
    helper_cases("PC-SAFT water/methanol, max_eta 0.45", &pw2, &pw1, fr, &mut out, &mut conds);
    let so = SaftVRMieOptions { max_eta: 0.45, ..SaftVRMieOptions::default() };
    helper_cases("SAFT-VR Mie ethane/n-butane, max_eta 0.45", &saftvrmie_opts(&["ethane", "n-butane"], so), &saftvrmie_opts(&["ethane"], so), fr, &mut out, &mut conds);
    let q1 = Arc::new(configs::saftvrqmie(&["hydrogen"], "aasen2019.json", None));
    let q2 = Arc::new(configs::saftvrqmie(&["hydrogen", "neon"], "aasen2019.json", Some("aasen2020_binary.json")));
    helper_cases("SAFT-VRQ Mie hydrogen/neon", &q2, &q1, fr, &mut out, &mut conds);
    // ---- uv-theory pure models in the support search ("conditions whenever Ok"; success is not required for them)
    let mut extra = Vec::new();
    for (pl, pert) in [("WCA", Perturbation::WeeksChandlerAndersen), ("BH", Perturbation::BarkerHenderson), ("WCA-B3", Perturbation::WeeksChandlerAndersenB3)] {
        let eos = Arc::new(configs::uvtheory(1, pert));
        let sw = sweep::Sweep { fracs: if full { sweep::FRACS_FULL.to_vec() } else { sweep::FRACS_QUICK.to_vec() }, diagrams: vec![10], roundtrip: true, opt_diagrams: true };
        extra.push(json!({"family": "uvtheory", "file": format!("uv-theory {pl} (harness record 0)"), "index": 0, "name": pl, "res": sweep::analyse(&eos, &sw)}));
    }
    json!({"comparisons": out, "conditions": conds, "extra_rows": extra, "rtol": HELPER_RTOL})
}
