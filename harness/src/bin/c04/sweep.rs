//! C04 support search (public API only — also compiles against the pinned tree without the verification hooks).
//!
//! For one pure model: default-start critical point, `PhaseEquilibrium::pure` at reduced temperatures, re-computation of
//! the equilibrium conditions at the returned states with independent public-API calls, T -> p -> T round trip and
//! pure phase diagrams.
use feos::pcsaft::{PcSaft, PcSaftParameters, PcSaftRecord};
use feos::saftvrmie::{SaftVRMie, SaftVRMieParameters, SaftVRMieRecord};
use feos::saftvrqmie::{SaftVRQMie, SaftVRQMieParameters, SaftVRQMieRecord};
use feos_core::parameter::{Parameter, PureRecord};
use feos_core::{Contributions, PhaseDiagram, PhaseEquilibrium, ReferenceSystem, Residual, SolverOptions, State};
use quantity::{Pressure, Temperature};
use serde::de::DeserializeOwned;
use serde_json::{json, Value};
use std::fs::File;
use std::io::BufReader;
use std::panic::{catch_unwind, AssertUnwindSafe};
use std::sync::Arc;

pub fn repo() -> String {
    std::env::var("FV_REPO").unwrap_or_else(|_| "/repo".to_string())
}

pub const PCSAFT_FILES: [&str; 9] = [
    "pcsaft/eller2022.json",
    "pcsaft/esper2023.json",
    "pcsaft/gross2001.json",
    "pcsaft/gross2002.json",
    "pcsaft/gross2005_fit.json",
    "pcsaft/gross2005_literature.json",
    "pcsaft/gross2006.json",
    "pcsaft/loetgeringlin2018.json",
    "pcsaft/rehner2020.json",
];
pub const SAFTVRMIE_FILES: [&str; 1] = ["saftvrmie/lafitte2013.json"];
pub const SAFTVRQMIE_FILES: [&str; 3] = ["saftvrqmie/aasen2019.json", "saftvrqmie/aasen2019_fh2.json", "saftvrqmie/hammer2023.json"];

/// thorough grid of reduced temperatures; the quick grid is a subset (so that the quick tier can never meet a failing
/// (record, T_r) the thorough tier has not seen)
pub const FRACS_FULL: [f64; 12] = [0.45, 0.5, 0.55, 0.6, 0.65, 0.7, 0.75, 0.8, 0.85, 0.9, 0.95, 0.99];
pub const FRACS_QUICK: [f64; 8] = [0.45, 0.5, 0.6, 0.7, 0.75, 0.85, 0.95, 0.99];
/// SAFT-VRQ Mie: only above 0.6 T_c
pub const FRACS_Q_FULL: [f64; 9] = [0.6, 0.65, 0.7, 0.75, 0.8, 0.85, 0.9, 0.95, 0.99];
pub const FRACS_Q_QUICK: [f64; 5] = [0.6, 0.7, 0.85, 0.95, 0.99];

/// tolerances of the public-API recomputation (see notes/C04.md)
pub const TOL_P_STIFF: f64 = 1e-10; // |p_v - p_l| / max(p, rho_l * dp/drho_l)   (liquid density determined to 1e-9)
pub const TOL_P_REL_VAP: f64 = 1e-9; // |p_v - p| / p for the vapor phase alone (p-specified solve)
pub const TOL_MU: f64 = 1e-9; // |mu_v - mu_l| / RT
pub const TOL_ROUNDTRIP: f64 = 1e-9; // |T' - T| / T and |p' - p| / p

pub fn read<T: DeserializeOwned>(rel: &str) -> Result<T, String> {
    let f = File::open(format!("{}/parameters/{rel}", repo())).map_err(|e| format!("open {rel}: {e}"))?;
    serde_json::from_reader(BufReader::new(f)).map_err(|e| format!("parse {rel}: {e}"))
}

pub fn physical<E: Residual>(cp: &State<E>) -> bool {
    let tc = cp.temperature.to_reduced();
    let pc = cp.pressure(Contributions::Total).to_reduced();
    let rhoc = cp.density.to_reduced();
    tc.is_finite() && tc > 0.0 && pc.is_finite() && pc > 0.0 && rhoc.is_finite() && rhoc > 0.0
}

const T_LADDER: [f64; 12] = [1000.0, 800.0, 650.0, 550.0, 450.0, 400.0, 350.0, 250.0, 150.0, 80.0, 30.0, 10.0];

/// what the equilibrium conditions look like at a returned pure VLE, recomputed through independent public-API calls
pub fn conditions<E: Residual>(vle: &PhaseEquilibrium<E, 2>) -> Value {
    let v = vle.vapor();
    let l = vle.liquid();
    let t = v.temperature.to_reduced();
    let pv = v.pressure(Contributions::Total).to_reduced();
    let pl = l.pressure(Contributions::Total).to_reduced();
    let rv = v.density.to_reduced();
    let rl = l.density.to_reduced();
    let prl = l.dp_drho(Contributions::Total).to_reduced();
    let prv = v.dp_drho(Contributions::Total).to_reduced();
    // chemical potential up to the common de Broglie term: mu_res (dA_res/dN) + kT ln rho
    let muv = v.residual_chemical_potential().to_reduced()[0] + t * rv.ln();
    let mul = l.residual_chemical_potential().to_reduced()[0] + t * rl.ln();
    // molar Gibbs energy through a different derivative: a_res + p / rho + kT (ln rho - 1)
    let gv = v.residual_molar_helmholtz_energy().to_reduced() + pv / rv + t * (rv.ln() - 1.0);
    let gl = l.residual_molar_helmholtz_energy().to_reduced() + pl / rl + t * (rl.ln() - 1.0);
    json!({
        "T_v": t, "T_l": l.temperature.to_reduced(), "T_equal": v.temperature == l.temperature,
        "p_v": pv, "p_l": pl, "rho_v": rv, "rho_l": rl, "dpdrho_v": prv, "dpdrho_l": prl,
        "dp_stiff": (pv - pl).abs() / pv.abs().max(rl * prl),
        "dp_rel": (pv - pl).abs() / pv.abs(),
        "dmu": (muv - mul).abs() / t,
        "dg": (gv - gl).abs() / t,
        "ordered": rv < rl,
    })
}

fn broken(c: &Value, t_spec: Option<f64>) -> Vec<String> {
    let mut b = Vec::new();
    let f = |k: &str| c[k].as_f64().unwrap_or(f64::NAN);
    if !c["T_equal"].as_bool().unwrap_or(false) {
        b.push(format!("phases have different temperatures: {} vs {}", f("T_v"), f("T_l")));
    }
    if let Some(t) = t_spec {
        if f("T_v") != t {
            b.push(format!("vapor temperature {} differs from the specified temperature {}", f("T_v"), t));
        }
    }
    if !(f("dp_stiff") <= TOL_P_STIFF) {
        b.push(format!("pressures differ: p_v = {:e}, p_l = {:e} (|dp|/max(p, rho_l dp/drho_l) = {:e} > {:e})", f("p_v"), f("p_l"), f("dp_stiff"), TOL_P_STIFF));
    }
    if !(f("dmu") <= TOL_MU) {
        b.push(format!("chemical potentials differ: |mu_v - mu_l|/RT = {:e} > {:e}", f("dmu"), TOL_MU));
    }
    if !(f("dg") <= TOL_MU) {
        b.push(format!("molar Gibbs energies differ: |g_v - g_l|/RT = {:e} > {:e}", f("dg"), TOL_MU));
    }
    if !c["ordered"].as_bool().unwrap_or(false) {
        b.push(format!("vapor is not less dense than the liquid: rho_v = {:e}, rho_l = {:e}", f("rho_v"), f("rho_l")));
    }
    if !(f("p_v") > 0.0) {
        b.push(format!("non-positive saturation pressure {:e}", f("p_v")));
    }
    b
}

pub struct Sweep {
    pub fracs: Vec<f64>,
    pub diagrams: Vec<usize>,
    pub roundtrip: bool,
    pub opt_diagrams: bool,
}

/// non-default solver options of the diagram sweep: (max_iter, tol)
pub const OPTION_VARIANTS: [(Option<usize>, Option<f64>); 4] = [(Some(10), None), (Some(8), Some(1e-10)), (None, Some(1e-9)), (Some(30), Some(1e-13))];

/// the whole support search for one model. `failures` = [{kind, tr, what}], kinds: critical_point | pure_t | conditions |
/// pure_p | roundtrip | diagram
pub fn analyse<E: Residual>(eos: &Arc<E>, sw: &Sweep) -> Value {
    let r = catch_unwind(AssertUnwindSafe(|| analyse_inner(eos, sw)));
    match r {
        Ok(v) => v,
        Err(_) => json!({"failures": [{"kind": "panic", "tr": Value::Null, "what": "panic inside the support search"}], "points": []}),
    }
}

fn analyse_inner<E: Residual>(eos: &Arc<E>, sw: &Sweep) -> Value {
    let mut failures: Vec<Value> = Vec::new();
    let mut points: Vec<Value> = Vec::new();
    let opts = SolverOptions::default();
    // ---- critical point with the default start (what PhaseDiagram::pure and init_pure_p use)
    let first = State::critical_point(eos, None, None, opts);
    let mut cp = None;
    let mut cp_default = json!("physical");
    match first {
        Ok(s) if physical(&s) => cp = Some(s),
        Ok(s) => {
            cp_default = json!({"unphysical": {"T": s.temperature.to_reduced(), "p": s.pressure(Contributions::Total).to_reduced(), "rho": s.density.to_reduced()}});
        }
        Err(e) => cp_default = json!({"error": e.to_string()}),
    }
    let mut cp_start = Value::Null;
    if cp.is_none() {
        for t0 in T_LADDER {
            if let Ok(s) = State::critical_point(eos, None, Some(Temperature::from_reduced(t0)), opts) {
                if physical(&s) {
                    cp = Some(s);
                    cp_start = json!(t0);
                    break;
                }
            }
        }
        failures.push(json!({"kind": "critical_point", "tr": Value::Null,
            "what": format!("State::critical_point with the default start does not give a physical critical point: {cp_default} (physical one from T0 = {cp_start} K)")}));
    }
    let cp = match cp {
        Some(c) => c,
        None => return json!({"failures": failures, "points": points, "critical_point": Value::Null, "cp_default": cp_default}),
    };
    let tc = cp.temperature;
    let tc_r = tc.to_reduced();
    // ---- T-specified solves on the grid
    for &f in &sw.fracs {
        let t = tc * f;
        match PhaseEquilibrium::pure(eos, t, None, opts) {
            Err(e) => failures.push(json!({"kind": "pure_t", "tr": f, "T": t.to_reduced(), "what": format!("PhaseEquilibrium::pure(T = {} K = {f} T_c, None) fails: {e}", t.to_reduced())})),
            Ok(vle) => {
                let c = conditions(&vle);
                let b = broken(&c, Some(t.to_reduced()));
                if !b.is_empty() {
                    failures.push(json!({"kind": "conditions", "tr": f, "T": t.to_reduced(), "what": format!("pure(T = {} K): {}", t.to_reduced(), b.join("; ")), "state": c}));
                }
                let mut pt = json!({"tr": f, "cond": c});
                if sw.roundtrip {
                    let p = vle.vapor().pressure(Contributions::Total);
                    // p-specified solve: default initialisation, and initialised with the T-solution itself
                    let mut rt = Vec::new();
                    for (label, init) in [("none", None), ("self", Some(&vle))] {
                        match PhaseEquilibrium::pure(eos, p, init, opts) {
                            Err(e) => {
                                rt.push(json!({"init": label, "error": e.to_string()}));
                                failures.push(json!({"kind": "pure_p", "tr": f, "T": t.to_reduced(), "init": label,
                                    "what": format!("PhaseEquilibrium::pure(p = p_sat({} K) = {:e}, init {label}) fails: {e}", t.to_reduced(), p.to_reduced())}));
                            }
                            Ok(vp) => {
                                let cpn = conditions(&vp);
                                let mut b = broken(&cpn, None);
                                let pspec = p.to_reduced();
                                let pvv = cpn["p_v"].as_f64().unwrap();
                                if !((pvv - pspec).abs() <= TOL_P_REL_VAP * pspec) {
                                    b.push(format!("vapor pressure {pvv:e} differs from the specified pressure {pspec:e}"));
                                }
                                let t2 = vp.vapor().temperature.to_reduced();
                                let dt = (t2 - t.to_reduced()).abs() / t.to_reduced();
                                if !(dt <= TOL_ROUNDTRIP) {
                                    b.push(format!("T -> p -> T round trip: {} K -> {:e} -> {} K (relative {:e} > {:e})", t.to_reduced(), pspec, t2, dt, TOL_ROUNDTRIP));
                                }
                                // and back: T' -> p'
                                let mut dp_back = f64::NAN;
                                if let Ok(v3) = PhaseEquilibrium::pure(eos, vp.vapor().temperature, Some(&vp), opts) {
                                    let p3 = v3.vapor().pressure(Contributions::Total).to_reduced();
                                    dp_back = (p3 - pspec).abs() / pspec;
                                    if !(dp_back <= TOL_ROUNDTRIP) {
                                        b.push(format!("p -> T -> p round trip: {pspec:e} -> {t2} K -> {p3:e} (relative {dp_back:e})"));
                                    }
                                } else {
                                    b.push("p -> T -> p round trip: the T-solve at the returned temperature fails".to_string());
                                }
                                if !b.is_empty() {
                                    failures.push(json!({"kind": "roundtrip", "tr": f, "T": t.to_reduced(), "init": label, "what": format!("pure(p_sat({} K), init {label}): {}", t.to_reduced(), b.join("; ")), "state": cpn}));
                                }
                                rt.push(json!({"init": label, "T_back": t2, "dT_rel": dt, "dp_back_rel": dp_back, "dp_stiff": cpn["dp_stiff"], "dmu": cpn["dmu"]}));
                            }
                        }
                    }
                    pt["roundtrip"] = json!(rt);
                }
                points.push(pt);
            }
        }
    }
    // ---- phase diagrams (not for a record whose default critical point is unphysical: already reported above)
    let mut diagrams = Vec::new();
    for &n in sw.diagrams.iter().filter(|_| cp_start.is_null()) {
        let tmin = tc * 0.45f64.max(sw.fracs[0]);
        match PhaseDiagram::pure(eos, tmin, n, None, opts) {
            Err(e) => failures.push(json!({"kind": "diagram", "tr": Value::Null, "npoints": n, "what": format!("PhaseDiagram::pure(T_min = {} K, npoints = {n}) fails: {e}", tmin.to_reduced())})),
            Ok(dia) => {
                let st = &dia.states;
                let ts: Vec<f64> = st.iter().map(|s| s.vapor().temperature.to_reduced()).collect();
                let ps: Vec<f64> = st.iter().map(|s| s.vapor().pressure(Contributions::Total).to_reduced()).collect();
                let rv: Vec<f64> = st.iter().map(|s| s.vapor().density.to_reduced()).collect();
                let rl: Vec<f64> = st.iter().map(|s| s.liquid().density.to_reduced()).collect();
                let mut b = Vec::new();
                // expected temperatures: the linspace of the model (coq/theories/PureVleC04.v: diagram_temps)
                let tmin_r = tmin.to_reduced();
                let tmax = tmin_r + (tc_r - tmin_r) * ((n - 2) as f64 / (n - 1) as f64);
                let expected: Vec<f64> = (0..n - 1).map(|i| if n == 2 { tmin_r } else { tmin_r + (tmax - tmin_r) * i as f64 / (n - 2) as f64 }).collect();
                let mut missing_in = Vec::new();
                let mut missing_out = Vec::new();
                for &te in &expected {
                    if !ts.iter().any(|&x| (x - te).abs() <= 1e-12 * te) {
                        if te <= 0.99 * tc_r * (1.0 + 1e-12) {
                            missing_in.push(te / tc_r);
                        } else {
                            missing_out.push(te / tc_r);
                        }
                    }
                }
                if !missing_in.is_empty() {
                    b.push(format!("{} of {} states missing at T/T_c = {:?} (inside [0.45, 0.99] T_c)", missing_in.len(), n, &missing_in[..missing_in.len().min(5)]));
                }
                if st.len() + missing_in.len() + missing_out.len() != n {
                    b.push(format!("{} states for npoints = {n} ({} unsolved temperatures)", st.len(), missing_in.len() + missing_out.len()));
                }
                match st.last() {
                    Some(last) => {
                        if !(last.vapor().temperature == tc && last.vapor().density == cp.density && last.liquid().density == cp.density) {
                            b.push(format!("last state is not the critical point: T = {} K, rho_v = {:e}, rho_l = {:e} (critical {} K, {:e})",
                                last.vapor().temperature.to_reduced(), last.vapor().density.to_reduced(), last.liquid().density.to_reduced(), tc_r, cp.density.to_reduced()));
                        }
                    }
                    None => b.push("empty diagram".to_string()),
                }
                for i in 1..st.len() {
                    if !(ts[i] > ts[i - 1]) {
                        b.push(format!("temperature not strictly increasing at state {i}: {} then {}", ts[i - 1], ts[i]));
                        break;
                    }
                }
                for i in 1..st.len() {
                    if !(ps[i] > ps[i - 1]) {
                        b.push(format!("pressure not strictly increasing at state {i} (T = {} K): {:e} then {:e}", ts[i], ps[i - 1], ps[i]));
                        break;
                    }
                }
                for i in 1..st.len() {
                    if !(rv[i] > rv[i - 1]) {
                        b.push(format!("vapor density not strictly increasing at state {i} (T = {} K): {:e} then {:e}", ts[i], rv[i - 1], rv[i]));
                        break;
                    }
                }
                for i in 1..st.len() {
                    if !(rl[i] < rl[i - 1]) {
                        b.push(format!("liquid density not strictly decreasing at state {i} (T = {} K): {:e} then {:e}", ts[i], rl[i - 1], rl[i]));
                        break;
                    }
                }
                // equilibrium conditions of every state but the last
                let mut worst = (0.0f64, 0.0f64);
                for (i, s) in st.iter().enumerate().take(st.len().saturating_sub(1)) {
                    let c = conditions(s);
                    worst.0 = worst.0.max(c["dp_stiff"].as_f64().unwrap_or(f64::NAN));
                    worst.1 = worst.1.max(c["dmu"].as_f64().unwrap_or(f64::NAN));
                    let bb = broken(&c, None);
                    if !bb.is_empty() {
                        b.push(format!("state {i} (T = {} K): {}", ts[i], bb.join("; ")));
                        break;
                    }
                }
                if !b.is_empty() {
                    failures.push(json!({"kind": "diagram", "tr": Value::Null, "npoints": n, "what": format!("PhaseDiagram::pure(T_min = {} K, npoints = {n}): {}", tmin_r, b.join("; "))}));
                }
                diagrams.push(json!({"npoints": n, "states": st.len(), "unsolved_above_0.99Tc": missing_out, "worst_dp_stiff": worst.0, "worst_dmu": worst.1,
                    "T_first": ts.first(), "T_last": ts.last(), "temperatures_head": ts.iter().take(4).collect::<Vec<_>>()}));
            }
        }
    }
    // ---- phase diagrams with non-default solver options ("all solver options in a sane range"): the options belong to the
    // VLE solver; the call must succeed and close with the critical point of the DEFAULT options (model: diagram_res),
    // the states returned are the ones of the default-option diagram (same count, same temperatures)
    let mut opt_diagrams = Vec::new();
    if sw.opt_diagrams && cp_start.is_null() {
        let n = 10usize;
        let tmin = tc * 0.45f64.max(sw.fracs[0]);
        let reference: Option<Vec<f64>> = PhaseDiagram::pure(eos, tmin, n, None, opts).ok().map(|d| d.states.iter().map(|s| s.vapor().temperature.to_reduced()).collect());
        for (mi, tl) in OPTION_VARIANTS {
            let mut o = SolverOptions::new();
            if let Some(m) = mi {
                o = o.max_iter(m);
            }
            if let Some(t) = tl {
                o = o.tol(t);
            }
            let olabel = format!("max_iter = {mi:?}, tol = {tl:?}");
            match PhaseDiagram::pure(eos, tmin, n, None, o) {
                Err(e) => failures.push(json!({"kind": "diagram_options", "tr": Value::Null, "npoints": n, "options": olabel,
                    "what": format!("PhaseDiagram::pure(T_min = {} K, npoints = {n}, SolverOptions {{ {olabel} }}) fails: {e} (with default options: {})",
                                    tmin.to_reduced(), if reference.is_some() { "Ok" } else { "Err" })})),
                Ok(dia) => {
                    let st = &dia.states;
                    let ts: Vec<f64> = st.iter().map(|s| s.vapor().temperature.to_reduced()).collect();
                    let mut b = Vec::new();
                    match st.last() {
                        Some(last) if last.vapor().temperature == tc && last.vapor().density == cp.density && last.liquid().density == cp.density => {}
                        Some(last) => b.push(format!("last state is not the critical point of the default options: T = {} K, rho = {:e} (critical {} K, {:e})",
                            last.vapor().temperature.to_reduced(), last.vapor().density.to_reduced(), tc_r, cp.density.to_reduced())),
                        None => b.push("empty diagram".to_string()),
                    }
                    for i in 1..ts.len() {
                        if !(ts[i] > ts[i - 1]) {
                            b.push(format!("temperature not strictly increasing at state {i}: {} then {}", ts[i - 1], ts[i]));
                            break;
                        }
                    }
                    let mut missing = 0usize;
                    if let Some(r) = &reference {
                        for t in r {
                            if !ts.iter().any(|x| x == t) {
                                missing += 1;
                            }
                        }
                        for t in &ts {
                            if !r.iter().any(|x| x == t) {
                                b.push(format!("state at T = {t} K is not a temperature of the default-option diagram"));
                                break;
                            }
                        }
                        // an iteration limit of 10 or more is far above what the pure solver needs with a neighbouring start
                        if missing > 0 && mi.map(|m| m >= 10).unwrap_or(true) && tl.map(|t| t >= 1e-12).unwrap_or(true) {
                            b.push(format!("{missing} state(s) of the default-option diagram missing"));
                        }
                    }
                    if !b.is_empty() {
                        failures.push(json!({"kind": "diagram_options", "tr": Value::Null, "npoints": n, "options": olabel,
                            "what": format!("PhaseDiagram::pure(T_min = {} K, npoints = {n}, SolverOptions {{ {olabel} }}): {}", tmin.to_reduced(), b.join("; "))}));
                    }
                    opt_diagrams.push(json!({"options": olabel, "states": st.len(), "missing_vs_default": missing}));
                }
            }
        }
    }
    json!({
        "failures": failures, "points": points, "diagrams": diagrams, "opt_diagrams": opt_diagrams, "cp_default": cp_default,
        "critical_point": {"T": tc_r, "p": cp.pressure(Contributions::Total).to_reduced(), "rho": cp.density.to_reduced()},
    })
}

/// all (family, file, index, name) of the shipped pure collections of the property
pub fn catalogue() -> Vec<(String, String, usize, String)> {
    let mut v = Vec::new();
    for f in PCSAFT_FILES {
        let recs: Vec<PureRecord<PcSaftRecord>> = read(f).unwrap();
        for (i, r) in recs.iter().enumerate() {
            v.push(("pcsaft".to_string(), f.to_string(), i, r.identifier.name.clone().unwrap_or_default()));
        }
    }
    for f in SAFTVRMIE_FILES {
        let recs: Vec<PureRecord<SaftVRMieRecord>> = read(f).unwrap();
        for (i, r) in recs.iter().enumerate() {
            v.push(("saftvrmie".to_string(), f.to_string(), i, r.identifier.name.clone().unwrap_or_default()));
        }
    }
    for f in SAFTVRQMIE_FILES {
        let recs: Vec<PureRecord<SaftVRQMieRecord>> = read(f).unwrap();
        for (i, r) in recs.iter().enumerate() {
            // exclusion stated in the property: helium with second-order Feynman-Hibbs correction
            if r.model_record.fh == 2 && r.identifier.name.as_deref().map(|n| n.contains("helium")).unwrap_or(false) {
                continue;
            }
            v.push(("saftvrqmie".to_string(), f.to_string(), i, r.identifier.name.clone().unwrap_or_default()));
        }
    }
    v
}

pub fn pcsaft_of(file: &str, index: usize) -> Result<Arc<PcSaft>, String> {
    let recs: Vec<PureRecord<PcSaftRecord>> = read(file)?;
    let p = PcSaftParameters::new_pure(recs[index].clone()).map_err(|e| e.to_string())?;
    Ok(Arc::new(PcSaft::new(Arc::new(p))))
}
pub fn saftvrmie_of(file: &str, index: usize) -> Result<Arc<SaftVRMie>, String> {
    let recs: Vec<PureRecord<SaftVRMieRecord>> = read(file)?;
    let p = SaftVRMieParameters::new_pure(recs[index].clone()).map_err(|e| e.to_string())?;
    Ok(Arc::new(SaftVRMie::new(Arc::new(p))))
}
pub fn saftvrqmie_of(file: &str, index: usize) -> Result<Arc<SaftVRQMie>, String> {
    let recs: Vec<PureRecord<SaftVRQMieRecord>> = read(file)?;
    let p = SaftVRQMieParameters::new_pure(recs[index].clone()).map_err(|e| e.to_string())?;
    Ok(Arc::new(SaftVRQMie::new(Arc::new(p))))
}

/// run the support search of one catalogue entry
pub fn analyse_entry(e: &(String, String, usize, String), quick_grid: bool, diagrams: &[usize], roundtrip: bool) -> Value {
    let (fam, file, idx, name) = e;
    let q = fam == "saftvrqmie";
    let fracs: Vec<f64> = match (q, quick_grid) {
        (false, true) => FRACS_QUICK.to_vec(),
        (false, false) => FRACS_FULL.to_vec(),
        (true, true) => FRACS_Q_QUICK.to_vec(),
        (true, false) => FRACS_Q_FULL.to_vec(),
    };
    let sw = Sweep { fracs, diagrams: diagrams.to_vec(), roundtrip, opt_diagrams: true };
    let res = catch_unwind(AssertUnwindSafe(|| match fam.as_str() {
        "pcsaft" => pcsaft_of(file, *idx).map(|e| analyse(&e, &sw)),
        "saftvrmie" => saftvrmie_of(file, *idx).map(|e| analyse(&e, &sw)),
        _ => saftvrqmie_of(file, *idx).map(|e| analyse(&e, &sw)),
    }));
    let res = match res {
        Ok(Ok(v)) => v,
        Ok(Err(e)) => json!({"failures": [{"kind": "parameters", "tr": Value::Null, "what": e}], "points": []}),
        Err(_) => json!({"failures": [{"kind": "panic", "tr": Value::Null, "what": "panic while building the model"}], "points": []}),
    };
    json!({"family": fam, "file": file, "index": idx, "name": name, "res": res})
}

#[allow(dead_code)]
pub fn unused(_: Pressure) {}
