//! Uniform command line of every harness binary: `<bin> --out DIR --tier quick|thorough --seed N [extra...]`.
pub struct Cli {
    pub out: String,
    pub tier: String,
    pub seed: u64,
    pub args: Vec<String>,
}

impl Cli {
    pub fn parse(default_out: &str) -> Cli {
        let args: Vec<String> = std::env::args().collect();
        let out = Self::get(&args, "--out", default_out);
        let tier = Self::get(&args, "--tier", "quick");
        let seed: u64 = Self::get(&args, "--seed", "1").parse().unwrap_or(1);
        std::fs::create_dir_all(&out).unwrap();
        Cli { out, tier, seed, args }
    }
    fn get(args: &[String], key: &str, default: &str) -> String {
        args.iter().position(|a| a == key).and_then(|i| args.get(i + 1)).cloned().unwrap_or_else(|| default.to_string())
    }
    pub fn opt(&self, key: &str) -> Option<String> {
        self.args.iter().position(|a| a == key).and_then(|i| self.args.get(i + 1)).cloned()
    }
    pub fn full(&self) -> bool {
        self.tier == "thorough"
    }
    pub fn write_impl(&self, v: &serde_json::Value) {
        std::fs::write(format!("{}/impl.json", self.out), serde_json::to_string_pretty(v).unwrap()).unwrap();
    }
}
