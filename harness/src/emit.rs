//! Shared pieces of the generated Coq files.
use crate::configs::RState;
use crate::prog::{dyadic, Prog};

pub fn header(mods: &[&str]) -> String {
    let mut s = String::new();
    s.push_str("From Coq Require Import Reals List ZArith String.\n");
    s.push_str("From Interval Require Import Eval.Prog Eval.Tree Real.Xreal Eval.Eval.\n");
    s.push_str(&format!("From FeosVerif Require Import {}.\n", mods.join(" ")));
    s.push_str("Import ListNotations.\nOpen Scope string_scope.\nSet Printing Width 1000000.\nSet Printing Depth 1000000.\n");
    s
}

pub fn dy_list(xs: &[f64]) -> String {
    let v: Vec<String> = xs.iter().map(|x| dyadic(*x)).collect();
    format!("[{}]%Z", v.join("; "))
}

pub fn states_def(name: &str, states: &[RState]) -> String {
    let v: Vec<String> = states.iter().map(|s| dy_list(&s.vars())).collect();
    format!("Definition {} : list (list (Z * Z)) := [{}].\n", name, v.join(";\n "))
}

/// The AC-canonicaliser (coq/theories/Canon.v) on two regenerated programs `A_prog`, `B_prog` (already emitted).
/// The shared environment consists of `nv` shared state variables (`zv[i]`: variable i is literally zero) followed by
/// the distinct constant values of both programs; `sa` / `sb` select the variables of A / B.  Outputs with the same
/// name are paired.  `pair_agree` is the instance of `<theorem>` for every pair whose flag is true (the flags are
/// computed, then the computation is re-checked by the kernel in `pair_canon_eq`).  Returns the text and the paired names.
pub fn canon_block(pa: &Prog, pb: &Prog, nv: usize, sa: &[usize], sb: &[usize], zv: &[bool], theorem: &str) -> (String, Vec<String>) {
    let mut vals: Vec<f64> = Vec::new();
    let mut slot = |x: f64| -> usize {
        match vals.iter().position(|y| *y == x) {
            Some(i) => nv + i,
            None => {
                vals.push(x);
                nv + vals.len() - 1
            }
        }
    };
    let mut pia = sa.to_vec();
    pia.extend(pa.consts.iter().map(|&x| slot(x)));
    let mut pib = sb.to_vec();
    pib.extend(pb.consts.iter().map(|&x| slot(x)));
    let mut zs: Vec<bool> = zv.to_vec();
    zs.extend(vals.iter().map(|x| *x == 0.0));
    let nl = |l: &[usize]| l.iter().map(|i| format!("{i}%nat")).collect::<Vec<_>>().join("; ");
    let mut v = String::new();
    let mut names = Vec::new();
    v.push_str("From FeosVerif Require Import Canon.\n");
    v.push_str(&format!("Definition C_zs : list bool := [{}].\n", zs.iter().map(|b| b.to_string()).collect::<Vec<_>>().join("; ")));
    v.push_str(&format!("Definition C_piA : list nat := [{}].\nDefinition C_piB : list nat := [{}].\n", nl(&pia), nl(&pib)));
    // pairs of outputs with the same name (contributions; the last one is the total): positions in the value lists
    let (na, nb) = (pa.outs.len(), pb.outs.len());
    let mut pairs = Vec::new();
    for (ja, name) in pa.outs.iter().enumerate() {
        if let Some(jb) = pb.outs.iter().position(|x| x == name) {
            pairs.push(format!("({}, {})%nat", na - 1 - ja, nb - 1 - jb));
            names.push(name.clone());
        }
    }
    v.push_str(&format!("Definition C_outs : list (nat * nat) := [{}].\n", pairs.join("; ")));
    v.push_str(&CANON_BODY.replace("THEOREMD", &theorem.replace("programs_agree", "derivatives_agree")).replace("THEOREM", theorem));
    (v, names)
}

const CANON_BODY: &str = r#"
Definition pair_canon : list bool := Eval vm_compute in canon_eqbs A_prog B_prog C_zs C_piA C_piB C_outs.
Lemma pair_canon_eq : canon_eqbs A_prog B_prog C_zs C_piA C_piB C_outs = pair_canon.
Proof. vm_compute. reflexivity. Qed.
Definition pair_agree (k : nat) (Hk : (k < List.length C_outs)%nat) (H : nth k pair_canon false = true) (env : list R) :=
  THEOREM A_prog B_prog C_zs C_piA C_piB _ _ env
    (canon_eqbs_nth A_prog B_prog C_zs C_piA C_piB C_outs k Hk (eq_ind_r (fun l => nth k l false = true) H pair_canon_eq)).
Check pair_agree.
(* ... and of the derivatives theorem: entropy, pressure, chemical potentials (tan_outs of both members along any line) *)
Lemma C_A_scoped : wscoped A_prog (List.length C_piA) = true.
Proof. vm_compute. reflexivity. Qed.
Lemma C_B_scoped : wscoped B_prog (List.length C_piB) = true.
Proof. vm_compute. reflexivity. Qed.
Definition pair_derivatives_agree (k : nat) (Hk : (k < List.length C_outs)%nat) (H : nth k pair_canon false = true) (a e : list R) Hla Hle Hza Hze :=
  THEOREMD A_prog B_prog C_zs C_piA C_piB _ _
    (canon_eqbs_nth A_prog B_prog C_zs C_piA C_piB C_outs k Hk (eq_ind_r (fun l => nth k l false = true) H pair_canon_eq))
    a e Hla Hle Hza Hze C_A_scoped C_B_scoped.
Check pair_derivatives_agree.
Eval vm_compute in ("CANON", "P", pair_canon).
"#;
