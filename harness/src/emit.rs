//! Shared pieces of the generated Coq files.
use crate::configs::RState;
use crate::prog::dyadic;

pub fn header(mods: &[&str]) -> String {
    let mut s = String::new();
    s.push_str("From Coq Require Import Reals List ZArith String.\n");
    s.push_str("From Interval Require Import Eval.Prog Eval.Tree Real.Xreal Eval.Eval.\n");
    s.push_str(&format!("From FeosVerif Require Import {}.\n", mods.join(" ")));
    s.push_str("Import ListNotations.\nOpen Scope string_scope.\nSet Printing Width 1000000.\nSet Printing Depth 1000000.\n");
    s
}

pub fn dy_list(xs: &[f64]) -> String {
    let v: Vec<String> = xs.iter().map(|x| dyadic(*x)).collect();
    format!("[{}]%Z", v.join("; "))
}

pub fn states_def(name: &str, states: &[RState]) -> String {
    let v: Vec<String> = states.iter().map(|s| dy_list(&s.vars())).collect();
    format!("Definition {} : list (list (Z * Z)) := [{}].\n", name, v.join(";\n "))
}
