//! Model configurations (DESIGN.md §5: core / full sets), all built through the public API from
//! the parameter files shipped in /repo/parameters or from literal records.
use feos::epcsaft::{ElectrolytePcSaft, ElectrolytePcSaftBinaryRecord, ElectrolytePcSaftParameters, ElectrolytePcSaftRecord, ElectrolytePcSaftVariants};
use feos::gc_pcsaft::{GcPcSaft, GcPcSaftEosParameters};
use feos::pcsaft::{PcSaft, PcSaftParameters};
use feos::pets::{Pets, PetsParameters, PetsRecord};
use feos::saftvrmie::{SaftVRMie, SaftVRMieParameters};
use feos::saftvrqmie::{SaftVRQMie, SaftVRQMieParameters, SaftVRQMieRecord};
use feos::uvtheory::{Perturbation, UVTheory, UVTheoryOptions, UVTheoryParameters, UVTheoryRecord};
use feos::ResidualModel;
use feos_core::cubic::{PengRobinson, PengRobinsonParameters};
use feos_core::parameter::{
    Identifier, IdentifierOption, Parameter, ParameterHetero, PureRecord,
};
use ndarray::Array2;
use std::sync::Arc;

/// root of the feos checkout the harness was built against (`FV_REPO` overrides it for scratch copies)
pub fn repo() -> String {
    std::env::var("FV_REPO").unwrap_or_else(|_| "/repo".to_string())
}
pub fn params() -> String {
    format!("{}/parameters", repo())
}

/// a model configuration; generic in the model type so that Helmholtz energy functionals used as bulk models
/// (`DFT<...>`, which implement `Residual`) can be treated like the equations of state
pub struct ConfigG<R> {
    pub name: String,
    pub model: Arc<R>,
    pub ncomp: usize,
    /// temperature scale in K for sampling (roughly the critical temperature scale)
    pub t_scale: f64,
    /// part of the quick tier
    pub core: bool,
    /// temperatures at which the model's code may branch (numbers that appear in its parameter records, e.g. the
    /// interpolation points of a tabulated permittivity): sampled exactly, with probability 1/4
    pub special_t: Vec<f64>,
}

impl<R> Clone for ConfigG<R> {
    fn clone(&self) -> Self {
        ConfigG { name: self.name.clone(), model: self.model.clone(), ncomp: self.ncomp, t_scale: self.t_scale, core: self.core, special_t: self.special_t.clone() }
    }
}

pub type Config = ConfigG<ResidualModel>;

pub fn cfg_of<R>(name: &str, model: R, ncomp: usize, t_scale: f64, core: bool) -> ConfigG<R> {
    ConfigG { name: name.into(), model: Arc::new(model), ncomp, t_scale, core, special_t: Vec::new() }
}

fn cfg(name: &str, model: ResidualModel, ncomp: usize, t_scale: f64, core: bool) -> Config {
    Config { name: name.into(), model: Arc::new(model), ncomp, t_scale, core, special_t: Vec::new() }
}

pub fn pcsaft_params(names: &[&str], file: &str, binary: Option<&str>) -> PcSaftParameters {
    PcSaftParameters::from_json(
        names.to_vec(),
        format!("{}/pcsaft/{file}", params()),
        binary.map(|b| format!("{}/pcsaft/{b}", params())),
        IdentifierOption::Name,
    )
    .unwrap()
}

pub fn pcsaft_multi(input: &[(&[&str], &str)], binary: Option<&str>) -> PcSaftParameters {
    let inp: Vec<(Vec<&str>, String)> =
        input.iter().map(|(n, f)| (n.to_vec(), format!("{}/pcsaft/{f}", params()))).collect();
    PcSaftParameters::from_multiple_json(
        &inp,
        binary.map(|b| format!("{}/pcsaft/{b}", params())),
        IdentifierOption::Name,
    )
    .unwrap()
}

pub fn with_kij(p: &PcSaftParameters, kij: f64) -> PcSaftParameters {
    let (pure, _) = p.records();
    let n = pure.len();
    let mut k = Array2::from_elem((n, n), feos::pcsaft::PcSaftBinaryRecord::new(Some(kij), None, None));
    for i in 0..n {
        k[[i, i]] = feos::pcsaft::PcSaftBinaryRecord::new(Some(0.0), None, None);
    }
    PcSaftParameters::from_records(pure.to_vec(), Some(k)).unwrap()
}

pub fn peng_robinson(n: usize) -> PengRobinson {
    PengRobinson::new(Arc::new(peng_robinson_params(n)))
}

pub fn peng_robinson_params(n: usize) -> PengRobinsonParameters {
    peng_robinson_params_idx(&(0..n).collect::<Vec<_>>())
}

/// the Peng-Robinson parameter set of the components `idx` (in that order) of the three-component list, built directly
/// from the literal records and the k_ij formula — independent of `Parameter::subset` / `Parameter::records`
pub fn peng_robinson_params_idx(idx: &[usize]) -> PengRobinsonParameters {
    let tc = [369.96, 425.2, 507.6];
    let pc = [4250000.0, 3800000.0, 3025000.0];
    let om = [0.153, 0.199, 0.301];
    let mw = [44.0962, 58.123, 86.177];
    let n = idx.len();
    let recs: Vec<_> = idx
        .iter()
        .map(|&i| {
            PureRecord::new(
                Identifier::default(),
                mw[i],
                feos_core::cubic::PengRobinsonRecord::new(tc[i], pc[i], om[i]),
            )
        })
        .collect();
    let kij = if n > 1 {
        let mut k = Array2::zeros((n, n));
        for i in 0..n {
            for j in 0..n {
                if i != j {
                    k[[i, j]] = 0.01 * (1 + idx[i] + idx[j]) as f64;
                }
            }
        }
        Some(k)
    } else {
        None
    };
    PengRobinsonParameters::from_records(recs, kij).unwrap()
}

pub fn pets(n: usize) -> Pets {
    Pets::new(Arc::new(pets_params(n)))
}

pub fn pets_params(n: usize) -> PetsParameters {
    pets_params_idx(&(0..n).collect::<Vec<_>>())
}

/// as [`peng_robinson_params_idx`], for PeTS (k_ij distinct per pair of original indices)
pub fn pets_params_idx(idx: &[usize]) -> PetsParameters {
    let sig = [3.4, 3.63, 3.9];
    let eps = [120.0, 165.0, 230.0];
    let n = idx.len();
    let recs: Vec<_> = idx
        .iter()
        .map(|&i| {
            PureRecord::new(
                Identifier::default(),
                39.948 + 40.0 * i as f64,
                PetsRecord::new(sig[i], eps[i], None, None, None),
            )
        })
        .collect();
    let kij = if n > 1 {
        let mut k = Array2::from_elem((n, n), feos::pets::PetsBinaryRecord::from(0.0));
        for i in 0..n {
            for j in 0..n {
                if i != j {
                    k[[i, j]] = feos::pets::PetsBinaryRecord::from(0.01 * (1 + idx[i] + idx[j]) as f64);
                }
            }
        }
        Some(k)
    } else {
        None
    };
    PetsParameters::from_records(recs, kij).unwrap()
}

pub fn gc_pcsaft(names: &[&str]) -> GcPcSaft {
    let p = GcPcSaftEosParameters::from_json_segments(
        names,
        format!("{}/pcsaft/gc_substances.json", params()),
        format!("{}/pcsaft/sauer2014_hetero.json", params()),
        None,
        IdentifierOption::Name,
    )
    .unwrap();
    GcPcSaft::new(Arc::new(p))
}

pub fn saftvrmie(names: &[&str]) -> SaftVRMie {
    let p = SaftVRMieParameters::from_json(
        names.to_vec(),
        format!("{}/saftvrmie/lafitte2013.json", params()),
        None,
        IdentifierOption::Name,
    )
    .unwrap();
    SaftVRMie::new(Arc::new(p))
}

pub fn saftvrqmie(names: &[&str], file: &str, binary: Option<&str>) -> SaftVRQMie {
    let p = SaftVRQMieParameters::from_json(
        names.to_vec(),
        format!("{}/saftvrqmie/{file}", params()),
        binary.map(|b| format!("{}/saftvrqmie/{b}", params())),
        IdentifierOption::Name,
    )
    .unwrap();
    SaftVRQMie::new(Arc::new(p))
}

pub fn uvtheory(n: usize, pert: Perturbation) -> UVTheory {
    uvtheory_idx(&(0..n).collect::<Vec<_>>(), pert, 0.5)
}

pub fn uvtheory_idx(idx: &[usize], pert: Perturbation, max_eta: f64) -> UVTheory {
    let rep = [12.0, 24.0];
    let att = [6.0, 6.0];
    let sig = [3.4, 3.9];
    let eps = [120.0, 190.0];
    let recs: Vec<_> = idx
        .iter()
        .map(|&i| {
            PureRecord::new(
                Identifier::default(),
                1.0,
                UVTheoryRecord::new(rep[i], att[i], sig[i], eps[i]),
            )
        })
        .collect();
    let p = UVTheoryParameters::from_records(recs, None).unwrap();
    UVTheory::with_options(Arc::new(p), UVTheoryOptions { max_eta, perturbation: pert })
}

pub fn epcsaft(names: &[&str], binary: bool) -> ElectrolytePcSaft {
    let p = ElectrolytePcSaftParameters::from_json(
        names.to_vec(),
        format!("{}/epcsaft/held2014_w_permittivity_added.json", params()),
        if binary { Some(format!("{}/epcsaft/held2014_binary.json", params())) } else { None },
        IdentifierOption::Name,
    )
    .unwrap();
    ElectrolytePcSaft::with_options(
        Arc::new(p),
        feos::epcsaft::ElectrolytePcSaftOptions {
            max_eta: 0.5,
            max_iter_cross_assoc: 50,
            tol_cross_assoc: 1e-10,
            epcsaft_variant: ElectrolytePcSaftVariants::Advanced,
        },
    )
}

pub fn all(full: bool) -> Vec<Config> {
    let mut v = Vec::new();
    use ResidualModel as M;
    // Peng-Robinson
    v.push(cfg("pr1", M::PengRobinson(peng_robinson(1)), 1, 370.0, true));
    v.push(cfg("pr2", M::PengRobinson(peng_robinson(2)), 2, 400.0, true));
    v.push(cfg("pr3", M::PengRobinson(peng_robinson(3)), 3, 430.0, false));
    // PC-SAFT
    let p = |names: &[&str], f: &str| PcSaft::new(Arc::new(pcsaft_params(names, f, None)));
    v.push(cfg("pcsaft_propane", M::PcSaft(p(&["propane"], "gross2001.json")), 1, 370.0, true));
    v.push(cfg(
        "pcsaft_propane_butane_kij",
        M::PcSaft(PcSaft::new(Arc::new(with_kij(&pcsaft_params(&["propane", "butane"], "gross2001.json", None), 0.03)))),
        2,
        400.0,
        true,
    ));
    v.push(cfg(
        "pcsaft_c3_c6_c10",
        M::PcSaft(p(&["propane", "hexane", "decane"], "gross2001.json")),
        3,
        500.0,
        false,
    ));
    v.push(cfg("pcsaft_water", M::PcSaft(p(&["water"], "gross2002.json")), 1, 647.0, true));
    v.push(cfg(
        "pcsaft_water_methanol",
        M::PcSaft(p(&["water", "methanol"], "gross2002.json")),
        2,
        600.0,
        true,
    ));
    v.push(cfg(
        "pcsaft_acetone_butanone",
        M::PcSaft(p(&["acetone", "butanone"], "gross2006.json")),
        2,
        520.0,
        true,
    ));
    v.push(cfg(
        "pcsaft_co2_chlorine",
        M::PcSaft(p(&["carbon dioxide", "chlorine"], "gross2005_fit.json")),
        2,
        350.0,
        true,
    ));
    v.push(cfg(
        "pcsaft_acetone_co2",
        M::PcSaft(PcSaft::new(Arc::new(pcsaft_multi(
            &[(&["acetone"], "gross2006.json"), (&["carbon dioxide"], "gross2005_fit.json")],
            None,
        )))),
        2,
        400.0,
        true,
    ));
    // literal association topologies no shipped record has (see pcsaft_literal)
    v.push(cfg("pcsaft_csite_propane", M::PcSaft(PcSaft::new(Arc::new(pcsaft_literal("csite_propane")))), 2, 450.0, true));
    v.push(cfg("pcsaft_donor_acceptor", M::PcSaft(PcSaft::new(Arc::new(pcsaft_literal("donor_acceptor")))), 2, 500.0, true));
    // gc-PC-SAFT
    v.push(cfg("gcpcsaft_propane", M::GcPcSaft(gc_pcsaft(&["propane"])), 1, 370.0, true));
    v.push(cfg(
        "gcpcsaft_propanol_ethanol",
        M::GcPcSaft(gc_pcsaft(&["1-propanol", "ethanol"])),
        2,
        520.0,
        true,
    ));
    // PeTS
    v.push(cfg("pets1", M::Pets(pets(1)), 1, 150.0, true));
    v.push(cfg("pets2", M::Pets(pets(2)), 2, 180.0, true));
    // SAFT-VR Mie
    v.push(cfg("saftvrmie_ethane", M::SaftVRMie(saftvrmie(&["ethane"])), 1, 305.0, true));
    v.push(cfg(
        "saftvrmie_methanol_ethanol",
        M::SaftVRMie(saftvrmie(&["methanol", "ethanol"])),
        2,
        500.0,
        true,
    ));
    v.push(cfg(
        "saftvrmie_ethane_butane",
        M::SaftVRMie(saftvrmie(&["ethane", "n-butane"])),
        2,
        360.0,
        false,
    ));
    {
        let special = epcsaft_special_temperatures();
        let mut c1 = cfg("epcsaft_water", M::ElectrolytePcSaft(epcsaft(&["water"], false)), 1, 647.0, false);
        c1.special_t = special.clone();
        v.push(c1);
        let mut c2 = cfg(
            "epcsaft_water_nacl",
            M::ElectrolytePcSaft(epcsaft(&["water", "sodium ion", "chloride ion"], true)),
            3,
            647.0,
            true,
        );
        c2.special_t = special;
        v.push(c2);
    }
    if full {
        v.push(cfg("uv_wca1", M::UVTheory(uvtheory(1, Perturbation::WeeksChandlerAndersen)), 1, 160.0, false));
        v.push(cfg("uv_wca2", M::UVTheory(uvtheory(2, Perturbation::WeeksChandlerAndersen)), 2, 200.0, false));
        v.push(cfg("uv_bh1", M::UVTheory(uvtheory(1, Perturbation::BarkerHenderson)), 1, 160.0, false));
        v.push(cfg("uv_bh2", M::UVTheory(uvtheory(2, Perturbation::BarkerHenderson)), 2, 200.0, false));
        v.push(cfg("uv_b3_1", M::UVTheory(uvtheory(1, Perturbation::WeeksChandlerAndersenB3)), 1, 160.0, false));
        v.push(cfg(
            "saftvrqmie_h2",
            M::SaftVRQMie(saftvrqmie(&["hydrogen"], "aasen2019.json", None)),
            1,
            33.0,
            false,
        ));
        v.push(cfg(
            "saftvrqmie_h2_ne",
            M::SaftVRQMie(saftvrqmie(&["hydrogen", "neon"], "aasen2019.json", Some("aasen2020_binary.json"))),
            2,
            40.0,
            false,
        ));
    }
    v
}

/// Further configurations for the properties about the Helmholtz energy function itself (C01, C02, C09, C13): literal parameter
/// sets that exercise code no shipped record reaches, boundary values, and shipped records with rarely used groups.  Kept apart
/// from [`all`]: the phase-equilibrium properties draw their systems from [`all`].
pub fn literal() -> Vec<Config> {
    use ResidualModel as M;
    let mut v = Vec::new();
    // ePC-SAFT, two non-electrolyte components, temperature dependent k_ij(T) = k0 + k1 dT + k2 dT^2 + k3 dT^3 (no shipped
    // binary record has k1..k3 != 0)
    {
        let rec = |name: &str, mw: f64, m: f64, s: f64, e: f64| {
            PureRecord::new(
                Identifier::new(None, Some(name), None, None, None, None),
                mw,
                ElectrolytePcSaftRecord::new(m, s, e, None, None, None, None, None, None, None),
            )
        };
        let recs = vec![rec("a", 16.043, 1.0, 3.7039, 150.03), rec("b", 58.123, 2.3316, 3.7086, 222.88)];
        let k = ElectrolytePcSaftBinaryRecord::new(Some(vec![0.02, 3e-4, -1.5e-6, 4e-9]), None, None);
        let z = ElectrolytePcSaftBinaryRecord::new(Some(vec![0.0, 0.0, 0.0, 0.0]), None, None);
        let b = Array2::from_shape_fn((2, 2), |(i, j)| if i == j { z.clone() } else { k.clone() });
        let p = ElectrolytePcSaftParameters::from_records(recs, Some(b)).unwrap();
        v.push(cfg("epcsaft_literal_kij_of_t", M::ElectrolytePcSaft(ElectrolytePcSaft::new(Arc::new(p))), 2, 350.0, true));
    }
    // gc-PC-SAFT with a dipolar group (shipped records; the dipole term of the heterosegmented model)
    v.push(cfg("gcpcsaft_acetone_hexane", M::GcPcSaft(gc_pcsaft(&["acetone", "hexane"])), 2, 500.0, true));
    // SAFT-VR Mie at the boundary value m = 1 exactly (shipped record; the chain / monomer paths are chosen by comparing m with 1)
    v.push(cfg("saftvrmie_methane_m1", M::SaftVRMie(saftvrmie(&["methane"])), 1, 190.0, true));
    // SAFT-VR Mie: a spherical (m = 1) next to a chain component (which contributions exist is decided from the whole parameter set)
    v.push(cfg("saftvrmie_methane_butane", M::SaftVRMie(saftvrmie(&["methane", "n-butane"])), 2, 300.0, false));
    // SAFT-VR Mie: a spherical (m = 1) self-associating component (water-like 2B record; no shipped record of this kind): the closed-form A-B
    // association term next to the monomer term only (core for the virial property C13; thorough tier / oracle elsewhere)
    v.push(cfg("saftvrmie_literal_spherical_assoc", M::SaftVRMie(saftvrmie_spherical_assoc()), 1, 500.0, false));
    // SAFT-VR Mie: a component with a C site only next to a component with A/B sites (no shipped record has C sites): the C-C association
    // strength must come from the C-site component's own energy (padding / splitting / permutation cases of C09; oracle elsewhere)
    v.push(cfg("saftvrmie_literal_csite_plus_ab", M::SaftVRMie(saftvrmie_csite_plus_ab()), 2, 450.0, false));
    // SAFT-VRQ Mie with mixed Feynman-Hibbs orders (thorough tier: ~10k instructions)
    v.push(cfg("saftvrqmie_literal_h2fh1_nefh0", M::SaftVRQMie(saftvrqmie_mixed_fh()), 2, 40.0, false));
    v
}

pub fn saftvrmie_csite_plus_ab() -> SaftVRMie {
    use feos::saftvrmie::SaftVRMieRecord;
    let rec = |mw: f64, eab: f64, na: f64, nb: f64, nc: f64| {
        PureRecord::new(Identifier::default(), mw, SaftVRMieRecord::new(1.0, 3.0555, 418.0, 35.823, 6.0, Some(0.45), Some(eab), Some(na), Some(nb), Some(nc), None, None, None))
    };
    SaftVRMie::new(Arc::new(SaftVRMieParameters::from_records(vec![rec(18.0, 1000.0, 0.0, 0.0, 1.0), rec(20.0, 1600.0, 1.0, 1.0, 0.0)], None).unwrap()))
}

pub fn saftvrmie_spherical_assoc() -> SaftVRMie {
    use feos::saftvrmie::SaftVRMieRecord;
    let record = SaftVRMieRecord::new(1.0, 3.0555, 418.0, 35.823, 6.0, Some(0.45), Some(1600.0), Some(1.0), Some(1.0), None, None, None, None);
    let pure = PureRecord::new(Identifier::default(), 18.015, record);
    SaftVRMie::new(Arc::new(SaftVRMieParameters::new_pure(pure).unwrap()))
}

/// hydrogen with first-order Feynman-Hibbs correction next to a classical (FH0) neon: the cross pair's order is max(fh_i, fh_j)
pub fn saftvrqmie_mixed_fh() -> SaftVRQMie {
    let rec = |name: &str, mw: f64, sigma: f64, eps: f64, lr: f64, fh: usize| {
        PureRecord::new(
            Identifier::new(None, Some(name), None, None, None, None),
            mw,
            SaftVRQMieRecord::new(1.0, sigma, eps, lr, 6.0, fh, None, None, None).unwrap(),
        )
    };
    let recs = vec![rec("hydrogen", 2.0157309551872, 3.0243, 26.706, 9.0, 1), rec("neon", 20.17969806457545, 2.7778, 37.501, 13.0, 0)];
    SaftVRQMie::new(Arc::new(SaftVRQMieParameters::from_records(recs, None).unwrap()))
}

/// literal PC-SAFT parameter sets with association topologies no shipped record has
pub fn pcsaft_literal(which: &str) -> PcSaftParameters {
    use feos::pcsaft::PcSaftRecord;
    let rec = |m: f64, s: f64, e: f64, mu: Option<f64>, q: Option<f64>, k: Option<f64>, eab: Option<f64>, na: f64, nb: f64, nc: f64, mw: f64| {
        PureRecord::new(Identifier::default(), mw, PcSaftRecord::new(m, s, e, mu, q, k, eab, Some(na), Some(nb), Some(nc), None, None, None))
    };
    let propane = pcsaft_params(&["propane"], "gross2001.json", None).records().0[0].clone();
    let recs = match which {
        // one self-associating C site + inert
        "csite_propane" => vec![rec(1.3403, 3.8582, 211.59, None, None, Some(0.075550), Some(3044.4), 0.0, 0.0, 1.0, 60.05), propane],
        // donor-only + acceptor-only: single A and single B site type on different components
        "donor_acceptor" => vec![
            rec(2.5, 3.4, 270.0, Some(1.0), None, Some(0.02), Some(1500.0), 1.0, 0.0, 0.0, 119.4),
            rec(2.8, 3.3, 250.0, Some(2.9), None, Some(0.03), Some(1700.0), 0.0, 1.0, 0.0, 58.1),
        ],
        // pure quadrupolar fluid with m > 2 (benzene-like), pure dipolar fluid with m > 2
        "quadrupole_m_gt_2" => vec![rec(2.2463, 3.7852, 296.24, None, Some(5.5907), None, None, 0.0, 0.0, 0.0, 78.11)],
        "dipole_m_gt_2" => vec![rec(2.7447, 3.2742, 232.99, Some(2.88), None, None, None, 0.0, 0.0, 0.0, 58.08)],
        "dipole_quadrupole_one_molecule" => vec![rec(2.3, 3.4, 260.0, Some(1.8), Some(3.2), None, None, 0.0, 0.0, 0.0, 70.0)],
        _ => panic!("unknown literal parameter set {which}"),
    };
    PcSaftParameters::from_records(recs, None).unwrap()
}

/// every number between 150 and 1500 that appears in the ePC-SAFT parameter file (tabulated permittivity temperatures, ...)
pub fn epcsaft_special_temperatures() -> Vec<f64> {
    fn walk(v: &serde_json::Value, out: &mut Vec<f64>) {
        match v {
            serde_json::Value::Number(n) => {
                if let Some(x) = n.as_f64() {
                    if (150.0..=1500.0).contains(&x) && !out.contains(&x) {
                        out.push(x);
                    }
                }
            }
            serde_json::Value::Array(a) => a.iter().for_each(|x| walk(x, out)),
            serde_json::Value::Object(o) => o.values().for_each(|x| walk(x, out)),
            _ => {}
        }
    }
    let mut out = Vec::new();
    if let Ok(txt) = std::fs::read_to_string(format!("{}/epcsaft/held2014_w_permittivity_added.json", params())) {
        if let Ok(v) = serde_json::from_str::<serde_json::Value>(&txt) {
            if let Some(recs) = v.as_array() {
                for r in recs {
                    let name = r["identifier"]["name"].as_str().unwrap_or("");
                    if ["water", "sodium ion", "chloride ion"].contains(&name) {
                        walk(&r["model_record"], &mut out);
                    }
                }
            }
        }
    }
    out
}

/// simple deterministic PRNG (splitmix64) — every random choice of the harness derives from it
pub struct Rng(pub u64);
impl Rng {
    pub fn next_u64(&mut self) -> u64 {
        self.0 = self.0.wrapping_add(0x9E3779B97F4A7C15);
        let mut z = self.0;
        z = (z ^ (z >> 30)).wrapping_mul(0xBF58476D1CE4E5B9);
        z = (z ^ (z >> 27)).wrapping_mul(0x94D049BB133111EB);
        z ^ (z >> 31)
    }
    pub fn f64(&mut self) -> f64 {
        (self.next_u64() >> 11) as f64 / (1u64 << 53) as f64
    }
    pub fn range(&mut self, a: f64, b: f64) -> f64 {
        a + (b - a) * self.f64()
    }
    pub fn log_range(&mut self, a: f64, b: f64) -> f64 {
        (a.ln() + (b.ln() - a.ln()) * self.f64()).exp()
    }
    pub fn below(&mut self, n: usize) -> usize {
        (self.next_u64() % n as u64) as usize
    }
}

/// A reduced state (T in K, V in A^3, N in particles)
#[derive(Clone, Debug)]
pub struct RState {
    pub t: f64,
    pub v: f64,
    pub n: Vec<f64>,
}

impl RState {
    pub fn vars(&self) -> Vec<f64> {
        let mut x = vec![self.t, self.v];
        x.extend(&self.n);
        x
    }
}

/// sample a state in the range the properties quantify over:
/// T in [0.4,3] t_scale, packing fraction eta/eta_max in (1e-6, 0.9) (log-uniform half of the time),
/// composition in the open simplex, total amount in [0.5, 50]
pub fn sample_state<R: feos_core::Residual>(c: &ConfigG<R>, rng: &mut Rng) -> RState {
    let mut t = c.t_scale * rng.range(0.4, 3.0);
    if !c.special_t.is_empty() && rng.f64() < 0.25 {
        t = c.special_t[rng.below(c.special_t.len())];
    }
    let mut x: Vec<f64> = (0..c.ncomp).map(|_| rng.range(0.05, 1.0)).collect();
    let s: f64 = x.iter().sum();
    x.iter_mut().for_each(|xi| *xi /= s);
    let ntot = rng.log_range(0.5, 50.0);
    let n: Vec<f64> = x.iter().map(|xi| xi * ntot).collect();
    let rho_max = c.model.compute_max_density(&ndarray::Array1::from_vec(n.clone()));
    let frac = if rng.f64() < 0.5 { rng.range(0.02, 0.9) } else { rng.log_range(1e-6, 0.9) };
    let rho = frac * rho_max;
    RState { t, v: ntot / rho, n }
}
