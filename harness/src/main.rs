mod c02;
mod configs;
mod emit;
mod prog;
mod sym;
mod trace;

fn arg(args: &[String], key: &str, default: &str) -> String {
    args.iter()
        .position(|a| a == key)
        .and_then(|i| args.get(i + 1))
        .cloned()
        .unwrap_or_else(|| default.to_string())
}

fn main() {
    let args: Vec<String> = std::env::args().collect();
    let cmd = args.get(1).map(|s| s.as_str()).unwrap_or("");
    let out = arg(&args, "--out", "/verif/coq/gen/tmp");
    let tier = arg(&args, "--tier", "quick");
    let seed: u64 = arg(&args, "--seed", "1").parse().unwrap_or(1);
    std::fs::create_dir_all(&out).unwrap();
    let res = match cmd {
        "c02" => c02::run(&out, &tier, seed),
        _ => {
            eprintln!("usage: feos-verif <c02|...> --out DIR --tier quick|thorough --seed N");
            std::process::exit(2);
        }
    };
    std::fs::write(format!("{out}/impl.json"), serde_json::to_string_pretty(&res).unwrap()).unwrap();
}
