//! From a raw trace to a pruned straight-line program, structural comparison of two traces
//! (leak detection), and emission in the concrete syntax of Interval's `Prog.term`.
use crate::sym::{Event, Node, Op1, Op2, Trace};
use std::collections::HashMap;
use std::fmt::Write;

#[derive(Clone, Copy, Debug, PartialEq, Eq, Hash)]
pub enum Ref {
    Var(u32),
    /// index into the sequence of constants in order of first appearance (before dedup)
    Const(u32),
    Ins(u32),
}

#[derive(Clone, Copy, Debug, PartialEq, Eq, Hash)]
pub enum Instr {
    Un(Op1, Ref),
    Bin(Op2, Ref, Ref),
    Fwd(Ref),
}

#[derive(Clone, Debug)]
pub struct Prog {
    pub nvars: usize,
    pub consts: Vec<f64>,
    pub instrs: Vec<Instr>,
    /// names of the outputs; output j is instruction `instrs.len() - nouts + j` (a `Fwd`)
    pub outs: Vec<String>,
    /// events (re / cmp) mapped to refs of the pruned program (None = node was pruned)
    pub re_events: Vec<Ref>,
    pub cmp_events: Vec<(Ref, Ref)>,
    pub unsupported: Vec<String>,
    /// concrete f64 value of each instruction in the traced run
    pub values: Vec<f64>,
}

/// Prune the trace to what the outputs and the events depend on.
pub fn extract(trace: &Trace, nvars: usize, outs: &[(String, u32)]) -> Prog {
    let n = trace.nodes.len();
    let mut live = vec![false; n];
    let mut stack: Vec<u32> = outs.iter().map(|(_, o)| *o).collect();
    for e in &trace.events {
        match e {
            Event::Re(a) => stack.push(*a),
            Event::Cmp(a, b) => {
                stack.push(*a);
                stack.push(*b)
            }
            Event::Unsupported(_) => {}
        }
    }
    while let Some(i) = stack.pop() {
        if live[i as usize] {
            continue;
        }
        live[i as usize] = true;
        match trace.nodes[i as usize].0 {
            Node::Un(_, a) => stack.push(a),
            Node::Bin(_, a, b) => {
                stack.push(a);
                stack.push(b)
            }
            _ => {}
        }
    }
    let mut map: Vec<Option<Ref>> = vec![None; n];
    let mut consts = Vec::new();
    let mut instrs = Vec::new();
    let mut values = Vec::new();
    for i in 0..n {
        if !live[i] {
            continue;
        }
        let (node, v) = trace.nodes[i];
        map[i] = Some(match node {
            Node::Var(k) => Ref::Var(k),
            Node::Const(c) => {
                consts.push(c);
                Ref::Const(consts.len() as u32 - 1)
            }
            Node::Un(op, a) => {
                instrs.push(Instr::Un(op, map[a as usize].unwrap()));
                values.push(v);
                Ref::Ins(instrs.len() as u32 - 1)
            }
            Node::Bin(op, a, b) => {
                instrs.push(Instr::Bin(op, map[a as usize].unwrap(), map[b as usize].unwrap()));
                values.push(v);
                Ref::Ins(instrs.len() as u32 - 1)
            }
        });
    }
    let mut re_events = Vec::new();
    let mut cmp_events = Vec::new();
    let mut unsupported = Vec::new();
    for e in &trace.events {
        match e {
            Event::Re(a) => re_events.push(map[*a as usize].unwrap()),
            Event::Cmp(a, b) => cmp_events.push((map[*a as usize].unwrap(), map[*b as usize].unwrap())),
            Event::Unsupported(s) => unsupported.push(s.to_string()),
        }
    }
    let mut names = Vec::new();
    for (name, o) in outs {
        instrs.push(Instr::Fwd(map[*o as usize].unwrap()));
        values.push(trace.nodes[*o as usize].1);
        names.push(name.clone());
    }
    Prog { nvars, consts, instrs, outs: names, re_events, cmp_events, unsupported, values }
}

pub struct ShapeCmp {
    pub same_shape: bool,
    /// constant slots (pre-dedup numbering) whose values differ between the two traces
    pub leaks: Vec<usize>,
}

/// Structural comparison of the programs traced at two different states.
pub fn compare(a: &Prog, b: &Prog) -> ShapeCmp {
    let same_shape = a.instrs == b.instrs
        && a.consts.len() == b.consts.len()
        && a.re_events == b.re_events
        && a.cmp_events == b.cmp_events;
    let mut leaks = Vec::new();
    if same_shape {
        for (i, (x, y)) in a.consts.iter().zip(&b.consts).enumerate() {
            if x.to_bits() != y.to_bits() && !(x.is_nan() && y.is_nan()) {
                leaks.push(i);
            }
        }
    }
    ShapeCmp { same_shape, leaks }
}

impl Prog {
    /// merge constants with identical bit patterns, except the slots in `keep` (state-dependent
    /// "leaked" constants, which keep a slot of their own); returns the slot remapping
    pub fn dedup_consts_keep(&mut self, keep: &[usize]) -> Vec<u32> {
        let mut idx: HashMap<u64, u32> = HashMap::new();
        let mut newc = Vec::new();
        let mut remap = Vec::with_capacity(self.consts.len());
        for (i, c) in self.consts.iter().enumerate() {
            let k = if keep.contains(&i) {
                newc.push(*c);
                newc.len() as u32 - 1
            } else {
                *idx.entry(c.to_bits()).or_insert_with(|| {
                    newc.push(*c);
                    newc.len() as u32 - 1
                })
            };
            remap.push(k);
        }
        let f = |r: Ref| match r {
            Ref::Const(i) => Ref::Const(remap[i as usize]),
            r => r,
        };
        for ins in self.instrs.iter_mut() {
            *ins = match *ins {
                Instr::Un(o, a) => Instr::Un(o, f(a)),
                Instr::Bin(o, a, b) => Instr::Bin(o, f(a), f(b)),
                Instr::Fwd(a) => Instr::Fwd(f(a)),
            };
        }
        self.re_events = self.re_events.iter().map(|r| f(*r)).collect();
        self.cmp_events = self.cmp_events.iter().map(|(a, b)| (f(*a), f(*b))).collect();
        self.consts = newc;
        remap
    }

    pub fn dedup_consts(&mut self) {
        self.dedup_consts_keep(&[]);
    }

    /// position of a ref in the *input-relative* numbering used by the Coq side:
    /// instruction j -> j ; var k -> ninstr + k ; const c -> ninstr + nvars + c  ("absolute" index,
    /// converted to de Bruijn by `k - 1 - j` at instruction k).
    fn debruijn(&self, at: usize, r: Ref) -> usize {
        match r {
            Ref::Ins(j) => at - 1 - j as usize,
            Ref::Var(k) => at + k as usize,
            Ref::Const(c) => at + self.nvars + c as usize,
        }
    }

    /// index of a ref in the final value list `eval prog (vars ++ consts)`
    pub fn final_index(&self, r: Ref) -> usize {
        self.debruijn(self.instrs.len(), r)
    }

    pub fn emit_terms(&self) -> String {
        let mut s = String::with_capacity(self.instrs.len() * 24);
        s.push('[');
        for (k, ins) in self.instrs.iter().enumerate() {
            if k > 0 {
                s.push_str(";\n ");
            }
            match *ins {
                Instr::Un(o, a) => write!(s, "Unary {:?} {}", o, self.debruijn(k, a)).unwrap(),
                Instr::Bin(o, a, b) => {
                    write!(s, "Binary {:?} {} {}", o, self.debruijn(k, a), self.debruijn(k, b)).unwrap()
                }
                Instr::Fwd(a) => write!(s, "Forward {}", self.debruijn(k, a)).unwrap(),
            }
        }
        s.push(']');
        s
    }

    pub fn emit_consts(&self) -> String {
        let mut s = String::from("[");
        for (i, c) in self.consts.iter().enumerate() {
            if i > 0 {
                s.push_str("; ");
            }
            s.push_str(&dyadic(*c));
        }
        s.push_str("]%Z");
        s
    }

    /// Coq definitions `<name>_prog`, `<name>_consts`, `<name>_nvars`, `<name>_nouts`, `<name>_re`
    pub fn emit_coq(&self, name: &str) -> String {
        let mut s = String::new();
        writeln!(s, "Definition {}_prog : list term :=\n {}.", name, self.emit_terms()).unwrap();
        writeln!(s, "Definition {}_consts : list (Z * Z) := {}.", name, self.emit_consts()).unwrap();
        writeln!(s, "Definition {}_nvars : nat := {}.", name, self.nvars).unwrap();
        writeln!(s, "Definition {}_nouts : nat := {}.", name, self.outs.len()).unwrap();
        let re: Vec<String> = self.re_events.iter().map(|r| self.final_index(*r).to_string()).collect();
        writeln!(s, "Definition {}_re : list nat := [{}].", name, re.join("; ")).unwrap();
        let cmp: Vec<String> = self
            .cmp_events
            .iter()
            .map(|(a, b)| format!("({}, {})", self.final_index(*a), self.final_index(*b)))
            .collect();
        writeln!(s, "Definition {}_cmp : list (nat * nat) := [{}].", name, cmp.join("; ")).unwrap();
        // output j (in the order of `outs`) sits at index nouts-1-j of the final value list
        writeln!(s, "Definition {}_out (j : nat) : nat := {} - 1 - j.", name, self.outs.len()).unwrap();
        s
    }
}

/// exact dyadic representation `(m, e)` with value m * 2^e  (Coq syntax, Z scope)
pub fn dyadic(x: f64) -> String {
    assert!(x.is_finite(), "non-finite constant {x}");
    if x == 0.0 {
        return "(0, 0)".into();
    }
    let bits = x.to_bits();
    let sign = if bits >> 63 == 1 { -1i64 } else { 1 };
    let exp = ((bits >> 52) & 0x7ff) as i64;
    let frac = (bits & ((1u64 << 52) - 1)) as i64;
    let (mut m, mut e) = if exp == 0 { (frac, -1074) } else { (frac | (1i64 << 52), exp - 1075) };
    while m & 1 == 0 {
        m >>= 1;
        e += 1;
    }
    format!("({}, {})", sign * m, e)
}
