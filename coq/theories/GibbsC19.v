(** C19 — Gibbs adsorption relation and the linearised Euler-Lagrange equation of a discretised DFT
    (feos-dft/src/profile/properties.rs: [grand_potential_density], [density_derivative], [drho_dmu], [drho_dp],
    [drho_dt], [dn_dmu], [dn_dp], [dn_dt]), over R, for ANY number [n] of unknowns (segments x grid points, flattened),
    any integration weights [w], any segment lengths [m], any external potential [V] and ANY smooth discretised
    functional, which enters only through
        F   : (nat -> R) -> R                  the discretised residual Helmholtz energy / kT  (sum_g w_g phi_g)
        D   : (nat -> R) -> nat -> R           what the code calls the functional derivative dF/drho (per unit weight)
        H   : (nat -> R) -> (nat -> R) -> nat -> R   the code's [delta_functional_derivative]: directional derivative of D
    The multivariate chain rule is taken along the one-parameter family of solutions at hand (hypotheses [HF], [HD]):
    that the code's convolutions make D the gradient of F w.r.t. the weights and H the Jacobian of D is the adjointness
    / second-derivative statement of C17 (labelled partial there).  Energies are in units of kT unless T appears.

    Euler-Lagrange equation as coded in [euler_lagrange_equation] (no bond integrals: spherical and homosegmented
    chain molecules, the ideal-chain term is the factor m):
        rho_i = rho_b,i * exp (-(D_i(rho) + V_i - Db_i)/m_i)      <->      m_i ln rho_i + D_i(rho) + V_i = b_i
    with  b_i = m_i ln rho_b,i + Db_i = (mu_i - mu_i^ideal-gas-reference)/kT  the bulk side. *)
From Coq Require Import Reals Lra Lia.
From Coquelicot Require Import Coquelicot.
Open Scope R_scope.

(** ** finite sums and their derivatives *)
Fixpoint sumn (n : nat) (f : nat -> R) : R :=
  match n with O => 0 | S k => sumn k f + f k end.

Lemma sumn_ext n f g : (forall i, (i < n)%nat -> f i = g i) -> sumn n f = sumn n g.
Proof.
  induction n as [|n IH]; intros E; simpl; [reflexivity|].
  rewrite IH by (intros; apply E; lia). rewrite E by lia. reflexivity.
Qed.

Lemma sumn_plus n f g : sumn n (fun i => f i + g i) = sumn n f + sumn n g.
Proof. induction n as [|n IH]; simpl; [ring|rewrite IH; ring]. Qed.

Lemma sumn_minus n f g : sumn n (fun i => f i - g i) = sumn n f - sumn n g.
Proof. induction n as [|n IH]; simpl; [ring|rewrite IH; ring]. Qed.

Lemma sumn_opp n f : sumn n (fun i => - f i) = - sumn n f.
Proof. induction n as [|n IH]; simpl; [ring|rewrite IH; ring]. Qed.

Lemma sumn_scal n c f : sumn n (fun i => c * f i) = c * sumn n f.
Proof. induction n as [|n IH]; simpl; [ring|rewrite IH; ring]. Qed.

Lemma sumn_scal_r n c f : sumn n (fun i => f i * c) = sumn n f * c.
Proof. induction n as [|n IH]; simpl; [ring|rewrite IH; ring]. Qed.

Lemma sumn_zero n f : (forall i, (i < n)%nat -> f i = 0) -> sumn n f = 0.
Proof.
  induction n as [|n IH]; intros E; simpl; [reflexivity|].
  rewrite IH by (intros; apply E; lia). rewrite E by lia. ring.
Qed.

Lemma sumn_pos n f : (0 < n)%nat -> (forall i, (i < n)%nat -> 0 < f i) -> 0 < sumn n f.
Proof.
  induction n as [|n IH]; intros Hn P; [lia|]. simpl.
  assert (0 < f n) by (apply P; lia).
  destruct n as [|k]; [simpl; lra|].
  assert (0 < sumn (S k) f) by (apply IH; [lia|intros; apply P; lia]). lra.
Qed.

Lemma sumn_le n f g : (forall i, (i < n)%nat -> f i <= g i) -> sumn n f <= sumn n g.
Proof.
  induction n as [|n IH]; intros E; simpl; [lra|].
  assert (sumn n f <= sumn n g) by (apply IH; intros; apply E; lia). assert (f n <= g n) by (apply E; lia). lra.
Qed.

Lemma is_derive_sumn n (f : nat -> R -> R) (df : nat -> R) t :
  (forall i, (i < n)%nat -> is_derive (f i) t (df i)) ->
  is_derive (fun s => sumn n (fun i => f i s)) t (sumn n df).
Proof.
  induction n as [|n IH]; intros Hd; simpl.
  - apply (is_derive_const 0 t).
  - apply (is_derive_plus (fun s => sumn n (fun i => f i s)) (fun s => f n s)).
    + apply IH. intros; apply Hd; lia.
    + apply Hd; lia.
Qed.

Lemma is_derive_eq (f : R -> R) (t l l' : R) : l = l' -> is_derive f t l -> is_derive f t l'.
Proof. intros ->; auto. Qed.

(** derivative of one ideal-gas / ideal-chain / external-potential term *)
Lemma ideal_term_derive (rho mu : R -> R) (w m V dr dm t : R) :
  is_derive rho t dr -> is_derive mu t dm -> 0 < rho t ->
  is_derive (fun s => w * (m * rho s * (ln (rho s) - 1) + rho s * (V - mu s))) t
            (w * (m * dr * ln (rho t) + dr * (V - mu t) - rho t * dm)).
Proof.
  intros Hr Hm Hp. auto_derive.
  - repeat split; try (eexists; exact Hr); try (eexists; exact Hm); auto.
  - assert (E1 : Derive (fun x : R => rho x) t = dr) by (apply is_derive_unique; exact Hr).
    assert (E2 : Derive (fun x : R => mu x) t = dm) by (apply is_derive_unique; exact Hm).
    rewrite E1, E2. field. lra.
Qed.

(** ** (a) Gibbs adsorption / envelope identity *)
Section Gibbs.
  Variable n : nat.
  Variables w m V : nat -> R.
  Variable F : (nat -> R) -> R.
  Variable D : (nat -> R) -> nat -> R.
  (** a differentiable family of profiles rho i t and of (reduced) chemical potentials mu i t, one per unknown *)
  Variables rho drho mu dmu : nat -> R -> R.

  Definition prof (t : R) : nat -> R := fun i => rho i t.

  (** the discretised grand potential / kT: F + ideal gas + ideal chain + external potential - mu N
      (ideal gas + ideal chain = m rho (ln rho - 1) per segment; the de Broglie wavelength is absorbed in mu) *)
  Definition Omega (t : R) : R :=
    F (prof t) + sumn n (fun i => w i * (m i * rho i t * (ln (rho i t) - 1) + rho i t * (V i - mu i t))).

  (** what [grand_potential_density] integrates (no bonds): phi - rho (dF/drho + m) *)
  Definition Omega_code (t : R) : R :=
    F (prof t) - sumn n (fun i => w i * (rho i t * (D (prof t) i + m i))).

  (** Euler-Lagrange equation at parameter t *)
  Definition EL (t : R) : Prop :=
    forall i, (i < n)%nat -> m i * ln (rho i t) + D (prof t) i + V i = mu i t.

  Hypothesis Hrho : forall i t, (i < n)%nat -> is_derive (rho i) t (drho i t).
  Hypothesis Hpos : forall i t, (i < n)%nat -> 0 < rho i t.
  Hypothesis Hmu : forall i t, (i < n)%nat -> is_derive (mu i) t (dmu i t).
  (** chain rule along the family: D is the gradient of F with respect to the weights w *)
  Hypothesis HF : forall t, is_derive (fun s => F (prof s)) t (sumn n (fun i => w i * D (prof t) i * drho i t)).

  Lemma Omega_derive_any t :
    is_derive Omega t
      (sumn n (fun i => w i * drho i t * (m i * ln (rho i t) + D (prof t) i + V i - mu i t))
       - sumn n (fun i => w i * rho i t * dmu i t)).
  Proof.
    unfold Omega.
    pose (g := fun i s => w i * (m i * rho i s * (ln (rho i s) - 1) + rho i s * (V i - mu i s))).
    pose (dg := fun i => w i * (m i * drho i t * ln (rho i t) + drho i t * (V i - mu i t) - rho i t * dmu i t)).
    assert (Hs : is_derive (fun s => sumn n (fun i => g i s)) t (sumn n dg)).
    { apply is_derive_sumn. intros i Hi. unfold g, dg.
      apply (ideal_term_derive (rho i) (mu i)); [apply Hrho | apply Hmu | apply Hpos]; assumption. }
    pose proof (is_derive_plus (fun s => F (prof s)) (fun s => sumn n (fun i => g i s)) t _ _ (HF t) Hs) as Hsum.
    eapply is_derive_eq; [|exact Hsum].
    unfold plus; simpl. unfold dg.
    rewrite <- sumn_plus, <- sumn_minus. apply sumn_ext. intros i _. ring.
  Qed.

  (** Gibbs adsorption: along a family of stationary points dOmega = - sum_i w_i rho_i dmu_i *)
  Theorem gibbs_adsorption t : EL t ->
    is_derive Omega t (- sumn n (fun i => w i * rho i t * dmu i t)).
  Proof.
    intros E. eapply is_derive_eq; [|apply Omega_derive_any].
    assert (Z : sumn n (fun i => w i * drho i t * (m i * ln (rho i t) + D (prof t) i + V i - mu i t)) = 0).
    { apply sumn_zero. intros i Hi. rewrite (E i Hi). ring. }
    rewrite Z. ring.
  Qed.

  (** at a stationary point the quantity the code integrates is the grand potential *)
  Theorem omega_code_is_omega t : EL t -> Omega_code t = Omega t.
  Proof.
    intros E. unfold Omega_code, Omega. unfold Rminus at 1. f_equal. rewrite <- sumn_opp.
    apply sumn_ext. intros i Hi. rewrite <- (E i Hi). ring.
  Qed.

  (** hence the code's value has the same derivative when every member of the family is stationary *)
  Corollary gibbs_adsorption_code t : (forall s, EL s) ->
    is_derive Omega_code t (- sumn n (fun i => w i * rho i t * dmu i t)).
  Proof.
    intros E. apply (is_derive_ext Omega).
    - intros s. symmetry. apply omega_code_is_omega, E.
    - apply gibbs_adsorption, E.
  Qed.
End Gibbs.

(** ** (b) the linearised Euler-Lagrange equation of [density_derivative] *)

(** pointwise form of the operator (no bond integrals): [rhs x = x*m + delta_functional_derivative x * rho] and of the
    right-hand sides ("lhs" in the code) that [drho_dmu], [drho_dp], [drho_dt] pass to GMRES *)
Definition lin_op (m rho hx x : R) : R := m * x + rho * hx.
Definition rhs_mu (rho delta : R) : R := rho * delta.
Definition rhs_p (rho v : R) : R := rho * v.
(** [drho_dt]: eps = d/dT [-(ln (exp(-G) * bonds)) * T] at fixed rho, rho_b (dual number); then
    "+= ln(rho/rho_b); *= m; += v dp/dT; *= -rho/T" *)
Definition code_rhs_t (m rho rhob T eps vpT : R) : R := ((eps + ln (rho / rhob)) * m + vpT) * (- rho / T).

Section Linear.
  Variable n : nat.
  Variable m : nat -> R.
  (** functional derivative at parameter t (t = a chemical potential, the pressure or the temperature), its explicit
      partial derivative w.r.t. t at fixed profile, and its directional derivative w.r.t. the profile *)
  Variable Dt dtD : R -> (nat -> R) -> nat -> R.
  Variable H : R -> (nat -> R) -> (nat -> R) -> nat -> R.
  (** the family of solutions, the external potential / kT and the bulk side b = m ln rho_b + Db, with derivatives *)
  Variables rho drho V dV b db : nat -> R -> R.

  Definition profL (t : R) : nat -> R := fun i => rho i t.
  Definition dprofL (t : R) : nat -> R := fun i => drho i t.

  Definition ELt (t : R) : Prop :=
    forall i, (i < n)%nat -> m i * ln (rho i t) + Dt t (profL t) i + V i t = b i t.

  Hypothesis Hrho : forall i t, (i < n)%nat -> is_derive (rho i) t (drho i t).
  Hypothesis Hpos : forall i t, (i < n)%nat -> 0 < rho i t.
  Hypothesis HV : forall i t, (i < n)%nat -> is_derive (V i) t (dV i t).
  Hypothesis Hb : forall i t, (i < n)%nat -> is_derive (b i) t (db i t).
  (** chain rule along the family: explicit partial + Jacobian applied to the tangent *)
  Hypothesis HD : forall i t, (i < n)%nat ->
    is_derive (fun s => Dt s (profL s) i) t (dtD t (profL t) i + H t (profL t) (dprofL t) i).

  (** the tangent of a family of solutions solves the linear system of [density_derivative] with right-hand side
      rho * (d b - d V - partial_t D) *)
  Theorem linearised_EL : (forall t, ELt t) -> forall t i, (i < n)%nat ->
    lin_op (m i) (rho i t) (H t (profL t) (dprofL t) i) (drho i t) = rho i t * (db i t - dV i t - dtD t (profL t) i).
  Proof.
    intros E t i Hi. unfold lin_op.
    pose proof (Hrho i t Hi) as Hr. pose proof (Hpos i t Hi) as Hp.
    assert (Hl : is_derive (fun s => m i * ln (rho i s) + Dt s (profL s) i + V i s) t
                   (m i * (drho i t / rho i t) + (dtD t (profL t) i + H t (profL t) (dprofL t) i) + dV i t)).
    { apply (is_derive_plus (fun s => m i * ln (rho i s) + Dt s (profL s) i) (fun s => V i s)); [|apply HV; exact Hi].
      apply (is_derive_plus (fun s => m i * ln (rho i s)) (fun s => Dt s (profL s) i)); [|apply HD; exact Hi].
      auto_derive.
      - split; [eexists; exact Hr|]. split; auto.
      - assert (E1 : Derive (fun x : R => rho i x) t = drho i t) by (apply is_derive_unique; exact Hr).
        rewrite E1. field. lra. }
    assert (Heq : is_derive (b i) t
                   (m i * (drho i t / rho i t) + (dtD t (profL t) i + H t (profL t) (dprofL t) i) + dV i t)).
    { eapply is_derive_ext; [|exact Hl]. intros s. simpl. apply (E s i Hi). }
    pose proof (is_derive_unique _ _ _ Heq) as U1. pose proof (is_derive_unique _ _ _ (Hb i t Hi)) as U2.
    rewrite U1 in U2.
    assert (U3 : db i t = m i * (drho i t / rho i t) + (dtD t (profL t) i + H t (profL t) (dprofL t) i) + dV i t)
      by (symmetry; exact U2).
    rewrite U3. field. lra.
  Qed.

  (** [drho_dmu] for component k: t = mu_k / kT, the functional does not depend on t explicitly, V fixed, d b_i = delta_ik *)
  Corollary linearised_EL_mu (delta : nat -> R) : (forall t, ELt t) ->
    (forall t r i, dtD t r i = 0) -> (forall i t, dV i t = 0) -> (forall i t, db i t = delta i) ->
    forall t i, (i < n)%nat ->
    lin_op (m i) (rho i t) (H t (profL t) (dprofL t) i) (drho i t) = rhs_mu (rho i t) (delta i).
  Proof.
    intros E Z1 Z2 Z3 t i Hi. rewrite (linearised_EL E t i Hi), Z1, Z2, Z3. unfold rhs_mu. ring.
  Qed.

  (** when the operator is homogeneous (the code's H is linear), T * tangent solves the system with T * rhs: this is
      how the code gets d rho / d mu (mu in energy units, d b_i = delta_ik / T) and d rho / d p (Gibbs-Duhem at constant
      T and composition: d b_i = v_i / T dp) from right-hand sides rho * delta and rho * v, dividing the solution by T *)
  Hypothesis H_hom : forall t r x c i, H t r (fun k => c * x k) i = c * H t r x i.

  Corollary linearised_EL_scaled (T : R) (q : nat -> R) : (forall t, ELt t) ->
    (forall t i, (i < n)%nat -> db i t - dV i t - dtD t (profL t) i = q i / T) -> T <> 0 ->
    forall t i, (i < n)%nat ->
    lin_op (m i) (rho i t) (H t (profL t) (fun k => T * drho k t) i) (T * drho i t) = rho i t * q i.
  Proof.
    intros E Q HT t i Hi. unfold lin_op. rewrite H_hom.
    pose proof (linearised_EL E t i Hi) as L. unfold lin_op, dprofL in L. rewrite (Q t i Hi) in L.
    replace (m i * (T * drho i t) + rho i t * (T * H t (profL t) (fun k => drho k t) i))
      with (T * (m i * drho i t + rho i t * H t (profL t) (fun k => drho k t) i)) by ring.
    rewrite L. field. exact HT.
  Qed.

  Corollary linearised_EL_p (T : R) (v : nat -> R) : (forall t, ELt t) ->
    (forall t r i, dtD t r i = 0) -> (forall i t, dV i t = 0) -> (forall i t, db i t = v i / T) -> T <> 0 ->
    forall t i, (i < n)%nat ->
    lin_op (m i) (rho i t) (H t (profL t) (fun k => T * drho k t) i) (T * drho i t) = rhs_p (rho i t) (v i).
  Proof.
    intros E Z1 Z2 Z3 HT t i Hi. unfold rhs_p. apply (linearised_EL_scaled T v E); auto.
    intros s j _. rewrite Z1, Z2, Z3. ring.
  Qed.

  (** uniqueness: if the (linear) operator is injective, whatever solves the system is the tangent *)
  Hypothesis H_add : forall t r x y i, H t r (fun k => x k - y k) i = H t r x i - H t r y i.

  Theorem linear_solution_unique t (rhs x y : nat -> R) :
    (forall z, (forall i, (i < n)%nat -> lin_op (m i) (rho i t) (H t (profL t) z i) (z i) = 0) -> forall i, (i < n)%nat -> z i = 0) ->
    (forall i, (i < n)%nat -> lin_op (m i) (rho i t) (H t (profL t) x i) (x i) = rhs i) ->
    (forall i, (i < n)%nat -> lin_op (m i) (rho i t) (H t (profL t) y i) (y i) = rhs i) ->
    forall i, (i < n)%nat -> x i = y i.
  Proof.
    intros Inj Ex Ey i Hi.
    pose proof (Inj (fun k => x k - y k)) as Z. simpl in Z.
    assert (Z0 : x i - y i = 0).
    { apply Z; [|exact Hi]. intros j Hj. unfold lin_op in *. rewrite H_add.
      pose proof (Ex j Hj). pose proof (Ey j Hj). lra. }
    lra.
  Qed.

  (** adsorbed amounts: N = sum_i sel_i w_i rho_i (sel selects the segment [integrate_segments] keeps for a component);
      its derivative is the same weighted sum of the tangent -- what [dn_dmu], [dn_dp], [dn_dt] return *)
  Theorem dN_is_weighted_sum (w sel : nat -> R) t :
    is_derive (fun s => sumn n (fun i => sel i * (w i * rho i s))) t (sumn n (fun i => sel i * (w i * drho i t))).
  Proof.
    apply (is_derive_sumn n (fun i s => sel i * (w i * rho i s))). intros i Hi.
    pose proof (Hrho i t Hi) as Hr. auto_derive.
    - eexists; exact Hr.
    - assert (E1 : Derive (fun x : R => rho i x) t = drho i t) by (apply is_derive_unique; exact Hr).
      rewrite E1. ring.
  Qed.
End Linear.

(** [drho_dt]: the right-hand side the code assembles is rho * (d b - d V - partial_T D) with
      V = U / T (U fixed),  d V = - V / T,   b = m ln rho_b + Db,  d b = partial_T Db - v (dp/dT)_rho / T
    (Gibbs-Duhem at constant pressure and composition), when the profile solves the Euler-Lagrange equation in the
    code's form  ln (rho / rho_b) = - G,  G = (D + V - Db) / m,  and eps = d (G T) / dT = G + T dG. *)
Theorem code_rhs_t_correct (m rho rhob T D V Db dtD dtDb vpT : R) :
  m <> 0 -> T <> 0 ->
  let G := (D + V - Db) / m in
  let dG := (dtD - V / T - dtDb) / m in
  ln (rho / rhob) = - G ->
  code_rhs_t m rho rhob T (G + T * dG) vpT = rho * ((dtDb - vpT / T) - (- V / T) - dtD).
Proof.
  intros Hm HT G dG E. unfold code_rhs_t. rewrite E. unfold G, dG. field. split; assumption.
Qed.

(** Gibbs-Duhem for a pure bulk fluid with Helmholtz energy density f (any units): mu = f', p = rho mu - f, hence
    dp = rho dmu; along an isotherm parametrised by the pressure, dmu/dp = 1/rho = v *)
Lemma gibbs_duhem (f mu : R -> R) (dmu r : R) :
  is_derive f r (mu r) -> is_derive mu r dmu -> is_derive (fun x => x * mu x - f x) r (r * dmu).
Proof.
  intros Hf Hm. auto_derive.
  - split; [eexists; exact Hm|]. split; [eexists; exact Hf|auto].
  - assert (E1 : Derive (fun x : R => mu x) r = dmu) by (apply is_derive_unique; exact Hm).
    assert (E2 : Derive (fun x : R => f x) r = mu r) by (apply is_derive_unique; exact Hf).
    rewrite E1, E2. ring.
Qed.

Theorem dmu_dp_is_molar_volume (f mu dmu rb : R -> R) (drb p0 s : R) :
  (forall r, is_derive f r (mu r)) -> (forall r, is_derive mu r (dmu r)) ->
  is_derive rb s drb -> (forall s', rb s' * mu (rb s') - f (rb s') = p0 + s') -> rb s <> 0 ->
  is_derive (fun s' => mu (rb s')) s (1 / rb s).
Proof.
  intros Hf Hm Hr Hp Hne.
  assert (C1 : is_derive (fun s' => rb s' * mu (rb s') - f (rb s')) s (drb * (rb s * dmu (rb s)))).
  { apply (is_derive_comp (fun x => x * mu x - f x) rb s); [apply gibbs_duhem; auto|exact Hr]. }
  assert (C2 : is_derive (fun s' => p0 + s') s 1).
  { auto_derive; [auto|ring]. }
  assert (C3 : is_derive (fun s' => p0 + s') s (drb * (rb s * dmu (rb s)))).
  { eapply is_derive_ext; [|exact C1]. intros s'. simpl. apply Hp. }
  pose proof (is_derive_unique _ _ _ C2) as U2. pose proof (is_derive_unique _ _ _ C3) as U3. rewrite U2 in U3.
  assert (C4 : is_derive (fun s' => mu (rb s')) s (drb * dmu (rb s))).
  { apply (is_derive_comp mu rb s); [apply Hm|exact Hr]. }
  eapply is_derive_eq; [|exact C4].
  assert (U : 1 = drb * (rb s * dmu (rb s))) by exact U3.
  apply Rmult_eq_reg_l with (rb s); [|exact Hne]. field_simplify; [|exact Hne]. lra.
Qed.
