(** C19 — Gibbs adsorption relation and the linearised Euler-Lagrange equation of a discretised DFT
    (feos-dft/src/profile/properties.rs: [grand_potential_density], [density_derivative], [drho_dmu], [drho_dp],
    [drho_dt], [dn_dmu], [dn_dp], [dn_dt]), over R, for ANY number [n] of unknowns (segments x grid points, flattened),
    any integration weights [w], any segment lengths [m], any external potential [V] and ANY smooth discretised
    functional, which enters only through
        F   : (nat -> R) -> R                  the discretised residual Helmholtz energy / kT  (sum_g w_g phi_g)
        D   : (nat -> R) -> nat -> R           what the code calls the functional derivative dF/drho (per unit weight)
        H   : (nat -> R) -> (nat -> R) -> nat -> R   the code's [delta_functional_derivative]: directional derivative of D
    The multivariate chain rule is taken along the one-parameter family of solutions at hand (hypotheses [HF], [HD]):
    that the code's convolutions make D the gradient of F w.r.t. the weights and H the Jacobian of D is the adjointness
    / second-derivative statement of C17 (labelled partial there).  Energies are in units of kT unless T appears.

    Euler-Lagrange equation as coded in [euler_lagrange_equation] (no bond integrals: spherical and homosegmented
    chain molecules, the ideal-chain term is the factor m):
        rho_i = rho_b,i * exp (-(D_i(rho) + V_i - Db_i)/m_i)      <->      m_i ln rho_i + D_i(rho) + V_i = b_i
    with  b_i = m_i ln rho_b,i + Db_i = (mu_i - mu_i^ideal-gas-reference)/kT  the bulk side. *)
From Coq Require Import Reals Lra Lia.
From Coquelicot Require Import Coquelicot.
Open Scope R_scope.

(** ** finite sums and their derivatives *)
Fixpoint sumn (n : nat) (f : nat -> R) : R :=
  match n with O => 0 | S k => sumn k f + f k end.

Lemma sumn_ext n f g : (forall i, (i < n)%nat -> f i = g i) -> sumn n f = sumn n g.
Proof.
  induction n as [|n IH]; intros E; simpl; [reflexivity|].
  rewrite IH by (intros; apply E; lia). rewrite E by lia. reflexivity.
Qed.

Lemma sumn_plus n f g : sumn n (fun i => f i + g i) = sumn n f + sumn n g.
Proof. induction n as [|n IH]; simpl; [ring|rewrite IH; ring]. Qed.

Lemma sumn_minus n f g : sumn n (fun i => f i - g i) = sumn n f - sumn n g.
Proof. induction n as [|n IH]; simpl; [ring|rewrite IH; ring]. Qed.

Lemma sumn_opp n f : sumn n (fun i => - f i) = - sumn n f.
Proof. induction n as [|n IH]; simpl; [ring|rewrite IH; ring]. Qed.

Lemma sumn_scal n c f : sumn n (fun i => c * f i) = c * sumn n f.
Proof. induction n as [|n IH]; simpl; [ring|rewrite IH; ring]. Qed.

Lemma sumn_scal_r n c f : sumn n (fun i => f i * c) = sumn n f * c.
Proof. induction n as [|n IH]; simpl; [ring|rewrite IH; ring]. Qed.

Lemma sumn_zero n f : (forall i, (i < n)%nat -> f i = 0) -> sumn n f = 0.
Proof.
  induction n as [|n IH]; intros E; simpl; [reflexivity|].
  rewrite IH by (intros; apply E; lia). rewrite E by lia. ring.
Qed.

Lemma sumn_pos n f : (0 < n)%nat -> (forall i, (i < n)%nat -> 0 < f i) -> 0 < sumn n f.
Proof.
  induction n as [|n IH]; intros Hn P; [lia|]. simpl.
  assert (0 < f n) by (apply P; lia).
  destruct n as [|k]; [simpl; lra|].
  assert (0 < sumn (S k) f) by (apply IH; [lia|intros; apply P; lia]). lra.
Qed.

Lemma sumn_le n f g : (forall i, (i < n)%nat -> f i <= g i) -> sumn n f <= sumn n g.
Proof.
  induction n as [|n IH]; intros E; simpl; [lra|].
  assert (sumn n f <= sumn n g) by (apply IH; intros; apply E; lia). assert (f n <= g n) by (apply E; lia). lra.
Qed.

Lemma is_derive_sumn n (f : nat -> R -> R) (df : nat -> R) t :
  (forall i, (i < n)%nat -> is_derive (f i) t (df i)) ->
  is_derive (fun s => sumn n (fun i => f i s)) t (sumn n df).
Proof.
  induction n as [|n IH]; intros Hd; simpl.
  - apply (is_derive_const 0 t).
  - apply (is_derive_plus (fun s => sumn n (fun i => f i s)) (fun s => f n s)).
    + apply IH. intros; apply Hd; lia.
    + apply Hd; lia.
Qed.

Lemma is_derive_eq (f : R -> R) (t l l' : R) : l = l' -> is_derive f t l -> is_derive f t l'.
Proof. intros ->; auto. Qed.

(** derivative of one ideal-gas / ideal-chain / external-potential term *)
Lemma ideal_term_derive (rho mu : R -> R) (w m V dr dm t : R) :
  is_derive rho t dr -> is_derive mu t dm -> 0 < rho t ->
  is_derive (fun s => w * (m * rho s * (ln (rho s) - 1) + rho s * (V - mu s))) t
            (w * (m * dr * ln (rho t) + dr * (V - mu t) - rho t * dm)).
Proof.
  intros Hr Hm Hp. auto_derive.
  - repeat split; try (eexists; exact Hr); try (eexists; exact Hm); auto.
  - assert (E1 : Derive (fun x : R => rho x) t = dr) by (apply is_derive_unique; exact Hr).
    assert (E2 : Derive (fun x : R => mu x) t = dm) by (apply is_derive_unique; exact Hm).
    rewrite E1, E2. field. lra.
Qed.

(** ** (a) Gibbs adsorption / envelope identity *)
Section Gibbs.
  Variable n : nat.
  Variables w m V : nat -> R.
  Variable F : (nat -> R) -> R.
  Variable D : (nat -> R) -> nat -> R.
  (** a differentiable family of profiles rho i t and of (reduced) chemical potentials mu i t, one per unknown *)
  Variables rho drho mu dmu : nat -> R -> R.

  Definition prof (t : R) : nat -> R := fun i => rho i t.

  (** the discretised grand potential / kT: F + ideal gas + ideal chain + external potential - mu N
      (ideal gas + ideal chain = m rho (ln rho - 1) per segment; the de Broglie wavelength is absorbed in mu) *)
  Definition Omega (t : R) : R :=
    F (prof t) + sumn n (fun i => w i * (m i * rho i t * (ln (rho i t) - 1) + rho i t * (V i - mu i t))).

  (** what [grand_potential_density] integrates (no bonds): phi - rho (dF/drho + m) *)
  Definition Omega_code (t : R) : R :=
    F (prof t) - sumn n (fun i => w i * (rho i t * (D (prof t) i + m i))).

  (** Euler-Lagrange equation at parameter t *)
  Definition EL (t : R) : Prop :=
    forall i, (i < n)%nat -> m i * ln (rho i t) + D (prof t) i + V i = mu i t.

  Hypothesis Hrho : forall i t, (i < n)%nat -> is_derive (rho i) t (drho i t).
  Hypothesis Hpos : forall i t, (i < n)%nat -> 0 < rho i t.
  Hypothesis Hmu : forall i t, (i < n)%nat -> is_derive (mu i) t (dmu i t).
  (** chain rule along the family: D is the gradient of F with respect to the weights w *)
  Hypothesis HF : forall t, is_derive (fun s => F (prof s)) t (sumn n (fun i => w i * D (prof t) i * drho i t)).

  Lemma Omega_derive_any t :
    is_derive Omega t
      (sumn n (fun i => w i * drho i t * (m i * ln (rho i t) + D (prof t) i + V i - mu i t))
       - sumn n (fun i => w i * rho i t * dmu i t)).
  Proof.
    unfold Omega.
    pose (g := fun i s => w i * (m i * rho i s * (ln (rho i s) - 1) + rho i s * (V i - mu i s))).
    pose (dg := fun i => w i * (m i * drho i t * ln (rho i t) + drho i t * (V i - mu i t) - rho i t * dmu i t)).
    assert (Hs : is_derive (fun s => sumn n (fun i => g i s)) t (sumn n dg)).
    { apply is_derive_sumn. intros i Hi. unfold g, dg.
      apply (ideal_term_derive (rho i) (mu i)); [apply Hrho | apply Hmu | apply Hpos]; assumption. }
    pose proof (is_derive_plus (fun s => F (prof s)) (fun s => sumn n (fun i => g i s)) t _ _ (HF t) Hs) as Hsum.
    eapply is_derive_eq; [|exact Hsum].
    unfold plus; simpl. unfold dg.
    rewrite <- sumn_plus, <- sumn_minus. apply sumn_ext. intros i _. ring.
  Qed.

  (** Gibbs adsorption: along a family of stationary points dOmega = - sum_i w_i rho_i dmu_i *)
  Theorem gibbs_adsorption t : EL t ->
    is_derive Omega t (- sumn n (fun i => w i * rho i t * dmu i t)).
  Proof.
    intros E. eapply is_derive_eq; [|apply Omega_derive_any].
    assert (Z : sumn n (fun i => w i * drho i t * (m i * ln (rho i t) + D (prof t) i + V i - mu i t)) = 0).
    { apply sumn_zero. intros i Hi. rewrite (E i Hi). ring. }
    rewrite Z. ring.
  Qed.

  (** at a stationary point the quantity the code integrates is the grand potential *)
  Theorem omega_code_is_omega t : EL t -> Omega_code t = Omega t.
  Proof.
    intros E. unfold Omega_code, Omega. unfold Rminus at 1. f_equal. rewrite <- sumn_opp.
    apply sumn_ext. intros i Hi. rewrite <- (E i Hi). ring.
  Qed.

  (** hence the code's value has the same derivative when every member of the family is stationary *)
  Corollary gibbs_adsorption_code t : (forall s, EL s) ->
    is_derive Omega_code t (- sumn n (fun i => w i * rho i t * dmu i t)).
  Proof.
    intros E. apply (is_derive_ext Omega).
    - intros s. symmetry. apply omega_code_is_omega, E.
    - apply gibbs_adsorption, E.
  Qed.
End Gibbs.
