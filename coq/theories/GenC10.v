(** Support for the generated correspondence goals of C10 (coq/gen/C10/*.v): exact dyadic literals and
    the tactics that execute the models inside Coq ([cbv] on the model definitions, then [interval]). *)
From Coq Require Import Reals ZArith List Lra.
From Coquelicot Require Import Coquelicot.
From Interval Require Import Tactic.
From FeosVerif Require Import IdealGasHelmC10 JobackC10 DipprC10 StateSelC10.
Import ListNotations.
Open Scope R_scope.

(** exact value of an f64: m * 2^e *)
Definition dy (m e : Z) : R := IZR m * powerRZ 2 e.

(** CODATA-2019 Boltzmann constant of the SI layer (quantity::KB); Q_RGAS = KB * NAV is in JobackC10 *)
Definition Q_KB : R := 1.380649e-23.

(** the guard-free form of the ideal-gas Helmholtz energy, valid for V > 0 and N_i >= 0 *)
Definition beta_A_x (T V : R) (cs : list icomp) : R :=
  sumf (fun c => (ic_lam c T + ln (ic_n c / V) - 1) * ic_n c) cs.

Lemma beta_A_pos T V cs : 0 < V -> nonneg cs -> beta_A T V cs = beta_A_x T V cs.
Proof.
  intros HV Hn. unfold beta_A, beta_A_x. apply sumf_ext. intros c Hc.
  apply comp_term_guard; [lra|]. unfold nonneg in Hn. rewrite List.Forall_forall in Hn. now apply Hn.
Qed.

Lemma A_ig_pos T V cs : 0 < V -> nonneg cs -> A_ig T V cs = beta_A_x T V cs * T.
Proof. intros. unfold A_ig. now rewrite beta_A_pos. Qed.

Lemma dA_dT_pos T V cs : 0 < V -> nonneg cs ->
  dA_dT T V cs = sumf (fun c => ic_lam1 c T * ic_n c * T + (ic_lam c T + ln (ic_n c / V) - 1) * ic_n c) cs.
Proof.
  intros HV Hn. unfold dA_dT. apply sumf_ext. intros c Hc.
  rewrite comp_term_guard; [reflexivity | lra |]. unfold nonneg in Hn. rewrite List.Forall_forall in Hn. now apply Hn.
Qed.

Ltac c10_defs :=
  cbv [dy joback_lam joback_cp joback_lam1 joback_lam2 joback_H joback_S joback_comp joback_of jrec_cp joback_mix_cp
       jn ja jb jc jd je
       J_RGAS J_T0 J_T0_2 J_T0_3 J_T0_4 J_T0_5 J_P0 J_A3 J_KB Q_RGAS Q_KB
       dippr_lam dippr_lam_of dippr_lam1 dippr_lam2 dippr_H dippr_S dippr_cp dippr_comp dippr_of dippr_mix_cp
       d100_cp d100_H d100_S d107_cp d107_H d107_S d127_cp d127_H d127_S ein enumerate D_RGAS D_T0
       lamI lamI1 lamI2 tanh sinh cosh
       fold_left fold_right rev app combine seq length skipn nth fst snd map Nat.add INR
       A_ig beta_A_x dA_dT d2A_dT2 p_ig mu_ig cp_mix cv_mix Ntot sumf ic_n ic_lam ic_lam1 ic_lam2].

Ltac c10_lam := c10_defs; interval with (i_prec 120).
Ltac c10_mix := c10_defs; interval with (i_prec 120).
Ltac c10_arith := c10_defs; interval with (i_prec 120).

Ltac c10_nonneg := unfold nonneg; repeat constructor; cbv [ic_n joback_comp dippr_comp dy]; interval.

(** goals on the ideal-gas Helmholtz energy model: remove the rho_i = 0 guard (all N_i > 0 in these cases) *)
Ltac c10_helm cs :=
  unfold cs;
  try (rewrite A_ig_pos; [ | unfold dy; interval | c10_nonneg ]);
  try (rewrite dA_dT_pos; [ | unfold dy; interval | c10_nonneg ]);
  c10_defs; interval with (i_prec 120).

(** goals on the selector model: unfold the getter on the three definitions of the generated file *)
Ltac c10_state st ig res :=
  cbv [value pressure compressibility dp_dv dp_drho dp_dt dp_dni d2p_dv2 d2p_drho2 dmu_dni ds_res_dt
       chemical_potential dmu_dt entropy ds_dt d2s_dt2 helmholtz_energy molar_isochoric_heat_capacity dc_v_dt
       residual_molar_isobaric_heat_capacity molar_isobaric_heat_capacity enthalpy internal_energy gibbs_energy
       get_or_compute_derivative contributions total_moles density st_T st_V st_N st_MW
       fold_right nth Nat.eqb st ig res dy];
  interval with (i_prec 120).
