(** * ProgSem: straight-line real-arithmetic programs (Interval's [Prog.term]) — semantics,
    the logical-relation lemma all analyses are instances of, dyadic constants and the
    dyadic constants. *)
From Coq Require Import Reals List ZArith Lia Lra.
From Interval Require Import Float.Basic Interval.Interval.
From Interval Require Import Eval.Prog Eval.Tree Real.Xreal Eval.Eval.
Import ListNotations.

(* The verified interval evaluators live in ProgSemBig.v (multi-precision backend).  An earlier version also instantiated Interval's
   primitive-float backend here; it was removed because coqchk needs hours to re-check that functor application. *)

(** ** The logical relation lemma over [eval_generic] (binary and ternary forms). *)

Lemma Forall2_nth {A B} (R : A -> B -> Prop) la lb da db :
  Forall2 R la lb -> R da db -> forall n, R (nth n la da) (nth n lb db).
Proof. intros H Hd. induction H; intros [|n]; cbn; auto. Qed.

Lemma eval_generic_rel {A B} (R : A -> B -> Prop) (opsA : operations A) (opsB : operations B) defA defB :
  R defA defB ->
  (forall o a b, R a b -> R (unary opsA o a) (unary opsB o b)) ->
  (forall o a b a' b', R a b -> R a' b' -> R (binary opsA o a a') (binary opsB o b b')) ->
  forall prog va vb, Forall2 R va vb ->
  Forall2 R (eval_generic defA opsA prog va) (eval_generic defB opsB prog vb).
Proof.
  intros Hd Hu Hb prog. unfold eval_generic.
  induction prog as [|t prog IH]; intros va vb H; cbn [fold_left]; [exact H|].
  apply IH. unfold eval_generic_body.
  pose proof (Forall2_nth R va vb defA defB H Hd) as Hn.
  constructor; [|exact H].
  destruct t; auto.
Qed.

Inductive Forall3 {A B C} (R : A -> B -> C -> Prop) : list A -> list B -> list C -> Prop :=
| Forall3_nil : Forall3 R [] [] []
| Forall3_cons a b c la lb lc : R a b c -> Forall3 R la lb lc -> Forall3 R (a :: la) (b :: lb) (c :: lc).

Lemma Forall3_nth {A B C} (R : A -> B -> C -> Prop) la lb lc da db dc :
  Forall3 R la lb lc -> R da db dc -> forall n, R (nth n la da) (nth n lb db) (nth n lc dc).
Proof. intros H Hd. induction H; intros [|n]; cbn; auto. Qed.

Lemma eval_generic_rel3 {A B C} (R : A -> B -> C -> Prop)
  (opsA : operations A) (opsB : operations B) (opsC : operations C) defA defB defC :
  R defA defB defC ->
  (forall o a b c, R a b c -> R (unary opsA o a) (unary opsB o b) (unary opsC o c)) ->
  (forall o a b c a' b' c', R a b c -> R a' b' c' ->
     R (binary opsA o a a') (binary opsB o b b') (binary opsC o c c')) ->
  forall prog va vb vc, Forall3 R va vb vc ->
  Forall3 R (eval_generic defA opsA prog va) (eval_generic defB opsB prog vb) (eval_generic defC opsC prog vc).
Proof.
  intros Hd Hu Hb prog. unfold eval_generic.
  induction prog as [|t prog IH]; intros va vb vc H; cbn [fold_left]; [exact H|].
  apply IH. unfold eval_generic_body.
  pose proof (Forall3_nth R va vb vc defA defB defC H Hd) as Hn.
  constructor; [|exact H].
  destruct t; auto.
Qed.

(** ** Well-definedness *)

Definition out_ext (P : list term) (env : list R) (k : nat) : ExtendedR :=
  nth k (eval_ext P (map Xreal env)) Xnan.

Definition wf (P : list term) (env : list R) (k : nat) : Prop := out_ext P env k <> Xnan.

Lemma eval_ext_real P env :
  Forall2 (fun (x : ExtendedR) (r : R) => x = Xnan \/ x = Xreal r)
          (eval_ext P (map Xreal env)) (eval_real P env).
Proof.
  unfold eval_ext, eval_real.
  apply eval_generic_rel.
  - now left.
  - intros o a b [-> | ->]; [left; now destruct o|].
    destruct o; cbn; auto;
      try (unfold Xinv'; destruct (is_zero b); auto);
      try (unfold Xsqrt'; destruct (is_negative b); auto);
      try (unfold Xtan'; destruct (is_zero (cos b)); auto);
      try (unfold Xln'; destruct (is_positive b); auto);
      try (unfold Xpower_int, Xpower_int'; destruct n; auto; destruct (is_zero b); auto).
  - intros o a b a' b' [-> | ->] [-> | ->]; try (left; now destruct o).
    destruct o; cbn; auto. unfold Xdiv'. destruct (is_zero b'); auto.
  - induction env; cbn; constructor; auto.
Qed.

Lemma wf_real P env k : wf P env k -> out_ext P env k = Xreal (nth k (eval_real P env) 0%R).
Proof.
  unfold wf, out_ext. intros H.
  pose proof (Forall2_nth _ _ _ Xnan 0%R (eval_ext_real P env) (or_introl eq_refl) k) as [E|E]; cbn in E.
  - contradiction.
  - exact E.
Qed.

(** ** Dyadic constants: the exact value of an f64 as [m * 2^e]. *)

Definition dy_R (me : Z * Z) : R := (IZR (fst me) * powerRZ 2 (snd me))%R.

Lemma Xpower_int_2 e : Xpower_int (Xreal 2) e = Xreal (powerRZ 2 e).
Proof.
  unfold Xpower_int, Xpower_int'. cbn.
  destruct e; try reflexivity.
  destruct (is_zero_spec 2); [lra|reflexivity].
Qed.

Definition inputs_R (l : list (Z * Z)) : list R := map dy_R l.
(** output selection: the [j]-th of [n] outputs (outputs are the last [n] instructions) *)
Definition out_idx (nouts j : nat) : nat := nouts - 1 - j.

(** syntactic equality of programs *)
Definition unop_eqb (a b : unary_op) : bool :=
  match a, b with
  | Neg, Neg | Abs, Abs | Inv, Inv | Sqr, Sqr | Sqrt, Sqrt | Cos, Cos | Sin, Sin | Tan, Tan
  | Atan, Atan | Exp, Exp | Ln, Ln => true
  | PowerInt n, PowerInt m => Z.eqb n m
  | _, _ => false
  end.
Definition binop_eqb (a b : binary_op) : bool :=
  match a, b with Add, Add | Sub, Sub | Mul, Mul | Div, Div => true | _, _ => false end.
Definition term_eqb (a b : term) : bool :=
  match a, b with
  | Forward n, Forward m => Nat.eqb n m
  | Unary o n, Unary o' m => unop_eqb o o' && Nat.eqb n m
  | Binary o n1 n2, Binary o' m1 m2 => binop_eqb o o' && Nat.eqb n1 m1 && Nat.eqb n2 m2
  | _, _ => false
  end.
Fixpoint prog_eqb (p q : list term) : bool :=
  match p, q with
  | [], [] => true
  | a :: p, b :: q => term_eqb a b && prog_eqb p q
  | _, _ => false
  end.

Lemma unop_eqb_eq a b : unop_eqb a b = true -> a = b.
Proof. destruct a, b; cbn; try discriminate; auto. intros H. apply Z.eqb_eq in H. now subst. Qed.
Lemma binop_eqb_eq a b : binop_eqb a b = true -> a = b.
Proof. destruct a, b; cbn; try discriminate; auto. Qed.
Lemma term_eqb_eq a b : term_eqb a b = true -> a = b.
Proof.
  destruct a, b; cbn; try discriminate.
  - intros H. apply Nat.eqb_eq in H. now subst.
  - intros H. apply andb_prop in H as [H1 H2]. apply unop_eqb_eq in H1. apply Nat.eqb_eq in H2. now subst.
  - intros H. apply andb_prop in H as [H H3]. apply andb_prop in H as [H1 H2].
    apply binop_eqb_eq in H1. apply Nat.eqb_eq in H2, H3. now subst.
Qed.
Lemma prog_eqb_eq p q : prog_eqb p q = true -> p = q.
Proof.
  revert q. induction p as [|a p IH]; intros [|b q]; cbn; try discriminate; auto.
  intros H. apply andb_prop in H as [H1 H2]. apply term_eqb_eq in H1. apply IH in H2. now subst.
Qed.
