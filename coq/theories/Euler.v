(** * Euler: a traced program that passes the degree check satisfies Euler's relation
    A = V dA/dV + sum_i N_i dA/dN_i  — in the form: the derivative program of [AD.v], seeded with the
    direction (0, V, N, 0...), returns the value of the program itself. *)
From Coq Require Import Reals List ZArith Lia Lra.
From Coquelicot Require Import Coquelicot.
From Interval Require Import Real.Xreal Real.Xreal_derive Eval.Prog Eval.Tree Eval.Eval.
From FeosVerif Require Import ProgSem Homog AD.
Import ListNotations.
Local Open Scope R_scope.

Lemma derivable_pt_lim_local f g x l (d : R) : 0 < d ->
  (forall y, Rabs (y - x) < d -> f y = g y) -> derivable_pt_lim f x l -> derivable_pt_lim g x l.
Proof.
  intros Hd Heq Hf eps Heps. destruct (Hf eps Heps) as [delta Hdelta].
  assert (Hm : 0 < Rmin delta d) by (apply Rmin_pos; [apply cond_pos|exact Hd]).
  exists (mkposreal _ Hm). intros h Hh Hhd. cbn in Hhd.
  rewrite <- (Heq (x + h)), <- (Heq x).
  - apply Hdelta; [exact Hh|]. eapply Rlt_le_trans; [exact Hhd|apply Rmin_l].
  - replace (x - x) with 0 by ring. now rewrite Rabs_R0.
  - replace (x + h - x) with h by ring. eapply Rlt_le_trans; [exact Hhd|apply Rmin_r].
Qed.

(** the straight line from a thermodynamic point in the direction (0, V, N, 0) is the scaling of (V, N) *)
Definition euler_dir (V : R) (N consts : list R) : list R := 0 :: V :: N ++ map (fun _ => 0) consts.

Lemma combine_app' {A B} (l1 l2 : list A) (m1 m2 : list B) : length l1 = length m1 ->
  combine (l1 ++ l2) (m1 ++ m2) = combine l1 m1 ++ combine l2 m2.
Proof.
  revert m1. induction l1 as [|x l1 IH]; intros [|y m1]; cbn; try discriminate; auto.
  intros H. f_equal. apply IH. lia.
Qed.

Lemma line_pt_euler T V N consts t :
  line_pt (thermo_env T V N consts) (euler_dir V N consts) t =
  thermo_env T ((1 + t) * V) (map (Rmult (1 + t)) N) consts.
Proof.
  unfold line_pt, thermo_env, euler_dir. cbn [combine map fst snd].
  f_equal; [ring|]. f_equal; [ring|].
  rewrite combine_app' by reflexivity. rewrite map_app. f_equal.
  - induction N as [|x N IH]; cbn; [reflexivity|]. f_equal; [ring|exact IH].
  - induction consts as [|c cs IH]; cbn; [reflexivity|]. f_equal; [ring|exact IH].
Qed.

Theorem euler_relation P ncomp cz nouts T V N consts k y dv :
  outputs_deg P ncomp cz nouts 1%Z = true ->
  length N = ncomp -> consts_ok cz consts -> (k < nouts)%nat ->
  let n := length (thermo_env T V N consts) in
  wscoped P n = true -> (k < length P + n)%nat ->
  out_ext P (thermo_env T V N consts) k = Xreal y ->
  nth 0 (eval_ext (tan_outs P n [k]) (map Xreal (thermo_env T V N consts ++ euler_dir V N consts))) Xnan = Xreal dv ->
  dv = y.
Proof.
  intros Hdeg HN Hc Hk n Hs Hkn Hy Hd.
  set (a := thermo_env T V N consts) in *. set (e := euler_dir V N consts) in *.
  assert (Hla : length a = n) by reflexivity.
  assert (Hle : length e = n).
  { unfold n, a, e, thermo_env, euler_dir. cbn. now rewrite !app_length, map_length. }
  assert (Hlp : line_pt a e 0 = a).
  { unfold a, e. rewrite line_pt_euler. replace (1 + 0) with 1 by ring. rewrite Rmult_1_l.
    f_equal. rewrite <- (map_id N) at 2. apply map_ext. intros x. ring. }
  pose proof (tan_line_real P n [k] a e 0 0%nat dv Hla Hle Hs) as HD.
  cbn [length nth Nat.sub] in HD. rewrite Hlp in HD.
  specialize (HD ltac:(intros j [<-|[]]; exact Hkn) ltac:(lia) Hd y).
  (* the same function is (1 + t) * y near t = 0 *)
  assert (HF : forall t, Rabs (t - 0) < 1 ->
     match nth k (eval_ext P (map Xreal (line_pt a e t))) Xnan with Xreal z => z | Xnan => y end = (1 + t) * y).
  { intros t Ht. rewrite Rminus_0_r in Ht. apply Rabs_def2 in Ht.
    unfold a, e. rewrite line_pt_euler.
    pose proof (program_homogeneous P ncomp cz nouts 1%Z Hdeg (1 + t) T V N consts k ltac:(lra) HN Hc Hk) as HH.
    unfold out_ext in HH, Hy. unfold a in Hy. rewrite Hy in HH. rewrite HH.
    cbn [powerRZ]. change (Pos.to_nat 1) with 1%nat. simpl pow. ring. }
  assert (HG : derivable_pt_lim (fun t => (1 + t) * y) 0 y).
  { intros eps Heps. exists (mkposreal 1 Rlt_0_1). intros h Hh _.
    replace (((1 + (0 + h)) * y - (1 + 0) * y) / h - y) with 0 by (field; exact Hh).
    now rewrite Rabs_R0. }
  pose proof (derivable_pt_lim_local _ _ 0 dv 1 Rlt_0_1 HF HD) as HD'.
  exact (uniqueness_limite _ _ _ _ HD' HG).
Qed.

(** ** Euler's relation for any degree: V df/dV + sum_i N_i df/dN_i = j f.
    Applied to the derivative programs [tan_outs P] (pressure and chemical potentials have degree 0, the entropy degree 1)
    it yields the Gibbs-Duhem type identities  V dp/dV + sum_i N_i dp/dN_i = 0  and  V dmu_k/dV + sum_i N_i dmu_k/dN_i = 0. *)
Lemma IZR_pos_nat p : IZR (Z.pos p) = INR (Pos.to_nat p).
Proof. now rewrite INR_IZR_INZ, positive_nat_Z. Qed.

Lemma powerRZ_line_derive j : derivable_pt_lim (fun t => powerRZ (1 + t) j) 0 (IZR j).
Proof.
  apply is_derive_Reals.
  destruct j as [|p|p]; cbn [powerRZ].
  - auto_derive; [exact I|reflexivity].
  - auto_derive; [exact I|]. rewrite Rplus_0_r, pow1, (IZR_pos_nat p). ring.
  - auto_derive.
    + rewrite Rplus_0_r, pow1. repeat split; lra.
    + rewrite Rplus_0_r, !pow1. change (IZR (Z.neg p)) with (- IZR (Z.pos p)). rewrite (IZR_pos_nat p). field.
Qed.

Theorem euler_relation_deg P ncomp cz nouts (j : Z) T V N consts k y dv :
  outputs_deg P ncomp cz nouts j = true ->
  length N = ncomp -> consts_ok cz consts -> (k < nouts)%nat ->
  let n := length (thermo_env T V N consts) in
  wscoped P n = true -> (k < length P + n)%nat ->
  out_ext P (thermo_env T V N consts) k = Xreal y ->
  nth 0 (eval_ext (tan_outs P n [k]) (map Xreal (thermo_env T V N consts ++ euler_dir V N consts))) Xnan = Xreal dv ->
  dv = IZR j * y.
Proof.
  intros Hdeg HN Hc Hk n Hs Hkn Hy Hd.
  set (a := thermo_env T V N consts) in *. set (e := euler_dir V N consts) in *.
  assert (Hla : length a = n) by reflexivity.
  assert (Hle : length e = n).
  { unfold n, a, e, thermo_env, euler_dir. cbn. now rewrite !app_length, map_length. }
  assert (Hlp : line_pt a e 0 = a).
  { unfold a, e. rewrite line_pt_euler. replace (1 + 0) with 1 by ring. rewrite Rmult_1_l.
    f_equal. rewrite <- (map_id N) at 2. apply map_ext. intros x. ring. }
  pose proof (tan_line_real P n [k] a e 0 0%nat dv Hla Hle Hs) as HD.
  cbn [length nth Nat.sub] in HD. rewrite Hlp in HD.
  specialize (HD ltac:(intros i [<-|[]]; exact Hkn) ltac:(lia) Hd y).
  assert (HF : forall t, Rabs (t - 0) < 1 ->
     match nth k (eval_ext P (map Xreal (line_pt a e t))) Xnan with Xreal z => z | Xnan => y end = powerRZ (1 + t) j * y).
  { intros t Ht. rewrite Rminus_0_r in Ht. apply Rabs_def2 in Ht.
    unfold a, e. rewrite line_pt_euler.
    pose proof (program_homogeneous P ncomp cz nouts j Hdeg (1 + t) T V N consts k ltac:(lra) HN Hc Hk) as HH.
    unfold out_ext in HH, Hy. unfold a in Hy. rewrite Hy in HH. now rewrite HH. }
  assert (HG : derivable_pt_lim (fun t => powerRZ (1 + t) j * y) 0 (IZR j * y)).
  { replace (IZR j * y) with (IZR j * y + powerRZ (1 + 0) j * 0).
    - apply (derivable_pt_lim_mult (fun t => powerRZ (1 + t) j) (fun _ => y)); [apply powerRZ_line_derive|apply derivable_pt_lim_const].
    - ring. }
  pose proof (derivable_pt_lim_local _ _ 0 dv 1 Rlt_0_1 HF HD) as HD'.
  exact (uniqueness_limite _ _ _ _ HD' HG).
Qed.
