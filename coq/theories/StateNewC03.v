(** C03 — model of the state constructors [State::new] / [State::new_full] / [StateBuilder::build]
    (feos-core/src/state/mod.rs:227-566, builder.rs) as a total function from the eleven optional inputs
    (T, V, rho, rho_i, n, N_i, x_i, p, h, s, u) to an outcome.

    Values live in a small float-class type: a finite rational (Fin 0 is +0.0), -0.0, +-infinity, NaN, with the IEEE-754
    rules for +, *, / on these classes (sign of zero, inf-inf, 0*inf, x/0 ...).  Round-off, overflow and underflow of
    finite values are modelled away (exact rational arithmetic); everything else mirrors the match cascade of [_new]. *)
From Coq Require Import QArith Qabs Qround List Bool Lia ZArith Lqa.
Import ListNotations.
Open Scope Q_scope.

Inductive fval := Fin (q : Q) | NZ | PInf | NInf | NaN.

Definition Qltb (a b : Q) : bool := negb (Qle_bool b a).
Definition is_nan x := match x with NaN => true | _ => false end.
Definition is_inf x := match x with PInf | NInf => true | _ => false end.
Definition is_zero x := match x with Fin q => Qeq_bool q 0 | NZ => true | _ => false end.
Definition is_finite x := match x with Fin _ | NZ => true | _ => false end.
(** [f64::is_sign_negative] *)
Definition sneg x := match x with Fin q => Qltb q 0 | NZ | NInf => true | _ => false end.
(** what [validate] accepts: finite and not sign-negative *)
Definition valid x := is_finite x && negb (sneg x).
(** numerical value of a finite class *)
Definition fq x : Q := match x with Fin q => q | _ => 0 end.

Definition sgn_inf (neg : bool) := if neg then NInf else PInf.
Definition sgn_zero (neg : bool) := if neg then NZ else Fin 0.

Definition fmul x y :=
  if is_nan x || is_nan y then NaN else
  let s := xorb (sneg x) (sneg y) in
  if is_inf x || is_inf y then (if is_zero x || is_zero y then NaN else sgn_inf s)
  else if is_zero x || is_zero y then sgn_zero s
  else Fin (Qred (fq x * fq y)).

Definition fdiv x y :=
  if is_nan x || is_nan y then NaN else
  let s := xorb (sneg x) (sneg y) in
  if is_inf x then (if is_inf y then NaN else sgn_inf s)
  else if is_inf y then sgn_zero s
  else if is_zero y then (if is_zero x then NaN else sgn_inf s)
  else if is_zero x then sgn_zero s
  else Fin (Qred (fq x / fq y)).

Definition fadd x y :=
  match x, y with
  | NaN, _ | _, NaN => NaN
  | PInf, NInf | NInf, PInf => NaN
  | PInf, _ | _, PInf => PInf
  | NInf, _ | _, NInf => NInf
  | NZ, NZ => NZ
  | NZ, Fin b => Fin b
  | Fin a, NZ => Fin a
  | Fin a, Fin b => Fin (Qred (a + b))
  end.

(** ndarray's [sum]: a left fold starting from +0.0 *)
Definition vsum (l : list fval) := fold_left fadd l (Fin 0).
Definition vdivs (x : list fval) (s : fval) := map (fun xi => fdiv xi s) x.
(** [&x_u * n / x_u.sum()] *)
Definition vscale (x : list fval) (n s : fval) := map (fun xi => fdiv (fmul xi n) s) x.

Record inputs := mkIn {
  iT : option fval; iV : option fval; iRho : option fval; iPd : option (list fval);
  iN : option fval; iM : option (list fval); iX : option (list fval);
  iP : option fval; iH : option fval; iS : option fval; iU : option fval }.

Inductive field := FT | FV | FN.
Inductive ekind :=
| EBothDensity | EBothMoles | EDensityOver | ECompOver | EMissingComp | EMissingInput
| EIncompat (c l : nat) | EInvalid (f : field).

Inductive outcome :=
| Err (e : ekind)
| Nvt (T V : fval) (N : list fval)
| Npt (T p : fval) (N : list fval)
| Npvx (T p V : fval) (x : list fval)
| Nph (p h : fval) (N : list fval)
| Nps (p s : fval) (N : list fval)
| Nth (T h : fval) (N : list fval)
| Nts (T s : fval) (N : list fval)
| Nvu (V u : fval) (N : list fval).

(** [Moles::from_reduced(1.0)] in mol: 1/N_A *)
Definition n_ref : Q := 1 # 602214076000000000000000.

(** [State::new_nvt]: [validate_moles] then [validate] *)
Definition new_nvt (comps : nat) (T V : fval) (N : list fval) : outcome :=
  if negb (length N =? comps)%nat then Err (EIncompat comps (length N))
  else if negb (valid T) then Err (EInvalid FT)
  else if negb (valid V) then Err (EInvalid FV)
  else if negb (forallb valid N) then Err (EInvalid FN)
  else Nvt T V N.

Definition oand {A B} (a : option A) (b : option B) : bool :=
  match a, b with Some _, Some _ => true | _, _ => false end.
Definition orelse {A} (a b : option A) : option A := match a with Some _ => a | None => b end.
Definition is_some {A} (a : option A) : bool := match a with Some _ => true | None => false end.

Definition rho_of (i : inputs) : option fval := orelse (iRho i) (option_map vsum (iPd i)).
Definition n0_of (i : inputs) : option fval := orelse (iN i) (option_map vsum (iM i)).
Definition n1_of (i : inputs) : option fval :=
  orelse (n0_of i) (match rho_of i, iV i with Some d, Some v => Some (fmul v d) | _, _ => None end).
Definition x_of (i : inputs) : option (list fval) :=
  orelse (option_map (fun pd => vdivs pd (vsum pd)) (iPd i)) (option_map (fun ms => vdivs ms (vsum ms)) (iM i)).
Definition xu_of (comps : nat) (i : inputs) : ekind + list fval :=
  match x_of i, iX i with
  | Some _, Some _ => inl ECompOver
  | Some x, None => inr x
  | None, Some x => inr x
  | None, None => if (comps =? 1)%nat then inr [Fin 1] else inl EMissingComp
  end.
Definition n_of (i : inputs) : option fval :=
  match iV i, n1_of i with None, None => Some (Fin n_ref) | _, n1 => n1 end.
Definition v_of (i : inputs) : option fval :=
  orelse (iV i) (match rho_of i, n_of i with Some d, Some n => Some (fdiv n d) | _, _ => None end).

Inductive inner := Done (o : outcome) | Rest (ni : option (list fval)).

(** [State::_new] *)
Definition new_inner (comps : nat) (i : inputs) : inner :=
  if oand (iRho i) (iPd i) then Done (Err EBothDensity) else
  if oand (iM i) (iN i) then Done (Err EBothMoles) else
  if oand (rho_of i) (n0_of i) && is_some (iV i) then Done (Err EDensityOver) else
  if oand (iPd i) (iM i) then Done (Err ECompOver) else
  match xu_of comps i with
  | inl e => Done (Err e)
  | inr xu =>
    let ni := option_map (fun n => vscale xu n (vsum xu)) (n_of i) in
    match v_of i, iT i, ni with
    | Some v, Some t, Some ni' => Done (new_nvt comps t v ni')
    | _, _, _ =>
      match iP i, iT i, ni with
      | Some p, Some t, Some ni' => Done (Npt t p ni')
      | _, _, _ =>
        match iP i, iT i, v_of i with
        | Some p, Some t, Some v => Done (Npvx t p v xu)
        | _, _, _ => Rest ni
        end
      end
    end
  end.

(** [State::new] (residual models) *)
Definition new_res (comps : nat) (i : inputs) : outcome :=
  match new_inner comps i with Done o => o | Rest _ => Err EMissingInput end.

(** [State::new_full] (residual + ideal gas) *)
Definition new_full (comps : nat) (i : inputs) : outcome :=
  match new_inner comps i with
  | Done o => o
  | Rest ni =>
    match iP i, iH i, ni with
    | Some p, Some h, Some n => Nph p h n
    | _, _, _ =>
    match iP i, iS i, ni with
    | Some p, Some s, Some n => Nps p s n
    | _, _, _ =>
    match iT i, iH i, ni with
    | Some t, Some h, Some n => Nth t h n
    | _, _, _ =>
    match iT i, iS i, ni with
    | Some t, Some s, Some n => Nts t s n
    | _, _, _ =>
    match iU i, iV i, ni with
    | Some u, Some v, Some n => Nvu v u n
    | _, _, _ => Err EMissingInput
    end end end end end
  end.

(* ------------------------------------------------------------------------------------------- *)
(** * Class arithmetic facts *)

Lemma Qltb_lt a b : Qltb a b = true <-> a < b.
Proof.
  unfold Qltb. rewrite negb_true_iff. split; intro H.
  - apply Qnot_le_lt. intro C. apply Qle_bool_iff in C. congruence.
  - destruct (Qle_bool b a) eqn:E; auto. apply Qle_bool_iff in E. exfalso. apply (Qlt_not_le _ _ H E).
Qed.

Lemma valid_finite x : valid x = true -> is_finite x = true.
Proof. unfold valid. intro H. apply andb_true_iff in H. tauto. Qed.

Lemma valid_fq_nonneg x : valid x = true -> 0 <= fq x.
Proof.
  destruct x; simpl; try discriminate; try (intros; apply Qle_refl).
  unfold valid; simpl. intro H. rewrite negb_true_iff in H.
  destruct (Qltb q 0) eqn:E; try discriminate.
  apply Qnot_lt_le. intro C. apply Qltb_lt in C. congruence.
Qed.

Lemma is_zero_fq x : is_finite x = true -> (is_zero x = true <-> fq x == 0).
Proof.
  destruct x; simpl; try discriminate; intros _.
  - apply Qeq_bool_iff.
  - split; intros; [reflexivity | reflexivity].
Qed.

Lemma sgn_zero_finite s : is_finite (sgn_zero s) = true /\ fq (sgn_zero s) == 0.
Proof. destruct s; simpl; split; reflexivity. Qed.

Lemma sgn_inf_not_finite s : is_finite (sgn_inf s) = false.
Proof. destruct s; reflexivity. Qed.

Lemma fmul_finite_inv x y : is_finite (fmul x y) = true ->
  is_finite x = true /\ is_finite y = true /\ fq (fmul x y) == fq x * fq y.
Proof.
  unfold fmul.
  destruct (is_nan x || is_nan y) eqn:En; [discriminate|].
  destruct (is_inf x || is_inf y) eqn:Ei.
  { destruct (is_zero x || is_zero y); [discriminate|]. rewrite sgn_inf_not_finite. discriminate. }
  apply orb_false_iff in En. apply orb_false_iff in Ei. destruct En as [Enx Eny], Ei as [Eix Eiy].
  assert (Fx : is_finite x = true) by (destruct x; simpl in *; congruence).
  assert (Fy : is_finite y = true) by (destruct y; simpl in *; congruence).
  destruct (is_zero x || is_zero y) eqn:Ez.
  - intros _. split; [assumption|]. split; [assumption|].
    destruct (sgn_zero_finite (xorb (sneg x) (sneg y))) as [_ Hz]. rewrite Hz.
    apply orb_true_iff in Ez. destruct Ez as [Ez|Ez]; apply is_zero_fq in Ez; try assumption; rewrite Ez; ring.
  - intros _. split; [assumption|]. split; [assumption|]. cbn [fq]. apply Qred_correct.
Qed.

Lemma fdiv_finite_inv x y : is_finite (fdiv x y) = true ->
  is_finite x = true /\
  ((is_finite y = true /\ ~ fq y == 0 /\ fq (fdiv x y) == fq x / fq y) \/ is_inf y = true).
Proof.
  unfold fdiv.
  destruct (is_nan x || is_nan y) eqn:En; [discriminate|].
  apply orb_false_iff in En. destruct En as [Enx Eny].
  destruct (is_inf x) eqn:Eix.
  { destruct (is_inf y); [discriminate|]. rewrite sgn_inf_not_finite. discriminate. }
  assert (Fx : is_finite x = true) by (destruct x; simpl in *; congruence).
  destruct (is_inf y) eqn:Eiy.
  { intros _. split; [assumption|]. right. reflexivity. }
  assert (Fy : is_finite y = true) by (destruct y; simpl in *; congruence).
  destruct (is_zero y) eqn:Ezy.
  { destruct (is_zero x); [discriminate|]. rewrite sgn_inf_not_finite. discriminate. }
  assert (Ny : ~ fq y == 0).
  { intro C. apply is_zero_fq in C; [congruence|assumption]. }
  destruct (is_zero x) eqn:Ezx.
  - intros _. split; [assumption|]. left. split; [assumption|]. split; [assumption|].
    destruct (sgn_zero_finite (xorb (sneg x) (sneg y))) as [_ Hz]. rewrite Hz.
    apply is_zero_fq in Ezx; [|assumption]. rewrite Ezx. field. assumption.
  - intros _. split; [assumption|]. left. split; [assumption|]. split; [assumption|]. cbn [fq]. apply Qred_correct.
Qed.

Lemma fadd_finite_inv x y : is_finite (fadd x y) = true ->
  is_finite x = true /\ is_finite y = true /\ fq (fadd x y) == fq x + fq y.
Proof.
  destruct x, y; cbn [fadd fq is_finite]; try discriminate; intros _; repeat split; try reflexivity; try rewrite Qred_correct; ring.
Qed.

Lemma fadd_finite x y : is_finite x = true -> is_finite y = true -> is_finite (fadd x y) = true.
Proof. destruct x, y; simpl; try discriminate; reflexivity. Qed.

Fixpoint qsum (l : list Q) : Q := match l with [] => 0 | a :: r => a + qsum r end.

Lemma fold_fadd_finite_inv l : forall acc, is_finite (fold_left fadd l acc) = true ->
  is_finite acc = true /\ forallb is_finite l = true /\ fq (fold_left fadd l acc) == fq acc + qsum (map fq l).
Proof.
  induction l as [|a l IH]; intros acc H; simpl in *.
  - split; [assumption|]. split; [reflexivity|]. ring.
  - apply IH in H. destruct H as [Ha [Hl Hs]].
    apply fadd_finite_inv in Ha. destruct Ha as [Hacc [Hfa Hv]].
    split; [assumption|]. split; [rewrite Hfa, Hl; reflexivity|].
    rewrite Hs, Hv. ring.
Qed.

Lemma vsum_finite_inv l : is_finite (vsum l) = true ->
  forallb is_finite l = true /\ fq (vsum l) == qsum (map fq l).
Proof.
  unfold vsum. intro H. apply fold_fadd_finite_inv in H. destruct H as [_ [Hl Hs]].
  split; [assumption|]. rewrite Hs. simpl. ring.
Qed.

Lemma fold_fadd_finite l : forall acc, is_finite acc = true -> forallb is_finite l = true ->
  is_finite (fold_left fadd l acc) = true.
Proof.
  induction l as [|a l IH]; intros acc Ha Hl; simpl in *; [assumption|].
  apply andb_true_iff in Hl. destruct Hl as [Hfa Hl]. apply IH; [apply fadd_finite; assumption | assumption].
Qed.

Lemma vsum_finite l : forallb is_finite l = true -> is_finite (vsum l) = true.
Proof. intro H. apply fold_fadd_finite; [reflexivity | assumption]. Qed.

Lemma finite_not_inf x : is_finite x = true -> is_inf x = true -> False.
Proof. destruct x; simpl; discriminate. Qed.

(** ** The central lemma: a finite result of [&x * n / x.sum()] forces a regular mixture and gives its algebra. *)
Lemma vscale_finite_inv x n : x <> [] -> forallb is_finite (vscale x n (vsum x)) = true ->
  is_finite n = true /\ forallb is_finite x = true /\ ~ fq (vsum x) == 0 /\ is_finite (vsum x) = true /\
  Forall2 (fun Ni xi => fq Ni == fq xi * fq n / fq (vsum x)) (vscale x n (vsum x)) x.
Proof.
  intros Hne H.
  set (s := vsum x) in *.
  assert (Hall : forall xi, In xi x -> is_finite xi = true /\ is_finite n = true /\
            ((is_finite s = true /\ ~ fq s == 0 /\ fq (fdiv (fmul xi n) s) == fq xi * fq n / fq s) \/ is_inf s = true)).
  { intros xi Hin. unfold vscale in H. rewrite forallb_forall in H.
    specialize (H (fdiv (fmul xi n) s)). rewrite in_map_iff in H.
    assert (Hf : is_finite (fdiv (fmul xi n) s) = true) by (apply H; exists xi; split; [reflexivity|assumption]).
    apply fdiv_finite_inv in Hf. destruct Hf as [Hm Hd].
    apply fmul_finite_inv in Hm. destruct Hm as [Hxi [Hn Hv]].
    split; [assumption|]. split; [assumption|].
    destruct Hd as [[Hs [Hnz Hq]]|Hi]; [left|right; assumption].
    split; [assumption|]. split; [assumption|]. rewrite Hq, Hv. reflexivity. }
  assert (Hfx : forallb is_finite x = true).
  { rewrite forallb_forall. intros xi Hin. apply (Hall xi Hin). }
  assert (Hfs : is_finite s = true) by (apply vsum_finite; assumption).
  destruct x as [|x0 xr]; [congruence|].
  destruct (Hall x0 (or_introl eq_refl)) as [_ [Hn [[_ [Hnz _]]|Hi]]]; [|exfalso; exact (finite_not_inf _ Hfs Hi)].
  split; [assumption|]. split; [assumption|]. split; [assumption|]. split; [assumption|].
  unfold vscale.
  assert (G : forall l, (forall xi, In xi l -> In xi (x0 :: xr)) ->
              Forall2 (fun Ni xi => fq Ni == fq xi * fq n / fq s) (map (fun xi => fdiv (fmul xi n) s) l) l).
  { induction l as [|a l IHl]; intros Hsub; simpl; constructor.
    - destruct (Hall a (Hsub a (or_introl eq_refl))) as [_ [_ [[_ [_ Hq]]|Hi]]]; [assumption|exfalso; exact (finite_not_inf _ Hfs Hi)].
    - apply IHl. intros xi Hin. apply Hsub. right. assumption. }
  apply G. auto.
Qed.

Lemma Forall2_impl' {A B} (R1 R2 : A -> B -> Prop) : (forall a b, R1 a b -> R2 a b) ->
  forall l l', Forall2 R1 l l' -> Forall2 R2 l l'.
Proof. intros H l l' F. induction F; constructor; auto. Qed.

Lemma Forall2_qsum_scale (N x : list fval) (c : Q) :
  Forall2 (fun Ni xi => fq Ni == fq xi * c) N x -> qsum (map fq N) == qsum (map fq x) * c.
Proof.
  induction 1 as [|a b l l' H _ IH]; simpl; [ring|]. rewrite H, IH. ring.
Qed.

Lemma forallb_valid_finite l : forallb valid l = true -> forallb is_finite l = true.
Proof.
  rewrite !forallb_forall. intros H x Hin. apply valid_finite. apply H. assumption.
Qed.

(** total amount of a finite scaled mixture equals the requested amount *)
Lemma vscale_total x n : x <> [] -> forallb is_finite (vscale x n (vsum x)) = true ->
  qsum (map fq (vscale x n (vsum x))) == fq n.
Proof.
  intros Hne H. destruct (vscale_finite_inv x n Hne H) as [Hn [Hx [Hnz [Hs HF]]]].
  assert (HF' : Forall2 (fun Ni xi => fq Ni == fq xi * (fq n / fq (vsum x))) (vscale x n (vsum x)) x).
  { eapply Forall2_impl'; [|exact HF]. simpl. intros a b E. rewrite E. field. assumption. }
  rewrite (Forall2_qsum_scale _ _ _ HF').
  destruct (vsum_finite_inv x Hs) as [_ Hv]. rewrite <- Hv. field. assumption.
Qed.

(* ------------------------------------------------------------------------------------------- *)
(** * Inversion of the NVT path *)

Lemma new_nvt_inv comps t v n T V N : new_nvt comps t v n = Nvt T V N ->
  t = T /\ v = V /\ n = N /\ length N = comps /\ valid T = true /\ valid V = true /\ forallb valid N = true.
Proof.
  unfold new_nvt.
  destruct (length n =? comps)%nat eqn:El; simpl; [|discriminate].
  destruct (valid t) eqn:Et; simpl; [|discriminate].
  destruct (valid v) eqn:Ev; simpl; [|discriminate].
  destruct (forallb valid n) eqn:En; simpl; [|discriminate].
  intro H. inversion H; subst. apply Nat.eqb_eq in El. repeat split; assumption.
Qed.

Lemma new_nvt_not_req comps t v n : forall o, new_nvt comps t v n = o ->
  match o with Err _ | Nvt _ _ _ => True | _ => False end.
Proof.
  intros o <-. unfold new_nvt.
  destruct (negb (length n =? comps)%nat); [exact I|].
  destruct (negb (valid t)); [exact I|]. destruct (negb (valid v)); [exact I|].
  destruct (negb (forallb valid n)); exact I.
Qed.

(** the guards that hold whenever [_new] gets past its over-determination checks *)
Record guards_ok (i : inputs) : Prop := {
  g_density : oand (iRho i) (iPd i) = false;
  g_moles : oand (iM i) (iN i) = false;
  g_over : oand (rho_of i) (n0_of i) && is_some (iV i) = false;
  g_comp : oand (iPd i) (iM i) = false }.

Lemma new_inner_nvt_inv comps i T V N : new_inner comps i = Done (Nvt T V N) ->
  guards_ok i /\ exists xu n, xu_of comps i = inr xu /\ n_of i = Some n /\ v_of i = Some V /\ iT i = Some T /\
    N = vscale xu n (vsum xu) /\ length N = comps /\ valid T = true /\ valid V = true /\ forallb valid N = true.
Proof.
  unfold new_inner.
  destruct (oand (iRho i) (iPd i)) eqn:G1; [discriminate|].
  destruct (oand (iM i) (iN i)) eqn:G2; [discriminate|].
  destruct (oand (rho_of i) (n0_of i) && is_some (iV i)) eqn:G3; [discriminate|].
  destruct (oand (iPd i) (iM i)) eqn:G4; [discriminate|].
  destruct (xu_of comps i) as [e|xu] eqn:Exu; [discriminate|].
  intro H. split; [constructor; assumption|].
  destruct (n_of i) as [n|] eqn:En; simpl in H.
  - destruct (v_of i) as [v|] eqn:Ev.
    + destruct (iT i) as [t|] eqn:Et.
      * inversion H as [H1]. apply new_nvt_inv in H1. destruct H1 as [-> [-> [<- [Hl [HT [HV HN]]]]]].
        exists xu, n. repeat split; assumption.
      * destruct (iP i); discriminate.
    + destruct (iP i); [destruct (iT i)|]; discriminate.
  - destruct (v_of i); [destruct (iT i)|]; destruct (iP i); try discriminate; destruct (iT i); discriminate.
Qed.

Lemma new_full_nvt_inner comps i T V N : new_full comps i = Nvt T V N -> new_inner comps i = Done (Nvt T V N).
Proof.
  unfold new_full. destruct (new_inner comps i) as [o|ni]; [intros ->; reflexivity|].
  destruct (iP i), (iH i), (iS i), (iT i), (iU i), (iV i), ni; discriminate.
Qed.

Lemma new_res_nvt_inner comps i T V N : new_res comps i = Nvt T V N -> new_inner comps i = Done (Nvt T V N).
Proof. unfold new_res. destruct (new_inner comps i); [intros ->; reflexivity|discriminate]. Qed.

(** ** reject_bad: whatever is returned on the NVT path passed [validate] and [validate_moles] *)
Theorem nvt_valid comps i T V N : new_full comps i = Nvt T V N ->
  valid T = true /\ valid V = true /\ forallb valid N = true /\ length N = comps.
Proof.
  intro H. apply new_full_nvt_inner, new_inner_nvt_inv in H.
  destruct H as [_ [xu [n [_ [_ [_ [_ [_ [Hl [HT [HV HN]]]]]]]]]]]. repeat split; assumption.
Qed.

(** a given temperature / volume is echoed literally, hence a bad one (NaN, +-inf, negative, -0.0) is never accepted *)
Theorem nvt_echo_T comps i T V N t : new_full comps i = Nvt T V N -> iT i = Some t -> T = t.
Proof.
  intros H Ht. apply new_full_nvt_inner, new_inner_nvt_inv in H.
  destruct H as [_ [xu [n [_ [_ [_ [HT _]]]]]]]. congruence.
Qed.

Theorem nvt_echo_V comps i T V N v : new_full comps i = Nvt T V N -> iV i = Some v -> V = v.
Proof.
  intros H Hv. apply new_full_nvt_inner, new_inner_nvt_inv in H.
  destruct H as [_ [xu [n [_ [_ [HV _]]]]]]. unfold v_of in HV. rewrite Hv in HV. simpl in HV. congruence.
Qed.

Theorem reject_bad_TV comps i :
  (forall t, iT i = Some t -> valid t = false -> forall T V N, new_full comps i <> Nvt T V N) /\
  (forall v, iV i = Some v -> valid v = false -> forall T V N, new_full comps i <> Nvt T V N).
Proof.
  split.
  - intros t Ht Hb T V N H. pose proof (nvt_echo_T _ _ _ _ _ _ H Ht) as ->.
    apply nvt_valid in H. destruct H as [HT _]. congruence.
  - intros v Hv Hb T V N H. pose proof (nvt_echo_V _ _ _ _ _ _ H Hv) as ->.
    apply nvt_valid in H. destruct H as [_ [HV _]]. congruence.
Qed.

(** component-count mismatch of the amounts vector that reaches [new_nvt] is an error *)
Theorem reject_length comps t v n : length n <> comps -> new_nvt comps t v n = Err (EIncompat comps (length n)).
Proof.
  intro H. unfold new_nvt. apply Nat.eqb_neq in H. rewrite H. reflexivity.
Qed.

(* ------------------------------------------------------------------------------------------- *)
(** * new_echo: the algebra of the accepted (T,V,N) *)

Section Echo.
Variable comps : nat.
Variable i : inputs.
Variables T V : fval.
Variable N : list fval.
Hypothesis Hc : (1 <= comps)%nat.
Hypothesis Hnew : new_full comps i = Nvt T V N.

Let Hinv := new_inner_nvt_inv _ _ _ _ _ (new_full_nvt_inner _ _ _ _ _ Hnew).

Lemma echo_N_nonempty_src : exists xu n, xu_of comps i = inr xu /\ n_of i = Some n /\ N = vscale xu n (vsum xu) /\ xu <> [] /\
  forallb is_finite (vscale xu n (vsum xu)) = true.
Proof.
  destruct Hinv as [_ [xu [n [Hx [Hn [_ [_ [HN [Hl [_ [_ Hv]]]]]]]]]]].
  exists xu, n. repeat split; try assumption.
  - intro C. subst xu. simpl in HN. subst N. simpl in Hl. lia.
  - rewrite <- HN. apply forallb_valid_finite. assumption.
Qed.

(** the total amount is the amount that the inputs determine ([n_of]) *)
Lemma echo_total_n_of : exists n, n_of i = Some n /\ is_finite n = true /\ qsum (map fq N) == fq n.
Proof.
  destruct echo_N_nonempty_src as [xu [n [_ [Hn [HN [Hne Hf]]]]]].
  exists n. split; [assumption|]. split.
  - apply (vscale_finite_inv xu n Hne Hf).
  - rewrite HN. apply vscale_total; assumption.
Qed.

(** given total moles are reproduced: sum N_i = n *)
Theorem echo_total_moles n : iN i = Some n -> qsum (map fq N) == fq n.
Proof.
  intro H. destruct echo_total_n_of as [n' [Hn [_ Hs]]].
  unfold n_of, n1_of, n0_of in Hn. rewrite H in Hn. simpl in Hn.
  destruct (iV i); inversion Hn; subst; assumption.
Qed.

(** composition: N_i * sum(x) = x_i * sum(N) for the composition source the inputs determine *)
Lemma echo_composition_xu : exists xu, xu_of comps i = inr xu /\
  Forall2 (fun Ni xi => fq Ni * fq (vsum xu) == fq xi * qsum (map fq N)) N xu /\ ~ fq (vsum xu) == 0 /\ is_finite (vsum xu) = true
  /\ forallb is_finite xu = true.
Proof.
  destruct echo_N_nonempty_src as [xu [n [Hx [Hn [HN [Hne Hf]]]]]].
  exists xu. split; [assumption|].
  destruct (vscale_finite_inv xu n Hne Hf) as [Hfn [Hfx [Hnz [Hfs HF]]]].
  pose proof (vscale_total xu n Hne Hf) as Ht.
  split; [|repeat split; assumption].
  rewrite HN. eapply Forall2_impl'; [|exact HF]. simpl. intros a b E. rewrite E, Ht. field. assumption.
Qed.

(** given mole fractions are reproduced after normalisation: N_i / sum N = x_i / sum x *)
Theorem echo_molefracs x : iX i = Some x ->
  Forall2 (fun Ni xi => fq Ni * fq (vsum x) == fq xi * qsum (map fq N)) N x /\ ~ fq (vsum x) == 0.
Proof.
  intro H. destruct echo_composition_xu as [xu [Hx [HF [Hnz _]]]].
  unfold xu_of in Hx. rewrite H in Hx. destruct (x_of i); [discriminate|]. inversion Hx; subst. split; assumption.
Qed.

(** helper: a finite quotient list x = v / sum v has sum 1 and x_i = v_i / S *)
Lemma vdivs_finite_inv (v : list fval) : v <> [] -> forallb is_finite (vdivs v (vsum v)) = true ->
  forallb is_finite v = true /\ is_finite (vsum v) = true /\ ~ fq (vsum v) == 0 /\
  Forall2 (fun xi vi => fq xi == fq vi / fq (vsum v)) (vdivs v (vsum v)) v.
Proof.
  intros Hne H. set (s := vsum v) in *.
  assert (Hall : forall vi, In vi v -> is_finite vi = true /\
     ((is_finite s = true /\ ~ fq s == 0 /\ fq (fdiv vi s) == fq vi / fq s) \/ is_inf s = true)).
  { intros vi Hin. unfold vdivs in H. rewrite forallb_forall in H.
    assert (Hf : is_finite (fdiv vi s) = true) by (apply H; apply in_map_iff; exists vi; split; [reflexivity|assumption]).
    apply fdiv_finite_inv in Hf. exact Hf. }
  assert (Hfv : forallb is_finite v = true) by (rewrite forallb_forall; intros vi Hin; apply (Hall vi Hin)).
  assert (Hfs : is_finite s = true) by (apply vsum_finite; assumption).
  destruct v as [|v0 vr]; [congruence|].
  destruct (Hall v0 (or_introl eq_refl)) as [_ [[_ [Hnz _]]|Hi]]; [|exfalso; exact (finite_not_inf _ Hfs Hi)].
  repeat split; try assumption.
  unfold vdivs.
  assert (G : forall l, (forall vi, In vi l -> In vi (v0 :: vr)) ->
              Forall2 (fun xi vi => fq xi == fq vi / fq s) (map (fun vi => fdiv vi s) l) l).
  { induction l as [|a l IHl]; intros Hsub; simpl; constructor.
    - destruct (Hall a (Hsub a (or_introl eq_refl))) as [_ [[_ [_ Hq]]|Hi]]; [assumption|exfalso; exact (finite_not_inf _ Hfs Hi)].
    - apply IHl. intros vi Hin. apply Hsub. right. assumption. }
  apply G. auto.
Qed.

Lemma Forall2_qsum_div (x v : list fval) (c : Q) :
  Forall2 (fun xi vi => fq xi == fq vi / c) x v -> qsum (map fq x) == qsum (map fq v) / c.
Proof.
  induction 1 as [|a b l l' H _ IH]; simpl; [unfold Qdiv; ring|]. rewrite H, IH. unfold Qdiv. ring.
Qed.

Lemma Forall2_length' {A B} (R : A -> B -> Prop) l l' : Forall2 R l l' -> length l = length l'.
Proof. induction 1; simpl; congruence. Qed.

Lemma Forall2_trans' {A B C} (R1 : A -> B -> Prop) (R2 : B -> C -> Prop) (R3 : A -> C -> Prop) :
  (forall a b c, R1 a b -> R2 b c -> R3 a c) ->
  forall l1 l2 l3, Forall2 R1 l1 l2 -> Forall2 R2 l2 l3 -> Forall2 R3 l1 l3.
Proof.
  intros Ht l1 l2 l3 H. revert l3. induction H; intros l3 H2; inversion H2; subst; constructor; eauto.
Qed.

(** given mole numbers are reproduced exactly: N_i = m_i *)
Theorem echo_moles m : iM i = Some m -> Forall2 (fun Ni mi => fq Ni == fq mi) N m.
Proof.
  intro H.
  destruct Hinv as [[G1 G2 G3 G4] _].
  destruct echo_composition_xu as [xu [Hx [HF [Hnz [Hfs Hfx]]]]].
  destruct echo_total_n_of as [n [Hn [Hfn Hs]]].
  rewrite H in G2, G4.
  assert (HiN : iN i = None) by (destruct (iN i); [discriminate|reflexivity]).
  assert (HiPd : iPd i = None) by (destruct (iPd i); [discriminate|reflexivity]).
  unfold xu_of, x_of in Hx. rewrite HiPd, H in Hx. simpl in Hx.
  destruct (iX i); [discriminate|]. inversion Hx; subst xu; clear Hx.
  unfold n_of, n1_of, n0_of in Hn. rewrite HiN, H in Hn. simpl in Hn.
  assert (Hn' : n = vsum m) by (destruct (iV i); congruence). subst n.
  assert (Hne : m <> []).
  { intro C. subst m. simpl in HF. inversion HF. subst N.
    destruct Hinv as [_ [xu [n [_ [_ [_ [_ [_ [Hl _]]]]]]]]]. simpl in Hl. lia. }
  destruct (vdivs_finite_inv m Hne Hfx) as [Hfm [Hfsm [Hnzm HD]]].
  (* sum of x = 1 *)
  assert (Hone : fq (vsum (vdivs m (vsum m))) == 1).
  { destruct (vsum_finite_inv _ Hfs) as [_ Hv]. rewrite Hv, (Forall2_qsum_div _ _ _ HD).
    destruct (vsum_finite_inv _ Hfsm) as [_ Hv']. rewrite <- Hv'. field. assumption. }
  eapply Forall2_trans'; [|exact HF|exact HD].
  simpl. intros a b c E1 E2. rewrite Hone, Hs, E2 in E1.
  setoid_replace (fq a) with (fq a * 1) by ring. rewrite E1. field. assumption.
Qed.

(** the density relation sum N = rho * V for the density the inputs determine, when that density is finite *)
Lemma echo_rho_of d : rho_of i = Some d -> is_finite d = true -> qsum (map fq N) == fq d * fq V.
Proof.
  intros Hd Hfd.
  destruct Hinv as [[G1 G2 G3 G4] [xu [n0 [_ [_ [HV [_ [_ [_ [_ [HvV _]]]]]]]]]]].
  destruct echo_total_n_of as [n [Hn [Hfn Hs]]].
  rewrite Hs. unfold v_of in HV. rewrite Hd, Hn in HV.
  destruct (iV i) as [v|] eqn:Ev; simpl in HV.
  - inversion HV; subst v.
    rewrite Hd in G3. simpl in G3.
    destruct (n0_of i) eqn:E0; [simpl in G3; discriminate|].
    unfold n_of, n1_of in Hn. rewrite E0, Hd, Ev in Hn. simpl in Hn. inversion Hn; subst n.
    apply fmul_finite_inv in Hfn. destruct Hfn as [_ [_ Hq]]. rewrite Hq. ring.
  - inversion HV as [HV'].
    assert (HfV : is_finite (fdiv n d) = true) by (rewrite HV'; apply valid_finite; assumption).
    apply fdiv_finite_inv in HfV. destruct HfV as [_ [[_ [Hnz Hq]]|Hi]]; [|exfalso; exact (finite_not_inf _ Hfd Hi)].
    rewrite Hq. field. assumption.
Qed.

(** given density is reproduced: sum N = rho * V (finite rho; rho = +-inf is the edge case [inf_density_accepted]) *)
Theorem echo_density d : iRho i = Some d -> is_finite d = true -> qsum (map fq N) == fq d * fq V.
Proof. intros H Hf. apply echo_rho_of; [|assumption]. unfold rho_of. rewrite H. reflexivity. Qed.

(** given partial densities are reproduced: N_i = rho_i * V *)
Theorem echo_partial_density pd : iPd i = Some pd -> Forall2 (fun Ni ri => fq Ni == fq ri * fq V) N pd.
Proof.
  intro H.
  destruct Hinv as [[G1 G2 G3 G4] _].
  destruct echo_composition_xu as [xu [Hx [HF [Hnz [Hfs Hfx]]]]].
  rewrite H in G1, G4.
  assert (HiRho : iRho i = None) by (destruct (iRho i); [discriminate|reflexivity]).
  assert (HiM : iM i = None) by (destruct (iM i); [discriminate|reflexivity]).
  unfold xu_of, x_of in Hx. rewrite H in Hx. simpl in Hx.
  destruct (iX i); [discriminate|]. inversion Hx; subst xu; clear Hx.
  assert (Hne : pd <> []).
  { intro C. subst pd. simpl in HF. inversion HF. subst N.
    destruct Hinv as [_ [xu [n [_ [_ [_ [_ [_ [Hl _]]]]]]]]]. simpl in Hl. lia. }
  destruct (vdivs_finite_inv pd Hne Hfx) as [Hfm [Hfsm [Hnzm HD]]].
  assert (Hone : fq (vsum (vdivs pd (vsum pd))) == 1).
  { destruct (vsum_finite_inv _ Hfs) as [_ Hv]. rewrite Hv, (Forall2_qsum_div _ _ _ HD).
    destruct (vsum_finite_inv _ Hfsm) as [_ Hv']. rewrite <- Hv'. field. assumption. }
  assert (Hrho : rho_of i = Some (vsum pd)) by (unfold rho_of; rewrite HiRho, H; reflexivity).
  pose proof (echo_rho_of _ Hrho Hfsm) as Hs.
  eapply Forall2_trans'; [|exact HF|exact HD].
  simpl. intros a b c E1 E2. rewrite Hone, Hs, E2 in E1.
  setoid_replace (fq a) with (fq a * 1) by ring. rewrite E1. field. assumption.
Qed.

(** no extensive input at all: the reference amount 1/N_A is used *)
Theorem echo_default_amount : iV i = None -> iN i = None -> iM i = None -> qsum (map fq N) == n_ref.
Proof.
  intros HV HN HM. destruct echo_total_n_of as [n [Hn [_ Hs]]].
  unfold n_of, n1_of, n0_of in Hn. rewrite HV, HN, HM in Hn. simpl in Hn.
  destruct (rho_of i); simpl in Hn; inversion Hn; subst; exact Hs.
Qed.

(** pure component without composition input: N = [n] *)
Theorem echo_pure_default : iX i = None -> iPd i = None -> iM i = None -> exists N0, N = [N0] /\ comps = 1%nat.
Proof.
  intros HX HP HM.
  destruct Hinv as [_ [xu [n [Hx [_ [_ [_ [HN [Hl _]]]]]]]]].
  unfold xu_of, x_of in Hx. rewrite HX, HP, HM in Hx. simpl in Hx.
  destruct (comps =? 1)%nat eqn:E; [|discriminate]. inversion Hx; subst xu. simpl in HN.
  eexists. split; [exact HN|]. apply Nat.eqb_eq. assumption.
Qed.

End Echo.

(** ** all of it together *)
Theorem new_echo comps i T V N : (1 <= comps)%nat -> new_full comps i = Nvt T V N ->
  (forall t, iT i = Some t -> T = t) /\
  (forall v, iV i = Some v -> V = v) /\
  (valid T = true /\ valid V = true /\ forallb valid N = true /\ length N = comps) /\
  (forall n, iN i = Some n -> qsum (map fq N) == fq n) /\
  (forall m, iM i = Some m -> Forall2 (fun Ni mi => fq Ni == fq mi) N m) /\
  (forall d, iRho i = Some d -> is_finite d = true -> qsum (map fq N) == fq d * fq V) /\
  (forall pd, iPd i = Some pd -> Forall2 (fun Ni ri => fq Ni == fq ri * fq V) N pd) /\
  (forall x, iX i = Some x -> Forall2 (fun Ni xi => fq Ni * fq (vsum x) == fq xi * qsum (map fq N)) N x /\ ~ fq (vsum x) == 0) /\
  (iV i = None -> iN i = None -> iM i = None -> qsum (map fq N) == n_ref).
Proof.
  intros Hc H.
  split; [intros; eapply nvt_echo_T; eassumption|].
  split; [intros; eapply nvt_echo_V; eassumption|].
  split; [apply nvt_valid with (i := i); assumption|].
  split; [intros; eapply echo_total_moles; eassumption|].
  split; [intros; eapply echo_moles; eassumption|].
  split; [intros; eapply echo_density; eassumption|].
  split; [intros; eapply echo_partial_density; eassumption|].
  split; [intros; eapply echo_molefracs; eassumption|].
  intros; eapply echo_default_amount; eassumption.
Qed.

(** The same holds for [State::new] (it is the same [_new]). *)
Theorem new_res_is_new_full_on_nvt comps i T V N : new_res comps i = Nvt T V N -> new_full comps i = Nvt T V N.
Proof.
  intro H. apply new_res_nvt_inner in H. unfold new_full. rewrite H. reflexivity.
Qed.

(** given mole numbers containing a NaN, +-inf or a negative value are never accepted (consequence of [echo_moles]);
    for -0.0 see [reject_bad_enum] below *)
Theorem reject_bad_moles comps i m : (1 <= comps)%nat -> iM i = Some m ->
  (exists mi, In mi m /\ (is_finite mi = false \/ fq mi < 0)) -> forall T V N, new_full comps i <> Nvt T V N.
Proof.
  intros Hc HM [mi [Hin Hbad]] T V N H.
  pose proof (echo_moles comps i T V N Hc H m HM) as HF.
  pose proof (nvt_valid _ _ _ _ _ H) as [_ [_ [HN _]]].
  (* finiteness of m follows from the NVT inversion *)
  assert (Hfin_neg : forall Nl ml, Forall2 (fun Ni mi => fq Ni == fq mi) Nl ml -> forallb valid Nl = true ->
            forall mi, In mi ml -> 0 <= fq mi).
  { induction 1 as [|a b l l' E _ IH]; intros Hv x Hx; [inversion Hx|].
    simpl in Hv. apply andb_true_iff in Hv. destruct Hv as [Ha Hl]. destruct Hx as [<-|Hx].
    - rewrite <- E. apply valid_fq_nonneg. assumption.
    - apply IH; assumption. }
  destruct Hbad as [Hnf|Hneg].
  - (* non-finite element: the composition x = m / sum m would be non-finite *)
    pose proof (new_inner_nvt_inv _ _ _ _ _ (new_full_nvt_inner _ _ _ _ _ H)) as [[G1 G2 G3 G4] _].
    destruct (echo_composition_xu comps i T V N Hc H) as [xu [Hx [_ [_ [_ Hfx]]]]].
    rewrite HM in G4. assert (HiPd : iPd i = None) by (destruct (iPd i); [discriminate|reflexivity]).
    unfold xu_of, x_of in Hx. rewrite HiPd, HM in Hx. simpl in Hx.
    destruct (iX i); [discriminate|]. inversion Hx; subst xu.
    assert (Hne : m <> []) by (intro C; subst m; inversion Hin).
    destruct (vdivs_finite_inv m Hne Hfx) as [Hfm _].
    rewrite forallb_forall in Hfm. specialize (Hfm mi Hin). congruence.
  - specialize (Hfin_neg N m HF HN mi Hin). apply (Qlt_not_le _ _ Hneg Hfin_neg).
Qed.

(* ------------------------------------------------------------------------------------------- *)
(** * new_decides: which presence patterns return a state / which error *)

Inductive oclass := CErr (e : ekind) | CNvt | CNpt | CNpvx | CNph | CNps | CNth | CNts | CNvu.
Definition class_of (o : outcome) : oclass :=
  match o with
  | Err e => CErr e | Nvt _ _ _ => CNvt | Npt _ _ _ => CNpt | Npvx _ _ _ _ => CNpvx
  | Nph _ _ _ => CNph | Nps _ _ _ => CNps | Nth _ _ _ => CNth | Nts _ _ _ => CNts | Nvu _ _ _ => CNvu
  end.

(** presence pattern: T V rho rho_i n N_i x_i p h s u *)
Record pattern := mkPat { pT : bool; pV : bool; pRho : bool; pPd : bool; pN : bool; pM : bool; pX : bool;
                          pP : bool; pH : bool; pS : bool; pU : bool }.

Definition pattern_of (i : inputs) : pattern :=
  mkPat (is_some (iT i)) (is_some (iV i)) (is_some (iRho i)) (is_some (iPd i)) (is_some (iN i)) (is_some (iM i))
        (is_some (iX i)) (is_some (iP i)) (is_some (iH i)) (is_some (iS i)) (is_some (iU i)).

(** The documented hierarchy, written directly on the presence bits ([pure] = the model has one component). *)
Definition spec_class (pure : bool) (comps : nat) (p : pattern) : oclass :=
  if pRho p && pPd p then CErr EBothDensity else
  if pM p && pN p then CErr EBothMoles else
  let has_rho := pRho p || pPd p in
  let has_n0 := pN p || pM p in
  if has_rho && has_n0 && pV p then CErr EDensityOver else
  if pPd p && pM p then CErr ECompOver else
  if (pPd p || pM p) && pX p then CErr ECompOver else
  if negb (pPd p || pM p || pX p) && negb pure then CErr EMissingComp else
  let has_n := has_n0 || (has_rho && pV p) || negb (pV p) in
  let has_v := pV p || (has_rho && has_n) in
  if has_v && pT p && has_n then CNvt else
  if pP p && pT p && has_n then CNpt else
  if pP p && pT p && has_v then CNpvx else
  if pP p && pH p && has_n then CNph else
  if pP p && pS p && has_n then CNps else
  if pT p && pH p && has_n then CNth else
  if pT p && pS p && has_n then CNts else
  if pU p && pV p && has_n then CNvu else
  CErr EMissingInput.

Definition bools := [true; false].
Definition all_patterns : list pattern :=
  flat_map (fun a => flat_map (fun b => flat_map (fun c => flat_map (fun d => flat_map (fun e => flat_map (fun f =>
  flat_map (fun g => flat_map (fun h => flat_map (fun k => flat_map (fun l => map (fun m =>
    mkPat a b c d e f g h k l m) bools) bools) bools) bools) bools) bools) bools) bools) bools) bools) bools.

(** canonical well-formed instance of a pattern: values of one consistent reference state
    (T = 400, V = 1/12, rho = 30, N = 5/2, equimolar / pure) *)
Definition gvec (comps : nat) (v : Q) : list fval := repeat (Fin v) comps.
Definition inst (comps : nat) (p : pattern) : inputs :=
  let c := inject_Z (Z.of_nat comps) in
  let opt (b : bool) {A} (v : A) := if b then Some v else None in
  mkIn (opt (pT p) (Fin 400)) (opt (pV p) (Fin (1 # 12))) (opt (pRho p) (Fin 30))
       (opt (pPd p) (gvec comps (30 / c))) (opt (pN p) (Fin (5 # 2))) (opt (pM p) (gvec comps ((5 # 2) / c)))
       (opt (pX p) (gvec comps (1 / c))) (opt (pP p) (Fin 100000)) (opt (pH p) (Fin 1000)) (opt (pS p) (Fin 10))
       (opt (pU p) (Fin 900)).

Definition ekind_eqb (a b : ekind) : bool :=
  match a, b with
  | EBothDensity, EBothDensity | EBothMoles, EBothMoles | EDensityOver, EDensityOver | ECompOver, ECompOver
  | EMissingComp, EMissingComp | EMissingInput, EMissingInput => true
  | EIncompat c l, EIncompat c' l' => (c =? c')%nat && (l =? l')%nat
  | EInvalid FT, EInvalid FT | EInvalid FV, EInvalid FV | EInvalid FN, EInvalid FN => true
  | _, _ => false
  end.
Definition oclass_eqb (a b : oclass) : bool :=
  match a, b with
  | CErr e, CErr e' => ekind_eqb e e'
  | CNvt, CNvt | CNpt, CNpt | CNpvx, CNpvx | CNph, CNph | CNps, CNps | CNth, CNth | CNts, CNts | CNvu, CNvu => true
  | _, _ => false
  end.

Lemma ekind_eqb_eq a b : ekind_eqb a b = true -> a = b.
Proof.
  destruct a as [| | | | | |c l|[| |]], b as [| | | | | |c' l'|[| |]]; simpl; try discriminate; try reflexivity.
  intro H. apply andb_true_iff in H. destruct H as [H1 H2]. apply Nat.eqb_eq in H1, H2. congruence.
Qed.
Lemma oclass_eqb_eq a b : oclass_eqb a b = true -> a = b.
Proof. destruct a, b; simpl; try discriminate; try reflexivity. intro H. f_equal. apply ekind_eqb_eq. assumption. Qed.

Definition decides_check (comps : nat) : bool :=
  forallb (fun p => oclass_eqb (class_of (new_full comps (inst comps p))) (spec_class (comps =? 1)%nat comps p)) all_patterns.

Lemma decides_check_1 : decides_check 1 = true. Proof. vm_compute. reflexivity. Qed.
Lemma decides_check_2 : decides_check 2 = true. Proof. vm_compute. reflexivity. Qed.
Lemma decides_check_3 : decides_check 3 = true. Proof. vm_compute. reflexivity. Qed.

Lemma in_bools b : In b bools.
Proof. destruct b; simpl; auto. Qed.

Lemma all_patterns_complete p : In p all_patterns.
Proof.
  destruct p as [a b c d e f g h k l m].
  unfold all_patterns.
  apply in_flat_map; exists a; split; [apply in_bools|].
  apply in_flat_map; exists b; split; [apply in_bools|].
  apply in_flat_map; exists c; split; [apply in_bools|].
  apply in_flat_map; exists d; split; [apply in_bools|].
  apply in_flat_map; exists e; split; [apply in_bools|].
  apply in_flat_map; exists f; split; [apply in_bools|].
  apply in_flat_map; exists g; split; [apply in_bools|].
  apply in_flat_map; exists h; split; [apply in_bools|].
  apply in_flat_map; exists k; split; [apply in_bools|].
  apply in_flat_map; exists l; split; [apply in_bools|].
  apply in_map_iff; exists m; split; [reflexivity|apply in_bools].
Qed.

(** For every one of the 2^11 presence patterns and component counts 1, 2, 3, the class of the outcome on the
    canonical well-formed instance is the documented hierarchy [spec_class]. *)
Theorem new_decides comps p : (comps = 1 \/ comps = 2 \/ comps = 3)%nat ->
  class_of (new_full comps (inst comps p)) = spec_class (comps =? 1)%nat comps p.
Proof.
  intros Hc. apply oclass_eqb_eq.
  assert (H : decides_check comps = true)
    by (destruct Hc as [->|[->| ->]]; [apply decides_check_1 | apply decides_check_2 | apply decides_check_3]).
  unfold decides_check in H. rewrite forallb_forall in H. apply H. apply all_patterns_complete.
Qed.

(** [State::new] never takes a Newton path: same table with h, s, u ignored *)
Definition decides_res_check (comps : nat) : bool :=
  forallb (fun p => oclass_eqb (class_of (new_res comps (inst comps p)))
     (match spec_class (comps =? 1)%nat comps p with
      | CNph | CNps | CNth | CNts | CNvu => CErr EMissingInput | c => c end)) all_patterns.
Lemma decides_res_check_12 : decides_res_check 1 = true /\ decides_res_check 2 = true.
Proof. split; vm_compute; reflexivity. Qed.

Theorem new_res_decides comps p : (comps = 1 \/ comps = 2)%nat ->
  class_of (new_res comps (inst comps p)) =
  match spec_class (comps =? 1)%nat comps p with CNph | CNps | CNth | CNts | CNvu => CErr EMissingInput | c => c end.
Proof.
  intros Hc. apply oclass_eqb_eq.
  assert (H : decides_res_check comps = true) by (destruct Hc as [->| ->]; apply decides_res_check_12).
  unfold decides_res_check in H. rewrite forallb_forall in H. apply H. apply all_patterns_complete.
Qed.

(** census of the table (pure / mixture): how many of the 2048 patterns fall in each class *)
Definition count_class (pure : bool) (f : oclass -> bool) : nat :=
  length (filter (fun p => f (spec_class pure (if pure then 1 else 2)%nat p)) all_patterns).
Definition is_state_class (c : oclass) := match c with CErr _ => false | _ => true end.

Lemma census :
  count_class true is_state_class = 432%nat /\ count_class false is_state_class = 286%nat /\
  count_class true (oclass_eqb CNvt) = 208%nat /\ count_class false (oclass_eqb CNvt) = 144%nat.
Proof. vm_compute. repeat split. Qed.

(** over-determined inputs (two sources for density, amount or composition) are always an error, for all values *)
Theorem overdetermined_rejected comps i :
  (oand (iRho i) (iPd i) = true \/ oand (iM i) (iN i) = true \/
   (oand (rho_of i) (n0_of i) && is_some (iV i) = true) \/ oand (iPd i) (iM i) = true \/
   (is_some (x_of i) && is_some (iX i) = true)) ->
  exists e, new_full comps i = Err e /\ new_res comps i = Err e /\
            (e = EBothDensity \/ e = EBothMoles \/ e = EDensityOver \/ e = ECompOver).
Proof.
  intro H. unfold new_full, new_res, new_inner.
  destruct (oand (iRho i) (iPd i)) eqn:G1; [eexists; repeat split; auto|].
  destruct (oand (iM i) (iN i)) eqn:G2; [eexists; repeat split; auto|].
  destruct (oand (rho_of i) (n0_of i) && is_some (iV i)) eqn:G3; [eexists; repeat split; auto|].
  destruct (oand (iPd i) (iM i)) eqn:G4; [eexists; repeat split; auto 6|].
  destruct H as [H|[H|[H|[H|H]]]]; try discriminate.
  unfold xu_of. destruct (x_of i); [|discriminate]. destruct (iX i); [|discriminate].
  eexists; repeat split; auto 6.
Qed.

(** under-determined: without a temperature only (p,h), (p,s), (V,u) can give anything; without any of p, T nothing can *)
Theorem underdetermined_rejected comps i : iT i = None -> iP i = None -> (iU i = None \/ iV i = None) ->
  exists e, new_full comps i = Err e.
Proof.
  intros HT HP HU. unfold new_full, new_inner. rewrite HT, HP.
  repeat match goal with
         | |- context [if ?c then _ else _] => destruct c; [eexists; reflexivity|]
         | |- context [match xu_of comps i with _ => _ end] => destruct (xu_of comps i); [eexists; reflexivity|]
         end.
  destruct (v_of i), (option_map _ (n_of i)); simpl; destruct HU as [-> | ->]; try (eexists; reflexivity);
    destruct (iU i); eexists; reflexivity.
Qed.

(* ------------------------------------------------------------------------------------------- *)
(** * reject_bad by enumeration: one bad value (NaN, +inf, -inf, -0.0, negative) injected into any slot of any
      well-formed pattern never yields an accepted NVT state in which that slot is T, V or an amount; in particular
      -0.0 mole numbers are rejected. *)

Definition bad_values : list fval := [NaN; PInf; NInf; NZ; Fin (-(3#2))].

Definition set_T i v := mkIn (Some v) (iV i) (iRho i) (iPd i) (iN i) (iM i) (iX i) (iP i) (iH i) (iS i) (iU i).
Definition set_V i v := mkIn (iT i) (Some v) (iRho i) (iPd i) (iN i) (iM i) (iX i) (iP i) (iH i) (iS i) (iU i).
Definition set_N i v := mkIn (iT i) (iV i) (iRho i) (iPd i) (Some v) (iM i) (iX i) (iP i) (iH i) (iS i) (iU i).
Definition set_M0 i v := mkIn (iT i) (iV i) (iRho i) (iPd i) (iN i)
   (match iM i with Some (_ :: r) => Some (v :: r) | o => o end) (iX i) (iP i) (iH i) (iS i) (iU i).

Definition not_nvt (o : outcome) := match o with Nvt _ _ _ => false | _ => true end.
Definition reject_enum_check (comps : nat) : bool :=
  forallb (fun p => forallb (fun b =>
     (negb (pT p) || not_nvt (new_full comps (set_T (inst comps p) b))) &&
     (negb (pV p) || not_nvt (new_full comps (set_V (inst comps p) b))) &&
     (negb (pN p) || not_nvt (new_full comps (set_N (inst comps p) b))) &&
     (negb (pM p) || not_nvt (new_full comps (set_M0 (inst comps p) b)))) bad_values) all_patterns.

Lemma reject_enum_12 : reject_enum_check 1 = true /\ reject_enum_check 2 = true.
Proof. split; vm_compute; reflexivity. Qed.

Theorem reject_bad_enum comps p b : (comps = 1 \/ comps = 2)%nat -> In b bad_values ->
  (pT p = true -> not_nvt (new_full comps (set_T (inst comps p) b)) = true) /\
  (pV p = true -> not_nvt (new_full comps (set_V (inst comps p) b)) = true) /\
  (pN p = true -> not_nvt (new_full comps (set_N (inst comps p) b)) = true) /\
  (pM p = true -> not_nvt (new_full comps (set_M0 (inst comps p) b)) = true).
Proof.
  intros Hc Hb.
  assert (H : reject_enum_check comps = true) by (destruct Hc as [->| ->]; apply reject_enum_12).
  unfold reject_enum_check in H. rewrite forallb_forall in H. specialize (H p (all_patterns_complete p)).
  rewrite forallb_forall in H. specialize (H b Hb).
  repeat (apply andb_true_iff in H; destruct H as [H ?]).
  repeat split; intro E; rewrite E in *; simpl in *; assumption.
Qed.

(** documented edge: an infinite density is turned into a state of volume +0 (validate accepts V = +0.0) *)
Example inf_density_accepted :
  new_full 1 (mkIn (Some (Fin 300)) None (Some PInf) None (Some (Fin 1)) None None None None None None)
  = Nvt (Fin 300) (Fin 0) [Fin 1].
Proof. vm_compute. reflexivity. Qed.

(** non-vacuity: an NVT state is produced, and each Newton / density-iteration request is reachable *)
Example nonvacuous_nvt : exists T V N, new_full 2 (inst 2 (mkPat true true false false false true false false false false false)) = Nvt T V N.
Proof. vm_compute. eauto. Qed.
Example nonvacuous_npt : class_of (new_full 1 (inst 1 (mkPat true false false false false false false true false false false))) = CNpt.
Proof. vm_compute. reflexivity. Qed.
Example nonvacuous_nvu : class_of (new_full 1 (inst 1 (mkPat false true false false true false false false false false true))) = CNvu.
Proof. vm_compute. reflexivity. Qed.

(* ------------------------------------------------------------------------------------------- *)
(** * Printing helpers for the correspondence check (Z-only encodings the python side can parse) *)

Inductive zf := ZF (n d : Z) | ZNZ | ZPI | ZNI | ZNaN.
Definition enc (x : fval) : zf :=
  match x with
  | Fin q => ZF (Qnum q) (Zpos (Qden q))
  | NZ => ZNZ | PInf => ZPI | NInf => ZNI | NaN => ZNaN end.
Inductive zout := ZErr (code a b : Z) | ZState (kind : Z) (s : list zf) (v : list zf).
Definition enc_err (e : ekind) : zout :=
  match e with
  | EBothDensity => ZErr 1 0 0 | EBothMoles => ZErr 2 0 0 | EDensityOver => ZErr 3 0 0 | ECompOver => ZErr 4 0 0
  | EMissingComp => ZErr 5 0 0 | EMissingInput => ZErr 6 0 0
  | EIncompat c l => ZErr 7 (Z.of_nat c) (Z.of_nat l)
  | EInvalid FT => ZErr 8 1 0 | EInvalid FV => ZErr 8 2 0 | EInvalid FN => ZErr 8 3 0 end.
Definition enc_out (o : outcome) : zout :=
  match o with
  | Err e => enc_err e
  | Nvt T V N => ZState 0 [enc T; enc V] (map enc N)
  | Npt T p N => ZState 1 [enc T; enc p] (map enc N)
  | Npvx T p V x => ZState 2 [enc T; enc p; enc V] (map enc x)
  | Nph p h N => ZState 3 [enc p; enc h] (map enc N)
  | Nps p s N => ZState 4 [enc p; enc s] (map enc N)
  | Nth T h N => ZState 5 [enc T; enc h] (map enc N)
  | Nts T s N => ZState 6 [enc T; enc s] (map enc N)
  | Nvu V u N => ZState 7 [enc V; enc u] (map enc N)
  end.

(** decode an input value written by the harness: class tag + dyadic m*2^e *)
Definition dy (m e : Z) : fval := Fin (inject_Z m * (if (0 <=? e)%Z then inject_Z (2 ^ e) else / inject_Z (2 ^ (- e)))).
