(** * UniformELC16: the Euler-Lagrange map of classical DFT at a uniform density profile.

    Real-valued model of  [HelmholtzEnergyFunctional::functional_derivative]  (feos-dft/src/functional.rs),
    [DFTProfile::euler_lagrange_equation] / [residual]  (profile/mod.rs),
    [DFTProfile::grand_potential_density] / [grand_potential] / [moles]  (profile/properties.rs, mod.rs) and of
    the excess quantities  Omega + p * volume()  (adsorption/pore.rs:124, solvation/solvation_profile.rs:39)
    and  N - rho * volume()  (solvation/pair_correlation.rs:82),
    over an arbitrary grid of [AxisC16] and an arbitrary functional given by its weighted densities,
    its Helmholtz energy density and partial derivatives, the back-convolution and the bond integrals.

    Hypothesis [H_conv] (numerical, NOT proved here; supported on the real convolvers by the check's
    support run): convolving a constant field gives the constant times the weight constant at k = 0,
    i.e. the weighted densities of the uniform profile are the bulk weighted densities, the
    back-convolution of constant partial derivatives is the bulk functional derivative and the bond
    integrals of the constant 1 are 1.

    Under [H_conv] and without external potential the uniform profile is an exact solution:
    projected density = bulk density, residual 0 (both variants), residual norm 0, grand potential
    density = -p (from the Euler relation of C02 for the bulk model), N = rho * integral of one, and every
    excess quantity equals  p * (volume() - integral of one)  resp.  rho * (integral of one - volume()),
    hence vanishes exactly when the reported volume is the integral of one ([AxisC16]). *)
From Coq Require Import Reals List Lia Lra Arith.
From Coquelicot Require Import Coquelicot.
From FeosVerif Require Import AxisC16.
Import ListNotations.
Open Scope R_scope.

Definition idx := list nat.
(** a segment-resolved field on the grid: segment -> grid point -> value *)
Definition field := nat -> idx -> R.

(** plain (unweighted) sum over all grid points, as in the residual norm *)
Fixpoint sum_axes (axs : list axis) (f : idx -> R) : R :=
  match axs with
  | [] => f []
  | a :: rest => rsum (fun i => sum_axes rest (fun t => f (i :: t))) (ax_points a)
  end.

Lemma sum_axes_zero axs f : (forall i, f i = 0) -> sum_axes axs f = 0.
Proof.
  revert f. induction axs as [|a r IH]; intros f H; cbn; [apply H|].
  rewrite (rsum_ext _ (fun _ => 0)); [apply rsum_zero|]. intros i _. apply IH. intros; apply H.
Qed.

Lemma integrate_ext g f f' : (forall i, f i = f' i) -> integrate g f = integrate g f'.
Proof. intros H. unfold integrate. f_equal. now apply integrate_axes_ext. Qed.

(** [DFTProfile::integrate_segments] / [integrate_reduced_segments]: the loop
    [for (i, &j) in component_index.iter().enumerate() { integral_comp[j] = integral[i] }] over the first [S]
    segments, starting from zeros: component [c] receives the value of its LAST segment *)
Fixpoint aggregate (comp : nat -> nat) (vals : nat -> R) (S : nat) (c : nat) : R :=
  match S with
  | O => 0
  | Datatypes.S n => if Nat.eqb (comp n) c then vals n else aggregate comp vals n c
  end.

Lemma aggregate_spec comp vals S c v :
  (exists s, (s < S)%nat /\ comp s = c) ->
  (forall s, (s < S)%nat -> comp s = c -> vals s = v) ->
  aggregate comp vals S c = v.
Proof.
  induction S as [|n IH]; intros [s [Hs Hc]] Hv; [lia|]. cbn.
  destruct (Nat.eqb_spec (comp n) c) as [E|E].
  - apply Hv; [lia|exact E].
  - apply IH.
    + exists s. split; [|exact Hc]. destruct (Nat.eq_dec s n) as [->|]; [contradiction|lia].
    + intros s' Hs' Hc'. apply Hv; [lia|exact Hc'].
Qed.

Lemma aggregate_none comp vals S c : (forall s, (s < S)%nat -> comp s <> c) -> aggregate comp vals S c = 0.
Proof.
  induction S as [|n IH]; intros H; cbn; [reflexivity|].
  destruct (Nat.eqb_spec (comp n) c) as [E|E]; [exfalso; apply (H n); [lia|exact E]|].
  apply IH. intros s Hs. apply H. lia.
Qed.

(** [DFTSpecifications]: what is held fixed while the profile is iterated *)
Inductive specification :=
| ChemicalPotential
| Moles (N : nat -> R)          (* particle number of every segment species *)
| TotalMoles (Ntot : R).

Section UniformEL.

  Variable g : grid.
  (** number of segments, bulk segment densities ([partial_density[component_index[s]]]), chain length
      parameters [m], number of bonds of each segment in the bond graph, temperature *)
  Variable S : nat.
  Variables (rho_b m : nat -> R).
  Variable nbonds : nat -> nat.
  Variable T : R.
  (** components: their number, [component_index] (segment -> component) and the bulk partial densities;
      every segment carries the density of its component, every component has at least one segment *)
  Variable C : nat.
  Variable comp : nat -> nat.
  Variable rho_c : nat -> R.
  Hypothesis H_rho_seg : forall s, (s < S)%nat -> rho_b s = rho_c (comp s).
  Hypothesis H_comp_surj : forall c, (c < C)%nat -> exists s, (s < S)%nat /\ comp s = c.

  (** the functional *)
  Variable WD : field -> nat -> idx -> R.            (* convolver.weighted_densities, all contributions *)
  Variable phi : (nat -> R) -> R.                    (* sum of helmholtz_energy_density of the contributions *)
  Variable dphi : (nat -> R) -> nat -> R.            (* first_partial_derivatives *)
  Variable BACK : (nat -> idx -> R) -> field.        (* convolver.functional_derivative *)
  Variable BOND : field -> field.                    (* bond_integrals *)
  Variable Vext : field.                             (* external potential / kT *)
  (** the bulk convolver *)
  Variable wd_b : nat -> R.                          (* BulkConvolver.weighted_densities(rho_b) *)
  Variable back_b : (nat -> R) -> nat -> R.          (* BulkConvolver.functional_derivative *)

  Hypothesis phi_ext : forall f f', (forall a, f a = f' a) -> phi f = phi f'.
  Hypothesis dphi_ext : forall f f' a, (forall a', f a' = f' a') -> dphi f a = dphi f' a.
  Hypothesis back_b_ext : forall c c' s, (forall a, c a = c' a) -> back_b c s = back_b c' s.

  Definition uniform : field := fun s _ => rho_b s.

  (** [H_conv] *)
  Hypothesis H_conv_wd : forall a i, WD uniform a i = wd_b a.
  (** the back-convolution of the (constant) partial derivatives OF THE UNIFORM FLUID is the bulk functional
      derivative.  (Not claimed for arbitrary constants: on the DCT/DST convolvers a non-zero constant in a
      VECTOR row is not mapped to zero - the sine transform of a constant - but the partial derivatives with
      respect to vector weighted densities vanish in a uniform fluid.) *)
  Hypothesis BACK_ext : forall pd pd' : nat -> idx -> R,
      (forall a i, pd a i = pd' a i) -> forall s i, BACK pd s i = BACK pd' s i.
  Hypothesis H_conv_back : forall s i, BACK (fun a _ => dphi wd_b a) s i = back_b (dphi wd_b) s.
  Hypothesis H_conv_bond : forall e : field, (forall s i, e s i = 1) -> forall s i, BOND e s i = 1.
  (** no external potential *)
  Hypothesis H_noext : forall s i, Vext s i = 0.
  Hypothesis H_m : forall s, m s <> 0.

  (** *** functional.rs: functional_derivative *)
  Definition helmholtz_density (rho : field) (i : idx) : R := phi (fun a => WD rho a i).
  Definition dfdrho (rho : field) : field := BACK (fun a i => dphi (fun a' => WD rho a' i) a).
  Definition phi_bulk : R := phi wd_b.
  Definition dfdrho_bulk : nat -> R := back_b (dphi wd_b).

  (** *** profile/mod.rs: euler_lagrange_equation *)
  Definition el_exponent (rho : field) : field :=
    fun s i => (dfdrho rho s i + Vext s i - dfdrho_bulk s) / m s.
  Definition exp_dfdrho (rho : field) : field := fun s i => exp (- el_exponent rho s i).
  (** the Boltzmann factor times the bond integrals, before the bulk density is multiplied in *)
  Definition boltzmann (rho : field) : field :=
    fun s i => exp_dfdrho rho s i * BOND (exp_dfdrho rho) s i.
  Definition rho_projected (rho : field) : field :=
    fun s i => boltzmann rho s i * rho_b s.
  Definition residual (rho : field) : field := fun s i => rho_projected rho s i - rho s i.
  Definition residual_log (rho : field) : field := fun s i => ln (rho_projected rho s i) - ln (rho s i).
  (** [integrate_reduced] (the private unit-less twin of [integrate]: weights of every axis times the functional
      determinant) and the normalisation integrals [z] of the particle-number specifications *)
  Definition integrate_reduced (f : idx -> R) : R := integrate g f.
  Definition z_norm (rho : field) (s : nat) : R := integrate_reduced (boltzmann rho s).
  (** [DFTSpecifications::calculate_bulk_density] *)
  Definition calculate_bulk_density (spec : specification) (rho : field) (s : nat) : R :=
    match spec with
    | ChemicalPotential => rho_b s
    | Moles N => N s / z_norm rho s
    | TotalMoles Nt => rho_b s * Nt / rsum (fun s' => rho_b s' * z_norm rho s') S
    end.
  Definition res_bulk (spec : specification) (rho : field) (s : nat) : R :=
    calculate_bulk_density spec rho s - rho_b s.
  Definition res_norm (spec : specification) (rho : field) : R :=
    sqrt (rsum (fun s => sum_axes (axes g) (fun i => (rho s i - rho_projected rho s i) * (rho s i - rho_projected rho s i))) S
          + rsum (fun s => res_bulk spec rho s * res_bulk spec rho s) S)
    / sqrt (INR (S * fold_right Nat.mul 1%nat (map ax_points (axes g)) + S)).

  (** *** profile/properties.rs: grand_potential_density, grand_potential; mod.rs: moles *)
  Definition omega (rho : field) (i : idx) : R :=
    T * (helmholtz_density rho i
         - rsum (fun s => (dfdrho rho s i + m s) * rho s i) S
         + rsum (fun s => rho s i * (/ 2 * INR (nbonds s))) S).
  Definition grand_potential (rho : field) : R := integrate g (omega rho).
  (** [integrate_comp]: one integral per segment; [integrate_segments]: aggregated to components;
      [moles] = integrate_segments(density), [total_moles] = moles().sum() *)
  Definition moles_segment (rho : field) (s : nat) : R := integrate g (rho s).
  Definition integrate_segments (f : field) : nat -> R := aggregate comp (fun s => integrate g (f s)) S.
  Definition moles (rho : field) (c : nat) : R := integrate_segments rho c.
  Definition total_moles (rho : field) : R := rsum (moles rho) C.

  (** the integral of one with the grid's own weights, and the bulk value of the grand potential density *)
  Definition W : R := integrate g (fun _ => 1).
  Definition omega_bulk : R :=
    T * (phi_bulk - rsum (fun s => (dfdrho_bulk s + m s) * rho_b s) S + rsum (fun s => rho_b s * (/ 2 * INR (nbonds s))) S).

  (** ** The uniform profile solves the discretised Euler-Lagrange equation *)

  Lemma uniform_helmholtz_density i : helmholtz_density uniform i = phi_bulk.
  Proof. unfold helmholtz_density, phi_bulk. apply phi_ext. intros a. apply H_conv_wd. Qed.

  Lemma uniform_dfdrho s i : dfdrho uniform s i = dfdrho_bulk s.
  Proof.
    unfold dfdrho, dfdrho_bulk. rewrite <- (H_conv_back s i). apply BACK_ext.
    intros a j. apply dphi_ext. intros a'. apply H_conv_wd.
  Qed.

  Lemma uniform_exponent s i : el_exponent uniform s i = 0.
  Proof. unfold el_exponent. rewrite uniform_dfdrho, H_noext. field. apply H_m. Qed.

  Lemma uniform_exp_dfdrho s i : exp_dfdrho uniform s i = 1.
  Proof. unfold exp_dfdrho. rewrite uniform_exponent, Ropp_0. apply exp_0. Qed.

  Lemma uniform_boltzmann s i : boltzmann uniform s i = 1.
  Proof. unfold boltzmann. rewrite uniform_exp_dfdrho, (H_conv_bond _ uniform_exp_dfdrho). ring. Qed.

  Theorem uniform_projected s i : rho_projected uniform s i = rho_b s.
  Proof. unfold rho_projected. rewrite uniform_boltzmann. ring. Qed.

  Theorem uniform_residual s i : residual uniform s i = 0.
  Proof. unfold residual. rewrite uniform_projected. unfold uniform. ring. Qed.

  Theorem uniform_residual_log s i : residual_log uniform s i = 0.
  Proof. unfold residual_log. rewrite uniform_projected. unfold uniform. ring. Qed.

  (** the normalisation integral of the uniform profile is the integral of one *)
  Lemma uniform_z_norm s : z_norm uniform s = integrate g (fun _ => 1).
  Proof. unfold z_norm, integrate_reduced. apply integrate_ext. intros i. apply uniform_boltzmann. Qed.

  (** bulk-density residual for the three specifications: chemical potential ... *)
  Theorem uniform_res_bulk s : res_bulk ChemicalPotential uniform s = 0.
  Proof. unfold res_bulk, calculate_bulk_density. ring. Qed.

  (** ... specified particle numbers [N_s = rho_s * V]: the residual is rho_s (V - W) / W, zero when V is the
      integral of one ... *)
  Theorem uniform_res_bulk_moles_eq V s : integrate g (fun _ => 1) <> 0 ->
    res_bulk (Moles (fun s' => rho_b s' * V)) uniform s
    = rho_b s * (V - integrate g (fun _ => 1)) / integrate g (fun _ => 1).
  Proof. intros HW. unfold res_bulk, calculate_bulk_density. rewrite uniform_z_norm. field. exact HW. Qed.

  Theorem uniform_res_bulk_moles N s : integrate g (fun _ => 1) <> 0 ->
    N s = rho_b s * integrate g (fun _ => 1) -> res_bulk (Moles N) uniform s = 0.
  Proof. intros HW HN. unfold res_bulk, calculate_bulk_density. rewrite uniform_z_norm, HN. field. exact HW. Qed.

  (** ... and specified total particle number *)
  Theorem uniform_res_bulk_total_moles_eq V s : integrate g (fun _ => 1) <> 0 -> rsum rho_b S <> 0 ->
    res_bulk (TotalMoles (rsum rho_b S * V)) uniform s
    = rho_b s * (V - integrate g (fun _ => 1)) / integrate g (fun _ => 1).
  Proof.
    intros HW HR. unfold res_bulk, calculate_bulk_density.
    rewrite (rsum_ext (fun s' => rho_b s' * z_norm uniform s') (fun s' => rho_b s' * integrate g (fun _ => 1)))
      by (intros; now rewrite uniform_z_norm).
    rewrite rsum_scal_r. field. split; assumption.
  Qed.

  Theorem uniform_res_bulk_total_moles Nt s : integrate g (fun _ => 1) <> 0 -> rsum rho_b S <> 0 ->
    Nt = rsum rho_b S * integrate g (fun _ => 1) -> res_bulk (TotalMoles Nt) uniform s = 0.
  Proof.
    intros HW HR ->. rewrite uniform_res_bulk_total_moles_eq by assumption. field. exact HW.
  Qed.

  Theorem uniform_res_norm spec : (forall s, (s < S)%nat -> res_bulk spec uniform s = 0) -> res_norm spec uniform = 0.
  Proof.
    intros Hb. unfold res_norm.
    rewrite (rsum_ext _ (fun _ => 0)).
    2:{ intros s _. apply sum_axes_zero. intros i. rewrite uniform_projected. unfold uniform. ring. }
    rewrite (rsum_ext (fun s => res_bulk spec uniform s * res_bulk spec uniform s) (fun _ => 0)).
    2:{ intros s Hs. rewrite Hb by assumption. ring. }
    rewrite !rsum_zero, Rplus_0_r, sqrt_0. unfold Rdiv. ring.
  Qed.

  Theorem uniform_res_norm_chempot : res_norm ChemicalPotential uniform = 0.
  Proof. apply uniform_res_norm. intros; apply uniform_res_bulk. Qed.

  (** ** Grand potential density, grand potential, adsorbed amount *)

  Theorem uniform_omega i : omega uniform i = omega_bulk.
  Proof.
    unfold omega, omega_bulk. rewrite uniform_helmholtz_density.
    rewrite (rsum_ext (fun s => (dfdrho uniform s i + m s) * uniform s i) (fun s => (dfdrho_bulk s + m s) * rho_b s))
      by (intros s _; now rewrite uniform_dfdrho).
    reflexivity.
  Qed.

  Theorem uniform_grand_potential : grand_potential uniform = omega_bulk * W.
  Proof.
    unfold grand_potential, W. rewrite (integrate_ext g _ (fun _ => omega_bulk)) by apply uniform_omega.
    rewrite !integrate_const. ring.
  Qed.

  Lemma uniform_moles_segment s : moles_segment uniform s = rho_b s * W.
  Proof. unfold moles_segment, W, uniform. rewrite !integrate_const. ring. Qed.

  (** adsorbed amount of every COMPONENT, for any segment -> component map *)
  Theorem uniform_moles c : (c < C)%nat -> moles uniform c = rho_c c * W.
  Proof.
    intros Hc. unfold moles, integrate_segments. apply aggregate_spec; [now apply H_comp_surj|].
    intros s Hs Hcs. change (moles_segment uniform s = rho_c c * W).
    rewrite uniform_moles_segment, H_rho_seg by assumption. now rewrite Hcs.
  Qed.

  Theorem uniform_total_moles : total_moles uniform = rsum rho_c C * W.
  Proof.
    unfold total_moles. rewrite (rsum_ext _ (fun c => rho_c c * W)) by (intros; now apply uniform_moles).
    apply rsum_scal_r.
  Qed.

  (** ** grand potential density = -p: the Euler relation of the bulk model (property C02) *)

  (** homosegmented functionals ([MoleculeShape::Spherical], [NonSpherical]): no bond graph; the bulk
      residual Helmholtz energy density is the one of the contributions plus the ideal chain term
      ([evaluate_bulk], ideal_chain_contribution.rs) and the residual chemical potential its derivative *)
  Section Homosegmented.
    Hypothesis H_nobonds : forall s, nbonds s = 0%nat.
    Variable p : R.
    Definition f_res : R := phi_bulk + rsum (fun s => rho_b s * (m s - 1) * (ln (rho_b s) - 1)) S.
    Definition mu_res (s : nat) : R := dfdrho_bulk s + (m s - 1) * ln (rho_b s).
    (** Euler relation (C02: A_res = -p_res V + sum_i mu_res_i N_i), per volume and kT, plus the ideal gas *)
    Hypothesis H_euler_C02 : p = T * (rsum rho_b S + rsum (fun s => rho_b s * mu_res s) S - f_res).

    Theorem omega_bulk_homosegmented : omega_bulk = - p.
    Proof.
      rewrite H_euler_C02. unfold omega_bulk, f_res, mu_res.
      rewrite (rsum_ext (fun s => rho_b s * (/ 2 * INR (nbonds s))) (fun _ => 0))
        by (intros s _; rewrite H_nobonds; cbn; ring).
      rewrite rsum_zero.
      assert (E : forall a b c d : R, a = b + c - d -> T * (phi_bulk - a + 0) = - (T * (b + c - (phi_bulk + d)) - T * 0 * 0) ).
      { intros a b c d ->. ring. }
      transitivity (- (T * (rsum rho_b S + rsum (fun s => rho_b s * (dfdrho_bulk s + (m s - 1) * ln (rho_b s))) S
                     - (phi_bulk + rsum (fun s => rho_b s * (m s - 1) * (ln (rho_b s) - 1)) S)) - T * 0 * 0));
        [|ring].
      apply E.
      rewrite <- rsum_plus.
      assert (E2 : forall f h k, (forall s, f s = h s - k s) -> rsum f S = rsum h S - rsum k S).
      { intros f h k Hf. rewrite (rsum_ext f (fun s => h s + (-1) * k s)) by (intros; rewrite Hf; ring).
        rewrite rsum_plus, rsum_scal_l. ring. }
      apply E2. intros s. ring.
    Qed.

    Theorem uniform_omega_is_minus_p i : omega uniform i = - p.
    Proof. rewrite uniform_omega. apply omega_bulk_homosegmented. Qed.
  End Homosegmented.

  (** the residual chemical potential used above is the derivative of the ideal-chain term *)
  Lemma ideal_chain_derivative (ms r : R) : 0 < r ->
    is_derive (fun x => x * (ms - 1) * (ln x - 1)) r ((ms - 1) * ln r).
  Proof.
    intros Hr. auto_derive; [assumption|]. field. lra.
  Qed.

  (** heterosegmented functionals ([MoleculeShape::Heterosegmented], gc-PC-SAFT): m = 1, the ideal chain
      term vanishes in the bulk, every molecule is a tree of segments.  [rho_mol] is the total density of
      molecules; for trees  sum_s rho_s (1 - n_s/2) = rho_mol  (handshake lemma, [tree_count] below) *)
  Section Heterosegmented.
    Hypothesis H_m1 : forall s, m s = 1.
    Variables (p rho_mol : R).
    Hypothesis H_trees : rsum (fun s => rho_b s * (1 - / 2 * INR (nbonds s))) S = rho_mol.
    (** Euler relation (C02) with mu_res of a molecule = sum of the bulk functional derivatives of its segments *)
    Hypothesis H_euler_C02_hetero : p = T * (rho_mol + rsum (fun s => rho_b s * dfdrho_bulk s) S - phi_bulk).

    Theorem omega_bulk_heterosegmented : omega_bulk = - p.
    Proof.
      rewrite H_euler_C02_hetero, <- H_trees. unfold omega_bulk.
      rewrite (rsum_ext (fun s => (dfdrho_bulk s + m s) * rho_b s)
                        (fun s => rho_b s * dfdrho_bulk s + rho_b s)) by (intros s _; rewrite H_m1; ring).
      rewrite (rsum_ext (fun s => rho_b s * (1 - / 2 * INR (nbonds s)))
                        (fun s => rho_b s + (-1) * (rho_b s * (/ 2 * INR (nbonds s))))) by (intros; ring).
      rewrite !rsum_plus, rsum_scal_l. ring.
    Qed.

    Theorem uniform_omega_is_minus_p_hetero i : omega uniform i = - p.
    Proof. rewrite uniform_omega. apply omega_bulk_heterosegmented. Qed.
  End Heterosegmented.

  (** ** Excess quantities *)

  Section Excess.
    Variable p : R.
    Hypothesis H_omega : omega_bulk = - p.
    (** the system volume as reported by [DFTProfile::volume], with a given prefactor table of [Axis::volume] *)
    Variable V : R.
    Definition rho_total : R := rsum rho_c C.

    (** pore.rs:124 interfacial tension, solvation_profile.rs:39 solvation free energy *)
    Definition excess_grand_potential : R := grand_potential uniform + p * V.
    (** pair_correlation.rs:82 (structure factor - 1), excess adsorption *)
    Definition excess_moles : R := total_moles uniform - rho_total * V.

    Theorem uniform_grand_potential_pV : grand_potential uniform = - p * W.
    Proof. rewrite uniform_grand_potential, H_omega. ring. Qed.

    Theorem excess_grand_potential_eq : excess_grand_potential = p * (V - W).
    Proof. unfold excess_grand_potential. rewrite uniform_grand_potential_pV. ring. Qed.

    Theorem excess_moles_eq : excess_moles = rho_total * (W - V).
    Proof. unfold excess_moles. rewrite uniform_total_moles. unfold rho_total. ring. Qed.

    Theorem excess_grand_potential_zero_iff : p <> 0 -> (excess_grand_potential = 0 <-> V = W).
    Proof.
      intros Hp. rewrite excess_grand_potential_eq. split.
      - intros H. apply Rmult_integral in H. destruct H; [contradiction|lra].
      - intros ->. ring.
    Qed.

    Theorem excess_moles_zero_iff : rho_total <> 0 -> (excess_moles = 0 <-> V = W).
    Proof.
      intros Hr. rewrite excess_moles_eq. split.
      - intros H. apply Rmult_integral in H. destruct H; [contradiction|lra].
      - intros ->. ring.
    Qed.
  End Excess.

  (** with the volume the library reports ([grid_volume], repaired prefactor) on a grid assembled from
      constructed axes, all excess quantities of the uniform fluid vanish *)
  Theorem uniform_excess_zero p : omega_bulk = - p -> constructed_grid g ->
    excess_grand_potential p (grid_volume g) = 0 /\ excess_moles (grid_volume g) = 0.
  Proof.
    intros Ho Hg. rewrite (excess_grand_potential_eq p Ho), excess_moles_eq.
    unfold W. rewrite <- (constructed_grid_volume g Hg). split; ring.
  Qed.

End UniformEL.

(** ** The offset the unrepaired polar prefactor produced: for a cylindrical pore (polar grid)
    Omega + p V_old = 3 p pi l^2, the "3 p V" of the property text *)
Definition grid_volume_old (g : grid) : R :=
  fold_right Rmult 1 (map axis_volume_old (axes g)) * functional_determinant g.

Theorem polar_old_excess_3pV n l p Omega :
  (2 <= n)%nat ->
  let g := PolarG (new_polar n l) in
  Omega = - p * integrate g (fun _ => 1) ->        (* [uniform_grand_potential_pV] *)
  Omega + p * grid_volume_old g = 3 * p * (PI * l ^ 2).
Proof.
  intros Hn g ->. unfold g.
  rewrite <- constructed_grid_volume by (repeat constructor; assumption).
  unfold grid_volume_old, grid_volume. cbn [axes map fold_right functional_determinant].
  rewrite volume_polar_old_is_4x by assumption.
  rewrite volume_eq_sum_weights_polar by assumption. rewrite weights_polar_sum by assumption. ring.
Qed.

(** handshake count for one tree-shaped molecule: with k >= 1 segments and k - 1 bonds the degrees sum to
    2 (k - 1), hence  sum_s (1 - n_s / 2) = 1 *)
Lemma tree_count (deg : nat -> nat) (k : nat) : (1 <= k)%nat ->
  rsum (fun s => INR (deg s)) k = 2 * (INR k - 1) ->
  rsum (fun s => 1 - / 2 * INR (deg s)) k = 1.
Proof.
  intros Hk Hd.
  rewrite (rsum_ext _ (fun s => 1 + (- / 2) * INR (deg s))) by (intros; ring).
  rewrite rsum_plus, rsum_const, rsum_scal_l, Hd. field.
Qed.

(** ** Non-vacuity: the hypotheses are satisfiable (a local-density functional on a real grid) *)
Example uniform_hypotheses_satisfiable :
  let g := SphericalG (new_spherical 16 5) in
  let rho_b := fun _ : nat => 2 in
  let m := fun _ : nat => 1 in
  let WD := fun (rho : field) (a : nat) (i : idx) => rho a i in
  let dphi := fun (n : nat -> R) (a : nat) => n a in
  let BACK := fun (pd : nat -> idx -> R) => (pd : field) in
  let BOND := fun (e : field) => e in
  let Vext := (fun _ _ => 0) : field in
  residual rho_b m WD dphi BACK BOND Vext rho_b (fun c => c) (uniform rho_b) 0%nat [3%nat] = 0
  /\ grid_volume g = integrate g (fun _ => 1).
Proof.
  cbv zeta. split.
  - apply uniform_residual.
    + intros f f' a H. apply H.
    + intros a i. reflexivity.
    + intros pd pd' H s i. apply H.
    + intros s i. reflexivity.
    + intros e H s i. apply H.
    + reflexivity.
    + intros s. lra.
  - apply constructed_grid_volume; repeat constructor; lia.
Qed.
