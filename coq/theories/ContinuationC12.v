(** C12 — converged equilibria do not depend on the initial guess or on the continuation order.

    Executable models (route H) of the bookkeeping around the point solvers of feos-core:

    * start cascades (which start state a point solver tries, in which order, what happens when one fails)
        [pure_t]            vle_pure.rs:31-61      given state -> ideal-gas start -> spinodal start
        [tp_flash]          tp_flash.rs:50-80      given state (update_pressure may abort) -> stability init 1 -> init 2
        [bd_t] / [bd_p]     bubble_dew.rs:94-141 / 303-323   a given pressure/temperature is used WITHOUT fallback
    * continuation loops (how the previous equilibrium becomes the next guess, what is reset after a failure)
        [run]  with reset = None          PhaseDiagram::pure (phase_diagram_pure.rs:52-58), solve_temperatures,
                                          PhaseDiagram::lle (phase_diagram_binary.rs:151-167),
                                          bubble_point_line / dew_point_line temperature stage (phase_envelope.rs:36-54, 86-97)
        [run]  with reset = Some (tp_0, None)   iterate_vle (phase_diagram_binary.rs:198-225)
        [p_stage]                         dew_point_line pressure stage (phase_envelope.rs:111-121): [expect] on a missing guess
    * the grids (linspace over Q) and the assembly of binary diagrams (reversal of the second branch).

    The point solver is abstract: an attempt from a start state returns [AOk r], fails in its initialisation,
    fails in its iteration, or is absent.  The numerical content of C12 is the hypothesis [H_unique_att] /
    [H_unique]: any two ACCEPTED results at the same point are equal.  Everything else is proved here for all
    point lists, all failure patterns and both traversal directions. *)
From Coq Require Import List Arith Lia Bool PeanoNat QArith Permutation.
Import ListNotations.
Local Close Scope Q_scope.

Set Implicit Arguments.

(* ------------------------------------------------------------------------------------------------ *)
(** * filter_map *)

Fixpoint fmap_opt {A B : Type} (f : A -> option B) (l : list A) : list B :=
  match l with
  | [] => []
  | a :: l' => match f a with Some b => b :: fmap_opt f l' | None => fmap_opt f l' end
  end.

Lemma fmap_opt_app : forall (A B : Type) (f : A -> option B) l1 l2,
  fmap_opt f (l1 ++ l2) = fmap_opt f l1 ++ fmap_opt f l2.
Proof.
  induction l1 as [|a l1 IH]; intros l2; simpl; auto.
  destruct (f a); simpl; rewrite IH; reflexivity.
Qed.

Lemma fmap_opt_rev : forall (A B : Type) (f : A -> option B) l,
  fmap_opt f (rev l) = rev (fmap_opt f l).
Proof.
  induction l as [|a l IH]; simpl; auto.
  rewrite fmap_opt_app, IH. simpl. destruct (f a); simpl; auto. rewrite app_nil_r. reflexivity.
Qed.

Lemma in_fmap_opt : forall (A B : Type) (f : A -> option B) l b,
  In b (fmap_opt f l) <-> exists a, In a l /\ f a = Some b.
Proof.
  induction l as [|a l IH]; intros b; simpl.
  - split; [tauto | intros [a [[] _]]].
  - destruct (f a) eqn:E; simpl; rewrite IH; split.
    + intros [H | [a' [Hin Hf]]]; [exists a; subst; auto | exists a'; auto].
    + intros [a' [[H | Hin] Hf]]; [subst; rewrite E in Hf; inversion Hf; auto | right; exists a'; auto].
    + intros [a' [Hin Hf]]; exists a'; auto.
    + intros [a' [[H | Hin] Hf]]; [subst; congruence | exists a'; auto].
Qed.

(* ------------------------------------------------------------------------------------------------ *)
(** * Start cascades *)

Inductive stage := SGuess | SGiven | SIdeal | SSpin | SStab1 | SStab2.

(** what one attempt (initialise a start state, then iterate from it) can do *)
Inductive attempt (R : Type) : Type :=
| AAbsent                 (* the stage does not exist for this call (no guess given, no second trial phase) *)
| AInitFail               (* the start state could not be constructed *)
| AIterFail               (* the iteration from the start state failed / did not converge / hit the trivial solution *)
| AOk (r : R).            (* the iteration passed its stopping test and returned r *)
Arguments AAbsent {R}.
Arguments AInitFail {R}.
Arguments AIterFail {R}.

Inductive ocode := OInitFail | OIterFail | OOk.

(** a cascade: stages in order; each carries the flag "an initialisation failure aborts the whole call"
    (the [?] operator in front of the attempt) *)
Fixpoint cascade {R : Type} (l : list (stage * bool * attempt R)) : list (stage * ocode) * option R :=
  match l with
  | [] => ([], None)
  | (s, ab, a) :: l' =>
      match a with
      | AAbsent => cascade l'
      | AOk r => ([(s, OOk)], Some r)
      | AIterFail => let (lg, v) := cascade l' in ((s, OIterFail) :: lg, v)
      | AInitFail => if ab then ([(s, OInitFail)], None)
                     else let (lg, v) := cascade l' in ((s, OInitFail) :: lg, v)
      end
  end.

Lemma cascade_some_in : forall (R : Type) (l : list (stage * bool * attempt R)) r,
  snd (cascade l) = Some r -> exists s ab, In (s, ab, AOk r) l.
Proof.
  induction l as [|[[s ab] a] l IH]; intros r H; simpl in H; [discriminate|].
  destruct a.
  - destruct (IH _ H) as [s' [ab' Hin]]. exists s', ab'. right; auto.
  - destruct ab; simpl in H; [discriminate|].
    destruct (cascade l) as [lg v] eqn:E; simpl in *. destruct (IH _ H) as [s' [ab' Hin]]. exists s', ab'. right; auto.
  - destruct (cascade l) as [lg v] eqn:E; simpl in *. destruct (IH _ H) as [s' [ab' Hin]]. exists s', ab'. right; auto.
  - simpl in H. inversion H; subst. exists s, ab. left; auto.
Qed.

(** the log and the result agree: the result is [Some] iff the last log entry is [OOk] *)
Lemma cascade_log_ok : forall (R : Type) (l : list (stage * bool * attempt R)),
  (exists r, snd (cascade l) = Some r) <-> (exists s, last (fst (cascade l)) (SGuess, OIterFail) = (s, OOk)).
Proof.
  induction l as [|[[s ab] a] l IH]; simpl.
  - split; intros [x H]; discriminate.
  - destruct a; simpl; auto.
    + destruct ab; simpl.
      * split; intros [x H]; discriminate.
      * destruct (cascade l) as [lg v] eqn:E; simpl in *.
        destruct lg as [|e lg]; simpl in *; [| exact IH].
        split; [intros H; apply IH in H; destruct H as [x H]; discriminate | intros [x H]; discriminate].
    + destruct (cascade l) as [lg v] eqn:E; simpl in *.
      destruct lg as [|e lg]; simpl in *; [| exact IH].
      split; [intros H; apply IH in H; destruct H as [x H]; discriminate | intros [x H]; discriminate].
    + split; intros _; [exists s | exists r]; reflexivity.
Qed.

Section Solvers.
Variables P G R : Type.
(** the attempt started from a supplied guess, and the guess-free starts of a point *)
Variable att_g : P -> G -> attempt R.
Variable att_0 : P -> stage -> attempt R.

Definition guess_att (p : P) (g : option G) : attempt R :=
  match g with Some g => att_g p g | None => AAbsent end.

(** ** pure_t (vle_pure.rs:31-61): every failure of a stage falls through to the next stage *)
Definition pure_t_stages (p : P) (g : option G) : list (stage * bool * attempt R) :=
  [(SGuess, false, guess_att p g); (SIdeal, false, att_0 p SIdeal); (SSpin, false, att_0 p SSpin)].
Definition pure_t_log p g := cascade (pure_t_stages p g).
Definition pure_t p g : option R := snd (pure_t_log p g).

(** ** State::tp_flash (tp_flash.rs:50-80): [update_pressure(..)?] and [vle_init_stability(..)?] abort the call,
       a failure of [tp_flash_] falls through *)
Definition tp_flash_stages (p : P) (g : option G) : list (stage * bool * attempt R) :=
  [(SGuess, true, guess_att p g); (SStab1, true, att_0 p SStab1); (SStab2, true, att_0 p SStab2)].
Definition tp_flash_log p g := cascade (tp_flash_stages p g).
Definition tp_flash p g : option R := snd (tp_flash_log p g).

(** ** bubble_dew_point at given temperature (bubble_dew.rs:94-141): a given pressure is used alone, without
       fallback; otherwise ideal-gas start, then spinodal start.  At given pressure (303-323) the initial
       temperature is mandatory. *)
Definition bd_t_stages (p : P) (g : option G) : list (stage * bool * attempt R) :=
  match g with
  | Some g => [(SGiven, true, att_g p g)]
  | None => [(SIdeal, false, att_0 p SIdeal); (SSpin, true, att_0 p SSpin)]
  end.
Definition bd_t_log p g := cascade (bd_t_stages p g).
Definition bd_t p g : option R := snd (bd_t_log p g).

(** *** H_cascade holds of the [pure_t] model: a failing guess falls back to the guess-free start *)
Lemma pure_t_cascade : forall p g,
  pure_t p (Some g) = match att_g p g with AOk r => Some r | _ => pure_t p None end.
Proof.
  intros p g. unfold pure_t, pure_t_log, pure_t_stages, guess_att. simpl.
  destruct (att_g p g); simpl; auto;
  destruct (att_0 p SIdeal); simpl; auto; destruct (att_0 p SSpin); simpl; auto.
Qed.

Lemma pure_t_H_cascade : forall p g, pure_t p (Some g) = None -> pure_t p None = None.
Proof. intros p g. rewrite pure_t_cascade. destruct (att_g p g); auto; discriminate. Qed.

(** a result accepted with a guess is the guess branch's own result or the guess-free result *)
Lemma pure_t_accept : forall p g r, pure_t p (Some g) = Some r -> att_g p g = AOk r \/ pure_t p None = Some r.
Proof. intros p g r. rewrite pure_t_cascade. destruct (att_g p g); auto. intros H; inversion H; auto. Qed.

(** guess-free order: ideal gas first, spinodal only if that failed *)
Lemma pure_t_none : forall p,
  pure_t p None = match att_0 p SIdeal with
                  | AOk r => Some r
                  | _ => match att_0 p SSpin with AOk r => Some r | _ => None end
                  end.
Proof.
  intros p. unfold pure_t, pure_t_log, pure_t_stages, guess_att. simpl.
  destruct (att_0 p SIdeal); simpl; auto; destruct (att_0 p SSpin); simpl; auto.
Qed.

(** *** tp_flash: the cascade holds when the guess could be prepared; an [update_pressure] failure aborts *)
Lemma tp_flash_cascade_if_prepared : forall p g, att_g p g <> AInitFail ->
  tp_flash p (Some g) = match att_g p g with AOk r => Some r | _ => tp_flash p None end.
Proof.
  intros p g Hn. unfold tp_flash, tp_flash_log, tp_flash_stages, guess_att. simpl.
  destruct (att_g p g); simpl; auto; try congruence;
  destruct (att_0 p SStab1); simpl; auto; destruct (att_0 p SStab2); simpl; auto.
Qed.

Lemma tp_flash_abort : forall p g, att_g p g = AInitFail -> tp_flash p (Some g) = None.
Proof. intros p g H. unfold tp_flash, tp_flash_log, tp_flash_stages, guess_att. simpl. rewrite H. reflexivity. Qed.

Lemma tp_flash_H_cascade_if_prepared : forall p g, att_g p g <> AInitFail ->
  tp_flash p (Some g) = None -> tp_flash p None = None.
Proof. intros p g Hn. rewrite tp_flash_cascade_if_prepared by assumption. destruct (att_g p g); auto; discriminate. Qed.

(** *** bubble/dew: with a given pressure there is no fallback at all *)
Lemma bd_t_given : forall p g, bd_t p (Some g) = match att_g p g with AOk r => Some r | _ => None end.
Proof. intros p g. unfold bd_t, bd_t_log, bd_t_stages. simpl. destruct (att_g p g); reflexivity. Qed.

(** ** the numerical content of C12 at the level of attempts *)
Definition H_unique_att : Prop :=
  forall p r1 r2,
    ((exists g, att_g p g = AOk r1) \/ (exists s, att_0 p s = AOk r1)) ->
    ((exists g, att_g p g = AOk r2) \/ (exists s, att_0 p s = AOk r2)) -> r1 = r2.

Lemma stages_ok_src : forall (stages : P -> option G -> list (stage * bool * attempt R)),
  (forall p g s ab a, In (s, ab, a) (stages p g) -> a = guess_att p g \/ exists s', a = att_0 p s') ->
  forall p g r, snd (cascade (stages p g)) = Some r ->
  (exists g', att_g p g' = AOk r) \/ (exists s, att_0 p s = AOk r).
Proof.
  intros stages Hsrc p g r H. apply cascade_some_in in H. destruct H as [s [ab Hin]].
  destruct (Hsrc _ _ _ _ _ Hin) as [Hg | [s' Hs]].
  - unfold guess_att in Hg. destruct g as [g|]; [left; exists g; auto | discriminate].
  - right. exists s'. auto.
Qed.

Lemma pure_t_src : forall p g r, pure_t p g = Some r ->
  (exists g', att_g p g' = AOk r) \/ (exists s, att_0 p s = AOk r).
Proof.
  apply (stages_ok_src pure_t_stages). intros p g s ab a Hin. unfold pure_t_stages in Hin. simpl in Hin.
  destruct Hin as [H | [H | [H | []]]]; inversion H; subst; eauto.
Qed.

Lemma tp_flash_src : forall p g r, tp_flash p g = Some r ->
  (exists g', att_g p g' = AOk r) \/ (exists s, att_0 p s = AOk r).
Proof.
  apply (stages_ok_src tp_flash_stages). intros p g s ab a Hin. unfold tp_flash_stages in Hin. simpl in Hin.
  destruct Hin as [H | [H | [H | []]]]; inversion H; subst; eauto.
Qed.

Lemma bd_t_src : forall p g r, bd_t p g = Some r ->
  (exists g', att_g p g' = AOk r) \/ (exists s, att_0 p s = AOk r).
Proof.
  apply (stages_ok_src bd_t_stages). intros p g s ab a Hin. unfold bd_t_stages in Hin.
  destruct g as [g|]; simpl in Hin.
  - destruct Hin as [H | []]; inversion H; subst. left. reflexivity.
  - destruct Hin as [H | [H | []]]; inversion H; subst; eauto.
Qed.

(** every solver built from the attempts inherits uniqueness of accepted results *)
Theorem pure_t_unique : H_unique_att -> forall p g1 g2 r1 r2, pure_t p g1 = Some r1 -> pure_t p g2 = Some r2 -> r1 = r2.
Proof. intros HU p g1 g2 r1 r2 H1 H2. apply (HU p); eapply pure_t_src; eauto. Qed.
Theorem tp_flash_unique : H_unique_att -> forall p g1 g2 r1 r2, tp_flash p g1 = Some r1 -> tp_flash p g2 = Some r2 -> r1 = r2.
Proof. intros HU p g1 g2 r1 r2 H1 H2. apply (HU p); eapply tp_flash_src; eauto. Qed.
Theorem bd_t_unique : H_unique_att -> forall p g1 g2 r1 r2, bd_t p g1 = Some r1 -> bd_t p g2 = Some r2 -> r1 = r2.
Proof. intros HU p g1 g2 r1 r2 H1 H2. apply (HU p); eapply bd_t_src; eauto. Qed.

(** the guess-dependence that remains is convergence only: with a guess, [pure_t] returns the guess-free result
    whenever the guess-free calculation converges *)
Theorem pure_t_guess_independent : H_unique_att ->
  forall p g r0, pure_t p None = Some r0 -> pure_t p (Some g) = Some r0.
Proof.
  intros HU p g r0 H0. destruct (pure_t p (Some g)) as [r|] eqn:E.
  - f_equal. eapply pure_t_unique; eauto.
  - apply pure_t_H_cascade in E. congruence.
Qed.

End Solvers.

(* ------------------------------------------------------------------------------------------------ *)
(** * The acceptance test belongs to the attempt, on the guessed path as on the guess-free one

    An attempt produces a raw candidate; a candidate is returned only if it passes the solver's acceptance test
    [accept] (stopping test on the residual with the caller's tolerance, "not the trivial solution", for the
    critical point of a pure substance "positive pressure").  When every attempt of a cascade is filtered, every
    result of the cascade is accepted — whether it came from the supplied guess or from a default start. *)

Section Accept.
Variables P G R : Type.
Variable accept : P -> R -> bool.
Variable raw_g : P -> G -> attempt R.
Variable raw_0 : P -> stage -> attempt R.

Definition filt (p : P) (a : attempt R) : attempt R :=
  match a with AOk r => if accept p r then AOk r else AIterFail | x => x end.

Definition fatt_g (p : P) (g : G) : attempt R := filt p (raw_g p g).
Definition fatt_0 (p : P) (s : stage) : attempt R := filt p (raw_0 p s).

Lemma filt_ok : forall p a r, filt p a = AOk r -> accept p r = true.
Proof.
  intros p a r H. destruct a; simpl in H; try discriminate.
  destruct (accept p r0) eqn:E; [inversion H; subst; exact E | discriminate].
Qed.

(** State::critical_point (critical_point.rs:60-84): a supplied initial temperature is used alone (no fallback);
    otherwise the trial temperatures 300 K, 700 K, 500 K in this order ([SIdeal], [SSpin], [SStab1] name the three
    trials), first success wins.  The acceptance test sits inside critical_point_hkm, i.e. inside the attempt. *)
Definition crit_stages (p : P) (g : option G) : list (stage * bool * attempt R) :=
  match g with
  | Some t => [(SGiven, true, fatt_g p t)]
  | None => [(SIdeal, false, fatt_0 p SIdeal); (SSpin, false, fatt_0 p SSpin); (SStab1, false, fatt_0 p SStab1)]
  end.
Definition crit_log p g := cascade (crit_stages p g).
Definition crit p g : option R := snd (crit_log p g).

(** every solver over filtered attempts returns accepted results only, with or without a guess *)
Theorem accepted_only : forall p g r,
  (pure_t fatt_g fatt_0 p g = Some r -> accept p r = true) /\
  (tp_flash fatt_g fatt_0 p g = Some r -> accept p r = true) /\
  (bd_t fatt_g fatt_0 p g = Some r -> accept p r = true).
Proof.
  intros p g r.
  assert (Hs : (exists g', fatt_g p g' = AOk r) \/ (exists s, fatt_0 p s = AOk r) -> accept p r = true).
  { intros [[g' H] | [s H]]; eapply filt_ok; eauto. }
  split; [|split]; intros H; apply Hs.
  - eapply pure_t_src; eauto.
  - eapply tp_flash_src; eauto.
  - eapply bd_t_src; eauto.
Qed.

Theorem crit_accepted : forall p g r, crit p g = Some r -> accept p r = true.
Proof.
  intros p g r H. unfold crit, crit_log in H. apply cascade_some_in in H. destruct H as [s [ab Hin]].
  unfold crit_stages in Hin. destruct g as [t|]; simpl in Hin.
  - destruct Hin as [H | []]. inversion H. eapply filt_ok; eauto.
  - destruct Hin as [H | [H | [H | []]]]; inversion H; eapply filt_ok; eauto.
Qed.

(** with a supplied temperature there is no fallback; without one the result is the first accepted trial *)
Lemma crit_given : forall p t, crit p (Some t) = match fatt_g p t with AOk r => Some r | _ => None end.
Proof. intros p t. unfold crit, crit_log, crit_stages. simpl. destruct (fatt_g p t); reflexivity. Qed.

Lemma crit_none : forall p,
  crit p None = match fatt_0 p SIdeal with
                | AOk r => Some r
                | _ => match fatt_0 p SSpin with
                       | AOk r => Some r
                       | _ => match fatt_0 p SStab1 with AOk r => Some r | _ => None end
                       end
                end.
Proof.
  intros p. unfold crit, crit_log, crit_stages. simpl.
  destruct (fatt_0 p SIdeal); simpl; auto; destruct (fatt_0 p SSpin); simpl; auto; destruct (fatt_0 p SStab1); simpl; auto.
Qed.

(** uniqueness of ACCEPTED candidates is all that guess independence needs *)
Theorem crit_unique : H_unique_att fatt_g fatt_0 ->
  forall p g1 g2 r1 r2, crit p g1 = Some r1 -> crit p g2 = Some r2 -> r1 = r2.
Proof.
  intros HU p g1 g2 r1 r2 H1 H2.
  assert (Hsrc : forall g r, crit p g = Some r -> (exists g', fatt_g p g' = AOk r) \/ (exists s, fatt_0 p s = AOk r)).
  { intros g r H. unfold crit, crit_log in H. apply cascade_some_in in H. destruct H as [s [ab Hin]].
    unfold crit_stages in Hin. destruct g as [t|]; simpl in Hin.
    - destruct Hin as [H | []]. inversion H. left. exists t. reflexivity.
    - destruct Hin as [H | [H | [H | []]]]; inversion H; right; eauto. }
  apply (HU p); eapply Hsrc; eauto.
Qed.
End Accept.

(** if the acceptance test is applied by the retry loop instead of the attempt, the guessed path returns
    unaccepted candidates: the filter must sit inside the attempt (witness) *)
Theorem filter_outside_attempt_refuted :
  exists (accept : nat -> nat -> bool) (raw_g : nat -> nat -> attempt nat) p t r,
    snd (cascade [(SGiven, true, raw_g p t)]) = Some r /\ accept p r = false
    /\ crit accept raw_g (fun _ _ => AIterFail) p (Some t) = None.
Proof.
  exists (fun _ r => Nat.eqb r 1), (fun _ _ => AOk 0), 0, 0, 0. repeat split.
Qed.

(* ------------------------------------------------------------------------------------------------ *)
(** * Continuation loops *)

Section Loops.
Variables P G R : Type.
Variable solve : P -> option G -> option R.   (* the point solver with its own start cascade *)
Variable ng : R -> G.                         (* how a converged equilibrium becomes the next guess *)
Variable reset : option G.                    (* the initial value of the continuation variables:
                                                 [None] (pure, lle, bubble/dew lines), [Some (tp_0, None)] (iterate_vle) *)

Record event := Ev { e_pt : P; e_origin : option nat; e_guess : option G; e_res : option R }.

(** the loop: [k] = index of the current point, [o] = index of the point the current guess comes from *)
Fixpoint cont_loop (k : nat) (o : option nat) (g : option G) (ps : list P) : list event :=
  match ps with
  | [] => []
  | p :: ps' =>
      let v := solve p g in
      Ev p o g v ::
      match v with
      | Some r => cont_loop (S k) (Some k) (Some (ng r)) ps'
      | None => cont_loop (S k) None reset ps'
      end
  end.

Definition run (ps : list P) : list event := cont_loop 0 None reset ps.
Definition results (evs : list event) : list R := fmap_opt e_res evs.
Definition presults (evs : list event) : list (P * R) :=
  fmap_opt (fun e => match e_res e with Some r => Some (e_pt e, r) | None => None end) evs.
Definition shape (evs : list event) : list (option nat * bool) :=
  map (fun e => (e_origin e, match e_res e with Some _ => true | None => false end)) evs.

(** the diagrams *)
Definition diagram (ps : list P) : list R := results (run ps).                       (* lle, iterate_vle interior *)
Definition diagram_crit (ps : list P) (crit : R) : list R := diagram ps ++ [crit].   (* pure, bubble_point_line *)

(** ** structural facts, no hypothesis *)
Lemma cont_points : forall ps k o g, map e_pt (cont_loop k o g ps) = ps.
Proof. induction ps as [|p ps IH]; intros; simpl; auto. destruct (solve p g); rewrite IH; reflexivity. Qed.

Lemma cont_consistent : forall ps k o g e, In e (cont_loop k o g ps) -> e_res e = solve (e_pt e) (e_guess e).
Proof.
  induction ps as [|p ps IH]; intros k o g e Hin; simpl in Hin; [contradiction|].
  destruct Hin as [H | H]; [subst; reflexivity|].
  destruct (solve p g); eapply IH; eauto.
Qed.

(** the exact bookkeeping: the shape of a run is determined by the failure pattern alone *)
Fixpoint exp_shape (k : nat) (prev : option nat) (oks : list bool) : list (option nat * bool) :=
  match oks with
  | [] => []
  | b :: t => (prev, b) :: exp_shape (S k) (if b then Some k else None) t
  end.

Lemma cont_shape : forall ps k o g,
  shape (cont_loop k o g ps) = exp_shape k o (map snd (shape (cont_loop k o g ps))).
Proof.
  induction ps as [|p ps IH]; intros; simpl; auto.
  destruct (solve p g); simpl; f_equal; apply IH.
Qed.

Theorem run_shape : forall ps, shape (run ps) = exp_shape 0 None (map snd (shape (run ps))).
Proof. intros. apply cont_shape. Qed.

(** where a guess comes from: the reset value, or the result of the point named by the origin *)
Lemma cont_guess_origin : forall ps k o g pre,
  length pre = k ->
  (match o with
   | None => g = reset
   | Some j => exists ej r, nth_error pre j = Some ej /\ e_res ej = Some r /\ g = Some (ng r)
   end) ->
  forall e, In e (cont_loop k o g ps) ->
  match e_origin e with
  | None => e_guess e = reset
  | Some j => exists ej r, nth_error (pre ++ cont_loop k o g ps) j = Some ej /\ e_res ej = Some r /\ e_guess e = Some (ng r)
  end.
Proof.
  induction ps as [|p ps IH]; intros k o g pre Hlen Ho e Hin; simpl in Hin; [contradiction|].
  destruct Hin as [H | H].
  - subst e. simpl. destruct o as [j|]; auto.
    destruct Ho as [ej [r [Hn [Hr Hg]]]]. exists ej, r. split; [|split]; auto.
    rewrite nth_error_app1; auto. apply nth_error_Some. congruence.
  - assert (Hl : forall e0 : event, length (pre ++ [e0]) = S k) by (intros; rewrite app_length; simpl; lia).
    assert (Hpre : forall (e0 : event) tl j x, nth_error ((pre ++ [e0]) ++ tl) j = Some x -> nth_error (pre ++ e0 :: tl) j = Some x).
    { intros e0 tl j x. rewrite <- app_assoc. simpl. auto. }
    simpl. destruct (solve p g) as [r|] eqn:E.
    + pose (e0 := Ev p o g (Some r)).
      assert (Hx : exists ej r0, nth_error (pre ++ [e0]) k = Some ej /\ e_res ej = Some r0 /\ Some (ng r) = Some (ng r0)).
      { exists e0, r. split; [|split]; auto.
        rewrite nth_error_app2 by lia. rewrite Hlen, Nat.sub_diag. reflexivity. }
      specialize (IH (S k) (Some k) (Some (ng r)) (pre ++ [e0]) (Hl e0) Hx e H).
      destruct (e_origin e) as [j|]; auto.
      destruct IH as [ej [r0 [Hn Hr]]]. exists ej, r0. split; auto.
    + pose (e0 := Ev p o g None).
      specialize (IH (S k) None reset (pre ++ [e0]) (Hl e0) eq_refl e H).
      destruct (e_origin e) as [j|]; auto.
      destruct IH as [ej [r0 [Hn Hr]]]. exists ej, r0. split; auto.
Qed.

(** no guess originates from a failed point; the reset values are the initial ones *)
Theorem run_guess_origin : forall ps e, In e (run ps) ->
  match e_origin e with
  | None => e_guess e = reset
  | Some j => exists ej r, nth_error (run ps) j = Some ej /\ e_res ej = Some r /\ e_guess e = Some (ng r)
  end.
Proof. intros ps e Hin. exact (@cont_guess_origin ps 0 None reset [] eq_refl eq_refl e Hin). Qed.

(** ** the class of admissible bookkeepings: a guess is the reset value or comes from a converged point of the
       current success streak (no failed point between the origin and the use).  [s] = first index of the streak. *)
Fixpoint class_okb (k s : nat) (sh : list (option nat * bool)) : bool :=
  match sh with
  | [] => true
  | (o, ok) :: sh' =>
      (match o with None => true | Some j => (s <=? j) && (j <? k) end)
      && class_okb (S k) (if ok then s else S k) sh'
  end.

Lemma class_ok_spec_gen : forall sh pre s,
  class_okb (length pre) s sh = true ->
  s <= length pre ->
  (forall i, s <= i < length pre -> exists o, nth_error pre i = Some (o, true)) ->
  forall k j ok, length pre <= k -> nth_error (pre ++ sh) k = Some (Some j, ok) ->
  j < k /\ forall i, j <= i < k -> exists o, nth_error (pre ++ sh) i = Some (o, true).
Proof.
  induction sh as [|[o b] sh IH]; intros pre s Hc Hs Hpre k j ok Hk Hn.
  - rewrite app_nil_r in Hn. assert (k < length pre) by (apply nth_error_Some; congruence). lia.
  - simpl in Hc. apply andb_true_iff in Hc. destruct Hc as [Ho Hc].
    destruct (Nat.eq_dec k (length pre)) as [Ek | Nk].
    + subst k. rewrite nth_error_app2 in Hn by lia. rewrite Nat.sub_diag in Hn. simpl in Hn. inversion Hn; subst.
      apply andb_true_iff in Ho. destruct Ho as [H1 H2]. apply Nat.leb_le in H1. apply Nat.ltb_lt in H2.
      split; auto. intros i Hi. destruct (Hpre i) as [o' Ho']; [lia|]. exists o'. rewrite nth_error_app1; auto.
      apply nth_error_Some. congruence.
    + replace (pre ++ (o, b) :: sh) with ((pre ++ [(o, b)]) ++ sh) in * by (rewrite <- app_assoc; reflexivity).
      assert (Hl : length (pre ++ [(o, b)]) = S (length pre)) by (rewrite app_length; simpl; lia).
      apply (IH (pre ++ [(o, b)]) (if b then s else S (length pre))) with (ok := ok); auto.
      * rewrite Hl. exact Hc.
      * rewrite Hl. destruct b; lia.
      * rewrite Hl. intros i Hi. destruct b.
        -- destruct (Nat.eq_dec i (length pre)) as [Ei | Ni].
           ++ subst i. exists o. rewrite nth_error_app2 by lia. rewrite Nat.sub_diag. reflexivity.
           ++ destruct (Hpre i) as [o' Ho']; [lia|]. exists o'. rewrite nth_error_app1; auto.
              apply nth_error_Some. congruence.
        -- lia.
      * rewrite Hl. lia.
Qed.

Theorem class_ok_spec : forall sh, class_okb 0 0 sh = true ->
  forall k j ok, nth_error sh k = Some (Some j, ok) ->
  j < k /\ forall i, j <= i < k -> exists o, nth_error sh i = Some (o, true).
Proof.
  intros sh Hc k j ok Hn.
  apply (@class_ok_spec_gen sh [] 0 Hc (le_n 0)) with (ok := ok); simpl; auto; try lia.
Qed.

(** the faithful loop is in the class *)
Lemma cont_in_class : forall ps k s o g, s <= k ->
  (match o with None => True | Some j => s <= j /\ j < k end) ->
  class_okb k s (shape (cont_loop k o g ps)) = true.
Proof.
  induction ps as [|p ps IH]; intros k s o g Hs Ho; simpl; auto.
  apply andb_true_iff. split.
  - destruct o as [j|]; auto. destruct Ho. apply andb_true_iff. split; [apply Nat.leb_le | apply Nat.ltb_lt]; lia.
  - destruct (solve p g); simpl; apply IH; try lia; auto.
Qed.

Theorem run_in_class : forall ps, class_okb 0 0 (shape (run ps)) = true.
Proof. intros. apply cont_in_class; [lia | exact I]. Qed.

(** ** C12 proper.  [H_unique]: any two accepted results at the same point are equal (numerical content, hypothesis).
       [H_cascade]: a failing guess falls back to the guess-free start (proved of [pure_t]; of [tp_flash] when the
       guess can be prepared; false for [bd_t] with a given pressure). *)
Definition H_unique : Prop := forall p g1 g2 r1 r2, solve p g1 = Some r1 -> solve p g2 = Some r2 -> r1 = r2.
Definition H_cascade : Prop := forall p g, solve p (Some g) = None -> solve p None = None.
(** the stand-alone calculation converges wherever some guess makes the calculation converge *)
Definition H_standalone (ps : list P) : Prop := forall p g r, In p ps -> solve p (Some g) = Some r -> solve p None <> None.

(** soundness (needs only H_unique): every state of the diagram equals the stand-alone result at its point *)
Theorem diagram_sound : H_unique -> forall ps p r, In (p, r) (presults (run ps)) ->
  forall r0, solve p None = Some r0 -> r = r0.
Proof.
  intros HU ps p r Hin r0 H0. unfold presults in Hin. apply in_fmap_opt in Hin.
  destruct Hin as [e [Hin He]]. destruct (e_res e) as [r'|] eqn:E; [|discriminate]. inversion He; subst.
  apply cont_consistent in Hin. rewrite E in Hin. symmetry in Hin. eapply HU; eauto.
Qed.

(** completeness (needs only H_cascade): a point whose stand-alone calculation converges is in the diagram *)
Lemma cont_complete : H_cascade -> forall ps k o g p r0, In p ps -> solve p None = Some r0 ->
  exists r, In (p, r) (presults (cont_loop k o g ps)).
Proof.
  intros HC. induction ps as [|q ps IH]; intros k o g p r0 Hin H0; [contradiction|].
  simpl. unfold presults. simpl. destruct Hin as [Hq | Hin].
  - subst q. destruct (solve p g) as [r|] eqn:E; simpl.
    + exists r. left. reflexivity.
    + destruct g as [g|]; [apply HC in E|]; congruence.
  - destruct (solve q g) as [r|] eqn:E; simpl.
    + destruct (IH (S k) (Some k) (Some (ng r)) p r0 Hin H0) as [r' Hr']. exists r'. right. exact Hr'.
    + exact (IH (S k) None reset p r0 Hin H0).
Qed.

Theorem diagram_complete : H_cascade -> forall ps p r0, In p ps -> solve p None = Some r0 ->
  exists r, In (p, r) (presults (run ps)).
Proof. intros HC ps p r0. apply cont_complete; assumption. Qed.

(** guess independence of the point solver on the points of a grid *)
Lemma solve_guess_independent : H_unique -> H_cascade -> forall ps, H_standalone ps ->
  forall p g, In p ps -> solve p g = solve p None.
Proof.
  intros HU HC ps HS p [g|] Hin; auto.
  destruct (solve p (Some g)) as [r|] eqn:E.
  - destruct (solve p None) as [r0|] eqn:E0.
    + f_equal. eapply HU; eauto.
    + exfalso. eapply HS; eauto.
  - symmetry. eapply HC; eauto.
Qed.

Lemma cont_eq_standalone : H_unique -> H_cascade -> forall ps0, H_standalone ps0 ->
  forall ps k o g, incl ps ps0 -> results (cont_loop k o g ps) = fmap_opt (fun p => solve p None) ps.
Proof.
  intros HU HC ps0 HS. induction ps as [|p ps IH]; intros k o g Hincl; simpl; auto.
  assert (Hp : In p ps0) by (apply Hincl; left; reflexivity).
  assert (Hi : incl ps ps0) by (intros x Hx; apply Hincl; right; exact Hx).
  unfold results. simpl.
  rewrite (@solve_guess_independent HU HC ps0 HS p g Hp).
  destruct (solve p None); simpl; [f_equal|]; apply IH; auto.
Qed.

(** the diagram equals the list of stand-alone results of its points: for every point list (number of points),
    every failure pattern *)
Theorem diagram_eq_standalone : H_unique -> H_cascade -> forall ps, H_standalone ps ->
  diagram ps = fmap_opt (fun p => solve p None) ps.
Proof. intros HU HC ps HS. unfold diagram, run. eapply cont_eq_standalone; eauto. apply incl_refl. Qed.

(** ... hence traversing the points in the opposite direction gives the reversed diagram *)
Theorem diagram_rev : H_unique -> H_cascade -> forall ps, H_standalone ps ->
  diagram (rev ps) = rev (diagram ps).
Proof.
  intros HU HC ps HS.
  rewrite (@diagram_eq_standalone HU HC ps HS).
  rewrite <- fmap_opt_rev. apply diagram_eq_standalone; auto.
  intros p g r Hin. apply HS. apply in_rev. exact Hin.
Qed.

(** ... and the result at a point does not depend on which grid (how many points) it belongs to *)
Theorem diagram_npoints_sound : H_unique -> forall ps1 ps2 p r1 r2,
  In (p, r1) (presults (run ps1)) -> In (p, r2) (presults (run ps2)) -> r1 = r2.
Proof.
  intros HU ps1 ps2 p r1 r2 H1 H2. unfold presults in *.
  apply in_fmap_opt in H1. apply in_fmap_opt in H2.
  destruct H1 as [e1 [Hin1 He1]]. destruct H2 as [e2 [Hin2 He2]].
  destruct (e_res e1) as [x1|] eqn:E1; [|discriminate]. destruct (e_res e2) as [x2|] eqn:E2; [|discriminate].
  injection He1 as Hp1 Hr1. injection He2 as Hp2 Hr2. subst r1 r2.
  apply cont_consistent in Hin1. apply cont_consistent in Hin2. rewrite E1 in Hin1. rewrite E2 in Hin2.
  rewrite Hp1 in Hin1. rewrite Hp2 in Hin2. eapply HU; eauto.
Qed.

Theorem diagram_npoints_present : H_cascade -> forall ps1 ps2 p r0,
  In p ps1 -> In p ps2 -> solve p None = Some r0 ->
  (exists r1, In (p, r1) (presults (run ps1))) /\ (exists r2, In (p, r2) (presults (run ps2))).
Proof. intros HC ps1 ps2 p r0 H1 H2 H0. split; eapply diagram_complete; eauto. Qed.

(** failures at earlier points are irrelevant: the diagram of [a ++ b] restricted to [b] is the diagram of [b] *)
Theorem diagram_app : H_unique -> H_cascade -> forall a b, H_standalone (a ++ b) ->
  diagram (a ++ b) = diagram a ++ diagram b.
Proof.
  intros HU HC a b HS.
  rewrite (@diagram_eq_standalone HU HC _ HS), fmap_opt_app.
  rewrite <- !diagram_eq_standalone; auto; intros p g r Hin; apply HS; apply in_or_app; auto.
Qed.

Theorem diagram_crit_last : forall ps crit d, last (diagram_crit ps crit) d = crit.
Proof. intros. unfold diagram_crit. apply last_last. Qed.

(** ** dew_point_line's pressure stage (phase_envelope.rs:111-121): the initial temperature is taken from the
       previous equilibrium and [dew_point] at given pressure calls [expect] on it: [None] = panic *)
Variable solve_given : P -> G -> option R.
Fixpoint p_stage (g : option G) (ps : list P) : option (list R) :=
  match ps with
  | [] => Some []
  | p :: ps' =>
      match g with
      | None => None
      | Some g0 => match solve_given p g0 with
                   | Some r => option_map (cons r) (p_stage (Some (ng r)) ps')
                   | None => p_stage None ps'
                   end
      end
  end.

(** a failure at any point but the last one makes the whole call panic *)
Lemma p_stage_fail_first : forall p q ps g, solve_given p g = None -> p_stage (Some g) (p :: q :: ps) = None.
Proof. intros p q ps g H. simpl. rewrite H. reflexivity. Qed.

Lemma p_stage_all_ok : forall ps g, (forall p g', In p ps -> solve_given p g' <> None) -> p_stage (Some g) ps <> None.
Proof.
  induction ps as [|p ps IH]; intros g Hall; simpl; [discriminate|].
  destruct (solve_given p g) as [r|] eqn:E.
  - specialize (IH (ng r)). destruct (p_stage (Some (ng r)) ps); simpl; [discriminate|].
    apply IH. intros p' g' Hin. apply Hall. right. exact Hin.
  - exfalso. eapply Hall; [left; reflexivity | exact E].
Qed.

(** after the repair (fix: dew_point_line stops after a failed pressure point): no panic, the attempted points are
    the successes up to and including the first failure *)
Fixpoint p_stage_fixed (g : G) (ps : list P) : list (P * option R) :=
  match ps with
  | [] => []
  | p :: ps' => match solve_given p g with
                | Some r => (p, Some r) :: p_stage_fixed (ng r) ps'
                | None => [(p, None)]
                end
  end.

(** whenever the original loop did not panic, the repaired loop returns the same states *)
Theorem p_stage_fixed_agrees : forall ps g l, p_stage (Some g) ps = Some l ->
  fmap_opt (fun e => snd e) (p_stage_fixed g ps) = l.
Proof.
  induction ps as [|p ps IH]; intros g l H; simpl in *.
  - inversion H. reflexivity.
  - destruct (solve_given p g) as [r|] eqn:E; simpl.
    + destruct (p_stage (Some (ng r)) ps) as [l'|] eqn:E'; simpl in H; [|discriminate].
      inversion H; subst. f_equal. apply IH. exact E'.
    + destruct ps as [|q ps]; simpl in H; [inversion H; reflexivity | discriminate].
Qed.

(** only the last attempted point can be a failure; every state comes from the chain of previous results *)
Theorem p_stage_fixed_prefix : forall ps g l e, p_stage_fixed g ps = l ++ [e] ->
  Forall (fun x => snd x <> None) l.
Proof.
  induction ps as [|p ps IH]; intros g l e H; simpl in H.
  - destruct l; discriminate.
  - destruct (solve_given p g) as [r|] eqn:E.
    + destruct l as [|x l]; simpl in H.
      * constructor.
      * inversion H; subst. constructor; [simpl; discriminate|]. eapply IH; eauto.
    + destruct l as [|x l]; simpl in H; [constructor|].
      inversion H. destruct l; discriminate.
Qed.

End Loops.

(* ------------------------------------------------------------------------------------------------ *)
(** * The specification survives the guess and the continuation

    [accept p r] may (and for the tie does) include "r is AT the specified point p": same temperature, same pressure,
    same feed / specified composition.  A guess is only a start state, so every state of every diagram is at its own
    point — not at the point its guess came from. *)

Section SpecPreserved.
Variables P G R : Type.
Variable accept : P -> R -> bool.
Variable solve : P -> option G -> option R.
Variable ng : R -> G.
Variable reset : option G.

Theorem diagram_accepted :
  (forall p g r, solve p g = Some r -> accept p r = true) ->
  forall ps p r, In (p, r) (presults (run solve ng reset ps)) -> accept p r = true.
Proof.
  intros HA ps p r Hin. unfold presults in Hin. apply in_fmap_opt in Hin.
  destruct Hin as [e [Hin He]]. destruct (e_res e) as [r'|] eqn:E; [|discriminate].
  injection He as Hp Hr. subst p r'.
  apply cont_consistent in Hin. rewrite E in Hin. symmetry in Hin. eapply HA; eauto.
Qed.
End SpecPreserved.

(** instance: a flash continuation over filtered attempts — every state passed the test AT ITS OWN point *)
Theorem lle_diagram_accepted : forall (P G R : Type) (accept : P -> R -> bool)
    (raw_g : P -> G -> attempt R) (raw_0 : P -> stage -> attempt R) (ng : R -> G) ps p r,
  In (p, r) (presults (run (tp_flash (fatt_g accept raw_g) (fatt_0 accept raw_0)) ng None ps)) -> accept p r = true.
Proof.
  intros P G R accept raw_g raw_0 ng. apply diagram_accepted.
  intros p g r H. exact (proj1 (proj2 (accepted_only accept raw_g raw_0 p g r)) H).
Qed.

(** a start state that keeps the guess's point is refuted: (toy) the guessed attempt returns a result at the guess's
    point, which the acceptance test AT the requested point rejects *)
Theorem guess_point_leak_refuted :
  exists (accept : nat -> nat -> bool) (raw_g : nat -> nat -> attempt nat) (raw_0 : nat -> stage -> attempt nat) p g,
    raw_g p g = AOk g /\ accept p g = false /\
    tp_flash (fatt_g accept raw_g) (fatt_0 accept raw_0) p (Some g) = Some p.
Proof.
  exists Nat.eqb, (fun _ g => AOk g), (fun p s => match s with SStab1 => AOk p | _ => AAbsent end), 5, 3.
  repeat split.
Qed.

(* ------------------------------------------------------------------------------------------------ *)
(** * Assembly of binary diagrams (phase_diagram_binary.rs:27-116, 189-231) *)

Section Assembly.
Variable R : Type.

(** iterate_vle: first end point, converged interior points, optional second end point *)
Definition iterate_vle_states (v0 : R) (interior : list R) (v1 : option R) : list R :=
  v0 :: interior ++ match v1 with Some v => [v] | None => [] end.

(** binary_vle: the dew-line variant is reversed at the end *)
Definition binary_vle_states (bubble : bool) (v0 v1 : R) (interior : list R) : list R :=
  let s := iterate_vle_states v0 interior (Some v1) in if bubble then s else rev s.

(** calculate_vlle / PhaseDiagramHetero::vle: two branches, the second one reversed *)
Definition vlle_states (s1 s2 : list R) : list R := s1 ++ rev s2.

Theorem binary_vle_length : forall b v0 v1 i, length (binary_vle_states b v0 v1 i) = 2 + length i.
Proof.
  intros. unfold binary_vle_states, iterate_vle_states. destruct b; [|rewrite rev_length];
  simpl; rewrite app_length; simpl; lia.
Qed.

Theorem binary_vle_perm : forall b v0 v1 i, Permutation (binary_vle_states b v0 v1 i) (v0 :: i ++ [v1]).
Proof.
  intros. unfold binary_vle_states, iterate_vle_states. destruct b; auto.
  apply Permutation_sym. apply Permutation_rev.
Qed.

Theorem binary_vle_rev : forall v0 v1 i,
  binary_vle_states false v0 v1 i = v1 :: rev i ++ [v0].
Proof.
  intros. unfold binary_vle_states, iterate_vle_states. simpl.
  rewrite rev_app_distr. simpl. reflexivity.
Qed.

Theorem vlle_length : forall s1 s2, length (vlle_states s1 s2) = length s1 + length s2.
Proof. intros. unfold vlle_states. rewrite app_length, rev_length. reflexivity. Qed.

Theorem vlle_perm : forall s1 s2, Permutation (vlle_states s1 s2) (s1 ++ s2).
Proof. intros. unfold vlle_states. apply Permutation_app_head. apply Permutation_sym. apply Permutation_rev. Qed.
End Assembly.

(* ------------------------------------------------------------------------------------------------ *)
(** * Grids: linspace over Q, the temperature grid of PhaseDiagram::pure, refinement *)

Local Open Scope Q_scope.

Definition lin (a b : Q) (n : nat) (i : nat) : Q :=
  a + (b - a) * (inject_Z (Z.of_nat i) / inject_Z (Z.of_nat (n - 1))).
Definition linspace (a b : Q) (n : nat) : list Q := map (lin a b n) (seq 0 n).

(** PhaseDiagram::pure (phase_diagram_pure.rs:47-49):
    max_temperature = min + (Tc - min) (npoints-2)/(npoints-1); linspace(min, max, npoints-1) *)
Definition pure_grid (tmin tc : Q) (npoints : nat) : list Q :=
  let tmax := tmin + (tc - tmin) * (inject_Z (Z.of_nat (npoints - 2)) / inject_Z (Z.of_nat (npoints - 1))) in
  linspace tmin tmax (npoints - 1).

(** iterate_vle (phase_diagram_binary.rs:201-206): linspace(x0, x1, npoints) without its end point(s) *)
Definition vle_grid (x0 x1 : Q) (npoints : nat) (both_ends : bool) : list Q :=
  map (lin x0 x1 npoints) (seq 1 (if both_ends then npoints - 2 else npoints - 1)).

Lemma inject_nat_pos : forall n, (0 < n)%nat -> ~ inject_Z (Z.of_nat n) == 0.
Proof.
  intros n Hn H. unfold Qeq in H. simpl in H. lia.
Qed.

(** the i-th temperature of a pure diagram with n points lies on the uniform grid of n points on [tmin, Tc] *)
Theorem pure_grid_point : forall tmin tc n i, (3 <= n)%nat ->
  lin tmin (tmin + (tc - tmin) * (inject_Z (Z.of_nat (n - 2)) / inject_Z (Z.of_nat (n - 1)))) (n - 1) i
  == lin tmin tc n i.
Proof.
  intros tmin tc n i Hn. unfold lin.
  replace (n - 1 - 1)%nat with (n - 2)%nat by lia.
  assert (H1 : ~ inject_Z (Z.of_nat (n - 1)) == 0) by (apply inject_nat_pos; lia).
  assert (H2 : ~ inject_Z (Z.of_nat (n - 2)) == 0) by (apply inject_nat_pos; lia).
  field. split; assumption.
Qed.

(** refinement: a grid with k(n-1)+1 points contains the grid with n points (point i is point k i) *)
Theorem lin_refine : forall a b n k i, (2 <= n)%nat -> (1 <= k)%nat ->
  lin a b (k * (n - 1) + 1) (k * i) == lin a b n i.
Proof.
  intros a b n k i Hn Hk. unfold lin.
  rewrite Nat.add_sub.
  rewrite !Nat2Z.inj_mul, !inject_Z_mult.
  assert (H1 : ~ inject_Z (Z.of_nat (n - 1)) == 0) by (apply inject_nat_pos; lia).
  assert (H2 : ~ inject_Z (Z.of_nat k) == 0) by (apply inject_nat_pos; lia).
  field. split; assumption.
Qed.

Theorem linspace_length : forall a b n, length (linspace a b n) = n.
Proof. intros. unfold linspace. rewrite map_length, seq_length. reflexivity. Qed.
Theorem pure_grid_length : forall tmin tc n, length (pure_grid tmin tc n) = (n - 1)%nat.
Proof. intros. unfold pure_grid. apply linspace_length. Qed.

(* ------------------------------------------------------------------------------------------------ *)
(** * Instances: the feos drivers *)
Local Close Scope Q_scope.

Section Drivers.
Variables P G R : Type.
Variable att_g : P -> G -> attempt R.
Variable att_0 : P -> stage -> attempt R.
Variable ng : R -> G.

(** PhaseDiagram::pure: loop over [pure_t], continuation variable [vle : Option], critical point last *)
Definition pure_diagram (ps : list P) (crit : R) : list R :=
  diagram_crit (pure_t att_g att_0) ng None ps crit.

(** C12 for pure diagrams: under uniqueness of accepted results alone (the cascade is proved, not assumed) *)
Theorem pure_diagram_sound : H_unique_att att_g att_0 ->
  forall ps p r, In (p, r) (presults (run (pure_t att_g att_0) ng None ps)) ->
  forall r0, pure_t att_g att_0 p None = Some r0 -> r = r0.
Proof.
  intros HU. apply diagram_sound. intros p g1 g2 r1 r2. apply pure_t_unique. exact HU.
Qed.

Theorem pure_diagram_complete :
  forall ps p r0, In p ps -> pure_t att_g att_0 p None = Some r0 ->
  exists r, In (p, r) (presults (run (pure_t att_g att_0) ng None ps)).
Proof. apply diagram_complete. intros p g. apply pure_t_H_cascade. Qed.

Theorem pure_diagram_eq_standalone : H_unique_att att_g att_0 ->
  forall ps crit, H_standalone (pure_t att_g att_0) ps ->
  pure_diagram ps crit = fmap_opt (fun p => pure_t att_g att_0 p None) ps ++ [crit].
Proof.
  intros HU ps crit HS. unfold pure_diagram, diagram_crit. f_equal.
  apply diagram_eq_standalone; auto.
  - intros p g1 g2 r1 r2. apply pure_t_unique. exact HU.
  - intros p g. apply pure_t_H_cascade.
Qed.

(** PhaseDiagram::lle: loop over [tp_flash] *)
Definition lle_diagram (ps : list P) : list R := diagram (tp_flash att_g att_0) ng None ps.

Theorem lle_diagram_sound : H_unique_att att_g att_0 ->
  forall ps p r, In (p, r) (presults (run (tp_flash att_g att_0) ng None ps)) ->
  forall r0, tp_flash att_g att_0 p None = Some r0 -> r = r0.
Proof. intros HU. apply diagram_sound. intros p g1 g2 r1 r2. apply tp_flash_unique. exact HU. Qed.

(** completeness of lle needs that no supplied guess makes update_pressure fail *)
Theorem lle_diagram_complete : (forall p g, att_g p g <> AInitFail) ->
  forall ps p r0, In p ps -> tp_flash att_g att_0 p None = Some r0 ->
  exists r, In (p, r) (presults (run (tp_flash att_g att_0) ng None ps)).
Proof. intros Hprep. apply diagram_complete. intros p g. apply tp_flash_H_cascade_if_prepared. apply Hprep. Qed.

(** iterate_vle / bubble_point_line: loop over [bd_t]; [reset] = Some (tp_0, None) resp. None *)
Theorem line_sound : H_unique_att att_g att_0 ->
  forall reset ps p r, In (p, r) (presults (run (bd_t att_g att_0) ng reset ps)) ->
  forall r0, bd_t att_g att_0 p None = Some r0 -> r = r0.
Proof. intros HU reset. apply diagram_sound. intros p g1 g2 r1 r2. apply bd_t_unique. exact HU. Qed.

End Drivers.

(* ------------------------------------------------------------------------------------------------ *)
(** * Refutations of the cascade where the code has none (witnesses; toy attempts) *)

(** tp_flash: a guess whose update_pressure fails makes the call fail although the guess-free call converges *)
Theorem tp_flash_cascade_refuted :
  exists (att_g : nat -> nat -> attempt nat) (att_0 : nat -> stage -> attempt nat) p g r,
    tp_flash att_g att_0 p (Some g) = None /\ tp_flash att_g att_0 p None = Some r.
Proof.
  exists (fun _ _ => AInitFail), (fun p s => match s with SStab1 => AOk p | _ => AAbsent end), 7, 0, 7.
  split; reflexivity.
Qed.

(** bubble/dew point with a given pressure: no fallback *)
Theorem bd_t_cascade_refuted :
  exists (att_g : nat -> nat -> attempt nat) (att_0 : nat -> stage -> attempt nat) p g r,
    bd_t att_g att_0 p (Some g) = None /\ bd_t att_g att_0 p None = Some r.
Proof.
  exists (fun _ _ => AIterFail), (fun p s => match s with SIdeal => AOk p | _ => AAbsent end), 7, 0, 7.
  split; reflexivity.
Qed.

(** dew_point_line pressure stage: one failure before the last point is a panic *)
Theorem p_stage_refuted :
  exists (solve_given : nat -> nat -> option nat), p_stage (fun r => r) solve_given (Some 0) [1; 2; 3] = None
    /\ p_stage (fun r => r) solve_given (Some 0) [1; 2] = Some [1].
Proof.
  exists (fun p g => if Nat.eqb p 2 then None else Some p). split; reflexivity.
Qed.

(* ------------------------------------------------------------------------------------------------ *)
(** * Non-vacuity: a concrete toy solver *)

Module Toy.
(** points = nat; the guess-free ideal-gas start converges at even points, the spinodal start at multiples of 3,
    the guess converges iff it is at distance <= 2 (and never at point 5); all accepted results are 10 p *)
Definition att_g (p g : nat) : attempt nat :=
  if (negb (Nat.eqb p 5) && Nat.leb (p - g / 10) 2 && Nat.leb (g / 10 - p) 2)%bool then AOk (10 * p) else AIterFail.
Definition att_0 (p : nat) (s : stage) : attempt nat :=
  match s with
  | SIdeal => if Nat.even p then AOk (10 * p) else AIterFail
  | SSpin => if Nat.eqb (p mod 3) 0 then AOk (10 * p) else AInitFail
  | _ => AAbsent
  end.

Example toy_unique : H_unique_att att_g att_0.
Proof.
  intros p r1 r2 H1 H2.
  assert (Hr : forall r, (exists g, att_g p g = AOk r) \/ (exists s, att_0 p s = AOk r) -> r = 10 * p).
  { intros r [[g H] | [s H]].
    - unfold att_g in H. destruct (_ && _ && _)%bool; inversion H; auto.
    - unfold att_0 in H. destruct s; try discriminate.
      + destruct (Nat.even p); inversion H; auto.
      + destruct (Nat.eqb (p mod 3) 0); inversion H; auto. }
  rewrite (Hr r1 H1), (Hr r2 H2). reflexivity.
Qed.

(** points 1 and 5 fail stand-alone; 7 fails stand-alone but would converge from the guess of 6 — it is not in
    the list; the diagram equals the stand-alone list, forward and backward *)
Example toy_diagram :
  pure_diagram att_g att_0 (fun r => r) [1; 2; 3; 4; 5; 6] 999 = [20; 30; 40; 60; 999]
  /\ fmap_opt (fun p => pure_t att_g att_0 p None) [1; 2; 3; 4; 5; 6] = [20; 30; 40; 60]
  /\ diagram (pure_t att_g att_0) (fun r => r) None (rev [2; 3; 4; 5; 6]) = rev [20; 30; 40; 60]
  (* point 1 converges only from the guess of point 2: H_standalone fails there and the reversed diagram has one state more *)
  /\ diagram (pure_t att_g att_0) (fun r => r) None (rev [1; 2; 3; 4; 5; 6]) = [60; 40; 30; 20; 10].
Proof. vm_compute. auto. Qed.

Example toy_standalone : H_standalone (pure_t att_g att_0) [2; 3; 4; 6].
Proof.
  intros p g r Hin _. simpl in Hin.
  destruct Hin as [H | [H | [H | [H | []]]]]; subst; vm_compute; discriminate.
Qed.

(** the shape: guess origins after the failures at indices 0 and 4 are reset *)
Example toy_shape :
  shape (run (pure_t att_g att_0) (fun r => r) None [1; 2; 3; 4; 5; 6])
  = [(None, false); (None, true); (Some 1, true); (Some 2, true); (Some 3, false); (None, true)].
Proof. vm_compute. reflexivity. Qed.

(** H_standalone is needed for the equality: at point 7 only the guess converges *)
Example toy_standalone_needed :
  diagram (pure_t att_g att_0) (fun r => r) None [6; 7] = [60; 70]
  /\ fmap_opt (fun p => pure_t att_g att_0 p None) [6; 7] = [60].
Proof. vm_compute. auto. Qed.

(** a stale guess (kept across a failure) is outside the class; a guess from two points back is inside *)
Example class_examples :
  class_okb 0 0 [(None, true); (Some 0, false); (Some 0, true)] = false
  /\ class_okb 0 0 [(None, true); (Some 0, true); (Some 0, true)] = true
  /\ class_okb 0 0 [(None, true); (Some 0, false); (None, true)] = true.
Proof. vm_compute. auto. Qed.

Example toy_grid : map Qred (pure_grid 100 200 5) = [100; 125; 150; 175]%Q
  /\ map Qred (vle_grid 0 1 5 true) = [1 # 4; 1 # 2; 3 # 4]%Q
  /\ Qeq_bool (lin 100 200 9 6) (lin 100 200 5 3) = true.
Proof. vm_compute. auto. Qed.
End Toy.

(* ------------------------------------------------------------------------------------------------ *)
(** * Executable instance used by the correspondence check (coq/gen/C12/*.v)

    Points, guesses and results are indices into the point list of a driver call; the attempts are a table of the
    outcomes that the hooks observed on the real implementation.  The model then PREDICTS, from that failure
    pattern alone: which guess (origin) every point receives, which cascade stages run in which order, which points
    end up in the diagram and in which order.  Stages that always exist default to [AIterFail] when the table has
    no entry, so that a stage the model runs but the code did not (or vice versa) shows up as a difference. *)

Module Tie.

Definition stage_code (s : stage) : nat :=
  match s with SGuess => 0 | SGiven => 1 | SIdeal => 2 | SSpin => 3 | SStab1 => 4 | SStab2 => 5 end.
Definition ocode_code (o : ocode) : nat := match o with OInitFail => 0 | OIterFail => 1 | OOk => 2 end.

(** table entries: (point, stage code, outcome code) *)
Definition tab := list (nat * nat * nat).

Fixpoint lookup (t : tab) (p s : nat) : option nat :=
  match t with
  | [] => None
  | (q, s', c) :: t' => if ((q =? p) && (s' =? s))%bool then Some c else lookup t' p s
  end.

Definition att_of (t : tab) (p : nat) (s : stage) : attempt nat :=
  match lookup t p (stage_code s) with
  | Some 0 => AInitFail
  | Some 1 => AIterFail
  | Some 2 => AOk p
  | Some _ => AAbsent
  | None => match s with SStab2 => AAbsent | _ => AIterFail end
  end.

Inductive kind := KPure | KFlash | KBd.

Definition att_g (k : kind) (t : tab) (p : nat) (_ : nat) : attempt nat :=
  att_of t p (match k with KBd => SGiven | _ => SGuess end).
Definition att_0 (t : tab) (p : nat) (s : stage) : attempt nat := att_of t p s.

Definition solver_log (k : kind) (t : tab) (p : nat) (g : option nat) : list (stage * ocode) * option nat :=
  match k with
  | KPure => pure_t_log (att_g k t) (att_0 t) p g
  | KFlash => tp_flash_log (att_g k t) (att_0 t) p g
  | KBd => bd_t_log (att_g k t) (att_0 t) p g
  end.
Definition solver (k : kind) (t : tab) (p : nat) (g : option nat) : option nat := snd (solver_log k t p g).

Lemma solver_pure : forall t p g, solver KPure t p g = pure_t (att_g KPure t) (att_0 t) p g.
Proof. reflexivity. Qed.
Lemma solver_flash : forall t p g, solver KFlash t p g = tp_flash (att_g KFlash t) (att_0 t) p g.
Proof. reflexivity. Qed.
Lemma solver_bd : forall t p g, solver KBd t p g = bd_t (att_g KBd t) (att_0 t) p g.
Proof. reflexivity. Qed.

Definition code_log (l : list (stage * ocode)) : list (nat * nat) :=
  map (fun so => (stage_code (fst so), ocode_code (snd so))) l.

(** one call: (stage log, converged?) *)
Definition call (k : kind) (t : tab) (has_guess : bool) : list (nat * nat) * bool :=
  let r := solver_log k t 0 (if has_guess then Some 0 else None) in
  (code_log (fst r), match snd r with Some _ => true | None => false end).

(** a continuation loop over [n] points; [reset_given] = the continuation variables start from (and are reset to)
    an initial value that is itself a guess (iterate_vle's tp_0) rather than to "no guess".
    Output per point: (origin of the guess: 0 = reset value, j+1 = result of point j; stage log; converged?) *)
Definition loop (k : kind) (t : tab) (reset_given : bool) (n : nat)
  : list (nat * list (nat * nat) * bool) * list nat :=
  let evs := run (solver k t) (fun r => r) (if reset_given then Some 0 else None) (seq 0 n) in
  (map (fun e => (match e_origin e with Some j => S j | None => 0 end,
                  code_log (fst (solver_log k t (e_pt e) (e_guess e))),
                  match e_res e with Some _ => true | None => false end)) evs,
   results evs).

(** the pressure stage of dew_point_line after the repair: per attempted point (origin, converged?), and the states.
    origin 0 = the last state of the temperature stage, j+1 = pressure point j *)
Definition pstage (t : tab) (n : nat) : list (nat * bool) * list nat :=
  let evs := p_stage_fixed (fun r : nat => r) (fun p (_ : nat) => match att_of t p SGiven with AOk r => Some r | _ => None end) 0 (seq 0 n) in
  (map (fun e => (fst e, match snd e with Some _ => true | None => false end)) evs, fmap_opt (fun e => snd e) evs).

(** State::critical_point without initial temperature: which of the trial temperatures (0 = 300 K, 1 = 700 K,
    2 = 500 K) supplies the result, given which of the three guessed calls return an accepted result *)
Definition crit_first (ok300 ok700 ok500 : bool) : option nat :=
  crit (fun _ _ => true) (fun (_ _ : nat) => @AIterFail nat)
       (fun _ s => match s with
                   | SIdeal => if ok300 then AOk 0 else AIterFail
                   | SSpin => if ok700 then AOk 1 else AIterFail
                   | SStab1 => if ok500 then AOk 2 else AIterFail
                   | _ => AAbsent
                   end) 0 (@None nat).

(** assembly of a binary diagram from the interior results; end points are numbered 2000 and 2001 *)
Definition binary (bubble : bool) (interior : list nat) : list nat :=
  binary_vle_states bubble 2000 2001 interior.
Definition vlle (int1 int2 : list nat) : list nat :=
  vlle_states (iterate_vle_states 2000 int1 None) (iterate_vle_states 2001 (map (fun i => 1000 + i) int2) None).

(** the class test on an observed shape: (origin code as above, converged?) *)
Definition class_ok (sh : list (nat * bool)) : bool :=
  class_okb 0 0 (map (fun ob => (match fst ob with 0 => None | S j => Some j end, snd ob)) sh).

Example tie_demo :
  loop KPure [(0, 2, 1); (0, 3, 0); (1, 2, 2); (2, 0, 2); (3, 0, 1); (3, 2, 2)] false 4
  = ([(0, [(2, 1); (3, 0)], false); (0, [(2, 2)], true); (2, [(0, 2)], true); (3, [(0, 1); (2, 2)], true)], [1; 2; 3])
  /\ loop KBd [(0, 1, 2); (1, 1, 1); (2, 1, 2)] true 3
  = ([(0, [(1, 2)], true); (1, [(1, 1)], false); (0, [(1, 2)], true)], [0; 2])
  /\ call KFlash [(0, 0, 0); (0, 4, 2)] true = ([(0, 0)], false)
  /\ call KFlash [(0, 0, 1); (0, 4, 1)] true = ([(0, 1); (4, 1)], false)
  /\ pstage [(0, 1, 2); (1, 1, 2); (2, 1, 1); (3, 1, 2)] 4 = ([(0, true); (1, true); (2, false)], [0; 1])
  /\ crit_first false true true = Some 1 /\ crit_first false false false = None
  /\ binary false [0; 2] = [2001; 2; 0; 2000]
  /\ vlle [0; 1] [0; 2] = [2000; 0; 1; 1002; 1000; 2001].
Proof. vm_compute. repeat split. Qed.

End Tie.
