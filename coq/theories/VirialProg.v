(** * VirialProg: the limit theorem of [Virial.v] instantiated on a traced program.
    For a program [P] with [n] inputs, a point [a] and a direction [e] (the density axis), the functions
      g(t)  = output 0 of P            at a + t e
      g1(t) = output 0 of tan_outs P   at (a + t e) ++ e
      c     = output 0 of tan_outs^2 P at (a ++ e) ++ (e ++ 0)
    satisfy the hypotheses of [virial_limit] as soon as the first derivative program is defined on a
    neighbourhood (established per program by one interval evaluation over a box, [evalIB_box_wf]) and the
    second one is defined at the point. *)
From Coq Require Import Reals List ZArith Lia Lra.
From Interval Require Import Real.Xreal Real.Xreal_derive Eval.Prog Eval.Tree Eval.Eval.
From FeosVerif Require Import ProgSem AD Virial.
Import ListNotations.
Local Open Scope R_scope.

Definition projR (x : ExtendedR) : R := match x with Xreal y => y | Xnan => 0 end.

Lemma line_pt_app a e a' e' t : length a = length e ->
  line_pt (a ++ a') (e ++ e') t = line_pt a e t ++ line_pt a' e' t.
Proof.
  intros H. unfold line_pt.
  assert (E : forall (l1 m1 l2 m2 : list R), length l1 = length m1 -> combine (l1 ++ l2) (m1 ++ m2) = combine l1 m1 ++ combine l2 m2).
  { induction l1 as [|x l1 IH]; intros [|y m1] l2 m2; cbn; try discriminate; auto. intros Hl. f_equal. apply IH. lia. }
  rewrite E by exact H. apply map_app.
Qed.

Lemma line_pt_zero_dir a t : line_pt a (map (fun _ => 0) a) t = a.
Proof. unfold line_pt. induction a as [|x a IH]; cbn; [reflexivity|]. f_equal; [ring|exact IH]. Qed.

Section Prog.
Variables (P : list term) (n : nat) (a e : list R) (d0 : R).
Hypothesis Ha : length a = n.
Hypothesis He : length e = n.
Hypothesis Hpos : (0 < length P + n)%nat.
Hypothesis Hs : wscoped P n = true.
Let D1 := tan_outs P n [0%nat].
Hypothesis Hs1 : wscoped D1 (2 * n)%nat = true.
Hypothesis Hpos1 : (0 < length D1 + 2 * n)%nat.
Let D2 := tan_outs D1 (2 * n)%nat [0%nat].

Definition vp_g (t : R) : R := projR (nth 0 (eval_ext P (map Xreal (line_pt a e t))) Xnan).
Definition vp_g1 (t : R) : R := projR (nth 0 (eval_ext D1 (map Xreal (line_pt a e t ++ e))) Xnan).
Definition vp_c : R := projR (nth 0 (eval_ext D2 (map Xreal ((a ++ e) ++ (e ++ map (fun _ => 0) e)))) Xnan).

Hypothesis Hd0 : 0 < d0.
(** the first derivative program is defined on the whole neighbourhood *)
Hypothesis Hdef1 : forall t, Rabs t < d0 -> nth 0 (eval_ext D1 (map Xreal (line_pt a e t ++ e))) Xnan <> Xnan.
(** the second derivative program is defined at the point *)
Hypothesis Hdef2 : nth 0 (eval_ext D2 (map Xreal ((a ++ e) ++ (e ++ map (fun _ => 0) e)))) Xnan <> Xnan.

Lemma vp_first : forall t, Rabs t < d0 -> derivable_pt_lim vp_g t (vp_g1 t).
Proof.
  intros t Ht. specialize (Hdef1 t Ht).
  destruct (nth 0 (eval_ext D1 (map Xreal (line_pt a e t ++ e))) Xnan) as [|d] eqn:E; [contradiction|].
  pose proof (tan_line_real P n [0%nat] a e t 0%nat d Ha He Hs) as H.
  cbn [length nth Nat.sub] in H. fold D1 in H.
  specialize (H ltac:(intros k [<-|[]]; exact Hpos) ltac:(lia) E 0).
  unfold vp_g1. rewrite E. cbn [projR]. exact H.
Qed.

Lemma vp_second : derivable_pt_lim vp_g1 0 vp_c.
Proof.
  unfold vp_c.
  destruct (nth 0 (eval_ext D2 (map Xreal ((a ++ e) ++ (e ++ map (fun _ => 0) e)))) Xnan) as [|d] eqn:E; [contradiction|].
  cbn [projR].
  assert (Hl : length (a ++ e) = (2 * n)%nat) by (rewrite app_length; lia).
  assert (Hl' : length (e ++ map (fun _ => 0) e) = (2 * n)%nat) by (rewrite app_length, map_length; lia).
  assert (Hline : forall t, line_pt (a ++ e) (e ++ map (fun _ => 0) e) t = line_pt a e t ++ e).
  { intros t. rewrite line_pt_app by lia. now rewrite line_pt_zero_dir. }
  pose proof (tan_line_real D1 (2 * n)%nat [0%nat] (a ++ e) (e ++ map (fun _ => 0) e) 0 0%nat d Hl Hl' Hs1) as H.
  cbn [length nth Nat.sub] in H. fold D2 in H.
  rewrite Hline in H.
  assert (Hl0 : line_pt a e 0 = a).
  { assert (G : forall (l m : list R), length l = length m -> line_pt l m 0 = l).
    { induction l as [|x l IH]; intros [|y m] Hlm; cbn in *; try reflexivity; try discriminate.
      unfold line_pt in *. cbn. f_equal; [ring|]. apply IH. lia. }
    apply G. lia. }
  rewrite Hl0 in H.
  specialize (H ltac:(intros k [<-|[]]; exact Hpos1) ltac:(lia) E 0).
  eapply derivable_pt_lim_ext; [|exact H]. intros t. cbn beta. rewrite Hline. reflexivity.
Qed.

(** the second-virial limit for the program: if moreover g(0) = g'(0) = 0 (zero residual Helmholtz energy and
    zero residual pressure-like term at zero density), (t g1(t) - g(t))/t^2 -> c/2 *)
Theorem virial_program : vp_g 0 = 0 -> vp_g1 0 = 0 ->
  forall eps, 0 < eps -> exists delta, 0 < delta /\
    forall rho, rho <> 0 -> Rabs rho < delta ->
      Rabs ((rho * vp_g1 rho - vp_g rho) / rho ^ 2 - vp_c / 2) < eps.
Proof.
  intros H0 H1. apply (virial_limit vp_g vp_g1 vp_c d0 Hd0 vp_first vp_second H0 H1).
Qed.
End Prog.
