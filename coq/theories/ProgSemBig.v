(** * ProgSemBig: the verified interval evaluator of [ProgSem] instantiated with Interval's
    multi-precision floating-point backend (bigint mantissas), for enclosures of derivative
    programs where 53 bits lose too much to cancellation.  Results are exported as exact dyadic
    bounds [(m_lo, e_lo, m_hi, e_hi)] so that the comparator can read them without rounding. *)
From Coq Require Import Reals List ZArith Lia Lra.
From Bignums Require Import BigZ.
From Interval Require Import Float.Basic Float.Specific_ops Float.Specific_bigint Interval.Interval Interval.Float_full.
From Interval Require Import Eval.Prog Eval.Tree Real.Xreal Eval.Eval.
From FeosVerif Require Import ProgSem.
Import ListNotations.

Module FB := SpecificFloat BigIntRadix2.
Module IB := FloatIntervalFull FB.
Module AB := IntervalAlgos IB.

Definition prec_of (p : Z) : IB.precision := FB.PtoP (Z.to_pos p).

Definition dy_IB (prec : IB.precision) (me : Z * Z) : IB.type :=
  IB.mul prec (IB.fromZ prec (fst me)) (IB.power_int prec (IB.fromZ prec 2) (snd me)).

Lemma dy_IB_correct prec me : contains (IB.convert (dy_IB prec me)) (Xreal (dy_R me)).
Proof.
  unfold dy_IB, dy_R.
  change (Xreal (IZR (fst me) * powerRZ 2 (snd me))) with (Xmul (Xreal (IZR (fst me))) (Xreal (powerRZ 2 (snd me)))).
  apply IB.mul_correct.
  - apply IB.fromZ_correct.
  - rewrite <- Xpower_int_2. apply IB.power_int_correct. apply (IB.fromZ_correct prec 2).
Qed.

Definition inputs_IB (prec : IB.precision) (l : list (Z * Z)) : list IB.type := map (dy_IB prec) l.

Lemma inputs_containsB prec l : AB.contains_all (inputs_IB prec l) (inputs_R l).
Proof.
  split.
  - unfold inputs_IB, inputs_R. now rewrite !map_length.
  - intros n. unfold inputs_IB, inputs_R.
    destruct (Nat.lt_ge_cases n (length l)) as [Hn|Hn].
    + rewrite (nth_indep _ IB.nai (dy_IB prec (0,0)%Z)) by now rewrite map_length.
      rewrite (nth_indep _ 0%R (dy_R (0,0)%Z)) by now rewrite map_length.
      rewrite !map_nth. apply dy_IB_correct.
    + rewrite nth_overflow by now rewrite map_length.
      now rewrite IB.nai_correct.
Qed.

Definition evalIB (prec : Z) (P : list term) (inp : list (Z * Z)) : list IB.type :=
  AB.BndValuator.eval (prec_of prec) P (inputs_IB (prec_of prec) inp).

Theorem evalIB_correct prec P inp k :
  contains (IB.convert (nth k (evalIB prec P inp) IB.nai)) (out_ext P (inputs_R inp) k).
Proof. apply AB.BndValuator.eval_correct, inputs_containsB. Qed.

Definition is_bndB (i : IB.type) : bool :=
  match i with Float.Ibnd _ _ => true | _ => false end.

Lemma is_bndB_not_nan i x : is_bndB i = true -> contains (IB.convert i) x -> x <> Xnan.
Proof.
  destruct i as [|l u]; [discriminate|]. intros _ H Hx. subst x.
  unfold IB.convert in H. destruct (IB.F.valid_lb l && IB.F.valid_ub u)%bool; exact H.
Qed.

Theorem evalIB_wf prec P inp k :
  is_bndB (nth k (evalIB prec P inp) IB.nai) = true -> wf P (inputs_R inp) k.
Proof. intros H. eapply is_bndB_not_nan; [exact H|apply evalIB_correct]. Qed.

(** export of an enclosure as exact dyadic bounds: [Some (ml, el, mu, eu)] means [ml*2^el, mu*2^eu];
    an infinite/NaN bound is exported as [None] *)
Definition fb_out (x : FB.type) : option (Z * Z) :=
  match FB.toF x with
  | Basic.Float s m e => Some ((if s then Zneg m else Zpos m), e)
  | Basic.Fzero => Some (0, 0)%Z
  | Basic.Fnan => None
  end.
Definition ib_out (i : IB.type) : option (Z * Z * (Z * Z)) :=
  match i with
  | Float.Ibnd l u => match fb_out l, fb_out u with Some a, Some b => Some (a, b) | _, _ => None end
  | Float.Inan => None
  end.
