(** * VirialProg3: the third-virial limit of [Virial.v] ([virial_limit3]) instantiated on a traced program.
    With g, g1 as in [VirialProg.v] and
      g2(t) = output 0 of tan_outs^2 P  at ((a + t e) ++ e) ++ (e ++ 0)
      k     = output 0 of tan_outs^3 P  at (((a ++ e) ++ (e ++ 0)) ++ ((e ++ 0) ++ (0 ++ 0)))
    the hypotheses of [virial_limit3] hold as soon as the first AND the second derivative programs are defined on a
    neighbourhood (two interval evaluations over a box) and the third one is defined at the point. *)
From Coq Require Import Reals List ZArith Lia Lra.
From Interval Require Import Real.Xreal Real.Xreal_derive Eval.Prog Eval.Tree Eval.Eval.
From FeosVerif Require Import ProgSem AD Virial VirialProg.
Import ListNotations.
Local Open Scope R_scope.

Section Prog3.
Variables (P : list term) (n : nat) (a e : list R) (d0 : R).
Hypothesis Ha : length a = n.
Hypothesis He : length e = n.
Hypothesis Hpos : (0 < length P + n)%nat.
Hypothesis Hs : wscoped P n = true.
Let D1 := tan_outs P n [0%nat].
Hypothesis Hs1 : wscoped D1 (2 * n)%nat = true.
Hypothesis Hpos1 : (0 < length D1 + 2 * n)%nat.
Let D2 := tan_outs D1 (2 * n)%nat [0%nat].
Hypothesis Hs2 : wscoped D2 (4 * n)%nat = true.
Hypothesis Hpos2 : (0 < length D2 + 4 * n)%nat.
Let D3 := tan_outs D2 (4 * n)%nat [0%nat].
Let z := map (fun _ : R => 0) e.

Definition vp_g2 (t : R) : R := projR (nth 0 (eval_ext D2 (map Xreal ((line_pt a e t ++ e) ++ (e ++ z)))) Xnan).
Definition vp_k : R :=
  projR (nth 0 (eval_ext D3 (map Xreal (((a ++ e) ++ (e ++ z)) ++ ((e ++ z) ++ (z ++ z))))) Xnan).

Hypothesis Hd0 : 0 < d0.
Hypothesis Hdef1 : forall t, Rabs t < d0 -> nth 0 (eval_ext D1 (map Xreal (line_pt a e t ++ e))) Xnan <> Xnan.
Hypothesis Hdef2 : forall t, Rabs t < d0 -> nth 0 (eval_ext D2 (map Xreal ((line_pt a e t ++ e) ++ (e ++ z)))) Xnan <> Xnan.
Hypothesis Hdef3 : nth 0 (eval_ext D3 (map Xreal (((a ++ e) ++ (e ++ z)) ++ ((e ++ z) ++ (z ++ z))))) Xnan <> Xnan.

Lemma lz : length z = n. Proof. unfold z. now rewrite map_length. Qed.

Lemma line2 t : line_pt (a ++ e) (e ++ z) t = line_pt a e t ++ e.
Proof. rewrite line_pt_app by lia. unfold z. now rewrite line_pt_zero_dir. Qed.

Lemma line_zero (l : list R) t : line_pt l (map (fun _ => 0) l) t = l.
Proof. apply line_pt_zero_dir. Qed.

Lemma zeros_eq (l m : list R) : length l = length m -> map (fun _ : R => 0) l = map (fun _ : R => 0) m.
Proof. revert m. induction l as [|x l IH]; intros [|y m]; cbn; try discriminate; auto. intros H. f_equal. apply IH. lia. Qed.

Lemma line3 t : line_pt ((a ++ e) ++ (e ++ z)) ((e ++ z) ++ (z ++ z)) t = (line_pt a e t ++ e) ++ (e ++ z).
Proof.
  pose proof lz as Hz.
  rewrite line_pt_app by (rewrite !app_length; lia). rewrite line2. f_equal.
  replace (z ++ z) with (map (fun _ : R => 0) (e ++ z)).
  - apply line_zero.
  - rewrite map_app. unfold z. rewrite map_map. reflexivity.
Qed.

Lemma line_at0 : line_pt a e 0 = a.
Proof.
  assert (G : forall (l m : list R), length l = length m -> line_pt l m 0 = l).
  { induction l as [|x l IH]; intros [|y m] Hlm; cbn in *; try reflexivity; try discriminate.
    unfold line_pt in *. cbn. f_equal; [ring|]. apply IH. lia. }
  apply G. lia.
Qed.

Lemma vp3_first : forall t, Rabs t < d0 -> derivable_pt_lim (vp_g P a e) t (vp_g1 P n a e t).
Proof. intros t Ht. eapply vp_first; eauto. Qed.

Lemma vp3_second : forall t, Rabs t < d0 -> derivable_pt_lim (vp_g1 P n a e) t (vp_g2 t).
Proof.
  intros t Ht. specialize (Hdef2 t Ht). unfold vp_g2.
  destruct (nth 0 (eval_ext D2 (map Xreal ((line_pt a e t ++ e) ++ (e ++ z)))) Xnan) as [|d] eqn:E; [contradiction|].
  cbn [projR]. pose proof lz as Hz.
  assert (Hl : length (a ++ e) = (2 * n)%nat) by (rewrite app_length; lia).
  assert (Hl' : length (e ++ z) = (2 * n)%nat) by (rewrite app_length; lia).
  pose proof (tan_line_real D1 (2 * n)%nat [0%nat] (a ++ e) (e ++ z) t 0%nat d Hl Hl' Hs1) as H.
  cbn [length nth Nat.sub] in H. fold D2 in H. rewrite line2 in H.
  specialize (H ltac:(intros j [<-|[]]; exact Hpos1) ltac:(lia) E 0).
  eapply derivable_pt_lim_ext; [|exact H]. intros s. cbn beta. rewrite line2. reflexivity.
Qed.

Lemma vp3_third : derivable_pt_lim vp_g2 0 vp_k.
Proof.
  unfold vp_k.
  destruct (nth 0 (eval_ext D3 (map Xreal (((a ++ e) ++ (e ++ z)) ++ ((e ++ z) ++ (z ++ z))))) Xnan) as [|d] eqn:E; [contradiction|].
  cbn [projR]. pose proof lz as Hz.
  assert (Hl : length ((a ++ e) ++ (e ++ z)) = (4 * n)%nat) by (rewrite !app_length; lia).
  assert (Hl' : length ((e ++ z) ++ (z ++ z)) = (4 * n)%nat) by (rewrite !app_length; lia).
  pose proof (tan_line_real D2 (4 * n)%nat [0%nat] ((a ++ e) ++ (e ++ z)) ((e ++ z) ++ (z ++ z)) 0 0%nat d Hl Hl' Hs2) as H.
  cbn [length nth Nat.sub] in H. fold D3 in H. rewrite line3, line_at0 in H.
  specialize (H ltac:(intros j [<-|[]]; exact Hpos2) ltac:(lia) E 0).
  eapply derivable_pt_lim_ext; [|exact H]. intros s. cbn beta. unfold vp_g2. rewrite line3. reflexivity.
Qed.

(** the third-virial limit for the program: with B = g''(0)/2, ((rho g1 - g)/rho^2 - B)/rho -> g'''(0)/3 *)
Theorem virial_program3 : vp_g P a e 0 = 0 -> vp_g1 P n a e 0 = 0 ->
  forall eps, 0 < eps -> exists delta, 0 < delta /\
    forall rho, rho <> 0 -> Rabs rho < delta ->
      Rabs (((rho * vp_g1 P n a e rho - vp_g P a e rho) / rho ^ 2 - vp_g2 0 / 2) / rho - vp_k / 3) < eps.
Proof.
  intros H0 H1. apply (virial_limit3 (vp_g P a e) (vp_g1 P n a e) vp_g2 vp_k d0 Hd0 vp3_first vp3_second vp3_third H0 H1).
Qed.
End Prog3.
