(** * AxisEvalC16: evaluation forms of the axis model of [AxisC16] with binary integers.

    The model of [AxisC16] is indexed by unary [nat]; the correspondence goals regenerated on every run
    (coq/gen/C16/*.v) evaluate it with the [interval] tactic for grid sizes up to 4096, which needs [IZR] of
    binary literals.  Every function below is proved equal to the corresponding field of
    [new_cartesian] / [new_spherical] / [new_polar] for all n, k; the generated goals are stated with these
    functions, so they are goals about the model. *)
From Coq Require Import Reals List Lia Lra Arith ZArith.
From Interval Require Import Tactic.
From FeosVerif Require Import AxisC16.
Open Scope R_scope.

Lemma INR_Z n : INR n = IZR (Z.of_nat n).
Proof. apply INR_IZR_INZ. Qed.

(** ** linspace *)

Definition lin_Z (a b : R) (n k : Z) : R :=
  a + (if (1 <? n)%Z then (b - a) / IZR (n - 1) else 0) * IZR k.

Lemma linspace_Z a b n k : linspace a b n k = lin_Z a b (Z.of_nat n) (Z.of_nat k).
Proof.
  unfold linspace, lin_Z.
  destruct (1 <? n)%nat eqn:E.
  - apply Nat.ltb_lt in E. replace (1 <? Z.of_nat n)%Z with true by (symmetry; apply Z.ltb_lt; lia).
    rewrite !INR_Z. replace (Z.of_nat (n - 1)) with (Z.of_nat n - 1)%Z by lia. reflexivity.
  - apply Nat.ltb_ge in E. replace (1 <? Z.of_nat n)%Z with false by (symmetry; apply Z.ltb_ge; lia).
    now rewrite INR_Z.
Qed.

(** ** Cartesian axis *)

Definition cart_grid_Z (n : Z) (len off : R) (k : Z) : R :=
  lin_Z (1 / 2 * ((len + off) / IZR n)) (len + off - 1 / 2 * ((len + off) / IZR n)) n k.
Definition cart_edge_Z (n : Z) (len off : R) (k : Z) : R := lin_Z 0 (len + off) (n + 1) k.
Definition cart_weight_Z (n : Z) (len off : R) : R := (len + off) / IZR n.
(** [Axis::volume] and [Axis::length] read the edges *)
Definition cart_volume_Z (n : Z) (len off : R) : R :=
  1 * (cart_edge_Z n len off n - off - cart_edge_Z n len off 0) ^ 1.
Definition cart_length_Z (n : Z) (len off : R) : R := cart_edge_Z n len off n - cart_edge_Z n len off 0.

Lemma cart_grid_eval n len off k :
  ax_grid (new_cartesian n len off) k = cart_grid_Z (Z.of_nat n) len off (Z.of_nat k).
Proof. cbn. rewrite linspace_Z, INR_Z. reflexivity. Qed.

Lemma cart_edge_eval n len off k :
  ax_edges (new_cartesian n len off) k = cart_edge_Z (Z.of_nat n) len off (Z.of_nat k).
Proof. cbn. rewrite linspace_Z. unfold cart_edge_Z. replace (Z.of_nat (n + 1)) with (Z.of_nat n + 1)%Z by lia. reflexivity. Qed.

Lemma cart_weight_eval n len off k :
  ax_weights (new_cartesian n len off) k = cart_weight_Z (Z.of_nat n) len off.
Proof. cbn. now rewrite INR_Z. Qed.

Lemma cart_volume_eval n len off :
  axis_volume (new_cartesian n len off) = cart_volume_Z (Z.of_nat n) len off.
Proof.
  unfold axis_volume, axis_volume_with, cart_volume_Z. rewrite !cart_edge_eval. reflexivity.
Qed.

Lemma cart_length_eval n len off :
  axis_length (new_cartesian n len off) = cart_length_Z (Z.of_nat n) len off.
Proof. unfold axis_length, cart_length_Z. rewrite !cart_edge_eval. reflexivity. Qed.

(** ** Spherical axis *)

Definition sph_grid_Z (n : Z) (l : R) (k : Z) : R :=
  lin_Z (1 / 2 * (l / IZR n)) (l - 1 / 2 * (l / IZR n)) n k.
Definition sph_edge_Z (n : Z) (l : R) (k : Z) : R := lin_Z 0 l (n + 1) k.
Definition sph_weight_Z (n : Z) (l : R) (k : Z) : R :=
  4 * (PI / 3) * (l / IZR n) ^ 3 * IZR (3 * k * k + 3 * k + 1).
Definition sph_volume_Z (n : Z) (l : R) : R :=
  4 * (PI / 3) * (sph_edge_Z n l n - 0 - sph_edge_Z n l 0) ^ 3.
Definition sph_length_Z (n : Z) (l : R) : R := sph_edge_Z n l n - sph_edge_Z n l 0.

Lemma sph_grid_eval n l k : ax_grid (new_spherical n l) k = sph_grid_Z (Z.of_nat n) l (Z.of_nat k).
Proof. cbn. rewrite linspace_Z, INR_Z. reflexivity. Qed.

Lemma sph_edge_eval n l k : ax_edges (new_spherical n l) k = sph_edge_Z (Z.of_nat n) l (Z.of_nat k).
Proof. cbn. rewrite linspace_Z. unfold sph_edge_Z. replace (Z.of_nat (n + 1)) with (Z.of_nat n + 1)%Z by lia. reflexivity. Qed.

Lemma sph_weight_eval n l k : ax_weights (new_spherical n l) k = sph_weight_Z (Z.of_nat n) l (Z.of_nat k).
Proof.
  cbn [ax_weights new_spherical]. unfold sph_weight_Z. rewrite !INR_Z.
  replace (Z.of_nat (3 * k * k + 3 * k + 1)) with (3 * Z.of_nat k * Z.of_nat k + 3 * Z.of_nat k + 1)%Z by lia.
  reflexivity.
Qed.

Lemma sph_volume_eval n l : axis_volume (new_spherical n l) = sph_volume_Z (Z.of_nat n) l.
Proof. unfold axis_volume, axis_volume_with, sph_volume_Z. rewrite !sph_edge_eval. reflexivity. Qed.

Lemma sph_length_eval n l : axis_length (new_spherical n l) = sph_length_Z (Z.of_nat n) l.
Proof. unfold axis_length, sph_length_Z. rewrite !sph_edge_eval. reflexivity. Qed.

(** ** Polar axis *)

Definition alpha_step_Z (nm1 : Z) (a : R) : R := - ln (1 - exp (- a)) / IZR nm1.

Fixpoint iter_alpha_Z (nm1 : Z) (steps : nat) (a : R) : R :=
  match steps with O => a | S s => iter_alpha_Z nm1 s (alpha_step_Z nm1 a) end.

Definition polar_alpha_Z (n : Z) : R := iter_alpha_Z (n - 1) 20 (2 / 1000).

Lemma iter_alpha_eval n steps a : (1 <= n)%nat ->
  iter_alpha n steps a = iter_alpha_Z (Z.of_nat n - 1) steps a.
Proof.
  intros Hn. revert a. induction steps as [|s IH]; intros a; cbn; [reflexivity|].
  rewrite IH. f_equal. unfold alpha_step, alpha_step_Z. rewrite INR_Z.
  replace (Z.of_nat (n - 1)) with (Z.of_nat n - 1)%Z by lia. reflexivity.
Qed.

Lemma polar_alpha_eval n : (1 <= n)%nat -> polar_alpha n = polar_alpha_Z (Z.of_nat n).
Proof. intros. unfold polar_alpha, polar_alpha_Z. now apply iter_alpha_eval. Qed.

Definition polar_grid_Z (n : Z) (l a : R) (k : Z) : R :=
  l * (1 / 2 * (exp (- a * IZR n) + exp (- a * IZR (n - 1)))) * exp (a * IZR k).
(** edge k for k >= 1 (edge 0 is the literal 0) *)
Definition polar_edge_Z (n : Z) (l a : R) (k : Z) : R := l * exp (- a * IZR (n - k)).
Definition polar_scale_Z (n : Z) (l a : R) : R := exp (- 2 * a * IZR n) * PI * l * l.
Definition polar_w0_Z (n : Z) (l a : R) : R := polar_k0 a * exp (2 * a) * polar_scale_Z n l a.
Definition polar_w1_Z (n : Z) (l a : R) : R := (exp (2 * a) - polar_k0 a) * exp (2 * a) * polar_scale_Z n l a.
Definition polar_wk_Z (n : Z) (l a : R) (k : Z) : R :=
  exp (2 * a * IZR k) * (exp (2 * a) - 1) * polar_scale_Z n l a.
Definition polar_volume_Z (n : Z) (l a : R) : R := PI * (polar_edge_Z n l a n - 0 - 0) ^ 2.
Definition polar_length_Z (n : Z) (l a : R) : R := polar_edge_Z n l a n - 0.

Lemma polar_grid_eval n l a k : (1 <= n)%nat ->
  ax_grid (new_polar_with n l a) k = polar_grid_Z (Z.of_nat n) l a (Z.of_nat k).
Proof.
  intros Hn. cbn [ax_grid new_polar_with]. unfold polar_x0, polar_grid_Z. rewrite !INR_Z.
  replace (Z.of_nat (n - 1)) with (Z.of_nat n - 1)%Z by lia. reflexivity.
Qed.

Lemma polar_edge0_eval n l a : ax_edges (new_polar_with n l a) 0 = 0.
Proof. reflexivity. Qed.

Lemma polar_edge_eval n l a k : (1 <= k)%nat -> (k <= n)%nat ->
  ax_edges (new_polar_with n l a) k = polar_edge_Z (Z.of_nat n) l a (Z.of_nat k).
Proof.
  intros Hk Hn. cbn [ax_edges new_polar_with]. destruct k as [|k]; [lia|]. unfold polar_edge_Z. rewrite INR_Z.
  replace (Z.of_nat (n - S k)) with (Z.of_nat n - Z.of_nat (S k))%Z by lia. reflexivity.
Qed.

Lemma polar_w0_eval n l a : ax_weights (new_polar_with n l a) 0 = polar_w0_Z (Z.of_nat n) l a.
Proof. cbn [ax_weights new_polar_with]. unfold polar_weight, polar_w0_Z, polar_scale_Z. now rewrite INR_Z. Qed.

Lemma polar_w1_eval n l a : ax_weights (new_polar_with n l a) 1 = polar_w1_Z (Z.of_nat n) l a.
Proof. cbn [ax_weights new_polar_with]. unfold polar_weight, polar_w1_Z, polar_scale_Z. now rewrite INR_Z. Qed.

Lemma polar_wk_eval n l a k : (2 <= k)%nat ->
  ax_weights (new_polar_with n l a) k = polar_wk_Z (Z.of_nat n) l a (Z.of_nat k).
Proof.
  intros Hk. destruct k as [|[|k]]; try lia.
  cbn [ax_weights new_polar_with]. unfold polar_weight, polar_wk_Z, polar_scale_Z. now rewrite !INR_Z.
Qed.

Lemma polar_volume_eval n l a : (1 <= n)%nat ->
  axis_volume (new_polar_with n l a) = polar_volume_Z (Z.of_nat n) l a.
Proof.
  intros Hn. unfold axis_volume, axis_volume_with, polar_volume_Z.
  cbn [ax_points ax_geometry ax_offset new_polar_with dimension volume_prefactor].
  rewrite polar_edge_eval, polar_edge0_eval by lia. reflexivity.
Qed.

Lemma polar_length_eval n l a : (1 <= n)%nat ->
  axis_length (new_polar_with n l a) = polar_length_Z (Z.of_nat n) l a.
Proof.
  intros Hn. unfold axis_length, polar_length_Z. cbn [ax_points new_polar_with]. rewrite polar_edge_eval, polar_edge0_eval by lia. reflexivity.
Qed.

(** all evaluation forms at once (the statement of props/C16.v) *)
Lemma eval_forms_are_the_model :
  (forall n len off k, ax_grid (new_cartesian n len off) k = cart_grid_Z (Z.of_nat n) len off (Z.of_nat k)) /\
  (forall n len off k, ax_edges (new_cartesian n len off) k = cart_edge_Z (Z.of_nat n) len off (Z.of_nat k)) /\
  (forall n len off k, ax_weights (new_cartesian n len off) k = cart_weight_Z (Z.of_nat n) len off) /\
  (forall n len off, axis_volume (new_cartesian n len off) = cart_volume_Z (Z.of_nat n) len off) /\
  (forall n l k, ax_grid (new_spherical n l) k = sph_grid_Z (Z.of_nat n) l (Z.of_nat k)) /\
  (forall n l k, ax_edges (new_spherical n l) k = sph_edge_Z (Z.of_nat n) l (Z.of_nat k)) /\
  (forall n l k, ax_weights (new_spherical n l) k = sph_weight_Z (Z.of_nat n) l (Z.of_nat k)) /\
  (forall n l, axis_volume (new_spherical n l) = sph_volume_Z (Z.of_nat n) l) /\
  (forall n, (1 <= n)%nat -> polar_alpha n = polar_alpha_Z (Z.of_nat n)) /\
  (forall n l a k, (1 <= n)%nat -> ax_grid (new_polar_with n l a) k = polar_grid_Z (Z.of_nat n) l a (Z.of_nat k)) /\
  (forall n l a, ax_edges (new_polar_with n l a) 0 = 0) /\
  (forall n l a k, (1 <= k)%nat -> (k <= n)%nat ->
     ax_edges (new_polar_with n l a) k = polar_edge_Z (Z.of_nat n) l a (Z.of_nat k)) /\
  (forall n l a, ax_weights (new_polar_with n l a) 0 = polar_w0_Z (Z.of_nat n) l a) /\
  (forall n l a, ax_weights (new_polar_with n l a) 1 = polar_w1_Z (Z.of_nat n) l a) /\
  (forall n l a k, (2 <= k)%nat -> ax_weights (new_polar_with n l a) k = polar_wk_Z (Z.of_nat n) l a (Z.of_nat k)) /\
  (forall n l a, (1 <= n)%nat -> axis_volume (new_polar_with n l a) = polar_volume_Z (Z.of_nat n) l a).
Proof.
  repeat split; intros.
  - apply cart_grid_eval. - apply cart_edge_eval. - apply cart_weight_eval. - apply cart_volume_eval.
  - apply sph_grid_eval. - apply sph_edge_eval. - apply sph_weight_eval. - apply sph_volume_eval.
  - now apply polar_alpha_eval. - now apply polar_grid_eval. - now apply polar_edge_eval.
  - apply polar_w0_eval. - apply polar_w1_eval. - now apply polar_wk_eval. - now apply polar_volume_eval.
Qed.

(** ** Grid level: [DFTProfile::volume] of every grid type in closed form (for the correspondence goals) *)

Definition det2 (alpha : R) : R := sin alpha.
Definition det3 (alpha beta gamma : R) : R :=
  let xi := (cos alpha - cos gamma * cos beta) / sin gamma in
  sin gamma * sqrt (1 - cos beta ^ 2 - xi * xi).

Lemma det2_eval x y alpha : functional_determinant (Periodical2 x y alpha) = det2 alpha.
Proof. reflexivity. Qed.
Lemma det3_eval x y z a b c : functional_determinant (Periodical3 x y z a b c) = det3 a b c.
Proof. reflexivity. Qed.

Lemma grid_volume_cart1 n l : (1 <= n)%nat -> grid_volume (Cartesian1 (new_cartesian n l 0)) = l.
Proof. intros. unfold grid_volume. cbn [axes map fold_right functional_determinant]. rewrite cartesian_volume by lia. ring. Qed.

Lemma grid_volume_sph n l : (1 <= n)%nat -> grid_volume (SphericalG (new_spherical n l)) = 4 * PI / 3 * l ^ 3.
Proof. intros. unfold grid_volume. cbn [axes map fold_right functional_determinant]. rewrite spherical_volume by lia. ring. Qed.

Lemma grid_volume_polar n l : (1 <= n)%nat -> grid_volume (PolarG (new_polar n l)) = PI * l ^ 2.
Proof. intros. unfold grid_volume, new_polar. cbn [axes map fold_right functional_determinant]. rewrite polar_volume by lia. ring. Qed.

Lemma grid_volume_cyl n l m lz : (1 <= n)%nat -> (1 <= m)%nat ->
  grid_volume (CylindricalG (new_polar n l) (new_cartesian m lz 0)) = PI * l ^ 2 * lz.
Proof.
  intros. unfold grid_volume, new_polar. cbn [axes map fold_right functional_determinant].
  rewrite polar_volume, cartesian_volume by lia. ring.
Qed.

Lemma grid_volume_cart2 n1 l1 n2 l2 : (1 <= n1)%nat -> (1 <= n2)%nat ->
  grid_volume (Cartesian2 (new_cartesian n1 l1 0) (new_cartesian n2 l2 0)) = l1 * l2.
Proof. intros. unfold grid_volume. cbn [axes map fold_right functional_determinant]. rewrite !cartesian_volume by lia. ring. Qed.

Lemma grid_volume_per2 n1 l1 n2 l2 alpha : (1 <= n1)%nat -> (1 <= n2)%nat ->
  grid_volume (Periodical2 (new_cartesian n1 l1 0) (new_cartesian n2 l2 0) alpha) = l1 * l2 * det2 alpha.
Proof. intros. unfold grid_volume. cbn [axes map fold_right functional_determinant]. rewrite !cartesian_volume by lia. unfold det2. ring. Qed.

Lemma grid_volume_cart3 n1 l1 n2 l2 n3 l3 : (1 <= n1)%nat -> (1 <= n2)%nat -> (1 <= n3)%nat ->
  grid_volume (Cartesian3 (new_cartesian n1 l1 0) (new_cartesian n2 l2 0) (new_cartesian n3 l3 0)) = l1 * l2 * l3.
Proof. intros. unfold grid_volume. cbn [axes map fold_right functional_determinant]. rewrite !cartesian_volume by lia. ring. Qed.

Lemma grid_volume_per3 n1 l1 n2 l2 n3 l3 a b c : (1 <= n1)%nat -> (1 <= n2)%nat -> (1 <= n3)%nat ->
  grid_volume (Periodical3 (new_cartesian n1 l1 0) (new_cartesian n2 l2 0) (new_cartesian n3 l3 0) a b c)
  = l1 * l2 * l3 * det3 a b c.
Proof.
  intros. unfold grid_volume. cbn [axes map fold_right functional_determinant]. rewrite !cartesian_volume by lia.
  unfold det3. ring.
Qed.

(** ** Tactic of the generated correspondence goals: unfold the evaluation forms, compute the integer
    sub-terms, leave a closed real expression for [interval] *)
Ltac c16_norm :=
  cbv beta iota zeta delta
    [cart_grid_Z cart_edge_Z cart_weight_Z cart_volume_Z cart_length_Z
     sph_grid_Z sph_edge_Z sph_weight_Z sph_volume_Z sph_length_Z lin_Z
     polar_alpha_Z iter_alpha_Z alpha_step_Z polar_grid_Z polar_edge_Z polar_scale_Z polar_w0_Z polar_w1_Z
     polar_wk_Z polar_volume_Z polar_length_Z polar_k0 det2 det3];
  repeat match goal with
  | |- context [(?a <? ?b)%Z] => let v := eval vm_compute in (a <? b)%Z in change (a <? b)%Z with v
  end;
  cbv iota;
  repeat match goal with
  | |- context [IZR (?a - ?b)] => let v := eval vm_compute in (a - b)%Z in change (a - b)%Z with v
  | |- context [IZR (?a + ?b)] => let v := eval vm_compute in (a + b)%Z in change (a + b)%Z with v
  | |- context [IZR (?a * ?b)] => let v := eval vm_compute in (a * b)%Z in change (a * b)%Z with v
  end.

(** closed side conditions [(a <= b)%nat] on (large) unary literals *)
Ltac c16_le := first [ apply Nat.leb_le; vm_compute; reflexivity | apply Nat.ltb_lt; vm_compute; reflexivity ].

Ltac c16_zofnat :=
  repeat match goal with
  | |- context [Z.of_nat ?n] => let v := eval vm_compute in (Z.of_nat n) in change (Z.of_nat n) with v
  end.

(** goals [Rabs (field (new_cartesian n len off) k - impl) <= tol] *)
Ltac c16_cart :=
  rewrite ?cart_grid_eval, ?cart_edge_eval, ?cart_weight_eval, ?cart_volume_eval, ?cart_length_eval;
  c16_zofnat; c16_norm; interval with (i_prec 80).

Ltac c16_sph :=
  rewrite ?sph_grid_eval, ?sph_edge_eval, ?sph_weight_eval, ?sph_volume_eval, ?sph_length_eval;
  c16_zofnat; c16_norm; interval with (i_prec 80).

(** The alpha of the polar axis: the 20 steps of the fixed-point iteration are enclosed one at a time
    ([interval_intro]) and the iterate is generalised to a variable after every step: a single [interval]
    call on the 20-fold nested expression is exponentially slow, and so is the kernel on a nested [let]. *)
Ltac c16_alpha_step :=
  lazymatch goal with
  | |- context [iter_alpha_Z ?nm1 (S ?k) ?a] =>
      change (iter_alpha_Z nm1 (S k) a) with (iter_alpha_Z nm1 k (alpha_step_Z nm1 a));
      let H := fresh "Ha" in
      let t := eval cbv beta delta [alpha_step_Z] in (alpha_step_Z nm1 a) in
      interval_intro t with (i_prec 90) as H;
      change t with (alpha_step_Z nm1 a) in H;
      revert H; generalize (alpha_step_Z nm1 a);
      let a' := fresh "a" in intros a' H
  end.

Ltac c16_alpha :=
  try (unfold polar_alpha_Z;
       match goal with
       | |- context [iter_alpha_Z (?a - ?b)%Z] => let v := eval vm_compute in (a - b)%Z in change (a - b)%Z with v
       end;
       repeat c16_alpha_step;
       lazymatch goal with
       | |- context [iter_alpha_Z ?nm1 O ?a] => change (iter_alpha_Z nm1 O a) with a
       end).

(** goals about [new_polar n l] *)
Ltac c16_polar :=
  unfold new_polar;
  first [ rewrite polar_w0_eval | rewrite polar_w1_eval | rewrite polar_wk_eval by c16_le
        | rewrite polar_grid_eval by c16_le | rewrite polar_edge0_eval | rewrite polar_edge_eval by c16_le
        | rewrite polar_volume_eval by c16_le | rewrite polar_length_eval by c16_le ];
  rewrite ?polar_alpha_eval by c16_le;
  c16_zofnat; c16_alpha; c16_norm; interval with (i_prec 80).

(** one lemma per axis case: a conjunction of tagged comparisons; a comparison that cannot be closed is
    reported ("C16FAIL <tag>") and left open, so that all failing comparisons of a case are listed *)
Definition c16_tag (i : Z) (P : Prop) : Prop := P.

Ltac c16_one :=
  lazymatch goal with
  | |- c16_tag ?i ?P => change P; first [ solve [ c16_norm; interval with (i_prec 80) ] | idtac "C16FAIL" i ]
  end.

Ltac c16_all := c16_alpha; repeat split; c16_one.
