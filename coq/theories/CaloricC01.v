(** * CaloricC01: the caloric properties of the State layer (feos-core/src/state/properties.rs) are the thermodynamic
    derivatives they are documented to be.

    One generic theorem — the Jacobian rule of thermodynamics for functions of (T, V) at fixed composition: along any curve on
    which g is constant and which is parametrised by h, the derivative of f is (f_T g_V - f_V g_T)/(h_T g_V - h_V g_T) —
    and, for each getter, the identity between the expression the code evaluates (in terms of the second derivatives of the
    total Helmholtz energy, C01's objects) and that Jacobian quotient. *)
From Coq Require Import Reals Lra.
From Coquelicot Require Import Coquelicot.
Local Open Scope R_scope.

Section Jacobian.
Variables (f g h : R -> R -> R) (Tc Vc : R -> R) (s0 fT fV gT gV hT hV dT dV : R).
Hypothesis Hf : differentiable_pt_lim f (Tc s0) (Vc s0) fT fV.
Hypothesis Hg : differentiable_pt_lim g (Tc s0) (Vc s0) gT gV.
Hypothesis Hh : differentiable_pt_lim h (Tc s0) (Vc s0) hT hV.
Hypothesis HT : derivable_pt_lim Tc s0 dT.
Hypothesis HV : derivable_pt_lim Vc s0 dV.
(** on the curve g is constant and h is the parameter (near s0) *)
Variable delta : R.
Hypothesis Hdelta : 0 < delta.
Hypothesis Hgc : forall s, Rabs (s - s0) < delta -> g (Tc s) (Vc s) = g (Tc s0) (Vc s0).
Hypothesis Hhp : forall s, Rabs (s - s0) < delta -> h (Tc s) (Vc s) = s.
Hypothesis HD : hT * gV - hV * gT <> 0.

Lemma local_derive (F G : R -> R) l : (forall s, Rabs (s - s0) < delta -> F s = G s) ->
  derivable_pt_lim F s0 l -> derivable_pt_lim G s0 l.
Proof.
  intros Heq HF eps Heps. destruct (HF eps Heps) as [d Hd].
  assert (Hm : 0 < Rmin d delta) by (apply Rmin_pos; [apply cond_pos|exact Hdelta]).
  exists (mkposreal _ Hm). intros x Hx Hxd. cbn in Hxd.
  rewrite <- (Heq (s0 + x)), <- (Heq s0).
  - apply Hd; [exact Hx|]. eapply Rlt_le_trans; [exact Hxd|apply Rmin_l].
  - replace (s0 - s0) with 0 by ring. now rewrite Rabs_R0.
  - replace (s0 + x - s0) with x by ring. eapply Rlt_le_trans; [exact Hxd|apply Rmin_r].
Qed.

Theorem jacobian_rule :
  derivable_pt_lim (fun s => f (Tc s) (Vc s)) s0 ((fT * gV - fV * gT) / (hT * gV - hV * gT)).
Proof.
  pose proof (derivable_pt_lim_comp_2d f Tc Vc s0 fT fV dT dV Hf HT HV) as Df.
  pose proof (derivable_pt_lim_comp_2d g Tc Vc s0 gT gV dT dV Hg HT HV) as Dg.
  pose proof (derivable_pt_lim_comp_2d h Tc Vc s0 hT hV dT dV Hh HT HV) as Dh.
  (* g o curve is locally constant, h o curve is locally the identity *)
  assert (Eg : gT * dT + gV * dV = 0).
  { apply (uniqueness_limite (fun s => g (Tc s) (Vc s)) s0); [exact Dg|].
    apply (local_derive (fun _ => g (Tc s0) (Vc s0))); [intros s Hs; symmetry; now apply Hgc|apply derivable_pt_lim_const]. }
  assert (Eh : hT * dT + hV * dV = 1).
  { apply (uniqueness_limite (fun s => h (Tc s) (Vc s)) s0); [exact Dh|].
    apply (local_derive (fun s => s)); [intros s Hs; symmetry; now apply Hhp|apply derivable_pt_lim_id]. }
  assert (XT : dT * (hT * gV - hV * gT) = gV).
  { transitivity (gV * (hT * dT + hV * dV) - hV * (gT * dT + gV * dV)); [ring|rewrite Eg, Eh; ring]. }
  assert (XV : dV * (hT * gV - hV * gT) = - gT).
  { transitivity (hT * (gT * dT + gV * dV) - gT * (hT * dT + hV * dV)); [ring|rewrite Eg, Eh; ring]. }
  assert (ET : dT = gV / (hT * gV - hV * gT)).
  { apply Rmult_eq_reg_r with (hT * gV - hV * gT); [|exact HD]. rewrite XT. field. exact HD. }
  assert (EV : dV = - gT / (hT * gV - hV * gT)).
  { apply Rmult_eq_reg_r with (hT * gV - hV * gT); [|exact HD]. rewrite XV. field. exact HD. }
  replace ((fT * gV - fV * gT) / (hT * gV - hV * gT)) with (fT * dT + fV * dV); [exact Df|].
  rewrite ET, EV. field. exact HD.
Qed.
End Jacobian.

(** ** The State layer.  Second derivatives of the total Helmholtz energy A(T,V) at the state: att, atv, avv; amounts n.
    p = -A_V, S = -A_T, U = A + T S, H = U + p V.  Partial derivatives of p, S, H, U with respect to (T, V): *)
Section State.
Variables (T V n att atv avv : R).
Definition p_T := - atv.
Definition p_V := - avv.
Definition S_T := - att.
Definition S_V := - atv.            (* Maxwell: S_V = p_T *)
Definition C_v := T * S_T.          (* = U_T *)
Definition U_V := T * p_T.          (* minus p, which cancels in H_V *)
Definition H_T := C_v + V * p_T.
Definition H_V := T * p_T + V * p_V.

(** what properties.rs evaluates (Contributions::Total) *)
Definition m_cv := T * S_T / n.
Definition m_cp := T / n * (S_T - p_T ^ 2 / p_V).
Definition m_joule_thomson := - (V + T * p_T / p_V) / (n * m_cp).
Definition m_isentropic_compressibility := - m_cv / (m_cp * p_V * V).
Definition m_grueneisen := V / (n * m_cv) * p_T.
Definition m_isenthalpic_compressibility := m_isentropic_compressibility * (1 + m_grueneisen).
Definition m_thermal_expansivity := - p_T / p_V / V.

Hypothesis HTp : 0 < T.
Hypothesis HVp : 0 < V.
Hypothesis Hn : 0 < n.
Hypothesis HpV : p_V <> 0.
Hypothesis HCv : S_T <> 0.
Hypothesis HCp : S_T - p_T ^ 2 / p_V <> 0.

Ltac unf0 := unfold m_joule_thomson, m_isenthalpic_compressibility, m_isentropic_compressibility, m_grueneisen, m_thermal_expansivity,
  m_cp, m_cv, H_T, H_V, C_v, U_V, S_T, S_V, p_T, p_V in *.
Ltac unf := unf0;
  assert (Hq : - att * - avv - (- atv) ^ 2 <> 0)
    by (intros E; apply HCp; replace (- att - (- atv) ^ 2 / - avv) with ((- att * - avv - (- atv) ^ 2) / - avv) by (field; lra);
        rewrite E; field; lra).

(** c_p = T (dS/dT)_p / n : Jacobian quotient with f = S, h = T (h_T = 1, h_V = 0), g = p *)
Lemma cp_is_jacobian : m_cp = T * ((S_T * p_V - S_V * p_T) / (1 * p_V - 0 * p_T)) / n.
Proof. unf. field. split; [lra|lra]. Qed.

(** Joule-Thomson (dT/dp)_H : f = T (1, 0), h = p, g = H *)
Lemma joule_thomson_is_jacobian : m_joule_thomson = (1 * H_V - 0 * H_T) / (p_T * H_V - p_V * H_T).
Proof.
  unf.
  assert (D : - atv * (T * - atv + V * - avv) - - avv * (T * - att + V * - atv) = - T * - avv * (- att - (- atv) ^ 2 / - avv)) by (field; lra).
  rewrite D. field. repeat split; try lra; assumption.
Qed.

(** isentropic compressibility -(1/V)(dV/dp)_S : f = V (0, 1), h = p, g = S *)
Lemma isentropic_compressibility_is_jacobian :
  m_isentropic_compressibility = - (1 / V) * ((0 * S_V - 1 * S_T) / (p_T * S_V - p_V * S_T)).
Proof.
  unf.
  assert (D : - atv * - atv - - avv * - att = - - avv * (- att - (- atv) ^ 2 / - avv)) by (field; lra).
  rewrite D. field. repeat split; try lra; assumption.
Qed.

(** isenthalpic compressibility -(1/V)(dV/dp)_H : f = V, h = p, g = H *)
Lemma isenthalpic_compressibility_is_jacobian :
  m_isenthalpic_compressibility = - (1 / V) * ((0 * H_V - 1 * H_T) / (p_T * H_V - p_V * H_T)).
Proof.
  unf.
  assert (D : - atv * (T * - atv + V * - avv) - - avv * (T * - att + V * - atv) = - T * - avv * (- att - (- atv) ^ 2 / - avv)) by (field; lra).
  rewrite D. field. repeat split; try lra; assumption.
Qed.

(** thermal expansivity (1/V)(dV/dT)_p : f = V, h = T, g = p *)
Lemma thermal_expansivity_is_jacobian : m_thermal_expansivity = (1 / V) * ((0 * p_V - 1 * p_T) / (1 * p_V - 0 * p_T)).
Proof. unf. field. split; lra. Qed.

(** Grueneisen parameter V (dp/dU)_V : f = p, h = U (U_T = C_v), g = V (0, 1) *)
Lemma grueneisen_is_jacobian : m_grueneisen = V * ((p_T * 1 - p_V * 0) / (C_v * 1 - U_V * 0)).
Proof. unf. field. repeat split; lra. Qed.

(** speed of sound squared times the mass density is 1/kappa_S = -V (dp/dV)_S : f = p, h = V, g = S *)
Lemma inverse_isentropic_compressibility_is_jacobian :
  1 / m_isentropic_compressibility = - V * ((p_T * S_V - p_V * S_T) / (0 * S_V - 1 * S_T)).
Proof.
  unf. field. repeat split; try lra; try assumption.
Qed.
Theorem caloric_getters_are_jacobians :
  m_cp = T * ((S_T * p_V - S_V * p_T) / (1 * p_V - 0 * p_T)) / n /\
  m_joule_thomson = (1 * H_V - 0 * H_T) / (p_T * H_V - p_V * H_T) /\
  m_isentropic_compressibility = - (1 / V) * ((0 * S_V - 1 * S_T) / (p_T * S_V - p_V * S_T)) /\
  m_isenthalpic_compressibility = - (1 / V) * ((0 * H_V - 1 * H_T) / (p_T * H_V - p_V * H_T)) /\
  m_thermal_expansivity = (1 / V) * ((0 * p_V - 1 * p_T) / (1 * p_V - 0 * p_T)) /\
  m_grueneisen = V * ((p_T * 1 - p_V * 0) / (C_v * 1 - U_V * 0)) /\
  1 / m_isentropic_compressibility = - V * ((p_T * S_V - p_V * S_T) / (0 * S_V - 1 * S_T)).
Proof.
  repeat split.
  - apply cp_is_jacobian.
  - apply joule_thomson_is_jacobian.
  - apply isentropic_compressibility_is_jacobian.
  - apply isenthalpic_compressibility_is_jacobian.
  - apply thermal_expansivity_is_jacobian.
  - apply grueneisen_is_jacobian.
  - apply inverse_isentropic_compressibility_is_jacobian.
Qed.
End State.
