(** C03 — control skeleton of [density_iteration] / [pressure_spinodal] (feos-core/src/density_iteration.rs), of the
    root selection of [State::new_npt] and of the generic [newton] wrapper (feos-core/src/state/mod.rs:416-478, 766-793)
    over an abstract oracle  rho |-> (p, dp/drho, d2p/drho2)  in exact rational arithmetic (reduced units, k_B = 1).

    [rnd] stands for the rounding of the stored density; every theorem holds for an arbitrary [rnd].
    [fixed = true] is the current code (non-convergence after [maxiter] iterations is an error);
    [fixed = false] is the code before the repair (`iterations == maxiter + 1` is unreachable, so the loop fell through
    to `Ok`) — kept to state the refutation [density_iteration_prefix_refuted]. *)
From Coq Require Import QArith Qabs Qminmax Qround List Bool Lia ZArith Lqa.
From FeosVerif Require Import StateNewC03.
Import ListNotations.
Open Scope Q_scope.

Definition sgnQ (q : Q) : Q := if Qltb q 0 then -1 else 1.
Definition Qmin' (a b : Q) : Q := if Qle_bool a b then a else b.
Definition Qmax' (a b : Q) : Q := if Qle_bool a b then b else a.
Definition abstol : Q := 1 # 1000000000000.
Definition reltol : Q := 1 # 100000000000000.

Inductive di_result := DOk (rho : Q) | DErr (code : Z).
(* codes: 1 InvalidState(density iteration) 2 IterationFailed 3 NotConverged(density_iteration)
          4 NotConverged(pressure_spinodal) 5 InvalidState(pressure spinodal) 6 UndeterminedState(no solution) *)

Section DI.
Variable oracle : Q -> Q * Q * Q.
Variable maxd : Q.
Variable ptarget : Q.
Variable rnd : Q -> Q.
Variable fixed : bool.

Definition trace := list (Z * Q).

(** [pressure_spinodal]: Newton on dp/drho = 0, at most 30 steps *)
Fixpoint spin_loop (fuel : nat) (rho : Q) (tr : trace) : option (Q * Q) * trace :=
  match fuel with
  | O => (None, tr)
  | S k =>
    let '(p, dp, d2p) := oracle rho in
    let tr := (7%Z, Qabs dp * 100000000) :: (3%Z, rho) :: tr in   (* tag 7: decision margin of the |dp| < 1e-8 test *)
    let d0 := - dp / d2p in
    let d1 := if Qltb ((5 # 100) * maxd) (Qabs d0) then (5 # 100) * maxd * sgnQ d0 else d0 in
    let d2 := Qmax' d1 (- rho * (95 # 100)) in
    let d3 := Qmin' d2 (maxd - rho) in
    let rho' := rnd (rho + d3) in
    if Qltb (Qabs dp) (1 # 100000000) then (Some (p, rho'), tr) else spin_loop k rho' tr
  end.

Inductive spin_result := SpOk (p rho : Q) | SpErr (code : Z).
Definition spinodal (rho_init : Q) (tr : trace) : spin_result * trace :=
  if Qle_bool rho_init 0 then (SpErr 5, tr)
  else match spin_loop 30 rho_init tr with
       | (Some (p, r), tr) => (SpOk p r, tr)
       | (None, tr) => (SpErr 4, tr)
       end.

Inductive step_result :=
| SBreak (rho_new : Q) (rho_eval err dp : Q)   (* converged: the Newton step from rho_eval passed the test *)
| SCont (rho_new : Q)
| SErr (code : Z).

Definition is_neg (q : Q) := Qltb q 0.      (* is_sign_negative *)
Definition is_pos (q : Q) := negb (Qltb q 0). (* is_sign_positive *)

(** one iteration of the loop body; [k] is the loop counter, [rho0] the initial density *)
Definition di_step (rho0 : Q) (k : nat) (rho : Q) (tr : trace) : step_result * trace :=
  let '(p0, dp0, _) := oracle rho in
  let tr := (2%Z, rho) :: tr in
  let '(rho, p, dp, tr) :=
    if is_neg dp0 && (k =? 0)%nat then
      let rho1 := if Qle_bool rho0 ((15 # 100) * maxd) then (5 # 100) * rho0 else Qmin' ((11 # 10) * rho0) maxd in
      let '(p1, dp1, _) := oracle rho1 in (rho1, p1, dp1, (2%Z, rho1) :: tr)
    else (rho, p0, dp0, tr) in
  let error := p - ptarget in
  let d0 := - error / dp in
  let d1 := if Qltb ((75 # 1000) * maxd) (Qabs d0) then (75 # 1000) * maxd * sgnQ d0 else d0 in
  let d2 := Qmax' d1 (- (95 # 100) * rho) in
  if is_neg dp then
    let '(_, _, d2p) := oracle rho in
    let tr := (3%Z, rho) :: tr in
    if Qltb ((85 # 100) * maxd) rho then
      match spinodal rho0 tr with
      | (SpErr c, tr) => (SErr c, tr)
      | (SpOk sp_p sp_rho, tr) =>
        let error := sp_p - ptarget in
        if Qltb ((85 # 100) * maxd) sp_rho then
          (if is_neg error then (SErr 2, tr) else (SCont (rnd (sp_rho * (98 # 100))), tr))
        else if is_pos error then (SCont (rnd ((1 # 1000) * maxd)), tr)
        else (SCont (rnd (Qmin' (sp_rho * (11 # 10)) maxd)), tr)
      end
    else if is_pos error && is_pos d2p then
      match spinodal rho0 tr with
      | (SpErr c, tr) => (SErr c, tr)
      | (SpOk sp_p sp_rho, tr) =>
        if is_pos (sp_p - ptarget) then (SCont (rnd ((1 # 1000) * maxd)), tr)
        else (SCont (rnd (Qmin' (sp_rho * (11 # 10)) maxd)), tr)
      end
    else if is_neg error && is_neg d2p then
      match spinodal rho0 tr with
      | (SpErr c, tr) => (SErr c, tr)
      | (SpOk sp_p sp_rho, tr) =>
        if is_neg (sp_p - ptarget) then (SCont (rnd ((8 # 10) * maxd)), tr)
        else (SCont (rnd (sp_rho * (8 # 10))), tr)
      end
    else if is_neg error && is_pos d2p then
      match spinodal ((8 # 10) * maxd) tr with
      | (SpErr c, tr) => (SErr c, tr)
      | (SpOk _ rho_l, tr) =>
        match spinodal ((1 # 1000) * maxd) tr with
        | (SpErr c, tr) => (SErr c, tr)
        | (SpOk sp_v_p rho_v, tr) =>
          if is_pos (sp_v_p - ptarget) && Qltb (Qabs (rho0 - rho_v)) (Qabs (rho0 - rho_l))
          then (SCont (rnd ((8 # 10) * rho_v)), tr)
          else (SCont (rnd (Qmin' (rho_l * (11 # 10)) maxd)), tr)
        end
      end
    else (* error positive, d2p negative *)
      match spinodal ((8 # 10) * maxd) tr with
      | (SpErr c, tr) => (SErr c, tr)
      | (SpOk _ rho_l, tr) =>
        match spinodal ((1 # 1000) * maxd) tr with
        | (SpErr c, tr) => (SErr c, tr)
        | (SpOk sp_v_p rho_v, tr) =>
          if is_neg (sp_v_p - ptarget) && Qltb (Qabs (rho0 - rho_l)) (Qabs (rho0 - rho_v))
          then (SCont (rnd (Qmin' (rho_l * (11 # 10)) maxd)), tr)
          else (SCont (rnd ((8 # 10) * rho_v)), tr)
        end
      end
  else
    let rho' := rnd (rho + d2) in
    let tr := (8%Z, Qabs error / Qmax' abstol (rho' * reltol)) :: tr in   (* tag 8: margin of the convergence test *)
    if Qltb (Qabs error) (Qmax' abstol (rho' * reltol)) then (SBreak rho' rho error dp, tr) else (SCont rho', tr).

Fixpoint di_loop (rho0 : Q) (fuel k : nat) (rho : Q) (tr : trace) : di_result * trace :=
  match fuel with
  | O => (if fixed then DErr 3 else DOk rho, tr)
  | S f =>
    match di_step rho0 k rho tr with
    | (SBreak r _ _ _, tr) => (DOk r, tr)
    | (SErr c, tr) => (DErr c, tr)
    | (SCont r, tr) => di_loop rho0 f (S k) r tr
    end
  end.

Definition maxiter : nat := 50.

Definition density_iteration (rho0 : Q) : di_result * trace :=
  if Qle_bool rho0 0 then (DErr 1, []) else di_loop rho0 maxiter 0 rho0 [].

(** the stopping test of the loop, as a predicate on the returned density *)
Definition passed_test (r : Q) : Prop :=
  exists rho_e p dp d2p, oracle rho_e = (p, dp, d2p) /\ ~ dp < 0 /\
    Qabs (p - ptarget) < Qmax' abstol (r * reltol).

Lemma di_step_break rho0 k rho tr r re err dp tr' :
  di_step rho0 k rho tr = (SBreak r re err dp, tr') -> passed_test r.
Proof.
  unfold di_step.
  destruct (oracle rho) as [[p0 dp0] d2p0] eqn:E0.
  set (first := is_neg dp0 && (k =? 0)%nat).
  destruct first eqn:Ef.
  - set (rho1 := if Qle_bool rho0 ((15 # 100) * maxd) then (5 # 100) * rho0 else Qmin' ((11 # 10) * rho0) maxd).
    destruct (oracle rho1) as [[p1 dp1] d2p1] eqn:E1.
    destruct (is_neg dp1) eqn:En.
    + rewrite E1.
      repeat match goal with
             | |- context [match spinodal ?a ?b with _ => _ end] => destruct (spinodal a b) as [[? ?|?] ?]
             | |- context [if ?c then _ else _] => destruct c
             end; intro H; inversion H.
    + destruct (Qltb (Qabs (p1 - ptarget)) _) eqn:Et; intro H; [|discriminate].
      injection H as Hr Hre Herr Hdp Htr. rewrite <- Hr.
      exists rho1, p1, dp1, d2p1. split; [assumption|]. split.
      * intro C. apply Qltb_lt in C. unfold is_neg in En. congruence.
      * apply Qltb_lt. assumption.
  - destruct (is_neg dp0) eqn:En.
    + rewrite E0.
      repeat match goal with
             | |- context [match spinodal ?a ?b with _ => _ end] => destruct (spinodal a b) as [[? ?|?] ?]
             | |- context [if ?c then _ else _] => destruct c
             end; intro H; inversion H.
    + destruct (Qltb (Qabs (p0 - ptarget)) _) eqn:Et; intro H; [|discriminate].
      injection H as Hr Hre Herr Hdp Htr. rewrite <- Hr.
      exists rho, p0, dp0, d2p0. split; [assumption|]. split.
      * intro C. apply Qltb_lt in C. unfold is_neg in En. congruence.
      * apply Qltb_lt. assumption.
Qed.

End DI.

(** ** density_iteration_post (current code): Ok r  ==>  the last Newton step passed the tolerance test *)
Theorem density_iteration_post oracle maxd ptarget rnd rho0 r tr :
  density_iteration oracle maxd ptarget rnd true rho0 = (DOk r, tr) -> passed_test oracle ptarget r.
Proof.
  unfold density_iteration. destruct (Qle_bool rho0 0); [discriminate|].
  generalize (@nil (Z * Q)) as tr0. generalize rho0 at 2 as rho. generalize 0%nat as k.
  induction maxiter as [|f IH]; intros k rho tr0 H; simpl in H; [discriminate|].
  destruct (di_step oracle maxd ptarget rnd rho0 k rho tr0) as [[r' re err dp|r'|c] tr1] eqn:Es.
  - inversion H; subst. eapply di_step_break. eassumption.
  - eapply IH. eassumption.
  - discriminate.
Qed.

(** a non-positive initial density is rejected *)
Theorem density_iteration_rejects_nonpositive oracle maxd ptarget rnd fx rho0 :
  rho0 <= 0 -> density_iteration oracle maxd ptarget rnd fx rho0 = (DErr 1, []).
Proof. intro H. unfold density_iteration. apply Qle_bool_iff in H. rewrite H. reflexivity. Qed.

(** ** the refutation for the code before the repair: an oscillating oracle (pressure step of height 2 amp at rho_star)
       makes 50 capped Newton steps alternate around rho_star and the loop falls through to Ok with |p - p_target| = T amp. *)
Definition step_oracle (T a b amp rs : Q) (rho : Q) : Q * Q * Q :=
  let u := 1 - b * rho in
  let u2 := u * u in
  (T * rho / u - a * rho * rho + T * amp * (if Qltb rho rs then -1 else 1),
   T / u2 - 2 * a * rho,
   2 * b * T / (u2 * u) - 2 * a).

Definition osc_oracle := step_oracle 300 0 0 (1 # 100) (4 # 1000).
Definition osc_target : Q := 300 * (4 # 1000).

Lemma osc_prefix_value : exists r,
  fst (density_iteration osc_oracle (1 # 100) osc_target (fun q => q) false (38 # 10000)) = DOk r /\ r == 38 # 10000.
Proof. eexists. split; vm_compute; reflexivity. Qed.

Theorem density_iteration_prefix_refuted :
  exists oracle maxd ptarget rho0 r, fst (density_iteration oracle maxd ptarget (fun q => q) false rho0) = DOk r /\
    (forall rho p dp d2p, oracle rho = (p, dp, d2p) -> 1 <= Qabs (p - ptarget)) /\ ~ passed_test oracle ptarget r.
Proof.
  destruct osc_prefix_value as [r [Hr Heq]].
  exists osc_oracle, (1 # 100), osc_target, (38 # 10000), r.
  split; [exact Hr|].
  assert (Hall : forall rho p dp d2p, osc_oracle rho = (p, dp, d2p) -> 1 <= Qabs (p - osc_target)).
  { intros rho p dp d2p H. unfold osc_oracle, step_oracle in H. inversion H; subst; clear H.
    unfold osc_target.
    destruct (Qltb rho (4 # 1000)) eqn:E.
    - apply Qltb_lt in E.
      setoid_replace (300 * rho / (1 - 0 * rho) - 0 * rho * rho + 300 * (1 # 100) * -1 - 300 * (4 # 1000))
        with (- (300 * ((4 # 1000) - rho) + 3)) by (field; lra).
      rewrite Qabs_opp, Qabs_pos; lra.
    - assert (E' : ~ rho < 4 # 1000) by (intro C; apply Qltb_lt in C; congruence).
      setoid_replace (300 * rho / (1 - 0 * rho) - 0 * rho * rho + 300 * (1 # 100) * 1 - 300 * (4 # 1000))
        with (300 * (rho - (4 # 1000)) + 3) by (field; lra).
      rewrite Qabs_pos; lra. }
  split; [exact Hall|].
  intros [re [p [dp [d2p [Ho [_ Ht]]]]]].
  specialize (Hall _ _ _ _ Ho).
  assert (Hm : Qmax' abstol (r * reltol) < 1).
  { unfold Qmax', abstol, reltol. destruct (Qle_bool _ _); lra. }
  lra.
Qed.

(** the same oracle on the current code: NotConverged *)
Lemma osc_fixed_value :
  fst (density_iteration osc_oracle (1 # 100) osc_target (fun q => q) true (38 # 10000)) = DErr 3.
Proof. vm_compute. reflexivity. Qed.

(** non-vacuity of [density_iteration_post]: an ideal gas converges in one step *)
Example post_nonvacuous :
  exists r, fst (density_iteration (step_oracle 300 0 0 0 1) 1 3 (fun q => q) true (1 # 50)) = DOk r.
Proof. vm_compute. eexists. reflexivity. Qed.

(* ------------------------------------------------------------------------------------------- *)
(** * Root selection of [State::new_npt] *)

Inductive hint := HNone | HVapor | HLiquid | HInit (rho : Q).

Section NPT.
Variable di : Q -> di_result.       (* density_iteration from an initial density *)
Variable gibbs : Q -> Q.            (* residual Gibbs energy of the state at that density *)
Variables maxd p T : Q.             (* reduced units: R = k_B = 1 *)

Definition new_npt (h : hint) : di_result :=
  match h with
  | HInit r => di r
  | HVapor => di (p / T)
  | HLiquid => di maxd
  | HNone =>
    let liquid := di maxd in
    if Qltb p (maxd * T) then
      let vapor := di (p / T) in
      match liquid, vapor with
      | DOk _, DErr _ => liquid
      | DErr _, DOk _ => vapor
      | DOk l, DOk v => if Qltb (gibbs v) (gibbs l) then vapor else liquid
      | DErr _, DErr _ => DErr 6
      end
    else liquid
  end.

(** with no hint and both roots found, the returned root has the lower residual Gibbs energy *)
Theorem npt_stable_root l v : di maxd = DOk l -> di (p / T) = DOk v -> p < maxd * T ->
  exists r, new_npt HNone = DOk r /\ (r = l \/ r = v) /\ gibbs r <= gibbs l /\ gibbs r <= gibbs v.
Proof.
  intros Hl Hv Hp. unfold new_npt. rewrite Hl, Hv.
  apply Qltb_lt in Hp. rewrite Hp.
  destruct (Qltb (gibbs v) (gibbs l)) eqn:E.
  - exists v. apply Qltb_lt in E. repeat split; auto; lra.
  - exists l. assert (~ gibbs v < gibbs l) by (intro C; apply Qltb_lt in C; congruence).
    repeat split; auto; lra.
Qed.

(** whatever is returned without a hint was returned by one of the two density iterations *)
Theorem npt_none_from_iteration r : new_npt HNone = DOk r -> di maxd = DOk r \/ di (p / T) = DOk r.
Proof.
  unfold new_npt. destruct (Qltb p (maxd * T)); [|auto].
  destruct (di maxd) as [l|cl] eqn:El, (di (p / T)) as [v|cv] eqn:Ev.
  - destruct (Qltb (gibbs v) (gibbs l)); intro H; inversion H; subst; auto.
  - intro H; inversion H; subst; auto.
  - intro H; inversion H; subst; auto.
  - discriminate.
Qed.

(** with a hint the iteration starts from the documented initial density *)
Theorem npt_hint_start :
  new_npt HVapor = di (p / T) /\ new_npt HLiquid = di maxd /\ forall r, new_npt (HInit r) = di r.
Proof. repeat split. Qed.

End NPT.

(** every (T,p) state returned by [new_npt] is the result of a density iteration, hence satisfies its stopping test *)
Theorem npt_post oracle maxd ptarget rnd gibbs T h r :
  new_npt (fun r0 => fst (density_iteration oracle maxd ptarget rnd true r0)) gibbs maxd ptarget T h = DOk r ->
  passed_test oracle ptarget r.
Proof.
  intro H.
  assert (G : forall r0, fst (density_iteration oracle maxd ptarget rnd true r0) = DOk r -> passed_test oracle ptarget r).
  { intros r0 E. destruct (density_iteration oracle maxd ptarget rnd true r0) as [res tr] eqn:Ed. simpl in E. subst.
    eapply density_iteration_post. eassumption. }
  destruct h; [apply npt_none_from_iteration in H; destruct H as [H|H]; eapply G; eassumption | | | ];
    simpl in H; eapply G; eassumption.
Qed.

(* ------------------------------------------------------------------------------------------- *)
(** * The generic Newton wrapper used by new_nph / new_nps / new_nth / new_nts / new_nvu *)

Section Newton.
Variable St : Type.
Variable f : Q -> option (Q * Q * St).     (* x |-> (residual, derivative used, state built at x); None = Err *)
Variable atol : Q.
Definition rtol : Q := 1 # 10000000000.

Fixpoint newton (fuel : nat) (x0 : Q) : option St :=
  match fuel with
  | O => None
  | S k =>
    match f x0 with
    | None => None
    | Some (fx, dfx, st) =>
      let x := x0 - fx / dfx in
      if Qle_bool (Qabs (x - x0)) (atol + rtol * Qabs x0) then Some st else newton k x
    end
  end.

(** Ok st ==> st was built at a point whose Newton step passed |dx| <= atol + rtol |x|,
    hence |f(x)| <= |f'(x)| (atol + rtol |x|) for the residual f of the state that is returned *)
Theorem newton_post fuel x0 st : newton fuel x0 = Some st ->
  exists x fx dfx, f x = Some (fx, dfx, st) /\ Qabs (fx / dfx) <= atol + rtol * Qabs x /\
    (~ dfx == 0 -> Qabs fx <= Qabs dfx * (atol + rtol * Qabs x)).
Proof.
  revert x0. induction fuel as [|k IH]; intros x0 H; cbn [newton] in H; [discriminate|].
  destruct (f x0) as [[[fx dfx] s]|] eqn:E; [|discriminate]. cbv zeta in H.
  destruct (Qle_bool (Qabs (x0 - fx / dfx - x0)) (atol + rtol * Qabs x0)) eqn:Ec.
  - inversion H; subst. exists x0, fx, dfx. split; [assumption|].
    apply Qle_bool_iff in Ec.
    assert (Ea : Qabs (fx / dfx) <= atol + rtol * Qabs x0).
    { setoid_replace (x0 - fx / dfx - x0) with (- (fx / dfx)) in Ec by ring. rewrite Qabs_opp in Ec. exact Ec. }
    split; [exact Ea|]. intro Hd.
    assert (E1 : Qabs fx == Qabs (fx / dfx) * Qabs dfx).
    { rewrite <- Qabs_Qmult. apply Qabs_wd. field. exact Hd. }
    rewrite E1, (Qmult_comm (Qabs dfx)).
    apply Qmult_le_compat_r; [exact Ea | apply Qabs_nonneg].
  - apply IH in H. exact H.
Qed.

Theorem newton_not_converged x0 : newton 0 x0 = None.
Proof. reflexivity. Qed.

End Newton.

(** ** The same wrapper with the rounding of the stored iterate made explicit and the sequence of evaluated points recorded
       (this is the version that is run against the implementation; with [rnd] = identity it is [newton]). *)
Section NewtonR.
Variable St : Type.
Variable f : Q -> option (Q * Q * St).
Variable atol : Q.
Variable rnd : Q -> Q.

Fixpoint newton_r (fuel : nat) (x0 : Q) (tr : list Q) : option St * list Q :=
  match fuel with
  | O => (None, tr)
  | S k =>
    match f x0 with
    | None => (None, x0 :: tr)
    | Some (fx, dfx, st) =>
      let x := rnd (x0 - fx / dfx) in
      if Qle_bool (Qabs (x - x0)) (atol + rtol * Qabs x0) then (Some st, x0 :: tr) else newton_r k x (x0 :: tr)
    end
  end.

Definition step_accepted (x : Q) (st : St) : Prop :=
  exists fx dfx, f x = Some (fx, dfx, st) /\ Qabs (rnd (x - fx / dfx) - x) <= atol + rtol * Qabs x.

(** Ok st ==> st is the state built at an evaluated point whose (rounded) Newton step passed the tolerance test *)
Theorem newton_r_post fuel x0 tr st : fst (newton_r fuel x0 tr) = Some st -> exists x, step_accepted x st.
Proof.
  revert x0 tr. induction fuel as [|k IH]; intros x0 tr H; cbn [newton_r] in H; [discriminate|].
  destruct (f x0) as [[[fx dfx] s]|] eqn:E; [|discriminate]. cbv zeta in H.
  destruct (Qle_bool (Qabs (rnd (x0 - fx / dfx) - x0)) (atol + rtol * Qabs x0)) eqn:Ec.
  - cbn [fst] in H. inversion H; subst. exists x0, fx, dfx. split; [assumption|]. apply Qle_bool_iff. assumption.
  - eapply IH. eassumption.
Qed.

(** ... hence, when no evaluated point has an accepted step — in particular when the iteration limit is exhausted —
    the result is an error, never the state of the last iterate *)
Theorem newton_r_never_ok_without_accepted_step fuel x0 tr :
  (forall x st, ~ step_accepted x st) -> fst (newton_r fuel x0 tr) = None.
Proof.
  intro H. destruct (fst (newton_r fuel x0 tr)) as [st|] eqn:E; [|reflexivity].
  apply newton_r_post in E. destruct E as [x Hx]. exfalso. eapply H. eassumption.
Qed.

(** at most [fuel] points are evaluated, and a run that evaluated [fuel] points without accepting ends in an error *)
Theorem newton_r_trace_length fuel x0 tr : (length (snd (newton_r fuel x0 tr)) <= fuel + length tr)%nat.
Proof.
  revert x0 tr. induction fuel as [|k IH]; intros x0 tr; cbn [newton_r]; [cbn [snd length]; lia|].
  destruct (f x0) as [[[fx dfx] s]|]; [|cbn [snd length]; lia]. cbv zeta.
  destruct (Qle_bool _ _); [cbn [snd length]; lia|]. specialize (IH (rnd (x0 - fx / dfx)) (x0 :: tr)). cbn [length] in IH. lia.
Qed.
End NewtonR.

Lemma newton_r_id St f atol fuel : forall x0 tr, fst (newton_r St f atol (fun q => q) fuel x0 tr) = newton St f atol fuel x0.
Proof.
  induction fuel as [|k IH]; intros x0 tr; cbn [newton_r newton]; [reflexivity|].
  destruct (f x0) as [[[fx dfx] s]|]; [|reflexivity]. cbv zeta.
  destruct (Qle_bool _ _); [reflexivity|]. apply IH.
Qed.

(** caloric oracle of the harness mock (ideal gas with a step of height 2A in the internal energy at Tstar):
    u/R = (k-1) T + s A (T/Tstar)^2,  c_v/R = (k-1) + 2 s A T/Tstar^2,  s = sign(T - Tstar);  residual = u/R - target *)
Definition caloric_step_oracle (k A ts ut : Q) (T : Q) : option (Q * Q * Q) :=
  let s := if Qltb T ts then -1 else 1 in
  Some ((k - 1) * T + s * A * T * T / (ts * ts) - ut, (k - 1) + s * 2 * A * T / (ts * ts), T).


(** non-vacuity: Newton on x^2 - 2 from 3/2 converges within 50 steps with atol 1e-8 *)
Example newton_nonvacuous :
  exists st, newton Q (fun x => Some (x * x - 2, 2 * x, Qred x)) (1 # 100000000) 50 (3 # 2) = Some st.
Proof. vm_compute. eexists. reflexivity. Qed.

(* ------------------------------------------------------------------------------------------- *)
(** * Running the model for the correspondence check *)

(** rounding of the stored density to a 2^-70 grid keeps the rationals small (the implementation rounds to 53 bits, i.e. a 2^-59 grid at rho ~ 0.01) *)
Definition rnd_grid (k : positive) (q : Q) : Q := Qfloor (q * inject_Z (Zpos (2 ^ k))) # (2 ^ k).
Definition rnd140 (q : Q) : Q := rnd_grid 70 q.
(** the oracle of the mock: [step_oracle] with its three outputs rounded to a 2^-80 grid (any function is an oracle;
    the rounding is 8 orders of magnitude below the f64 noise of the implementation and keeps the rationals small) *)
Definition mock_oracle (T a b amp rs : Q) (rho : Q) : Q * Q * Q :=
  let '(p, dp, d2p) := step_oracle T a b amp rs rho in (rnd_grid 80 p, rnd_grid 80 dp, rnd_grid 80 d2p).

Definition dyq (m e : Z) : Q := inject_Z m * (if (0 <=? e)%Z then inject_Z (2 ^ e) else / inject_Z (2 ^ (- e))).
(** printed values are rounded down to a 2^-100 grid (printing huge exact fractions is slow); the exponent is printed *)
Definition enc_q (q : Q) : Z * Z := (Qfloor (q * inject_Z (2 ^ 100)), 100%Z).
Definition enc_res (r : di_result) : Z * (Z * Z) :=
  match r with DOk rho => (0%Z, enc_q rho) | DErr c => (c, (0%Z, 0%Z)) end.
Definition run_di (T a b amp rs maxd ptarget rho0 : Q) :=
  let '(r, tr) := density_iteration (mock_oracle T a b amp rs) maxd ptarget rnd140 true rho0 in
  (enc_res r, map (fun e => (fst e, enc_q (snd e))) (rev tr)).

(** the Newton wrapper on the caloric step oracle: iterate rounded to a 2^-60 grid (f64 has 2^-44 at 300 K), 50 steps, atol 1e-8;
    prints (0 = Ok / 13 = NotConverged, returned T, evaluated temperatures in order) *)
Definition run_newton (k A ts ut t0 : Q) :=
  let '(r, tr) := newton_r Q (caloric_step_oracle k A ts ut) (1 # 100000000) (rnd_grid 60) 50 t0 [] in
  (match r with Some T => (0%Z, enc_q T) | None => (13%Z, (0%Z, 0%Z)) end, map enc_q (rev tr)).

(** witness that exhaustion is reachable: the step oracle makes Newton alternate around Tstar for all 50 iterations -> error *)
Example newton_r_exhausts :
  fst (newton_r Q (caloric_step_oracle (9 # 2) 70 300 ((7 # 2) * 300)) (1 # 100000000) (rnd_grid 60) 50 290 []) = None
  /\ length (snd (newton_r Q (caloric_step_oracle (9 # 2) 70 300 ((7 # 2) * 300)) (1 # 100000000) (rnd_grid 60) 50 290 [])) = 50%nat.
Proof. split; vm_compute; reflexivity. Qed.
