(** C14 — shape model of the serde (de)serialisation of the main record types
    (Identifier, PureRecord<PcSaftRecord>, AssociationRecord<PcSaftAssociationRecord>, PcSaftBinaryRecord,
    BinaryAssociationRecord, BinaryRecord, ChemicalRecord): which keys are written ([skip_serializing_if]),
    which are optional on reading ([default]), how [#[serde(flatten)]] on an [Option<..>] behaves.
    Numbers are abstract tokens ([Z], 0 = the float 0.0), strings are interned ([N]).
    The real serde behaviour is tied by the correspondence check of checks/c14.py (same records through serde_json). *)
From Coq Require Import List ZArith NArith Bool String.
Import ListNotations.
Open Scope string_scope.
Open Scope list_scope.

Inductive jval :=
| JNum (z : Z)
| JStr (s : N)
| JArr (l : list Z)
| JPairs (l : list (nat * nat))              (* bonds: [[0,1],[1,2]] *)
| JStrs (l : list N)                         (* segments: ["CH3","CH2"] *)
| JObj (l : list (string * jval)).

Definition jobj := list (string * jval).

Fixpoint jget (k : string) (o : jobj) : option jval :=
  match o with [] => None | (k', v) :: r => if String.eqb k' k then Some v else jget k r end.

(** field printers *)
Definition f_req (k : string) (v : Z) : jobj := [(k, JNum v)].
Definition f_opt (k : string) (v : option Z) : jobj := match v with Some x => [(k, JNum x)] | None => [] end.
Definition f_nz (k : string) (v : Z) : jobj := if Z.eqb v 0 then [] else [(k, JNum v)].       (* skip_serializing_if = "f64::is_zero" *)
Definition f_ostr (k : string) (v : option N) : jobj := match v with Some x => [(k, JStr x)] | None => [] end.
Definition f_oarr (k : string) (v : option (list Z)) : jobj := match v with Some x => [(k, JArr x)] | None => [] end.

(** field readers; [None] = deserialisation error *)
Definition g_req (k : string) (o : jobj) : option Z := match jget k o with Some (JNum v) => Some v | _ => None end.
Definition g_opt (k : string) (o : jobj) : option (option Z) :=
  match jget k o with None => Some None | Some (JNum v) => Some (Some v) | Some _ => None end.
Definition g_dflt (k : string) (o : jobj) : option Z :=
  match jget k o with None => Some 0%Z | Some (JNum v) => Some v | Some _ => None end.
Definition g_ostr (k : string) (o : jobj) : option (option N) :=
  match jget k o with None => Some None | Some (JStr v) => Some (Some v) | Some _ => None end.
Definition g_oarr (n : nat) (k : string) (o : jobj) : option (option (list Z)) :=
  match jget k o with
  | None => Some None
  | Some (JArr v) => if Nat.eqb (List.length v) n then Some (Some v) else None
  | Some _ => None end.

(* ------------------------------------------------------------------------------------------------ *)
(** * Identifier *)
Record sident := mkSI { i_cas : option N; i_name : option N; i_iupac : option N; i_smiles : option N; i_inchi : option N; i_formula : option N }.

Definition print_ident (i : sident) : jobj :=
  f_ostr "cas" (i_cas i) ++ f_ostr "name" (i_name i) ++ f_ostr "iupac_name" (i_iupac i) ++
  f_ostr "smiles" (i_smiles i) ++ f_ostr "inchi" (i_inchi i) ++ f_ostr "formula" (i_formula i).

Definition parse_ident (o : jobj) : option sident :=
  match g_ostr "cas" o, g_ostr "name" o, g_ostr "iupac_name" o, g_ostr "smiles" o, g_ostr "inchi" o, g_ostr "formula" o with
  | Some a, Some b, Some c, Some d, Some e, Some f => Some (mkSI a b c d e f)
  | _, _, _, _, _, _ => None
  end.

Theorem ident_roundtrip : forall i, parse_ident (print_ident i) = Some i.
Proof. intros [[a|] [b|] [c|] [d|] [e|] [f|]]; reflexivity. Qed.

(* ------------------------------------------------------------------------------------------------ *)
(** * AssociationRecord<PcSaftAssociationRecord>  (all keys optional: flatten + default) *)
Record sassoc := mkSA { a_kappa : option Z; a_epsab : option Z; a_na : Z; a_nb : Z; a_nc : Z }.

Definition print_assoc (a : sassoc) : jobj :=
  f_opt "kappa_ab" (a_kappa a) ++ f_opt "epsilon_k_ab" (a_epsab a) ++ f_nz "na" (a_na a) ++ f_nz "nb" (a_nb a) ++ f_nz "nc" (a_nc a).

Definition parse_assoc (o : jobj) : option sassoc :=
  match g_opt "kappa_ab" o, g_opt "epsilon_k_ab" o, g_dflt "na" o, g_dflt "nb" o, g_dflt "nc" o with
  | Some a, Some b, Some c, Some d, Some e => Some (mkSA a b c d e)
  | _, _, _, _, _ => None
  end.

Definition assoc_default : sassoc := mkSA None None 0 0 0.

(* ------------------------------------------------------------------------------------------------ *)
(** * PcSaftRecord *)
Record spcsaft := mkSP {
  r_m : Z; r_sigma : Z; r_eps : Z; r_mu : option Z; r_q : option Z;
  r_assoc : option sassoc;
  r_visc : option (list Z); r_diff : option (list Z); r_tcond : option (list Z) }.

Definition print_pcsaft (r : spcsaft) : jobj :=
  f_req "m" (r_m r) ++ f_req "sigma" (r_sigma r) ++ f_req "epsilon_k" (r_eps r) ++
  f_opt "mu" (r_mu r) ++ f_opt "q" (r_q r) ++
  match r_assoc r with Some a => print_assoc a | None => [] end ++
  f_oarr "viscosity" (r_visc r) ++ f_oarr "diffusion" (r_diff r) ++ f_oarr "thermal_conductivity" (r_tcond r).

(** [#[serde(flatten)] Option<AssociationRecord<..>>]: serde tries to read the flattened record from the remaining keys
    and yields [Some] whenever that succeeds — which, all its keys being optional, is whenever they are well typed *)
Definition parse_pcsaft (o : jobj) : option spcsaft :=
  match g_req "m" o, g_req "sigma" o, g_req "epsilon_k" o, g_opt "mu" o, g_opt "q" o,
        g_oarr 4 "viscosity" o, g_oarr 5 "diffusion" o, g_oarr 4 "thermal_conductivity" o with
  | Some m, Some s, Some e, Some mu, Some q, Some v, Some d, Some t =>
      Some (mkSP m s e mu q (parse_assoc o) v d t)
  | _, _, _, _, _, _, _, _ => None
  end.

(** the value space: array lengths as in the Rust types; no stored -0.0 (token 0 is +0.0) *)
Definition olen (n : nat) (v : option (list Z)) : Prop := match v with Some l => List.length l = n | None => True end.
Definition pcsaft_ok (r : spcsaft) : Prop := olen 4 (r_visc r) /\ olen 5 (r_diff r) /\ olen 4 (r_tcond r).

(** what one round trip does: an absent association record comes back as the all-default one *)
Definition norm_pcsaft (r : spcsaft) : spcsaft :=
  mkSP (r_m r) (r_sigma r) (r_eps r) (r_mu r) (r_q r)
       (match r_assoc r with Some a => Some a | None => Some assoc_default end)
       (r_visc r) (r_diff r) (r_tcond r).

Theorem pcsaft_roundtrip : forall r, pcsaft_ok r -> parse_pcsaft (print_pcsaft r) = Some (norm_pcsaft r).
Proof.
  intros [m s e mu q a v d t] [Hv [Hd Ht]]. simpl in *.
  destruct a as [[ka ea na nb nc]|].
  - destruct mu, q, ka, ea, v, d, t; simpl in *;
    unfold parse_pcsaft, print_pcsaft, print_assoc, parse_assoc, norm_pcsaft, f_nz, g_oarr; simpl;
    destruct (Z.eqb na 0) eqn:Ena; destruct (Z.eqb nb 0) eqn:Enb; destruct (Z.eqb nc 0) eqn:Enc; simpl;
    rewrite ?Hv, ?Hd, ?Ht; simpl;
    try (apply Z.eqb_eq in Ena; subst na); try (apply Z.eqb_eq in Enb; subst nb); try (apply Z.eqb_eq in Enc; subst nc);
    reflexivity.
  - destruct mu, q, v, d, t; simpl in *;
    unfold parse_pcsaft, print_pcsaft, parse_assoc, norm_pcsaft, g_oarr; simpl;
    rewrite ?Hv, ?Hd, ?Ht; reflexivity.
Qed.

(** the serialised form is unchanged by the normalisation, hence stable under any number of round trips *)
Theorem pcsaft_print_norm : forall r, print_pcsaft (norm_pcsaft r) = print_pcsaft r.
Proof. intros [m s e mu q [a|] v d t]; reflexivity. Qed.

Theorem pcsaft_norm_idem : forall r, norm_pcsaft (norm_pcsaft r) = norm_pcsaft r.
Proof. intros [m s e mu q [a|] v d t]; reflexivity. Qed.

Theorem pcsaft_reserialise : forall r r', pcsaft_ok r -> parse_pcsaft (print_pcsaft r) = Some r' -> print_pcsaft r' = print_pcsaft r.
Proof. intros r r' Hok H. rewrite (pcsaft_roundtrip r Hok) in H. inversion H. apply pcsaft_print_norm. Qed.

(** behaviour: the association sites handed to [AssociationParameters::new] (sites with n > 0) are the same *)
Definition sites (r : spcsaft) : list (nat * Z * option Z * option Z) :=
  match r_assoc r with
  | None => []
  | Some a =>
      (if Z.ltb 0 (a_na a) then [(0%nat, a_na a, a_kappa a, a_epsab a)] else []) ++
      (if Z.ltb 0 (a_nb a) then [(1%nat, a_nb a, a_kappa a, a_epsab a)] else []) ++
      (if Z.ltb 0 (a_nc a) then [(2%nat, a_nc a, a_kappa a, a_epsab a)] else [])
  end.

Theorem pcsaft_sites_norm : forall r, sites (norm_pcsaft r) = sites r.
Proof. intros [m s e mu q [a|] v d t]; reflexivity. Qed.

(** on records that carry an association record the round trip is the identity *)
Theorem pcsaft_roundtrip_id : forall r, pcsaft_ok r -> r_assoc r <> None -> parse_pcsaft (print_pcsaft r) = Some r.
Proof.
  intros r Hok Ha. rewrite (pcsaft_roundtrip r Hok). f_equal.
  destruct r as [m s e mu q [a|] v d t]; [reflexivity | contradiction].
Qed.

(* ------------------------------------------------------------------------------------------------ *)
(** * PcSaftBinaryRecord { k_ij (skip if zero, default), flatten Option<BinaryAssociationRecord> } *)
Record sbassoc := mkSBA { ba_kappa : option Z; ba_epsab : option Z; ba_sites : option (nat * nat) (* None = [0,0] *) }.
Record sbinary := mkSB { b_kij : Z; b_assoc : option sbassoc }.

Definition print_bassoc (a : sbassoc) : jobj :=
  f_opt "kappa_ab" (ba_kappa a) ++ f_opt "epsilon_k_ab" (ba_epsab a) ++
  match ba_sites a with Some (i, j) => [("site_indices", JPairs [(i, j)])] | None => [] end.

Definition sites_ok (a : sbassoc) : Prop := ba_sites a <> Some (0, 0)%nat.   (* [0,0] is represented by None *)

Definition parse_bassoc (o : jobj) : option sbassoc :=
  match g_opt "kappa_ab" o, g_opt "epsilon_k_ab" o with
  | Some a, Some b =>
      match jget "site_indices" o with
      | None => Some (mkSBA a b None)
      | Some (JPairs [(i, j)]) => Some (mkSBA a b (if (Nat.eqb i 0 && Nat.eqb j 0)%bool then None else Some (i, j)))
      | Some _ => None
      end
  | _, _ => None
  end.

Definition print_binary (b : sbinary) : jobj :=
  f_nz "k_ij" (b_kij b) ++ match b_assoc b with Some a => print_bassoc a | None => [] end.

Definition parse_binary (o : jobj) : option sbinary :=
  match g_dflt "k_ij" o with Some k => Some (mkSB k (parse_bassoc o)) | None => None end.

Definition norm_binary (b : sbinary) : sbinary :=
  mkSB (b_kij b) (match b_assoc b with Some a => Some a | None => Some (mkSBA None None None) end).

Definition binary_ok (b : sbinary) : Prop := match b_assoc b with Some a => sites_ok a | None => True end.

Theorem binary_roundtrip : forall b, binary_ok b -> parse_binary (print_binary b) = Some (norm_binary b).
Proof.
  intros [k [[[ka|] [ea|] [[i j]|]]|]] Hok; unfold parse_binary, print_binary, print_bassoc, parse_bassoc, norm_binary, f_nz; simpl in *;
  destruct (Z.eqb k 0) eqn:Ek; simpl; try (apply Z.eqb_eq in Ek; subst k); try reflexivity;
  unfold sites_ok in Hok; simpl in Hok;
  destruct i as [|i]; destruct j as [|j]; simpl; try reflexivity; exfalso; now apply Hok.
Qed.

Theorem binary_print_norm : forall b, print_binary (norm_binary b) = print_binary b.
Proof. intros [k [a|]]; reflexivity. Qed.

(** behaviour: the k_ij and the binary association overrides ([update_binary] only looks at [Some] fields) agree *)
Definition overrides (b : sbinary) : Z * option Z * option Z :=
  match b_assoc b with Some a => (b_kij b, ba_kappa a, ba_epsab a) | None => (b_kij b, None, None) end.

Theorem binary_overrides_norm : forall b, overrides (norm_binary b) = overrides b.
Proof. intros [k [a|]]; reflexivity. Qed.

(* ------------------------------------------------------------------------------------------------ *)
(** * ElectrolytePcSaftBinaryRecord { k_ij: Vec<f64> (default, ALWAYS written), flatten Option<BinaryAssociationRecord> }
      k_ij holds the coefficients of the temperature polynomial; all of them matter, also when the constant one is 0 *)
Record sebinary := mkSEB { eb_kij : list Z; eb_assoc : option sbassoc }.

Definition print_ebinary (b : sebinary) : jobj :=
  [("k_ij", JArr (eb_kij b))] ++ match eb_assoc b with Some a => print_bassoc a | None => [] end.

Definition parse_ebinary (o : jobj) : option sebinary :=
  match jget "k_ij" o with
  | None => Some (mkSEB [] (parse_bassoc o))
  | Some (JArr v) => Some (mkSEB v (parse_bassoc o))
  | Some _ => None
  end.

Definition norm_ebinary (b : sebinary) : sebinary :=
  mkSEB (eb_kij b) (match eb_assoc b with Some a => Some a | None => Some (mkSBA None None None) end).

Definition ebinary_ok (b : sebinary) : Prop := match eb_assoc b with Some a => sites_ok a | None => True end.

Theorem ebinary_roundtrip : forall b, ebinary_ok b -> parse_ebinary (print_ebinary b) = Some (norm_ebinary b).
Proof.
  intros [k [[[ka|] [ea|] [[i j]|]]|]] Hok; unfold parse_ebinary, print_ebinary, print_bassoc, parse_bassoc, norm_ebinary; simpl in *;
  try reflexivity; unfold sites_ok in Hok; simpl in Hok;
  destruct i as [|i]; destruct j as [|j]; simpl; try reflexivity; exfalso; now apply Hok.
Qed.

(** every coefficient survives the round trip, whatever its value and whatever the value of the constant term *)
Theorem ebinary_kij_preserved : forall b b', ebinary_ok b -> parse_ebinary (print_ebinary b) = Some b' -> eb_kij b' = eb_kij b.
Proof. intros b b' Hok H. rewrite (ebinary_roundtrip b Hok) in H. inversion H. reflexivity. Qed.

Theorem ebinary_print_norm : forall b, print_ebinary (norm_ebinary b) = print_ebinary b.
Proof. intros [k [a|]]; reflexivity. Qed.

Example ex_ebinary_zero_constant_term :
  parse_ebinary (print_ebinary (mkSEB [0; 4; 0; 0]%Z None)) = Some (mkSEB [0; 4; 0; 0]%Z (Some (mkSBA None None None))).
Proof. reflexivity. Qed.

(* ------------------------------------------------------------------------------------------------ *)
(** * PureRecord<PcSaftRecord>, BinaryRecord<Identifier, PcSaftBinaryRecord>, ChemicalRecord *)
Record spure := mkSPure { pu_id : sident; pu_mw : Z; pu_model : spcsaft }.

Definition print_pure (p : spure) : jobj :=
  [("identifier", JObj (print_ident (pu_id p))); ("molarweight", JNum (pu_mw p)); ("model_record", JObj (print_pcsaft (pu_model p)))].

Definition parse_pure (o : jobj) : option spure :=
  match jget "identifier" o, g_dflt "molarweight" o, jget "model_record" o with
  | Some (JObj i), Some mw, Some (JObj m) =>
      match parse_ident i, parse_pcsaft m with Some i', Some m' => Some (mkSPure i' mw m') | _, _ => None end
  | _, _, _ => None
  end.

Theorem pure_roundtrip : forall p, pcsaft_ok (pu_model p) ->
  parse_pure (print_pure p) = Some (mkSPure (pu_id p) (pu_mw p) (norm_pcsaft (pu_model p))).
Proof.
  intros [i mw m] Hok. unfold parse_pure, print_pure. simpl. simpl in Hok.
  rewrite ident_roundtrip, (pcsaft_roundtrip m Hok). reflexivity.
Qed.

(** molarweight is [#[serde(default)]]: a file record without it reads as 0 *)
Example pure_molarweight_default : forall i m,
  parse_pure [("identifier", JObj (print_ident i)); ("model_record", JObj (print_pcsaft m))] =
  match parse_pcsaft (print_pcsaft m) with Some m' => Some (mkSPure i 0 m') | None => None end.
Proof. intros. unfold parse_pure. simpl. rewrite ident_roundtrip. reflexivity. Qed.

Record sbrec := mkSBR { br_id1 : sident; br_id2 : sident; br_model : sbinary }.

Definition print_brec (b : sbrec) : jobj :=
  [("id1", JObj (print_ident (br_id1 b))); ("id2", JObj (print_ident (br_id2 b))); ("model_record", JObj (print_binary (br_model b)))].

Definition parse_brec (o : jobj) : option sbrec :=
  match jget "id1" o, jget "id2" o, jget "model_record" o with
  | Some (JObj a), Some (JObj b), Some (JObj m) =>
      match parse_ident a, parse_ident b, parse_binary m with Some a', Some b', Some m' => Some (mkSBR a' b' m') | _, _, _ => None end
  | _, _, _ => None
  end.

Theorem brec_roundtrip : forall b, binary_ok (br_model b) ->
  parse_brec (print_brec b) = Some (mkSBR (br_id1 b) (br_id2 b) (norm_binary (br_model b))).
Proof.
  intros [a b m] Hok. unfold parse_brec, print_brec. simpl. simpl in Hok.
  rewrite !ident_roundtrip, (binary_roundtrip m Hok). reflexivity.
Qed.

(** ChemicalRecord: bonds are always written; when absent on reading the molecule is a linear chain *)
Record schem := mkSC { ch_id : sident; ch_segments : list N; ch_bonds : list (nat * nat) }.

Definition linear_bonds (n : nat) : list (nat * nat) := map (fun i => (i, S i)) (seq 0 (n - 1)).

Definition print_chem (c : schem) : jobj :=
  [("identifier", JObj (print_ident (ch_id c))); ("segments", JStrs (ch_segments c)); ("bonds", JPairs (ch_bonds c))].

Definition parse_chem (o : jobj) : option schem :=
  match jget "identifier" o, jget "segments" o with
  | Some (JObj i), Some (JStrs s) =>
      match parse_ident i with
      | Some i' =>
          match jget "bonds" o with
          | None => Some (mkSC i' s (linear_bonds (List.length s)))
          | Some (JPairs b) => Some (mkSC i' s b)
          | Some _ => None
          end
      | None => None
      end
  | _, _ => None
  end.

Theorem chem_roundtrip : forall c, parse_chem (print_chem c) = Some c.
Proof. intros [i s b]. unfold parse_chem, print_chem. simpl. rewrite ident_roundtrip. reflexivity. Qed.

Example chem_default_bonds : forall i,
  parse_chem [("identifier", JObj (print_ident i)); ("segments", JStrs [1; 2; 2; 1]%N)] =
  Some (mkSC i [1; 2; 2; 1]%N [(0, 1); (1, 2); (2, 3)]%nat).
Proof. intro i. unfold parse_chem. simpl. rewrite ident_roundtrip. reflexivity. Qed.

Example ex_pcsaft_ok : pcsaft_ok (mkSP 1%Z 2%Z 3%Z None (Some 4%Z) None (Some [1; 2; 3; 4]%Z) None None).
Proof. repeat split. Qed.
