(** * Homog: degree-of-homogeneity analysis of straight-line programs and its soundness.
    [deg_eval P d0] is an abstract interpretation over [option Z]; [deg_sound] states that an
    output of degree [Some j] scales with [lam^j] when every input of degree [Some k] is scaled by
    [lam^k] — for every [lam > 0], every environment, every value of the constants, including the
    undefined ([Xnan]) cases. *)
From Coq Require Import Reals List ZArith Lia Lra Bool.
From Flocq Require Import Core.Raux.
From Interval Require Import Eval.Prog Eval.Tree Real.Xreal Eval.Eval.
From FeosVerif Require Import ProgSem.
Import ListNotations.

(** [DAny]: the value is exactly zero (a literal 0.0 of the code, e.g. the start of a fold), hence
    homogeneous of every degree; [DSome k]: homogeneous of degree k; [DNone]: unknown. *)
Inductive deg := DNone | DAny | DSome (k : Z).

Definition dadd (a b : deg) : deg :=
  match a, b with
  | DAny, d | d, DAny => d
  | DSome x, DSome y => if Z.eqb x y then DSome x else DNone
  | _, _ => DNone
  end.

Definition deg_ops : operations deg :=
  {| constant := fun z => if Z.eqb z 0 then DAny else DSome 0%Z;
     unary := fun o a => match o, a with
        | _, DNone => DNone
        | (Neg | Abs | Sqr | Sqrt), DAny => DAny
        | (Neg | Abs), DSome k => DSome k
        | Inv, DSome k => DSome (- k)
        | Sqr, DSome k => DSome (2 * k)
        | Sqrt, DSome k => if Z.even k then DSome (k / 2)%Z else DNone
        | (Cos | Sin | Tan | Atan | Exp | Ln), DAny => DSome 0
        | (Cos | Sin | Tan | Atan | Exp | Ln), DSome 0%Z => DSome 0
        | _, _ => DNone end;
     binary := fun o a b => match o with
        | Add | Sub => dadd a b
        | Mul => match a, b with
                 | DSome x, DSome y => DSome (x + y)%Z
                 | DAny, (DAny | DSome _) | DSome _, DAny => DAny
                 | _, _ => DNone end
        | Div => match a, b with
                 | DSome x, DSome y => DSome (x - y)%Z
                 | DAny, DSome _ => DAny
                 | _, _ => DNone end
        end;
     sign := fun _ => Xund |}.

(** one step of the analysis: the generic step, except that [x - x] (the "defined-ness carrying zero" the derivative
    transformation of [AD.v] emits) is a zero of any degree as soon as [x] has a degree *)
Definition deg_step (ds : list deg) (t : term) : list deg :=
  match t with
  | Binary Sub u v =>
      if Nat.eqb u v then (match nth u ds DNone with DNone => DNone | _ => DAny end) :: ds
      else eval_generic_body DNone deg_ops ds t
  | _ => eval_generic_body DNone deg_ops ds t
  end.
Definition deg_eval (P : list term) (d0 : list deg) : list deg := fold_left deg_step P d0.

Section Hom.
Variable lam : R.
Hypothesis Hlam : (0 < lam)%R.

(** degree, original value, value after scaling the inputs *)
Definition Rh (d : deg) (x x' : ExtendedR) : Prop :=
  match d with
  | DNone => True
  | DAny => x' = x /\ (x = Xnan \/ x = Xreal 0)
  | DSome k => match x with Xnan => x' = Xnan | Xreal r => x' = Xreal (powerRZ lam k * r) end
  end.

Lemma lam_nz : lam <> 0%R. Proof. lra. Qed.
Lemma pz_pos k : (0 < powerRZ lam k)%R. Proof. apply powerRZ_lt, Hlam. Qed.

Lemma Rh_any_some k x x' : Rh DAny x x' -> Rh (DSome k) x x'.
Proof. intros [-> [-> | ->]]; cbn; [reflexivity|]. now rewrite Rmult_0_r. Qed.

Lemma Rh_some0_eq x x' : Rh (DSome 0) x x' -> x' = x.
Proof. destruct x; cbn; intros ->; [reflexivity|]. now rewrite Rmult_1_l. Qed.

Lemma Rh_eq_some0 x : Rh (DSome 0) x x.
Proof. destruct x; cbn; [reflexivity|]. now rewrite Rmult_1_l. Qed.

Lemma Rh_unary_some o k x x' : Rh (DSome k) x x' ->
  Rh (unary deg_ops o (DSome k)) (unary ext_operations o x) (unary ext_operations o x').
Proof.
  destruct o; cbn [unary deg_ops ext_operations];
    try (destruct k; try exact (fun _ => I); intros H; apply Rh_some0_eq in H; subst x'; apply Rh_eq_some0);
    try (intros _; exact I).
  - (* Neg *) cbn. destruct x; intros ->; cbn; auto. f_equal. ring.
  - (* Abs *) cbn. destruct x; intros ->; cbn; auto. f_equal.
    rewrite Rabs_mult. rewrite (Rabs_pos_eq (powerRZ lam k)); [reflexivity|]. left. apply pz_pos.
  - (* Inv *) cbn. destruct x as [|r]; intros ->; cbn; auto.
    unfold Xinv'. pose proof (pz_pos k) as Hk.
    destruct (is_zero_spec r) as [->|Hr].
    + rewrite Rmult_0_r. destruct (is_zero_spec 0); [reflexivity|lra].
    + destruct (is_zero_spec (powerRZ lam k * r)) as [E|_].
      { apply Rmult_integral in E. destruct E; lra. }
      f_equal. rewrite powerRZ_neg'.
      field. split; [exact Hr|]. apply Rgt_not_eq, pz_pos.
  - (* Sqr *) cbn [Rh]. destruct x as [|r]; intros ->; cbn [Xsqr Xlift Xbind]; auto.
    f_equal. replace (2 * k)%Z with (k + k)%Z by lia.
    rewrite powerRZ_add by apply lam_nz. unfold Rsqr. ring.
  - (* Sqrt *)
    destruct (Z.even k) eqn:Hev; cbn [Rh]; auto.
    destruct x as [|r]; intros ->; cbn; auto.
    unfold Xsqrt'. pose proof (pz_pos k) as Hk. f_equal.
    apply Z.even_spec in Hev. destruct Hev as [h ->].
    replace (2 * h / 2)%Z with h by (rewrite Z.mul_comm, Z.div_mul; lia).
    replace (2 * h)%Z with (h + h)%Z in * by lia.
    rewrite powerRZ_add in * by apply lam_nz.
    destruct (Rle_or_lt 0 r) as [Hr|Hr].
    + rewrite sqrt_mult; [|now left|exact Hr]. f_equal.
      apply sqrt_square. left. apply pz_pos.
    + rewrite (sqrt_neg_0 r) by lra. rewrite sqrt_neg_0; [ring|].
      apply (Rmult_lt_compat_l _ _ _ Hk) in Hr. lra.
Qed.

Lemma Rh_unary o a x x' : Rh a x x' ->
  Rh (unary deg_ops o a) (unary ext_operations o x) (unary ext_operations o x').
Proof.
  destruct a as [| |k].
  - intros _. destruct o; exact I.
  - intros [-> Hx].
    destruct o; cbn [unary deg_ops ext_operations]; try exact I; try apply Rh_eq_some0;
      (split; [reflexivity|]); (destruct Hx as [-> | ->]; [left; reflexivity|right]).
    + cbn. f_equal. apply Ropp_0.
    + cbn. f_equal. apply Rabs_R0.
    + cbn. f_equal. unfold Rsqr. ring.
    + cbn. unfold Xsqrt'. f_equal. apply sqrt_0.
  - apply Rh_unary_some.
Qed.

Lemma Rh_binary_some o ka kb x x' y y' : Rh (DSome ka) x x' -> Rh (DSome kb) y y' ->
  Rh (binary deg_ops o (DSome ka) (DSome kb)) (binary ext_operations o x y) (binary ext_operations o x' y').
Proof.
  destruct o; cbn.
  - (* Add *) destruct (Z.eqb_spec ka kb) as [->|]; cbn; auto.
    destruct x, y; cbn; intros -> ->; cbn; auto. f_equal. ring.
  - destruct (Z.eqb_spec ka kb) as [->|]; cbn; auto.
    destruct x, y; cbn; intros -> ->; cbn; auto. f_equal. ring.
  - destruct x, y; cbn; intros -> ->; cbn; auto. f_equal.
    rewrite powerRZ_add by apply lam_nz. ring.
  - destruct x as [|r], y as [|s]; cbn; intros -> ->; cbn; auto.
    unfold Xdiv'. pose proof (pz_pos kb) as Hk.
    destruct (is_zero_spec s) as [->|Hs].
    + rewrite Rmult_0_r. destruct (is_zero_spec 0); [reflexivity|lra].
    + destruct (is_zero_spec (powerRZ lam kb * s)) as [E|_].
      { apply Rmult_integral in E. destruct E; lra. }
      f_equal. unfold Zminus. rewrite powerRZ_add by apply lam_nz.
      rewrite powerRZ_neg'.
      field. split; [exact Hs|]. apply Rgt_not_eq, pz_pos.
Qed.

Lemma Xadd_0_l x : Xadd (Xreal 0) x = x.
Proof. destruct x; cbn; [reflexivity|]. now rewrite Rplus_0_l. Qed.
Lemma Xadd_0_r x : Xadd x (Xreal 0) = x.
Proof. destruct x; cbn; [reflexivity|]. now rewrite Rplus_0_r. Qed.
Lemma Xsub_0_r x : Xsub x (Xreal 0) = x.
Proof. destruct x; cbn; [reflexivity|]. now rewrite Rminus_0_r. Qed.
Lemma Xsub_0_l x : Xsub (Xreal 0) x = Xneg x.
Proof. destruct x; cbn; [reflexivity|]. now rewrite Rminus_0_l. Qed.

Lemma Rh_neg d x x' : Rh d x x' -> Rh d (Xneg x) (Xneg x').
Proof.
  destruct d as [| |k]; [easy| |].
  - apply (Rh_unary Neg DAny).
  - apply (Rh_unary Neg (DSome k)).
Qed.

Lemma Rh_nan_nan d : Rh d Xnan Xnan.
Proof. destruct d; cbn; auto. Qed.

Lemma Rh_binary o a b x x' y y' : Rh a x x' -> Rh b y y' ->
  Rh (binary deg_ops o a b) (binary ext_operations o x y) (binary ext_operations o x' y').
Proof.
  destruct a as [| |ka], b as [| |kb]; try (intros _ _; destruct o; exact I);
    try (intros _ ?; destruct o; exact I); try (intros ? _; destruct o; exact I);
    try apply Rh_binary_some.
  - (* DAny, DAny *)
    intros [-> Hx] [-> Hy]. destruct o; cbn [binary deg_ops ext_operations dadd]; try exact I;
      (split; [reflexivity|]); destruct Hx as [-> | ->], Hy as [-> | ->]; cbn; auto; right; f_equal; ring.
  - (* DAny, DSome *)
    intros [-> Hx] Hy. destruct o; cbn [binary deg_ops ext_operations dadd].
    + destruct Hx as [-> | ->]; [apply Rh_nan_nan|]. now rewrite !Xadd_0_l.
    + destruct Hx as [-> | ->]; [apply Rh_nan_nan|]. rewrite !Xsub_0_l. now apply Rh_neg.
    + destruct Hx as [-> | ->]; [split; auto|].
      destruct y as [|s]; cbn in Hy; subst y'; cbn; [auto|]. rewrite !Rmult_0_l. auto.
    + destruct Hx as [-> | ->]; [split; auto|].
      destruct y as [|s]; cbn in Hy; subst y'; cbn; [auto|].
      unfold Xdiv'. pose proof (pz_pos kb) as Hk.
      destruct (is_zero_spec s) as [->|Hs].
      * rewrite Rmult_0_r. destruct (is_zero_spec 0); [auto|lra].
      * destruct (is_zero_spec (powerRZ lam kb * s)) as [E|_].
        { apply Rmult_integral in E. destruct E; lra. }
        unfold Rdiv. rewrite !Rmult_0_l. auto.
  - (* DSome, DAny *)
    intros Hx [-> Hy]. destruct o; cbn [binary deg_ops ext_operations dadd]; try exact I.
    + destruct Hy as [-> | ->].
      * destruct x, x'; apply Rh_nan_nan.
      * now rewrite !Xadd_0_r.
    + destruct Hy as [-> | ->].
      * destruct x, x'; apply Rh_nan_nan.
      * now rewrite !Xsub_0_r.
    + destruct Hy as [-> | ->].
      * destruct x, x'; cbn; auto.
      * destruct x as [|r]; cbn in Hx; subst x'; cbn; [auto|]. rewrite !Rmult_0_r. auto.
Qed.

(** soundness for arbitrary related input lists *)
Lemma Rh_sub_same d x x' : d <> DNone -> Rh d x x' -> Rh DAny (Xsub x x) (Xsub x' x').
Proof.
  destruct d as [| |k]; [congruence| |]; intros _.
  - intros [-> Hx]. split; [reflexivity|]. destruct Hx as [-> | ->]; [now left|right]. cbn. f_equal. ring.
  - destruct x as [|r]; cbn; intros ->; cbn; [now split; [|left]|]. split; [f_equal; ring|right; f_equal; ring].
Qed.

Lemma deg_step_rel ds vs vs' t : Forall3 Rh ds vs vs' ->
  Forall3 Rh (deg_step ds t) (eval_generic_body Xnan ext_operations vs t) (eval_generic_body Xnan ext_operations vs' t).
Proof.
  intros H.
  assert (Hn : forall n, Rh (nth n ds DNone) (nth n vs Xnan) (nth n vs' Xnan)) by (apply Forall3_nth; [exact H|exact I]).
  assert (G : Forall3 Rh (eval_generic_body DNone deg_ops ds t) (eval_generic_body Xnan ext_operations vs t) (eval_generic_body Xnan ext_operations vs' t)).
  { destruct t as [u|o u|o u v]; cbn [eval_generic_body]; constructor; try exact H.
    - apply Hn. - apply Rh_unary, Hn. - apply Rh_binary; apply Hn. }
  destruct t as [u|o u|o u v]; try exact G. destruct o; try exact G.
  unfold deg_step. destruct (Nat.eqb_spec u v) as [->|_]; [|exact G].
  cbn [eval_generic_body]. constructor; [|exact H].
  cbn [binary ext_operations]. specialize (Hn v).
  destruct (nth v ds DNone) eqn:E; [exact I| |]; (eapply Rh_sub_same; [|exact Hn]; congruence).
Qed.

(** soundness for arbitrary related input lists *)
Theorem deg_sound_gen P d0 env env' :
  Forall3 Rh d0 env env' ->
  forall k, Rh (nth k (deg_eval P d0) DNone) (nth k (eval_ext P env) Xnan) (nth k (eval_ext P env') Xnan).
Proof.
  intros H k. unfold deg_eval, eval_ext, eval_generic.
  apply Forall3_nth; [|exact I].
  revert d0 env env' H. induction P as [|t P IH]; intros d0 env env' H; cbn [fold_left]; [exact H|].
  apply IH. now apply deg_step_rel.
Qed.

(** scaling of a real environment according to a degree assignment *)
Fixpoint scale_env (d0 : list deg) (env : list R) : list R :=
  match d0, env with
  | d :: d0, x :: env =>
      match d with DSome k => (powerRZ lam k * x)%R | _ => x end :: scale_env d0 env
  | _, _ => env
  end.

(** inputs classified [DAny] must be zero *)
Fixpoint zeros_ok (d0 : list deg) (env : list R) : Prop :=
  match d0, env with
  | d :: d0, x :: env => (d = DAny -> x = 0%R) /\ zeros_ok d0 env
  | _, _ => True
  end.

Lemma scale_env_rel d0 env : length d0 = length env -> zeros_ok d0 env ->
  Forall3 Rh d0 (map Xreal env) (map Xreal (scale_env d0 env)).
Proof.
  revert env. induction d0 as [|d d0 IH]; intros [|x env]; cbn; try discriminate; intros H Hz.
  - constructor.
  - destruct Hz as [Hz1 Hz2]. constructor; [|apply IH; [lia|exact Hz2]].
    destruct d; cbn; auto. split; [reflexivity|]. right. now rewrite Hz1.
Qed.

Theorem deg_sound P d0 env k j : length d0 = length env -> zeros_ok d0 env ->
  nth k (deg_eval P d0) DNone = DSome j ->
  out_ext P (scale_env d0 env) k =
    match out_ext P env k with Xnan => Xnan | Xreal r => Xreal (powerRZ lam j * r) end.
Proof.
  intros Hl Hz Hj. pose proof (deg_sound_gen P d0 _ _ (scale_env_rel d0 env Hl Hz) k) as H.
  rewrite Hj in H. unfold out_ext. cbn in H. destruct (nth k (eval_ext P (map Xreal env)) Xnan); exact H.
Qed.

(** values of degree 0 (in particular everything the code branches on) are invariant *)
Corollary deg0_invariant P d0 env k : length d0 = length env -> zeros_ok d0 env ->
  nth k (deg_eval P d0) DNone = DSome 0%Z ->
  out_ext P (scale_env d0 env) k = out_ext P env k.
Proof.
  intros Hl Hz Hj. rewrite (deg_sound P d0 env k 0%Z Hl Hz Hj).
  destruct (out_ext P env k); [reflexivity|]. cbn. now rewrite Rmult_1_l.
Qed.

End Hom.

(** ** The thermodynamic instance: inputs are [T; V; N_1..N_n] ++ constants.
    [cz] flags the constants that are literally zero. *)

Definition cdeg (z : bool) : deg := if z then DAny else DSome 0%Z.

Definition d0_thermo (ncomp : nat) (cz : list bool) : list deg :=
  DSome 0%Z :: DSome 1%Z :: repeat (DSome 1%Z) ncomp ++ map cdeg cz.

Definition thermo_env (T V : R) (N consts : list R) : list R := T :: V :: N ++ consts.

(** the constant table is compatible with the zero flags *)
Fixpoint consts_ok (cz : list bool) (consts : list R) : Prop :=
  match cz, consts with
  | z :: cz, c :: consts => (z = true -> c = 0%R) /\ consts_ok cz consts
  | [], [] => True
  | _, _ => False
  end.

Lemma consts_ok_length cz consts : consts_ok cz consts -> length cz = length consts.
Proof.
  revert consts. induction cz as [|z cz IH]; intros [|c consts]; cbn; try tauto.
  intros [_ H]. f_equal. now apply IH.
Qed.

Lemma scale_env_repeat lam k n l rest rest0 : length l = n ->
  scale_env lam (repeat (DSome k) n ++ rest0) (l ++ rest) =
  map (Rmult (powerRZ lam k)) l ++ scale_env lam rest0 rest.
Proof.
  revert l. induction n as [|n IH]; intros [|x l]; cbn; try discriminate; auto.
  intros H. f_equal. apply IH. lia.
Qed.

Lemma scale_env_cons lam d d0 x env :
  scale_env lam (d :: d0) (x :: env) =
  match d with DSome k => (powerRZ lam k * x)%R | _ => x end :: scale_env lam d0 env.
Proof. reflexivity. Qed.

Lemma scale_env_consts lam cz l : scale_env lam (map cdeg cz) l = l.
Proof.
  revert l. induction cz as [|z cz IH]; intros [|x l]; cbn; try reflexivity.
  rewrite IH. f_equal. destruct z; cbn; [reflexivity|]. apply Rmult_1_l.
Qed.

Lemma scale_thermo lam T V N cz consts :
  scale_env lam (d0_thermo (length N) cz) (thermo_env T V N consts) =
  thermo_env T (lam * V) (map (Rmult lam) N) consts.
Proof.
  unfold d0_thermo, thermo_env. rewrite !scale_env_cons.
  rewrite (scale_env_repeat lam 1%Z (length N) N consts (map cdeg cz) eq_refl).
  rewrite scale_env_consts.
  replace (powerRZ lam 0) with 1%R by reflexivity.
  rewrite powerRZ_1.
  now rewrite Rmult_1_l.
Qed.

Lemma zeros_ok_thermo T V N cz consts : consts_ok cz consts ->
  zeros_ok (d0_thermo (length N) cz) (thermo_env T V N consts).
Proof.
  intros H. unfold d0_thermo, thermo_env. cbn. split; [discriminate|]. split; [discriminate|].
  induction N as [|x N IH]; cbn.
  - revert consts H. induction cz as [|z cz IHc]; intros [|c consts]; cbn; try tauto.
    intros [H1 H2]. split; [|now apply IHc]. destruct z; cbn; [auto|discriminate].
  - split; [discriminate|exact IH].
Qed.

Lemma d0_thermo_length T V N cz consts : consts_ok cz consts ->
  length (d0_thermo (length N) cz) = length (thermo_env T V N consts).
Proof.
  intros H. apply consts_ok_length in H. unfold d0_thermo, thermo_env. cbn.
  now rewrite !app_length, repeat_length, map_length, H.
Qed.

(** executable check used by the regenerated obligations: the outputs [0..nouts) all have
    degree [j], and all branch-deciding values have degree 0 *)
Definition deg_is (j : Z) (d : deg) : bool := match d with DSome k => Z.eqb k j | _ => false end.
(** an output that is identically zero (e.g. an absent contribution) is also accepted *)
Definition deg_is_or_zero (j : Z) (d : deg) : bool :=
  match d with DSome k => Z.eqb k j | DAny => true | DNone => false end.

Definition outputs_deg (P : list term) (ncomp : nat) (cz : list bool) (nouts : nat) (j : Z) : bool :=
  let ds := deg_eval P (d0_thermo ncomp cz) in
  forallb (fun k => deg_is_or_zero j (nth k ds DNone)) (seq 0 nouts).

Definition events_deg0 (P : list term) (ncomp : nat) (cz : list bool) (ev : list nat) : bool :=
  let ds := deg_eval P (d0_thermo ncomp cz) in
  forallb (fun k => deg_is_or_zero 0 (nth k ds DNone)) ev.

(** *** Extensivity of a traced Helmholtz-energy program.
    If the executable check succeeds, every output [k < nouts] is homogeneous of degree [j] in
    [(V, N)] at fixed [T], for all states, all scale factors and all values of the (non-zero)
    constants. *)
Theorem program_homogeneous P ncomp cz nouts j :
  outputs_deg P ncomp cz nouts j = true ->
  forall lam T V N consts k, (0 < lam)%R -> length N = ncomp -> consts_ok cz consts -> (k < nouts)%nat ->
  out_ext P (thermo_env T (lam * V) (map (Rmult lam) N) consts) k =
    match out_ext P (thermo_env T V N consts) k with
    | Xnan => Xnan | Xreal r => Xreal (powerRZ lam j * r) end.
Proof.
  unfold outputs_deg. intros H lam T V N consts k Hlam HN Hc Hk.
  rewrite forallb_forall in H. specialize (H k). rewrite in_seq in H. specialize (H ltac:(lia)).
  subst ncomp. rewrite <- (scale_thermo lam T V N cz consts).
  pose proof (deg_sound_gen lam Hlam P _ _ _
    (scale_env_rel lam _ _ (d0_thermo_length T V N cz consts Hc) (zeros_ok_thermo T V N cz consts Hc)) k) as HR.
  unfold out_ext.
  destruct (nth k (deg_eval P (d0_thermo (length N) cz)) DNone) as [| |d]; [discriminate| |].
  - destruct HR as [-> [-> | ->]]; [reflexivity|]. now rewrite Rmult_0_r.
  - cbn in H. apply Z.eqb_eq in H. subst d. unfold Rh in HR.
    destruct (nth k (eval_ext P (map Xreal (thermo_env T V N consts))) Xnan); exact HR.
Qed.

Theorem events_invariant P ncomp cz ev :
  events_deg0 P ncomp cz ev = true ->
  forall lam T V N consts k, (0 < lam)%R -> length N = ncomp -> consts_ok cz consts -> In k ev ->
  out_ext P (thermo_env T (lam * V) (map (Rmult lam) N) consts) k = out_ext P (thermo_env T V N consts) k.
Proof.
  unfold events_deg0. intros H lam T V N consts k Hlam HN Hc Hk.
  rewrite forallb_forall in H. specialize (H k Hk).
  subst ncomp. rewrite <- (scale_thermo lam T V N cz consts).
  pose proof (deg_sound_gen lam Hlam P _ _ _
    (scale_env_rel lam _ _ (d0_thermo_length T V N cz consts Hc) (zeros_ok_thermo T V N cz consts Hc)) k) as HR.
  unfold out_ext.
  destruct (nth k (deg_eval P (d0_thermo (length N) cz)) DNone) as [| |d]; [discriminate| |].
  - now destruct HR as [-> _].
  - cbn in H. apply Z.eqb_eq in H. subst d. now apply Rh_some0_eq in HR.
Qed.

Definition has_deg (d : deg) : bool := match d with DNone => false | _ => true end.

(** *** Values the code only inspects for their sign, zero-ness or definedness (e.g.
    [result.re().is_nan()], comparisons with zero) may have any definite degree; two values the
    code compares with each other must have the same degree (or one of them is a literal zero). *)
Definition events_sign_ok (P : list term) (ncomp : nat) (cz : list bool) (ev : list nat) : bool :=
  let ds := deg_eval P (d0_thermo ncomp cz) in
  forallb (fun k => has_deg (nth k ds DNone)) ev.

Definition cmp_deg_ok (a b : deg) : bool :=
  match a, b with
  | DSome x, DSome y => Z.eqb x y
  | DAny, (DAny | DSome _) | DSome _, DAny => true
  | _, _ => false
  end.

Definition events_cmp_ok (P : list term) (ncomp : nat) (cz : list bool) (ev : list (nat * nat)) : bool :=
  let ds := deg_eval P (d0_thermo ncomp cz) in
  forallb (fun ab => cmp_deg_ok (nth (fst ab) ds DNone) (nth (snd ab) ds DNone)) ev.

Lemma Xcmp_scale c a b : (0 < c)%R -> Xcmp (Xreal (c * a)) (Xreal (c * b)) = Xcmp (Xreal a) (Xreal b).
Proof. intros Hc. cbn. now rewrite Rcompare_mult_l. Qed.

Lemma Rh_cmp lam (Hlam : (0 < lam)%R) a b x x' y y' : cmp_deg_ok a b = true ->
  Rh lam a x x' -> Rh lam b y y' -> Xcmp x' y' = Xcmp x y.
Proof.
  destruct a as [| |ka], b as [| |kb]; cbn; try discriminate; intros E Hx Hy.
  - destruct Hx as [-> _], Hy as [-> _]. reflexivity.
  - destruct Hx as [-> [-> | ->]]; [reflexivity|].
    destruct y as [|s]; subst y'; [reflexivity|].
    replace 0%R with (powerRZ lam kb * 0)%R at 1 by ring. apply Xcmp_scale, powerRZ_lt, Hlam.
  - destruct Hy as [-> [-> | ->]]; [now destruct x'; destruct x|].
    destruct x as [|r]; subst x'; [reflexivity|].
    replace 0%R with (powerRZ lam ka * 0)%R at 1 by ring. apply Xcmp_scale, powerRZ_lt, Hlam.
  - apply Z.eqb_eq in E. subst kb.
    destruct x as [|r]; subst x'; [reflexivity|].
    destruct y as [|s]; subst y'; [reflexivity|].
    apply Xcmp_scale, powerRZ_lt, Hlam.
Qed.

Theorem events_cmp_invariant P ncomp cz ev :
  events_cmp_ok P ncomp cz ev = true ->
  forall lam T V N consts a b, (0 < lam)%R -> length N = ncomp -> consts_ok cz consts -> In (a, b) ev ->
  Xcmp (out_ext P (thermo_env T (lam * V) (map (Rmult lam) N) consts) a)
       (out_ext P (thermo_env T (lam * V) (map (Rmult lam) N) consts) b) =
  Xcmp (out_ext P (thermo_env T V N consts) a) (out_ext P (thermo_env T V N consts) b).
Proof.
  unfold events_cmp_ok. intros H lam T V N consts a b Hlam HN Hc Hk.
  rewrite forallb_forall in H. specialize (H (a, b) Hk). cbn in H.
  subst ncomp. rewrite <- (scale_thermo lam T V N cz consts).
  pose proof (deg_sound_gen lam Hlam P _ _ _
    (scale_env_rel lam _ _ (d0_thermo_length T V N cz consts Hc) (zeros_ok_thermo T V N cz consts Hc))) as HR.
  unfold out_ext. eapply Rh_cmp; [exact Hlam|exact H|apply HR|apply HR].
Qed.

(** sign / zero-ness / definedness of a value of definite degree is scale invariant *)
Theorem events_sign_invariant P ncomp cz ev :
  events_sign_ok P ncomp cz ev = true ->
  forall lam T V N consts k, (0 < lam)%R -> length N = ncomp -> consts_ok cz consts -> In k ev ->
  Xcmp (out_ext P (thermo_env T (lam * V) (map (Rmult lam) N) consts) k) (Xreal 0) =
  Xcmp (out_ext P (thermo_env T V N consts) k) (Xreal 0).
Proof.
  unfold events_sign_ok. intros H lam T V N consts k Hlam HN Hc Hk.
  rewrite forallb_forall in H. specialize (H k Hk).
  subst ncomp. rewrite <- (scale_thermo lam T V N cz consts).
  pose proof (deg_sound_gen lam Hlam P _ _ _
    (scale_env_rel lam _ _ (d0_thermo_length T V N cz consts Hc) (zeros_ok_thermo T V N cz consts Hc)) k) as HR.
  unfold out_ext.
  eapply (Rh_cmp lam Hlam _ DAny); [|exact HR|split; [reflexivity|now right]].
  now destruct (nth k (deg_eval P (d0_thermo (length N) cz)) DNone).
Qed.

(** zero flags of a dyadic constant table, and its compatibility *)
Definition zero_flags (consts : list (Z * Z)) : list bool := map (fun me => Z.eqb (fst me) 0) consts.

Lemma zero_flags_ok consts : consts_ok (zero_flags consts) (inputs_R consts).
Proof.
  induction consts as [|[m e] consts IH]; cbn; [exact I|]. split; [|exact IH].
  intros H. apply Z.eqb_eq in H. subst m. unfold dy_R. cbn. ring.
Qed.

(** diagnostics: position (from the start of the program) and term of the first instruction whose
    degree is [DNone] although all its operands have a degree — the place where homogeneity is lost *)
Fixpoint first_none_aux (P : list term) (vals : list deg) (pos : nat) : option (nat * term) :=
  match P with
  | [] => None
  | t :: P' =>
      let vals' := deg_step vals t in
      if has_deg (hd DNone vals') then first_none_aux P' vals' (S pos)
      else
        let ok := match t with
                  | Forward u => false
                  | Unary _ u => has_deg (nth u vals DNone)
                  | Binary _ u v => has_deg (nth u vals DNone) && has_deg (nth v vals DNone)
                  end in
        if ok then Some (pos, t) else first_none_aux P' vals' (S pos)
  end.
Definition first_none (P : list term) (d0 : list deg) := first_none_aux P d0 0.
