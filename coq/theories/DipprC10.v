(** Model of src/ideal_gas/dippr.rs (route H): DIPPR eq. 100 / 107 / 127, their enthalpy and entropy
    integrals as the code writes them, and ln Lambda^3. *)
From Coq Require Import Reals Lra Lia List Psatz.
From Coquelicot Require Import Coquelicot.
From FeosVerif Require Import IdealGasHelmC10.
Import ListNotations.
Open Scope R_scope.

Definition D_RGAS : R := 8.31446261815324 * 1000.
Definition D_T0 : R := 298.15.
Lemma D_RGAS_pos : 0 < D_RGAS. Proof. unfold D_RGAS; lra. Qed.

(** [Dippr::ln_lambda3] for one record, given the two integral functions *)
Definition dippr_lam_of (H S : R -> R) (t : R) : R :=
  let h := H t - H D_T0 in
  let s := S t - S D_T0 in
  (h - t * s) / (t * D_RGAS) + ln t.

(** ** eq. 100: arbitrary number of coefficients, the code's folds *)
Definition enumerate (coefs : list R) : list (nat * R) := combine (seq 0 (length coefs)) coefs.

Definition d100_cp (coefs : list R) (t : R) : R :=
  fold_left (fun acc c => t * acc + c) (rev coefs) 0.
Definition d100_H (coefs : list R) (t : R) : R :=
  fold_left (fun acc ic => t * (acc + snd ic / INR (fst ic + 1))) (rev (enumerate coefs)) 0.
Definition d100_S (coefs : list R) (t : R) : R :=
  fold_left (fun acc ic => t * (acc + snd ic / INR (fst ic))) (rev (skipn 1 (enumerate coefs))) 0
  + ln t * nth 0 coefs 0.
Definition d100_lam (coefs : list R) : R -> R := dippr_lam_of (d100_H coefs) (d100_S coefs).

(** recursive (Horner) forms *)
Fixpoint cp_rec (l : list R) (t : R) : R :=
  match l with [] => 0 | c :: r => c + t * cp_rec r t end.
Fixpoint G_rec (dv : nat -> R) (k : nat) (l : list R) (t : R) : R :=
  match l with [] => 0 | c :: r => t * (c / dv k + G_rec dv (S k) r t) end.

Lemma fold_left_rev {A B} (f : A -> B -> A) (l : list B) (a : A) :
  fold_left f (rev l) a = fold_right (fun b acc => f acc b) a l.
Proof. rewrite <- (rev_involutive l) at 2. now rewrite fold_left_rev_right. Qed.

Lemma d100_cp_rec coefs t : d100_cp coefs t = cp_rec coefs t.
Proof.
  unfold d100_cp. rewrite fold_left_rev.
  induction coefs as [|c r IH]; simpl; [reflexivity | rewrite IH; ring].
Qed.

Lemma fold_enum_G (dv : nat -> R) t l s :
  fold_right (fun (ic : nat * R) acc => t * (acc + snd ic / dv (fst ic))) 0 (combine (seq s (length l)) l)
  = G_rec dv s l t.
Proof.
  revert s. induction l as [|c r IH]; intros s; simpl; [reflexivity|]. rewrite IH. ring.
Qed.

Lemma G_rec_shift t l s : G_rec (fun i => INR (i + 1)) s l t = G_rec INR (S s) l t.
Proof.
  revert s. induction l as [|c r IH]; intros s; simpl; [reflexivity|].
  rewrite IH. now rewrite Nat.add_1_r.
Qed.

Lemma d100_H_rec coefs t : d100_H coefs t = G_rec INR 1 coefs t.
Proof.
  unfold d100_H, enumerate. rewrite fold_left_rev.
  rewrite (fold_enum_G (fun i => INR (i + 1))). apply G_rec_shift.
Qed.

Lemma d100_S_rec c0 r t : d100_S (c0 :: r) t = G_rec INR 1 r t + ln t * c0.
Proof.
  unfold d100_S, enumerate. simpl. rewrite fold_left_rev.
  now rewrite (fold_enum_G INR).
Qed.

Lemma d100_S_nil t : d100_S [] t = 0.
Proof. unfold d100_S; simpl. ring. Qed.

Lemma INR_S_neq0 m : INR (S m) <> 0.
Proof. apply not_0_INR. lia. Qed.

Lemma G_rec_deriv l : forall (m : nat) (t : R),
  is_derive (fun u => u ^ m * G_rec INR (S m) l u) t (t ^ m * cp_rec l t).
Proof.
  induction l as [|c r IH]; intros m t.
  - apply is_derive_ext with (fun _ => 0); [intros; simpl; ring|]. simpl.
    replace (t ^ m * 0) with 0 by ring. apply (is_derive_const (K:=R_AbsRing) (V:=R_NormedModule) 0 t).
  - apply is_derive_ext with (fun u => c * u ^ (S m) / INR (S m) + u ^ (S m) * G_rec INR (S (S m)) r u).
    + intros u. simpl. field. apply INR_S_neq0.
    + replace (t ^ m * cp_rec (c :: r) t) with (c * t ^ m + t ^ (S m) * cp_rec r t) by (simpl; ring).
      apply (is_derive_plus (fun u => c * u ^ (S m) / INR (S m)) (fun u => u ^ (S m) * G_rec INR (S (S m)) r u)).
      * auto_derive; [exact I|]. simpl pred. field. apply INR_S_neq0.
      * apply IH.
Qed.

Theorem d100_H_deriv coefs (t : R) : is_derive (d100_H coefs) t (d100_cp coefs t).
Proof.
  apply is_derive_ext with (fun u => u ^ 0 * G_rec INR 1 coefs u).
  - intros u. rewrite d100_H_rec. simpl. ring.
  - rewrite d100_cp_rec. replace (cp_rec coefs t) with (t ^ 0 * cp_rec coefs t) by (simpl; ring).
    apply G_rec_deriv.
Qed.

Theorem d100_S_deriv coefs (t : R) : 0 < t -> is_derive (d100_S coefs) t (d100_cp coefs t / t).
Proof.
  intros Ht. destruct coefs as [|c0 r].
  - apply is_derive_ext with (fun _ => 0); [intros; now rewrite d100_S_nil|].
    rewrite d100_cp_rec; simpl. replace (0 / t) with 0 by (field; lra).
    apply (is_derive_const (K:=R_AbsRing) (V:=R_NormedModule) 0 t).
  - apply is_derive_ext with (fun u => u ^ 0 * G_rec INR 1 r u + ln u * c0).
    + intros u. rewrite d100_S_rec. simpl. ring.
    + rewrite d100_cp_rec. replace (cp_rec (c0 :: r) t / t) with (t ^ 0 * cp_rec r t + / t * c0) by (simpl; field; lra).
      apply (is_derive_plus (fun u => u ^ 0 * G_rec INR 1 r u) (fun u => ln u * c0)).
      * apply G_rec_deriv.
      * auto_derive; [exact Ht | ring].
Qed.

(** ** hyperbolic functions through exp only *)
Definition sh (x : R) : R := (exp x - / exp x) / 2.
Definition ch (x : R) : R := (exp x + / exp x) / 2.
Lemma sinh_sh x : sinh x = sh x. Proof. unfold sinh, sh. now rewrite exp_Ropp. Qed.
Lemma cosh_ch x : cosh x = ch x. Proof. unfold cosh, ch. now rewrite exp_Ropp. Qed.
Lemma tanh_shch x : tanh x = sh x / ch x. Proof. unfold tanh. now rewrite sinh_sh, cosh_ch. Qed.

Lemma exp_gt1 x : 0 < x -> 1 < exp x.
Proof. intros H. assert (Hx : x <> 0) by lra. pose proof (exp_ineq1 x Hx). lra. Qed.

Lemma inv_t_mul_pos t p : 0 < t -> 0 < p -> 0 < / t * p.
Proof. intros. apply Rmult_lt_0_compat; [now apply Rinv_0_lt_compat | assumption]. Qed.

(** ** eq. 107 *)
Definition d107_cp (a b c d e t : R) : R :=
  let ct := c / t in
  let et := e / t in
  a + b * (ct / sinh ct) ^ 2 + d * (et / cosh et) ^ 2.
Definition d107_H (a b c d e t : R) : R :=
  let t_inv := / t in
  let ct := t_inv * c in
  let et := t_inv * e in
  t * a + / tanh ct * (b * c) - tanh et * (d * e).
Definition d107_S (a b c d e t : R) : R :=
  let t_inv := / t in
  let ct := t_inv * c in
  let et := t_inv * e in
  ln t * a + / (t * tanh ct) * (b * c) - ln (sinh ct) * b - tanh et * t_inv * (d * e) + ln (cosh et) * d.
Definition d107_lam (a b c d e : R) : R -> R := dippr_lam_of (d107_H a b c d e) (d107_S a b c d e).

Definition d107_cp' (a b c d e t : R) : R :=
  a + b * ((/ t * c) / sh (/ t * c)) ^ 2 + d * ((/ t * e) / ch (/ t * e)) ^ 2.
Lemma d107_cp_eq a b c d e t : d107_cp a b c d e t = d107_cp' a b c d e t.
Proof.
  unfold d107_cp, d107_cp'. cbv zeta. rewrite sinh_sh, cosh_ch.
  replace (c / t) with (/ t * c) by (unfold Rdiv; ring).
  replace (e / t) with (/ t * e) by (unfold Rdiv; ring). reflexivity.
Qed.

Theorem d107_H_deriv (a b c d e t : R) : 0 < t -> 0 < c ->
  is_derive (d107_H a b c d e) t (d107_cp a b c d e t).
Proof.
  intros Ht Hc. rewrite d107_cp_eq.
  apply is_derive_ext with (fun u => u * a + / (sh (/ u * c) / ch (/ u * c)) * (b * c) - (sh (/ u * e) / ch (/ u * e)) * (d * e)).
  { intros u. unfold d107_H. cbv zeta. now rewrite !tanh_shch. }
  unfold d107_cp', sh, ch.
  pose proof (exp_gt1 _ (inv_t_mul_pos t c Ht Hc)) as HE.
  pose proof (exp_pos (/ t * e)) as HF.
  auto_derive.
  - set (E := exp (/ t * c)) in *. set (F := exp (/ t * e)) in *.
    assert (0 < / E < 1) by (split; [apply Rinv_0_lt_compat; lra | rewrite <- Rinv_1; apply Rinv_lt_contravar; lra]).
    assert (0 < / F) by (now apply Rinv_0_lt_compat).
    repeat match goal with |- _ /\ _ => split end; try exact I; try lra.
    apply Rmult_integral_contrapositive_currified; [lra|]. apply Rinv_neq_0_compat. lra.
  - set (E := exp (/ t * c)) in *. set (F := exp (/ t * e)) in *.
    field. repeat split; try lra; nra.
Qed.

Theorem d107_S_deriv (a b c d e t : R) : 0 < t -> 0 < c ->
  is_derive (d107_S a b c d e) t (d107_cp a b c d e t / t).
Proof.
  intros Ht Hc. rewrite d107_cp_eq.
  apply is_derive_ext with (fun u => ln u * a + / (u * (sh (/ u * c) / ch (/ u * c))) * (b * c) - ln (sh (/ u * c)) * b
                                     - (sh (/ u * e) / ch (/ u * e)) * / u * (d * e) + ln (ch (/ u * e)) * d).
  { intros u. unfold d107_S. cbv zeta. now rewrite !tanh_shch, sinh_sh, cosh_ch. }
  unfold d107_cp', sh, ch.
  pose proof (exp_gt1 _ (inv_t_mul_pos t c Ht Hc)) as HE.
  pose proof (exp_pos (/ t * e)) as HF.
  auto_derive.
  - set (E := exp (/ t * c)) in *. set (F := exp (/ t * e)) in *.
    assert (0 < / E < 1) by (split; [apply Rinv_0_lt_compat; lra | rewrite <- Rinv_1; apply Rinv_lt_contravar; lra]).
    assert (0 < / F) by (now apply Rinv_0_lt_compat).
    repeat match goal with |- _ /\ _ => split end; try exact I; try lra.
    apply Rmult_integral_contrapositive_currified; [lra|].
    apply Rmult_integral_contrapositive_currified; [lra|]. apply Rinv_neq_0_compat. lra.
  - set (E := exp (/ t * c)) in *. set (F := exp (/ t * e)) in *.
    field. repeat split; try lra; nra.
Qed.

(** ** eq. 127 *)
Definition ein (x : R) : R := x * x * exp x / (exp x - 1) ^ 2.
Definition d127_cp (a b c d e f g t : R) : R :=
  let ct := c / t in let et := e / t in let gt := g / t in
  a + b * ein ct + d * ein et + f * ein gt.
Definition d127_H (a b c d e f g t : R) : R :=
  let t_inv := / t in
  let ct := t_inv * c in let et := t_inv * e in let gt := t_inv * g in
  let fn := fun (p x : R) => / ((exp x - 1) * p) * (p * p) in
  fn c ct * b + fn e et * d + fn g gt * f + t * a.
Definition d127_S (a b c d e f g t : R) : R :=
  let t_inv := / t in
  let ct := t_inv * c in let et := t_inv * e in let gt := t_inv * g in
  let fn := fun (p x : R) => (/ ((exp x - 1) * t) + t_inv) * p - ln (exp x - 1) in
  fn c ct * b + fn e et * d + fn g gt * f + ln t * a.
Definition d127_lam (a b c d e f g : R) : R -> R := dippr_lam_of (d127_H a b c d e f g) (d127_S a b c d e f g).

Definition d127_cp' (a b c d e f g t : R) : R :=
  a + b * ein (/ t * c) + d * ein (/ t * e) + f * ein (/ t * g).
Lemma d127_cp_eq a b c d e f g t : d127_cp a b c d e f g t = d127_cp' a b c d e f g t.
Proof.
  unfold d127_cp, d127_cp'. cbv zeta.
  replace (c / t) with (/ t * c) by (unfold Rdiv; ring).
  replace (e / t) with (/ t * e) by (unfold Rdiv; ring).
  replace (g / t) with (/ t * g) by (unfold Rdiv; ring). reflexivity.
Qed.

Theorem d127_H_deriv (a b c d e f g t : R) : 0 < t -> 0 < c -> 0 < e -> 0 < g ->
  is_derive (d127_H a b c d e f g) t (d127_cp a b c d e f g t).
Proof.
  intros Ht Hc He Hg. rewrite d127_cp_eq. unfold d127_H, d127_cp', ein. cbv zeta.
  pose proof (exp_gt1 _ (inv_t_mul_pos t c Ht Hc)) as HC.
  pose proof (exp_gt1 _ (inv_t_mul_pos t e Ht He)) as HE.
  pose proof (exp_gt1 _ (inv_t_mul_pos t g Ht Hg)) as HG.
  auto_derive.
  - set (C := exp (/ t * c)) in *. set (E := exp (/ t * e)) in *. set (G := exp (/ t * g)) in *.
    repeat match goal with |- _ /\ _ => split end; try exact I; try lra;
      apply Rmult_integral_contrapositive_currified; lra.
  - set (C := exp (/ t * c)) in *. set (E := exp (/ t * e)) in *. set (G := exp (/ t * g)) in *.
    field. repeat split; lra.
Qed.

Theorem d127_S_deriv (a b c d e f g t : R) : 0 < t -> 0 < c -> 0 < e -> 0 < g ->
  is_derive (d127_S a b c d e f g) t (d127_cp a b c d e f g t / t).
Proof.
  intros Ht Hc He Hg. rewrite d127_cp_eq. unfold d127_S, d127_cp', ein. cbv zeta.
  pose proof (exp_gt1 _ (inv_t_mul_pos t c Ht Hc)) as HC.
  pose proof (exp_gt1 _ (inv_t_mul_pos t e Ht He)) as HE.
  pose proof (exp_gt1 _ (inv_t_mul_pos t g Ht Hg)) as HG.
  auto_derive.
  - set (C := exp (/ t * c)) in *. set (E := exp (/ t * e)) in *. set (G := exp (/ t * g)) in *.
    repeat match goal with |- _ /\ _ => split end; try exact I; try lra;
      apply Rmult_integral_contrapositive_currified; lra.
  - set (C := exp (/ t * c)) in *. set (E := exp (/ t * e)) in *. set (G := exp (/ t * g)) in *.
    field. repeat split; lra.
Qed.

(** ** all three forms *)
Inductive dippr_record : Type :=
| D100 (coefs : list R)
| D107 (a b c d e : R)
| D127 (a b c d e f g : R).

Definition dippr_cp (r : dippr_record) : R -> R :=
  match r with D100 l => d100_cp l | D107 a b c d e => d107_cp a b c d e | D127 a b c d e f g => d127_cp a b c d e f g end.
Definition dippr_H (r : dippr_record) : R -> R :=
  match r with D100 l => d100_H l | D107 a b c d e => d107_H a b c d e | D127 a b c d e f g => d127_H a b c d e f g end.
Definition dippr_S (r : dippr_record) : R -> R :=
  match r with D100 l => d100_S l | D107 a b c d e => d107_S a b c d e | D127 a b c d e f g => d127_S a b c d e f g end.
Definition dippr_lam (r : dippr_record) : R -> R := dippr_lam_of (dippr_H r) (dippr_S r).

(** domain on which the code's integrals are defined (ln sinh(C/T), ln(exp(C/T)-1), 1/tanh(C/T)) *)
Definition dippr_wf (r : dippr_record) : Prop :=
  match r with D100 _ => True | D107 _ _ c _ _ => 0 < c | D127 _ _ c _ e _ g => 0 < c /\ 0 < e /\ 0 < g end.

Lemma dippr_H_deriv r (t : R) : dippr_wf r -> 0 < t -> is_derive (dippr_H r) t (dippr_cp r t).
Proof.
  destruct r; simpl; intros Hw Ht.
  - apply d100_H_deriv.
  - now apply d107_H_deriv.
  - destruct Hw as (? & ? & ?). now apply d127_H_deriv.
Qed.

Lemma dippr_S_deriv r (t : R) : dippr_wf r -> 0 < t -> is_derive (dippr_S r) t (dippr_cp r t / t).
Proof.
  destruct r; simpl; intros Hw Ht.
  - now apply d100_S_deriv.
  - now apply d107_S_deriv.
  - destruct Hw as (? & ? & ?). now apply d127_S_deriv.
Qed.

Lemma dippr_lam_form r t :
  dippr_lam r t = lamI (dippr_H r) (dippr_S r) D_RGAS (dippr_H r D_T0) (dippr_S r D_T0) 0 t.
Proof. unfold dippr_lam, dippr_lam_of, lamI. cbv zeta. ring. Qed.

Definition dippr_lam1 (r : dippr_record) : R -> R := lamI1 (dippr_H r) D_RGAS (dippr_H r D_T0).
Definition dippr_lam2 (r : dippr_record) : R -> R := lamI2 (dippr_H r) (dippr_cp r) D_RGAS (dippr_H r D_T0).

Theorem dippr_lam_derivs r (t : R) : dippr_wf r -> 0 < t ->
  is_derive (dippr_lam r) t (dippr_lam1 r t) /\ is_derive (dippr_lam1 r) t (dippr_lam2 r t).
Proof.
  intros Hw Ht. pose proof D_RGAS_pos as HR. split.
  - apply is_derive_ext with (lamI (dippr_H r) (dippr_S r) D_RGAS (dippr_H r D_T0) (dippr_S r D_T0) 0).
    + intros u. symmetry. apply dippr_lam_form.
    + apply lamI_d1 with (cp := dippr_cp r); try lra.
      * intros; now apply dippr_H_deriv.
      * intros; now apply dippr_S_deriv.
  - apply lamI_d2; try lra. intros; now apply dippr_H_deriv.
Qed.

Definition dippr_comp (n : R) (r : dippr_record) : icomp :=
  mk_icomp n (dippr_lam r) (dippr_lam1 r) (dippr_lam2 r).

Lemma dippr_comp_ok n r : dippr_wf r -> ic_ok (dippr_comp n r).
Proof. intros Hw t Ht. now apply dippr_lam_derivs. Qed.

(** the heat capacity obtained from the Helmholtz energy is the DIPPR correlation (in units of R, R in J/kmol/K) *)
Theorem dippr_cp_identity n r (T : R) : 0 < T ->
  cp_pure (dippr_comp n r) T = dippr_cp r T / D_RGAS.
Proof.
  intros HT. unfold cp_pure, cv_pure, dippr_comp; simpl. unfold dippr_lam1, dippr_lam2.
  rewrite <- (lamI_cp (dippr_H r) (dippr_cp r) D_RGAS (dippr_H r D_T0));
    [ring | pose proof D_RGAS_pos; lra | exact HT].
Qed.

(** non-vacuity: the three test records of dippr.rs are in the domain *)
Example dippr_wf_examples :
  dippr_wf (D100 [276370; -2090.1; 8.125; -0.014116; 0.0000093701]) /\
  dippr_wf (D107 33363 26790 2610.5 8896 1169) /\
  dippr_wf (D127 3.3258E4 3.6199E4 1.2057E3 1.5373E7 3.2122E3 (-1.5318E7) 3.2122E3).
Proof. simpl. repeat split; lra. Qed.

(** the Horner fold is the polynomial: value on a concrete list *)
Example d100_cp_example (t : R) : d100_cp [1; 2; 3] t = 1 + 2 * t + 3 * t ^ 2.
Proof. unfold d100_cp; simpl. ring. Qed.
Example d100_H_example (t : R) : d100_H [1; 2; 3] t = t + t ^ 2 + t ^ 3.
Proof. unfold d100_H, enumerate; simpl. field. Qed.

(** * mixtures *)
Definition dippr_of (nr : R * dippr_record) : icomp := dippr_comp (fst nr) (snd nr).
(** [Dippr::molar_isobaric_heat_capacity] in units of R: sum_i x_i c_p,i(T) / RGAS *)
Definition dippr_mix_cp (T : R) (recs : list (R * dippr_record)) : R :=
  fold_right (fun nr acc => fst nr / Ntot (map dippr_of recs) * (dippr_cp (snd nr) T / D_RGAS) + acc) 0 recs.

Lemma dippr_all_ok recs : (forall nr, In nr recs -> dippr_wf (snd nr)) -> all_ok (map dippr_of recs).
Proof.
  intros Hw c Hc. apply in_map_iff in Hc. destruct Hc as (r & <- & Hin). apply dippr_comp_ok. now apply Hw.
Qed.

Theorem dippr_mixture_cp (T V : R) recs : 0 < T -> 0 < V -> Ntot (map dippr_of recs) <> 0 ->
  (forall nr, In nr recs -> dippr_wf (snd nr)) ->
  let cs := map dippr_of recs in
  is_derive (fun t => A_ig t V cs) T (dA_dT T V cs) /\
  is_derive (fun t => dA_dT t V cs) T (d2A_dT2 T cs) /\
  cp_mix T V cs = dippr_mix_cp T recs.
Proof.
  intros HT HV HN Hw cs. split; [|split].
  - apply ideal_dA_dT; [exact HT | now apply dippr_all_ok].
  - apply ideal_d2A_dT2; [exact HT | now apply dippr_all_ok].
  - unfold cs. rewrite (cp_mix_correlation T V _ (fun c => cp_pure c T)) by auto.
    rewrite sumf_map. unfold dippr_mix_cp. apply fold_right_ext_in. intros r _.
    unfold dippr_of. rewrite dippr_cp_identity by exact HT. reflexivity.
Qed.

(** reference state of the DIPPR model: mu (pure ideal gas) vanishes at T0 = 298.15 K and the number density
    1/T0 (in 1/A^3): this pins the "- 1" of the ideal-gas Helmholtz energy together with the "+ ln T" term. *)
Theorem dippr_reference_state (n : R) (r : dippr_record) (V N : R) : 0 < V -> 0 < N ->
  N / V = / D_T0 -> mu_ig D_T0 V (dippr_comp n r) N = 0.
Proof.
  intros HV HN Hrho. unfold mu_ig. cbn [ic_lam dippr_comp]. rewrite Hrho.
  unfold dippr_lam, dippr_lam_of. cbv zeta.
  assert (H0 : 0 < D_T0) by (unfold D_T0; lra).
  rewrite ln_Rinv by exact H0.
  replace (dippr_H r D_T0 - dippr_H r D_T0 - D_T0 * (dippr_S r D_T0 - dippr_S r D_T0)) with 0 by ring.
  unfold Rdiv. ring.
Qed.
